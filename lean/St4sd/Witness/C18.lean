import St4sd.Model.Confine
/-!
Witnesses for C18: the code as committed (`checkOld` = textual prefix test of data.py 227-232,
`validateOld` = `Manifest.validate` refusing absolute keys only, deployment without guard) violates the
confinement statement.  Sandbox: `/i/w` is the working / instance directory, `/o` with the file `/o/v` is
outside.  The harness replays the same inputs on the real code (corpus cases of `harness/c18.py`).
-/
namespace St4sd.C18.Witness
open St4sd.Confine

def fs0 : Fs := [([['w'], ['i']], Node.dir), ([['i']], Node.dir), ([['o']], Node.dir), ([['v'], ['o']], Node.file [['v'], ['o']])]
def dest : Path := [['w'], ['i']]

/-- does the log contain a location outside `dest`? -/
def escapes (r : St × Option Err) : Bool := r.1.log.any fun p => !under dest p

/-- C18a: member `../e` is accepted by the committed check and created in `/i`, outside the working directory -/
theorem old_parent_segment_escapes :
    let ms := [Member.file (parsePath ['.', '.', '/', 'e'])]
    checkOld dest ms = true ∧ (stageExtractOld dest ⟨fs0, []⟩ ms).1.log = [[['e'], ['i']]] ∧
    (stageExtractOld dest ⟨fs0, []⟩ ms).2 = none := by decide

/-- C18b: symlink member `l -> ..` followed by file member `l/e`: no `..` in any *name*, the file is written
through the link to `/i/e` -/
theorem old_symlink_then_file_escapes :
    let ms := [Member.sym (parsePath ['l']) (parsePath ['.', '.']), Member.file (parsePath ['l', '/', 'e'])]
    checkOld dest ms = true ∧ escapes (stageExtractOld dest ⟨fs0, []⟩ ms) = true ∧
    (stageExtractOld dest ⟨fs0, []⟩ ms).1.fs.get [['e'], ['i']] = some (Node.file [['e'], ['i']]) := by decide

/-- C18b': hard link member `h -> ../../o/v` followed by file member `h`: the content of `/o/v` is overwritten -/
theorem old_hardlink_then_file_modifies_outside :
    let ms := [Member.hard (parsePath ['h']) (parsePath ['.', '.', '/', '.', '.', '/', 'o', '/', 'v']),
               Member.file (parsePath ['h'])]
    checkOld dest ms = true ∧ (stageExtractOld dest ⟨fs0, []⟩ ms).2 = none ∧
    [['v'], ['o']] ∈ (stageExtractOld dest ⟨fs0, []⟩ ms).1.log := by decide

/-- why the repaired check does not merely normalise names (`os.path.normpath`): with the members
`a/b/` (dir), `a/b/c -> ../..` (a link to the working directory itself) and the file `a/b/c/../e`, every
normalised name and the normalised link target stay inside, yet the kernel writes `/i/e`. -/
theorem normpath_repair_would_be_unsound :
    let name := parsePath ['a', '/', 'b', '/', 'c', '/', '.', '.', '/', 'e']
    let ms := [Member.dir (parsePath ['a', '/', 'b']),
               Member.sym (parsePath ['a', '/', 'b', '/', 'c']) (parsePath ['.', '.', '/', '.', '.']),
               Member.file name]
    allNames (normalize false [] name.segs) = true ∧
    normalize false [] ([Seg.name ['a'], Seg.name ['b']] ++ [Seg.up, Seg.up]) = [] ∧
    escapes (extractAll dest ⟨fs0, []⟩ ms) = true ∧
    checkFixed dest ms = false := by decide

/-- C18c: manifest key `../x` passes `Manifest.validate` as committed and is deployed to `/i/x` -/
theorem old_manifest_parent_key_escapes :
    let es := [Entry.mk (parsePath ['.', '.', '/', 'x']) [Seg.name ['o']] Method.copy]
    validateOld es = true ∧ escapes (deployAll false dest ⟨fs0, []⟩ es) = true ∧
    (deployAll false dest ⟨fs0, []⟩ es).1.fs.get [['x'], ['i']] = some Node.dir := by decide

/-- C18d: no `..` anywhere: key `a` linked to `/o`, key `a/b` copied — the copy lands in the *source* folder `/o/b` -/
theorem old_manifest_nested_under_link_escapes :
    let es := [Entry.mk (parsePath ['a']) [Seg.name ['o']] Method.link,
               Entry.mk (parsePath ['a', '/', 'b']) [Seg.name ['o']] Method.copy]
    validateOld es = true ∧ validateFixed es = true ∧
    (deployAll false dest ⟨fs0, []⟩ es).1.fs.get [['b'], ['o']] = some Node.dir ∧
    (deployAll true dest ⟨fs0, []⟩ es).2 = some Err.rejected ∧
    escapes (deployAll true dest ⟨fs0, []⟩ es) = false := by decide

/-- C18e: key `conf` linked to `/o`: the package file is written to `/o/flowir_package.yaml` -/
theorem old_manifest_conf_link_escapes :
    let es := [Entry.mk (parsePath ['c', 'o', 'n', 'f']) [Seg.name ['o']] Method.link]
    escapes (deploy false dest ⟨fs0, []⟩ es true) = true ∧ (deploy false dest ⟨fs0, []⟩ es true).2 = none ∧
    (deploy true dest ⟨fs0, []⟩ es true).2 = some Err.rejected ∧
    escapes (deploy true dest ⟨fs0, []⟩ es true) = false := by decide

end St4sd.C18.Witness
