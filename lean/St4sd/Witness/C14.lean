import St4sd.Model.FsAtomic
import St4sd.Model.StatusFile
/-!
Witnesses for C14: the code *before* the proposed repairs violates the full statement.  The harness
replays the same inputs on the real code (`harness/c14.py`, `CORPUS_HISTORIES` and the traced writers).
-/
namespace St4sd.C14.Witness
open St4sd.FsAtomic St4sd.StatusFile

def fsOld : Fs := fun q => if q = ['t'] then some ['o', 'l', 'd'] else none

/-- C14a — `Status.writeToStream` before the repair: error description `\` (one backslash), two
updates: the file decodes to `\\` (two backslashes), not to the value that was set. -/
theorem old_writer_unfaithful_after_two_updates :
    (runHistory writeOld [(errKey, ['\\'])] [[], []]).1.bind decode = some [(errKey, ['\\', '\\'])] ∧
    (runHistory writeOld [(errKey, ['\\'])] [[], []]).1.bind decode ≠ some [(errKey, ['\\'])] := by decide

/-- … same with a newline: after three updates the description reads `a\\nb` (5 characters). -/
theorem old_writer_unfaithful_newline :
    (runHistory writeOld [(errKey, ['a', '\n', 'b'])] [[], [], []]).1.bind decode
      = some [(errKey, ['a', '\\', '\\', 'n', 'b'])] := by decide

/-- … while one update is still faithful (why the single write/read test of the repository passes). -/
theorem old_writer_faithful_after_one_update :
    (runHistory writeOld [(errKey, ['a', '\n', 'b'])] [[]]).1.bind decode = some [(errKey, ['a', '\n', 'b'])] := by decide

/-- the repaired writer on the same histories -/
theorem new_writer_faithful_on_witness :
    (runHistory writeNew [(errKey, ['\\'])] [[], []]).1.bind decode = some [(errKey, ['\\'])] ∧
    (runHistory writeNew [(errKey, ['a', '\n', 'b'])] [[], [], []]).1.bind decode = some [(errKey, ['a', '\n', 'b'])] := by
  decide

/-- C14b — in-place update (`open(target,'w')`, `store_unreplicated_flowir_to_disk` and the manifest
writer before the repair): a crash right after the `open` leaves an empty file. -/
theorem truncate_exposes_empty_file :
    run ((truncTrace ['t'] [['n', 'e'], ['w']]).take 1) fsOld ['t'] = some [] ∧
    run ((truncTrace ['t'] [['n', 'e'], ['w']]).take 2) fsOld ['t'] = some ['n', 'e'] ∧
    isAtomicProtocol (truncTrace ['t'] [['n', 'e'], ['w']]) ['t'] = false ∧
    firstUnsafe (truncTrace ['t'] [['n', 'e'], ['w']]) fsOld ['t'] = some 1 := by decide

/-- C14c — the reader strips: a leading blank or a trailing newline of the error description is lost
(the hypothesis of `status_roundtrip_partial` on the ends of values cannot be dropped). -/
theorem strip_loses_edge_whitespace :
    decode (encode [(errKey, [' ', 'x'])]) = some [(errKey, ['x'])] ∧
    decode (encode [(errKey, ['b', 'o', 'o', 'm', '\n'])]) = some [(errKey, ['b', 'o', 'o', 'm'])] := by decide

/-- C14d — `StatusMonitor.try_generate_status_details` before the repair: an I/O error during the second
write is logged, then the partially written temporary file is renamed over the target. -/
theorem rename_after_failed_write_installs_partial_file :
    run (writerTraceErrRenameAnyway ['x'] ['t'] [['{'], ['}']] 2) fsOld ['t'] = some ['{'] ∧
    run (writerTraceErrGiveUp ['x'] ['t'] [['{'], ['}']] 2) fsOld ['t'] = some ['o', 'l', 'd'] := by decide

end St4sd.C14.Witness
