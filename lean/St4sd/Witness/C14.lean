import St4sd.Model.FsAtomic
import St4sd.Model.StatusFile
import St4sd.Model.FsConc
import St4sd.Lemmas.C14Typed
import St4sd.Model.C14Listing
/-!
Witnesses for C14: the code *before* the proposed repairs violates the full statement.  The harness
replays the same inputs on the real code (`harness/c14.py`, `CORPUS_HISTORIES` and the traced writers).
-/
namespace St4sd.C14.Witness
open St4sd.FsAtomic St4sd.StatusFile

def fsOld : Fs := fun q => if q = ['t'] then some ['o', 'l', 'd'] else none

/-- C14a — `Status.writeToStream` before the repair: error description `\` (one backslash), two
updates: the file decodes to `\\` (two backslashes), not to the value that was set. -/
theorem old_writer_unfaithful_after_two_updates :
    (runHistory writeOld [(errKey, ['\\'])] [[], []]).1.bind decode = some [(errKey, ['\\', '\\'])] ∧
    (runHistory writeOld [(errKey, ['\\'])] [[], []]).1.bind decode ≠ some [(errKey, ['\\'])] := by decide

/-- … same with a newline: after three updates the description reads `a\\nb` (5 characters). -/
theorem old_writer_unfaithful_newline :
    (runHistory writeOld [(errKey, ['a', '\n', 'b'])] [[], [], []]).1.bind decode
      = some [(errKey, ['a', '\\', '\\', 'n', 'b'])] := by decide

/-- … while one update is still faithful (why the single write/read test of the repository passes). -/
theorem old_writer_faithful_after_one_update :
    (runHistory writeOld [(errKey, ['a', '\n', 'b'])] [[]]).1.bind decode = some [(errKey, ['a', '\n', 'b'])] := by decide

/-- the repaired writer on the same histories -/
theorem new_writer_faithful_on_witness :
    (runHistory writeNew [(errKey, ['\\'])] [[], []]).1.bind decode = some [(errKey, ['\\'])] ∧
    (runHistory writeNew [(errKey, ['a', '\n', 'b'])] [[], [], []]).1.bind decode = some [(errKey, ['a', '\n', 'b'])] := by
  decide

/-- C14b — in-place update (`open(target,'w')`, `store_unreplicated_flowir_to_disk` and the manifest
writer before the repair): a crash right after the `open` leaves an empty file. -/
theorem truncate_exposes_empty_file :
    run ((truncTrace ['t'] [['n', 'e'], ['w']]).take 1) fsOld ['t'] = some [] ∧
    run ((truncTrace ['t'] [['n', 'e'], ['w']]).take 2) fsOld ['t'] = some ['n', 'e'] ∧
    isAtomicProtocol (truncTrace ['t'] [['n', 'e'], ['w']]) ['t'] = false ∧
    firstUnsafe (truncTrace ['t'] [['n', 'e'], ['w']]) fsOld ['t'] = some 1 := by decide

/-- C14c — the reader strips: a leading blank or a trailing newline of the error description is lost
(the hypothesis of `status_roundtrip_partial` on the ends of values cannot be dropped). -/
theorem strip_loses_edge_whitespace :
    decode (encode [(errKey, [' ', 'x'])]) = some [(errKey, ['x'])] ∧
    decode (encode [(errKey, ['b', 'o', 'o', 'm', '\n'])]) = some [(errKey, ['b', 'o', 'o', 'm'])] := by decide

/-- C14d — `StatusMonitor.try_generate_status_details` before the repair: an I/O error during the second
write is logged, then the partially written temporary file is renamed over the target. -/
theorem rename_after_failed_write_installs_partial_file :
    run (writerTraceErrRenameAnyway ['x'] ['t'] [['{'], ['}']] 2) fsOld ['t'] = some ['{'] ∧
    run (writerTraceErrGiveUp ['x'] ['t'] [['{'], ['}']] 2) fsOld ['t'] = some ['o', 'l', 'd'] := by decide

/-! ### two concurrent updates that share one staging path -/
section Shared
open St4sd.FsConc

/-- both updates stage their text in `x` (a fixed name such as `status.txt.tmp`): update 0 opens `x`,
then update 1 runs completely (`open x` truncates the same file, writes `123`, closes, renames `x` over `t`),
then update 0 resumes: its handle now refers to the file named `t`. -/
def sharedTmpTrace : List Ev :=
  [.openW 0 ['x'], .openW 1 ['x'], .write 1 ['1', '2', '3'], .close 1, .rename ['x'] ['t'],
   .write 0 ['a'], .close 0, .rename ['x'] ['t']]

def fsOldC : St := mkSt [(['t'], ['o', 'l', 'd'])]

/-- C14e — **shared staging path ⇒ mixed file**: after update 1 the target holds `123`; the resumed update 0
writes `a` at its own position 0 *into the live target* (in place, no rename; its own rename finds no `x`):
the target ends as `a23` — neither the old version, nor the text of update 0 (`a`), nor that of update 1
(`123`).  The protocol checker rejects the trace; with two different staging paths the same schedule is safe
(`Props.C14.interleaved_writers_safe`). -/
theorem shared_tmp_path_mixes_versions :
    content (crun (sharedTmpTrace.take 5) fsOldC) ['t'] = some ['1', '2', '3'] ∧
    content (crun (sharedTmpTrace.take 6) fsOldC) ['t'] = some ['a', '2', '3'] ∧
    content (crun sharedTmpTrace fsOldC) ['t'] = some ['a', '2', '3'] ∧
    concSafe ['t'] sharedTmpTrace = false ∧
    firstMixed sharedTmpTrace fsOldC ['t'] [['a'], ['1', '2', '3']] = some 6 := by decide

/-- the same schedule with the staging paths `x` and `y`: every crash point shows a complete version -/
theorem distinct_tmp_paths_same_schedule_safe :
    concSafe ['t'] (interleave ['t'] [⟨['x'], [['a']]⟩, ⟨['y'], [['1', '2', '3']]⟩] (fun _ => 0) [0, 1, 1, 1, 1, 0, 0, 0]) = true ∧
    firstMixed (interleave ['t'] [⟨['x'], [['a']]⟩, ⟨['y'], [['1', '2', '3']]⟩] (fun _ => 0) [0, 1, 1, 1, 1, 0, 0, 0])
      fsOldC ['t'] [['a'], ['1', '2', '3']] = none := by decide

/-- a longer text written through a handle whose file another update truncated leaves a hole:
update 0 has written `ab` (position 2) when update 1 truncates the shared staging file -/
theorem shared_tmp_truncation_leaves_hole :
    content (crun [.openW 0 ['x'], .write 0 ['a', 'b'], .openW 1 ['x'], .write 0 ['c'], .close 0,
      .rename ['x'] ['t']] fsOldC) ['t'] = some ['\x00', '\x00', 'c'] := by decide

end Shared

section Typed
open St4sd.TypedStore

/-- an update that skips the write when the loaded file `==` the new document drops an update that changes only the
type of a value: written 3 then 3.0, read back 3 -/
theorem pyEq_skip_drops_retyped_update :
    runStore (writeSkip pyEq) none [.int 3, .float 3 0] = some (.int 3) ∧
    runStore writeAlways none [.int 3, .float 3 0] = some (.float 3 0) := by decide

/-- the same inside a mapping holding a sequence (`{d: [1, 0]}` then `{d: [true, 0.0]}`), and through a chain
`0 → False → 0.0 → -0.0`: the file still holds the first value -/
theorem pyEq_skip_drops_nested_and_chained :
    runStore (writeSkip pyEq) none
      [.map (.cons (.str [100]) (.cons (.seq (.cons (.int 1) (.cons (.int 0) .nil))) .nil)),
       .map (.cons (.str [100]) (.cons (.seq (.cons (.bool true) (.cons (.float 0 0) .nil))) .nil))]
      = some (.map (.cons (.str [100]) (.cons (.seq (.cons (.int 1) (.cons (.int 0) .nil))) .nil))) ∧
    runStore (writeSkip pyEq) none [.int 0, .bool false, .float 0 0, .fspec 0] = some (.int 0) := by decide

/-- a really different value is still stored by the skipping writer, and an identical rewrite is harmless -/
theorem pyEq_skip_stores_different_values :
    runStore (writeSkip pyEq) none [.int 3, .float 7 1, .float 7 1] = some (.float 7 1) := by decide

end Typed

/-! key-output listing: a dosini reader with inline comment prefixes `#` / `;` truncates file names -/
section Listing
open St4sd.Listing

/-- `filepath=stages/stage0/hello/summary #1.csv` read with `inline_comment_prefixes=('#', ';')`: the listing names a
file that was never written; without prefixes (the code) the value is exact. -/
theorem inline_comment_reader_truncates_path :
    readLine ['#', ';'] (writeLine "filepath".toList "stages/stage0/hello/summary #1.csv".toList)
      = some ("filepath".toList, "stages/stage0/hello/summary".toList) ∧
    readLine ['#', ';'] (writeLine "filename".toList "notes ;draft.txt".toList) = some ("filename".toList, "notes".toList) ∧
    readLine [] (writeLine "filename".toList "notes ;draft.txt".toList) = some ("filename".toList, "notes ;draft.txt".toList) := by
  decide

end Listing

end St4sd.C14.Witness
