import St4sd.Model.Repl
/-!
Witnesses for C03: the textual rewriting of the **unrepaired** `compile_component_replica`
(`replicaTextOld`: `str.replace` of the long and the short spelling of every replicated reference over
every string of the component, longest spelling first) does not refine the graph-level rewriting.
The harness replays the same workflows on the real code (`corpus:infix`, `corpus:cross-stage`,
`corpus:direct` in `harness/c03.py`).
-/
namespace St4sd.C03.Witness
open St4sd.Repl St4sd.Str

def ref (stage : Nat) (long : Bool) (name : String) : Ref :=
  { isComp := true, stage := stage, long := long, name := name.toList, file := none, method := "ref".toList }
def comp (stage : Nat) (name : String) (refs : List Ref) (repl : Option Nat := none) : Comp :=
  { stage := stage, name := name.toList, refs := refs, repl := repl, agg := false }

/-- `A` (2 replicas) and `BA` processed; the consumer `C` references `A:ref` and `BA:ref` -/
def d1 : Done := [(comp 0 "BA" [], none), (comp 0 "A" [] (some 2), some 2)]
def c1 : Comp := comp 0 "C" [ref 0 false "A", ref 0 false "BA"]

/-- DESIGN §8 #1: the short spelling `A:ref` is a suffix of `BA:ref`; the unrepaired code turns the reference
to the non-replicated `BA` into `Bstage0.A0:ref`, which is not the rendering of the graph-level result
(`BA:ref`, unchanged) — the loader then rejects the valid workflow. -/
theorem old_infix :
    String.ofList (replicaTextOld d1 c1 0 (render (ref 0 false "BA"))) = "Bstage0.A0:ref" ∧
    replicaTextOld d1 c1 0 (render (ref 0 false "BA")) ≠ render (rwRef d1 0 (ref 0 false "BA")) := by decide

/-- the repaired algorithm on the same input -/
theorem new_infix :
    replicaText d1 c1 0 (render (ref 0 false "BA")) = render (rwRef d1 0 (ref 0 false "BA")) ∧
    replicaText d1 c1 0 (render (ref 0 false "A")) = render (rwRef d1 0 (ref 0 false "A")) := by decide

/-- `stage0.A` (2 replicas) and a different, non-replicated `stage1.A`; the consumer `stage1.C` references
`stage0.A:ref` and `A:ref` (= `stage1.A`) -/
def d2 : Done := [(comp 1 "A" [], none), (comp 0 "A" [] (some 2), some 2)]
def c2 : Comp := comp 1 "C" [ref 0 true "A", ref 1 false "A"]

/-- equal names in two stages: the unrepaired code rewrites the reference to `stage1.A` into a second
reference to `stage0.A0` — the dataflow edge `stage1.A → stage1.C0` silently disappears. -/
theorem old_cross_stage :
    String.ofList (replicaTextOld d2 c2 0 (render (ref 1 false "A"))) = "stage0.A0:ref" ∧
    replicaTextOld d2 c2 0 (render (ref 1 false "A")) ≠ render (rwRef d2 0 (ref 1 false "A")) := by decide

theorem new_cross_stage :
    replicaText d2 c2 0 (render (ref 1 false "A")) = render (rwRef d2 0 (ref 1 false "A")) ∧
    replicaText d2 c2 0 (render (ref 0 true "A")) = render (rwRef d2 0 (ref 0 true "A")) := by decide

/-- a direct reference to a file called like a replicated component is mangled by the unrepaired code -/
theorem old_direct :
    String.ofList (replicaTextOld d1 c1 0 "data/A:ref".toList) = "data/stage0.A0:ref" ∧
    String.ofList (replicaText d1 c1 0 "data/A:ref".toList) = "data/A:ref" := by decide

end St4sd.C03.Witness
