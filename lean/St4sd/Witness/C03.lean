import St4sd.Model.Repl
import St4sd.Model.ReplConf
import St4sd.Model.ReplOver
/-!
Witnesses for C03: the textual rewriting of the **unrepaired** `compile_component_replica`
(`replicaTextOld`: `str.replace` of the long and the short spelling of every replicated reference over
every string of the component, longest spelling first) does not refine the graph-level rewriting.
The harness replays the same workflows on the real code (`corpus:infix`, `corpus:cross-stage`,
`corpus:direct` in `harness/c03.py`).
-/
namespace St4sd.C03.Witness
open St4sd.Repl St4sd.Str

def ref (stage : Nat) (long : Bool) (name : String) : Ref :=
  { isComp := true, stage := stage, long := long, name := name.toList, file := none, method := "ref".toList }
def comp (stage : Nat) (name : String) (refs : List Ref) (repl : Option Nat := none) : Comp :=
  { stage := stage, name := name.toList, refs := refs, repl := repl, agg := false }

/-- `A` (2 replicas) and `BA` processed; the consumer `C` references `A:ref` and `BA:ref` -/
def d1 : Done := [(comp 0 "BA" [], none), (comp 0 "A" [] (some 2), some 2)]
def c1 : Comp := comp 0 "C" [ref 0 false "A", ref 0 false "BA"]

/-- DESIGN §8 #1: the short spelling `A:ref` is a suffix of `BA:ref`; the unrepaired code turns the reference
to the non-replicated `BA` into `Bstage0.A0:ref`, which is not the rendering of the graph-level result
(`BA:ref`, unchanged) — the loader then rejects the valid workflow. -/
theorem old_infix :
    String.ofList (replicaTextOld d1 c1 0 (render (ref 0 false "BA"))) = "Bstage0.A0:ref" ∧
    replicaTextOld d1 c1 0 (render (ref 0 false "BA")) ≠ render (rwRef d1 0 (ref 0 false "BA")) := by decide

/-- the repaired algorithm on the same input -/
theorem new_infix :
    replicaText d1 c1 0 (render (ref 0 false "BA")) = render (rwRef d1 0 (ref 0 false "BA")) ∧
    replicaText d1 c1 0 (render (ref 0 false "A")) = render (rwRef d1 0 (ref 0 false "A")) := by decide

/-- `stage0.A` (2 replicas) and a different, non-replicated `stage1.A`; the consumer `stage1.C` references
`stage0.A:ref` and `A:ref` (= `stage1.A`) -/
def d2 : Done := [(comp 1 "A" [], none), (comp 0 "A" [] (some 2), some 2)]
def c2 : Comp := comp 1 "C" [ref 0 true "A", ref 1 false "A"]

/-- equal names in two stages: the unrepaired code rewrites the reference to `stage1.A` into a second
reference to `stage0.A0` — the dataflow edge `stage1.A → stage1.C0` silently disappears. -/
theorem old_cross_stage :
    String.ofList (replicaTextOld d2 c2 0 (render (ref 1 false "A"))) = "stage0.A0:ref" ∧
    replicaTextOld d2 c2 0 (render (ref 1 false "A")) ≠ render (rwRef d2 0 (ref 1 false "A")) := by decide

theorem new_cross_stage :
    replicaText d2 c2 0 (render (ref 1 false "A")) = render (rwRef d2 0 (ref 1 false "A")) ∧
    replicaText d2 c2 0 (render (ref 0 true "A")) = render (rwRef d2 0 (ref 0 true "A")) := by decide

/-- a direct reference to a file called like a replicated component is mangled by the unrepaired code -/
theorem old_direct :
    String.ofList (replicaTextOld d1 c1 0 "data/A:ref".toList) = "data/stage0.A0:ref" ∧
    String.ofList (replicaText d1 c1 0 "data/A:ref".toList) = "data/A:ref" := by decide

/-! ## a stale unreplicated snapshot (NOT the code: `Repl.parametrizeStale`)

If `_initialize` took the `_unreplicated` snapshot only the first time, a configuration that was loaded
without user variables and is then parametrised with `points: 4` (what `WorkflowGraph.graphFromPackage`
does with the configuration of an already loaded package) would still expand to the package default of 2
copies; the modelled code (`Repl.parametrize`, theorem `C03.history_irrelevant`) gives 4.  The harness
drives such histories on the real configuration object (`kind: history`). -/

def docW : Doc :=
  { g := [("points".toList, "2".toList)], st := fun _ => [],
    wf := [{ stage := 0, name := "sample".toList, refs := [], vars := [], replicate := .var "points".toList,
             aggregate := .absent }] }
def u4 : UserVars := ⟨[("points".toList, "4".toList)], []⟩
def confW : Conf := { orig := docW, unrepl := docW, concrete := .primitive docW }
def namesOf : Concrete → List String
  | .replicated (.ok out) => out.map fun o => String.ofList o.name
  | _ => []

theorem stale_snapshot_ignores_reparametrisation :
    namesOf (parametrizeStale false (parametrizeStale true confW ⟨[], []⟩ true) u4 false).concrete =
      ["sample0", "sample1"] ∧
    namesOf (run (construct docW ⟨[], []⟩ true) [(u4, false)]).concrete =
      ["sample0", "sample1", "sample2", "sample3"] := by decide

/-- a component that defines `replica` itself: if its own variables were layered OVER the injected index
(`{'replica': i}.update(own)`) every copy would see the same value; `copyVars` (the code) gives `i` -/
theorem own_replica_over_injected_breaks_index :
    (List.range 3).map (fun i => (lookup (override [(replicaKey, natToDigits i)] [(replicaKey, "0".toList)]) replicaKey).map
      String.ofList) = [some "0", some "0", some "0"] ∧
    (List.range 3).map (fun i => (lookup (copyVars [(replicaKey, "0".toList)] i) replicaKey).map String.ofList) =
      [some "0", some "1", some "2"] := by decide

/-! ## the `override.<platform>` block of a replicated component (`Model/ReplOver.lean`)

`FlowIRConcrete.instance(platform)` keeps the block `override.<platform>` inside the component and a reader
of the replicated FlowIR (`get_component_configuration`, `get_component_variables`) layers it over the
component again.  The unrepaired code (`pieceOverOld`) rewrites the strings of the block but neither
re-splits the `references` of an aggregator's block nor touches a `replica` the block defines; the repaired
code (`pieceOver`, `fixes/C03-override-block-replication.diff`) does, `C03.override_block_consistent`.  The
harness replays the same workflows on the real code (`corpus:override-*`). -/

/-- the aggregator `D` of `A` (2 replicas): `references: [A:ref]`, restated by its override block -/
def cAgg : Comp := { comp 0 "D" [ref 0 false "A"] with agg := true }
def blkRefs : TBlock := ⟨some ["A:ref".toList], some "A:ref".toList, []⟩

/-- unrepaired: the block's reference list holds ONE string naming both copies (the loader rejects it as an
invalid reference: a valid workflow is refused on that platform only); repaired: the two references -/
theorem old_override_aggregate_references_not_split :
    ((pieceBase d1 cAgg (layerT blkRefs blkRefs) (some 2)).zip (pieceOverOld d1 cAgg blkRefs (some 2))).map
        (fun x => (readBack x).refs.map (·.map String.ofList)) = [some ["stage0.A0:ref stage0.A1:ref"]] ∧
    ((pieceBase d1 cAgg (layerT blkRefs blkRefs) (some 2)).zip (pieceOver d1 cAgg blkRefs (some 2))).map
        (fun x => (readBack x).refs.map (·.map String.ofList)) = [some ["stage0.A0:ref", "stage0.A1:ref"]] := by
  decide

/-- a consumer of `A` whose override block defines `replica: 7` -/
def cCons : Comp := comp 0 "C" [ref 0 false "A"]
def blkReplica : TBlock := ⟨none, none, [(replicaKey, "7".toList)]⟩

/-- unrepaired: every copy reads `replica = 7` through the platform layer; repaired: copy `i` reads `i` -/
theorem old_override_replica_hides_index :
    ((pieceBase d1 cCons (layerT blkRefs blkReplica) (some 2)).zip (pieceOverOld d1 cCons blkReplica (some 2))).map
        (fun x => (lookup (readBack x).vars replicaKey).map String.ofList) = [some "7", some "7"] ∧
    ((pieceBase d1 cCons (layerT blkRefs blkReplica) (some 2)).zip (pieceOver d1 cCons blkReplica (some 2))).map
        (fun x => (lookup (readBack x).vars replicaKey).map String.ofList) = [some "0", some "1"] := by
  decide

/-- NOT the code: were the kept block left out of the rewriting (only the component's own fields rewritten),
every copy would read back the un-replicated reference `A:ref` — a component that no longer exists -/
theorem unrewritten_override_block_breaks_wiring :
    ((pieceBase d1 cCons (layerT blkRefs blkRefs) (some 2)).map fun b =>
        (readBack (b, blkRefs)).refs.map (·.map String.ofList)) = [some ["A:ref"], some ["A:ref"]] ∧
    ((pieceBase d1 cCons (layerT blkRefs blkRefs) (some 2)).zip (pieceOver d1 cCons blkRefs (some 2))).map
        (fun x => (readBack x).refs.map (·.map String.ofList)) = [some ["stage0.A0:ref"], some ["stage0.A1:ref"]] := by
  decide

/-! ## NOT the code: a wider path class for the aggregator

Were a path segment "anything up to the next white space, `/`, `,` or quote" (instead of a run of `[\w.*]`), the
shell punctuation glued to the path would be taken into the path and repeated after every copy; the modelled code
(`Repl.aggScan`, theorem `C03.aggregated_reference_then_text`) keeps it where the user wrote it. -/

def isWidePathChar (c : Char) : Bool := !(isSpace c || c == '/' || c == ',' || c == '\'' || c == '"')

def pathLenWide : Nat → S → Nat
  | 0, _ => 0
  | f + 1, '/' :: rest =>
    let seg := rest.takeWhile isWidePathChar
    if seg.isEmpty then 0 else 1 + seg.length + pathLenWide f (rest.drop seg.length)
  | _ + 1, _ => 0

def aggExpandWide (reps : List S) (after : S) : S × Nat :=
  let pl := pathLenWide after.length after
  if pl == 0 then (join [' '] reps, 0)
  else
    let path := after.take pl
    let commas := (after.drop pl).takeWhile (· == ',')
    if commas.isEmpty then (join [' '] (reps.map (· ++ path)), pl)
    else (join [','] (reps.map (· ++ path ++ commas.drop 1)), pl + commas.length)

def aggScanWide (keys : List (S × List S)) : Nat → Option Char → S → S
  | _, _, [] => []
  | k + 1, _, c :: s => aggScanWide keys k (some c) s
  | 0, prev, c :: s =>
    match (if leftOk prev then firstMatchAgg keys (c :: s) else none) with
    | some kv =>
      let e := aggExpandWide kv.2 ((c :: s).drop kv.1.length)
      e.1 ++ aggScanWide keys (kv.1.length + e.2 - 1) (some c) s
    | none => c :: aggScanWide keys 0 (some c) s

def keysSim : List (S × List S) := [("A:ref".toList, ["stage0.A0:ref".toList, "stage0.A1:ref".toList])]

theorem wide_path_class_swallows_shell_punctuation :
    String.ofList (aggScanWide keysSim 0 none "$(cat A:ref/out/e.csv); sort A:ref/e.csv| uniq".toList) =
      "$(cat stage0.A0:ref/out/e.csv); stage0.A1:ref/out/e.csv); sort stage0.A0:ref/e.csv| stage0.A1:ref/e.csv| uniq" ∧
    String.ofList (aggScan keysSim 0 none "$(cat A:ref/out/e.csv); sort A:ref/e.csv| uniq".toList) =
      "$(cat stage0.A0:ref/out/e.csv stage0.A1:ref/out/e.csv); sort stage0.A0:ref/e.csv stage0.A1:ref/e.csv| uniq" := by
  decide

/-! ## the path class before /repo 'fix: a file path after an aggregated reference may contain ...'

`[\w.*]` only: a file name such as `out-1.txt` was cut at the `-`, so copies 0..N-2 were consumed at a truncated
path.  The modelled (repaired) class `Repl.isPathChar` keeps the file name whole. -/

def isPathCharOld (c : Char) : Bool := isWord c || c == '.' || c == '*'

def pathLenOld : Nat → S → Nat
  | 0, _ => 0
  | f + 1, '/' :: rest =>
    let seg := rest.takeWhile isPathCharOld
    if seg.isEmpty then 0 else 1 + seg.length + pathLenOld f (rest.drop seg.length)
  | _ + 1, _ => 0

def aggExpandOld (reps : List S) (after : S) : S × Nat :=
  let pl := pathLenOld after.length after
  if pl == 0 then (join [' '] reps, 0)
  else
    let path := after.take pl
    let commas := (after.drop pl).takeWhile (· == ',')
    if commas.isEmpty then (join [' '] (reps.map (· ++ path)), pl)
    else (join [','] (reps.map (· ++ path ++ commas.drop 1)), pl + commas.length)

def aggScanOld (keys : List (S × List S)) : Nat → Option Char → S → S
  | _, _, [] => []
  | k + 1, _, c :: s => aggScanOld keys k (some c) s
  | 0, prev, c :: s =>
    match (if leftOk prev then firstMatchAgg keys (c :: s) else none) with
    | some kv =>
      let e := aggExpandOld kv.2 ((c :: s).drop kv.1.length)
      e.1 ++ aggScanOld keys (kv.1.length + e.2 - 1) (some c) s
    | none => c :: aggScanOld keys 0 (some c) s

theorem narrow_path_class_cut_file_names :
    String.ofList (aggScanOld keysSim 0 none "cat A:ref/out-1.txt|wc".toList) =
      "cat stage0.A0:ref/out stage0.A1:ref/out-1.txt|wc" ∧
    String.ofList (aggScan keysSim 0 none "cat A:ref/out-1.txt|wc".toList) =
      "cat stage0.A0:ref/out-1.txt stage0.A1:ref/out-1.txt|wc" := by
  decide

end St4sd.C03.Witness
