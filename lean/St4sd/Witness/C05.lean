import St4sd.Props.C05
/-!
Witnesses for C05: the code as it is (`num = false`: `_discover_dowhile_placeholders`, `looped_reference_to_paths`
and `map_placeholder_id_to_iteration` sort the iteration numbers as *strings*; `rewrite_all_references` substitutes
each distinct reference once, one after the other; `compute_dowhile_state` matches the condition instances on the
name only) violates the property.  Same inputs as the harness corpus
(`MINIMAL` in `harness/c05.py`, k = 10).
-/
namespace St4sd.C05.Witness
open St4sd.Str St4sd.Loop St4sd.C05

/-- Python: `'10' < '9'` -/
theorem ten_before_nine : lexLt "10".toList "9".toList = true := by decide

/-- After 10 further iterations the string-keyed `latest` of placeholder `stage1.x` is still instance 9 … -/
theorem old_latest_is_nine_at_k10 :
    resolveProducer false exDoc (run exDoc exOut 10).comps (1, "x".toList) = some (1, instName 9 "x".toList) ∧
    resolveProducer false exDoc (run exDoc exOut 10).comps (1, "x".toList) ≠ some (1, instName 10 "x".toList) := by
  decide

/-- … while the loop's current condition is produced by iteration 10 (this one is sorted with `int`) … -/
theorem condition_is_ten_at_k10 :
    currentCondition exDoc (run exDoc exOut 10).comps = some ((1, instName 10 "stop".toList), []) := by
  decide

/-- … and an aggregate reference lists the instances in the order 0, 1, 10, 2, …, 9. -/
theorem old_loopref_order_at_k10 :
    (loopRefOrder false exDoc (run exDoc exOut 10).comps (1, "x".toList)).map (fun x => iterNum x.2) =
      [0, 1, 10, 2, 3, 4, 5, 6, 7, 8, 9] := by
  decide

/-- `map_placeholder_id_to_iteration` has the same string key -/
theorem old_map_placeholder_at_k10 :
    mapPlaceholderLatest false (run exDoc exOut 10).comps (1, "x".toList) = some (1, instName 9 "x".toList) := by
  decide

/-- up to `k = 9` the string order and the numeric order agree on this input -/
theorem old_agrees_up_to_nine :
    resolveProducer false exDoc (run exDoc exOut 9).comps (1, "x".toList) = some (1, instName 9 "x".toList) ∧
    (loopRefOrder false exDoc (run exDoc exOut 9).comps (1, "x".toList)).map (fun x => iterNum x.2) =
      [0, 1, 2, 3, 4, 5, 6, 7, 8, 9] := by
  decide

/-- Sequential first-occurrence substitution: a command line that uses the loop-carried input `in0` twice keeps the
second occurrence unrewritten in iteration 1 (the single-pass rewriting gives instance 0 of `x` twice). -/
theorem old_args_second_occurrence_not_rewritten :
    let in0 : Ref := ⟨false, none, "in0".toList, [], "output".toList⟩
    let known := ids (run exDoc exOut 0).comps
    rewriteArgsOld exDoc known 1 0 [in0, in0] = [⟨false, some 1, instName 0 "x".toList, [], "output".toList⟩, in0] ∧
    [in0, in0].map (rewriteRef exDoc known 1 0) =
      [⟨false, some 1, instName 0 "x".toList, [], "output".toList⟩, ⟨false, some 1, instName 0 "x".toList, [], "output".toList⟩] := by
  decide

/-- a loop whose condition `stage1.stop` has a namesake `stage0.stop` (template stages), imported at stage 1 -/
def twoStops : Doc :=
  { comps := [{ stage := 0, name := "stop".toList, refs := [⟨false, none, "in0".toList, [], "output".toList⟩] },
              { stage := 1, name := "stop".toList, refs := [⟨false, some 0, "stop".toList, [], "output".toList⟩] }],
    bindings := [("in0".toList, ⟨false, some 0, "src0".toList, [], "output".toList⟩)],
    loopBindings := [], condStage := 1, condName := "stop".toList, condFile := [], importStage := 1 }

/-- Matching the condition instances on the name only lets the namesake of stage 1 (template stage 0) be taken for
the condition of stage 2 (which of the two Python picks depends on the iteration order of a set; in list order it is
the namesake); matching the stage as well gives the condition. -/
theorem old_condition_takes_namesake :
    latestCondOld twoStops (run twoStops [{ stage := 0, name := "src0".toList, refs := [] }] 2).comps
      = some (1, instName 2 "stop".toList) ∧
    latestCond twoStops (run twoStops [{ stage := 0, name := "src0".toList, refs := [] }] 2).comps
      = some (2, instName 2 "stop".toList) := by
  decide

end St4sd.C05.Witness
