import St4sd.Model.Ref
import St4sd.Gen.C09
/-!
Witnesses for C09.

`Manifest.top_level_folders` **before the repair** (`topLevelFoldersOld`: split on
`os.path.pathsep`, i.e. `:`) returns the nested key `foo/bar` whole, so the reference
`foo/bar/f:ref` into that manifest folder is classified as a reference to component `stage0.foo`
and `FlowIRConcrete.validate` reports an unknown component; with the repaired function
(`topLevelFolders`, split on `/`) the same reference is direct.  The harness replays exactly this
input on the real code (corpus entry 0 of `harness/c09.py`).

The remaining theorems record quirks that the model keeps (they delimit the hypotheses of
`Props/C09.lean`).
-/
namespace St4sd.C09.Witness
open St4sd.Ref

private def sf := Gen.C09.specialFoldersC

/-- the old function does not extract the left-most folder of a nested key; the repaired one does -/
theorem old_nested_key_kept_whole :
    topLevelFoldersOld ["foo/bar".toList] = ["foo/bar".toList] ∧
    topLevelFolders ["foo/bar".toList] = ["foo".toList] := by decide

/-- full statement "a reference whose first path segment is a manifest folder is never treated as a
component reference" is false for the old function … -/
theorem old_manifest_folder_reference_is_component :
    parseFullX sf "foo/bar/f:ref".toList (some 0) [] (topLevelFoldersOld ["foo/bar".toList])
      = some (some 0, "foo".toList, some "bar/f".toList, "ref".toList, false) := by decide

/-- … it is expanded to `stage0.foo/bar/f:ref` and reported as a reference to the unknown component
`stage0.foo` by the checks of `validate`, while the repaired function accepts the workflow. -/
theorem old_validate_reports_unknown_component :
    validateMissing sf "foo/bar/f:ref".toList 0 [(0, ["c0".toList])] (topLevelFoldersOld ["foo/bar".toList])
      = some (some (0, "foo".toList)) ∧
    validateMissing sf "foo/bar/f:ref".toList 0 [(0, ["c0".toList])] (topLevelFolders ["foo/bar".toList])
      = some none := by decide

/-- quirk: `stage([0-9]+)` is prefix-matched, so a non-canonical stage token is accepted and the
printed form differs from the input (hence `compile_parse` asks for a canonical prefix) -/
theorem sloppy_stage_prefix_not_reprinted :
    parseFull sf "stage01x.foo:ref".toList none [] [] = some (some 1, "foo".toList, none, "ref".toList) ∧
    compileReference "foo".toList none "ref".toList (some 1) = "stage1.foo:ref".toList := by decide

/-- quirk: a component called like `stageN.x` cannot be spelled relatively (hence the hypothesis
`hasIndex = false` of `parse_compile_relative` / `relative_absolute_agree`) -/
theorem stage_like_name_is_not_relative :
    parseFull sf "stage1x.bar:ref".toList (some 0) [] [] = some (some 1, "bar".toList, none, "ref".toList) := by
  decide

/-- quirk: `compile_reference` does not reprint a one-segment absolute path (`os.path.split('/a')`
is `('/', 'a')`); `DataReference.absoluteReference` (which joins with `os.path.join`) does -/
theorem one_segment_absolute_path :
    parseFull sf "/a:ref".toList none [] [] = some (none, ['/'], some ['a'], "ref".toList) ∧
    compileReference ['/'] (some ['a']) "ref".toList none = "//a:ref".toList ∧
    (dataRef sf Gen.C09.dataReferenceMethodsC "/a:ref".toList none).map DataRef.absolute = some "/a:ref".toList := by
  decide

end St4sd.C09.Witness
