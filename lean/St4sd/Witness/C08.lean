import St4sd.Model.Cache
import St4sd.Model.CacheAmbient
/-!
# C08 — witness for the unrepaired cache invalidation

`FlowIRConcrete.invalidate_cache_for_component` / `get_component(return_copy=False)` /
`delete_component` build the pattern `component:.*:stage<i>:<name>` by plain string formatting, so the
component name is interpreted as a regular expression.  For the (schema-valid) name `a+b` the pattern
does not match the component's own cache label: the entry survives `set_component_variable` and the next
query returns the stale configuration (replayed on the real code by harness/c08.py; repaired by
`fixes/C08-cache-regex-escape.diff`).
-/
namespace St4sd.C08.Witness
open St4sd.Tree St4sd.Str

/-- unrepaired: the pattern built from `a+b` does not match the label of `stage0.a+b` … -/
theorem old_pattern_misses_own_label :
    invalidatesOld 0 "a+b".toList ⟨"default".toList, 0, "a+b".toList⟩ = false := by decide

/-- … so the entry is kept by the unrepaired invalidation, … -/
theorem old_invalidation_keeps_stale_entry (v : Val) :
    ([(⟨"default".toList, 0, "a+b".toList⟩, v)] : List (Label × Val)).filter
      (fun e => !invalidatesOld 0 "a+b".toList e.1) = [(⟨"default".toList, 0, "a+b".toList⟩, v)] := by
  have h := old_pattern_misses_own_label
  simp only [List.filter, h, Bool.not_false]

/-- … while the repaired (literal) pattern drops it, as `Props/C08.invalidates_self` shows in general. -/
theorem fixed_pattern_matches_own_label :
    invalidates 0 "a+b".toList ⟨"default".toList, 0, "a+b".toList⟩ = true := by decide

/-- the fragment matcher agrees with the literal one on a name without metacharacters -/
theorem old_pattern_plain_name :
    invalidatesOld 1 "c0".toList ⟨"p".toList, 1, "c0".toList⟩ = true := by decide

/-! ### a report produced INSIDE an update (between the invalidating fetch and the write) -/

private def dW : Desc :=
  { platforms := [defaultName], blueprint := [],
    variables := [(defaultName, { global := [(['g'], .str ['1'])], stages := [] })],
    comps := [⟨0, ['c'], [("stage".toList, .int 0), ("name".toList, .str ['c']),
                          ("command".toList, .dict [("arguments".toList, .str "%(g)s".toList)]),
                          ("variables".toList, .dict [])]⟩] }

private def argsW (a : Except Err Val) : Option S :=
  match a with
  | .ok v => match lookupPath ["command".toList, "arguments".toList] v with
    | some (.str t) => some t
    | _ => none
  | .error _ => none

/-- `Props/C08.logging_is_invisible` covers what a verbose process does before and after a call.  A report made
between the fetch of a component-level update and its write is not of that shape, and it breaks the property: the
query after `set_component_option('#command.arguments', 'new')` still answers the old arguments although the
description resolves to the new ones.  (harness/c08.py runs its streams with logging enabled for this reason.) -/
theorem report_inside_update_goes_stale :
    let s := (setOptionReportingInside 50 (init dW) 0 ['c'] "#command.arguments".toList (.str "new".toList) defaultName).1
    argsW (step 50 s (.query 0 ['c'] defaultName)).2 = some ['1'] ∧
    argsW (resolve s.desc defaultName 0 ['c'] false 50) = some "new".toList := by decide +kernel

/-- the same update made by the code that exists answers the new arguments -/
theorem plain_update_is_seen :
    let s := (step 50 (step 50 (init dW) (.query 0 ['c'] defaultName)).1
               (.setOption 0 ['c'] "#command.arguments".toList (.str "new".toList))).1
    argsW (step 50 s (.query 0 ['c'] defaultName)).2 = some "new".toList := by decide +kernel

end St4sd.C08.Witness
