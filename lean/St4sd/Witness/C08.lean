import St4sd.Model.Cache
/-!
# C08 — witness for the unrepaired cache invalidation

`FlowIRConcrete.invalidate_cache_for_component` / `get_component(return_copy=False)` /
`delete_component` build the pattern `component:.*:stage<i>:<name>` by plain string formatting, so the
component name is interpreted as a regular expression.  For the (schema-valid) name `a+b` the pattern
does not match the component's own cache label: the entry survives `set_component_variable` and the next
query returns the stale configuration (replayed on the real code by harness/c08.py; repaired by
`fixes/C08-cache-regex-escape.diff`).
-/
namespace St4sd.C08.Witness
open St4sd.Tree

/-- unrepaired: the pattern built from `a+b` does not match the label of `stage0.a+b` … -/
theorem old_pattern_misses_own_label :
    invalidatesOld 0 "a+b".toList ⟨"default".toList, 0, "a+b".toList⟩ = false := by decide

/-- … so the entry is kept by the unrepaired invalidation, … -/
theorem old_invalidation_keeps_stale_entry (v : Val) :
    ([(⟨"default".toList, 0, "a+b".toList⟩, v)] : List (Label × Val)).filter
      (fun e => !invalidatesOld 0 "a+b".toList e.1) = [(⟨"default".toList, 0, "a+b".toList⟩, v)] := by
  have h := old_pattern_misses_own_label
  simp only [List.filter, h, Bool.not_false]

/-- … while the repaired (literal) pattern drops it, as `Props/C08.invalidates_self` shows in general. -/
theorem fixed_pattern_matches_own_label :
    invalidates 0 "a+b".toList ⟨"default".toList, 0, "a+b".toList⟩ = true := by decide

/-- the fragment matcher agrees with the literal one on a name without metacharacters -/
theorem old_pattern_plain_name :
    invalidatesOld 1 "c0".toList ⟨"p".toList, 1, "c0".toList⟩ = true := by decide

end St4sd.C08.Witness
