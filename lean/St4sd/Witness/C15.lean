import St4sd.Model.Layer
import St4sd.Model.DslLoad
import St4sd.Model.ReplVars
import St4sd.Model.C15Stages
/-!
Witnesses for C15.

`loadVarsOld content order` is conf.py 283/484 before the repair: `variable_files = list(set(variable_files))`
layers the files in whatever order the *set* of path strings is enumerated, i.e. in some permutation of the
distinct paths that depends on the string hash seed of the process.  For two files that define the same
variable there is a permutation for which the result differs from layering in the order given — the harness
replays exactly this input (`a.yaml: {global: {v: from-a}}`, `b.yaml: {global: {v: from-b}}`, order `[a, b]`)
on the real code under several `PYTHONHASHSEED` values.
-/
namespace St4sd.C15.Witness
open St4sd.Assoc St4sd.Layer

def fileA : Vars := [((none, "v".toList), "from-a".toList)]
def fileB : Vars := [((none, "v".toList), "from-b".toList)]
def content (i : Nat) : Vars := if i = 0 then fileA else fileB

/-- the order given is `[a, b]`: the repaired loader lets `b` win … -/
theorem repaired_last_wins : dget (loadVars content [0, 1]) (none, "v".toList) = some "from-b".toList := by decide

/-- … the old loader may enumerate the set `{a, b}` as `[b, a]` (a permutation of the distinct paths): `a` wins. -/
theorem old_order_changes_result :
    ∃ order : List Nat, order.Perm [0, 1] ∧
      dget (loadVarsOld content order) (none, "v".toList) ≠ dget (loadVars content [0, 1]) (none, "v".toList) :=
  ⟨[1, 0], List.Perm.swap 0 1 [], by decide⟩

/-- two enumerations of the same set of paths give different variables: the old loader is not a function of
its arguments -/
theorem old_depends_on_enumeration :
    dget (loadVarsOld content [0, 1]) (none, "v".toList) ≠ dget (loadVarsOld content [1, 0]) (none, "v".toList) := by
  decide

/-- a de-duplication that keeps the *first* occurrence (`list(dict.fromkeys(paths))`) would not be the same as
layering every given path in order when a path is given twice (`[a, b, a]`: `a` must win); keeping the last
occurrence is (`Props.C15.dedup_transparent`). -/
theorem keep_first_is_not_transparent :
    dget (layerMany ((dedupKeepFirst [0, 1, 0]).map content)) (none, "v".toList)
      ≠ dget (layerMany ([0, 1, 0].map content)) (none, "v".toList) := by decide

/-! DSL 2.0: `hash_environment` must read the environment as a mapping.  With the identity built in the insertion
order of the entries (`hashEnvUnsorted`, no `sorted`) the same two components get one environment or two,
depending on the order in which the second wrote the same two variables. -/
section Dsl
open St4sd.DslLoad

def envAB : Env := [("ALPHA".toList, some "1".toList), ("BETA".toList, some "/opt/tool/bin".toList)]
def envBA : Env := [("BETA".toList, some "/opt/tool/bin".toList), ("ALPHA".toList, some "1".toList)]

theorem envBA_is_envAB_reordered : envAB.Perm envBA := List.Perm.swap _ _ _

theorem unsorted_identity_depends_on_key_order :
    assignEnvsWith hashEnvUnsorted [] [.dict envAB, .dict envAB] = [.env 0, .env 0] ∧
    assignEnvsWith hashEnvUnsorted [] [.dict envAB, .dict envBA] = [.env 0, .env 1] := by decide

/-- the code as it is (sorted keys) gives one environment in both cases -/
theorem sorted_identity_does_not :
    assignEnvs [] [.dict envAB, .dict envAB] = [.env 0, .env 0] ∧
    assignEnvs [] [.dict envAB, .dict envBA] = [.env 0, .env 0] := by decide

end Dsl

/-! ## a resolution loop with a scope shared between the components (NOT the code)

`St4sd.Repl.resolveAll` (the code) starts every iteration from fresh copies of the global and stage scopes.  A
loop that layered global + stage once and merged the variables of every visited component INTO that shared
scope would resolve `replicate: %(N)s` of `sweep` with the private `N` of whichever sibling was visited before
it: the result depends on the order in which a set enumerates the components, i.e. on the hash seed.  The
harness loads such packages (`minimal-shadow`, generator `gen_shadow_package`) in processes with different
PYTHONHASHSEED and drives `FlowIR.apply_replicate` with explicit orders. -/
namespace ReplShared
open St4sd.Repl

/-- the leaking loop: `scope` accumulates the variables of the visited components -/
def resolveShared (scope : St4sd.Repl.Vars) : List Raw → List (Option Nat)
  | [] => []
  | r :: rs =>
    let vis := override scope r.vars
    (match countIn vis r.replicate with
      | .ok n => n
      | .error _ => none) :: resolveShared vis rs

def tune : Raw := { stage := 0, name := "tune".toList, refs := [], vars := [("N".toList, "3".toList)],
                    replicate := .absent, aggregate := .absent }
def sweep : Raw := { stage := 0, name := "sweep".toList, refs := [], vars := [], replicate := .var "N".toList,
                     aggregate := .absent }

theorem shared_scope_depends_on_visiting_order :
    resolveShared [("N".toList, "2".toList)] [sweep, tune] = [some 2, none] ∧
    resolveShared [("N".toList, "2".toList)] [tune, sweep] = [none, some 3] := by decide

end ReplShared

/-! A stage discovery that chose the flavour through the glob pattern alone (`stage*.conf` also matches
`stage<N>.instance.conf`; NOT the code) would load the package flavour or the instance flavour of a launched
directory depending on the order in which the file system lists the two files. -/
section StagePattern
open St4sd.C15Stages

theorem pattern_only_depends_on_listing_order :
    discoverPatternOnly false [⟨0, false, "stage0.conf"⟩, ⟨0, true, "stage0.instance.conf"⟩] 0
      = some "stage0.instance.conf" ∧
    discoverPatternOnly false [⟨0, true, "stage0.instance.conf"⟩, ⟨0, false, "stage0.conf"⟩] 0
      = some "stage0.conf" := by decide
end StagePattern

end St4sd.C15.Witness
