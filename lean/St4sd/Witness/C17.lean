import St4sd.Model.Env
import St4sd.Model.C17Vars
import St4sd.Model.C17Scalar
/-!
Witnesses for C17.

`instEnvsOld` is `FlowIRConcrete.instance` before the repair (flowir.py 5268-5270:
`environments = default_environments; environments.update(platform_environments)`): an environment that the
selected platform defines *replaces* the same-named environment of the default platform in the document every
replicated (non-primitive) configuration reads, instead of being layered over it.  The package below —
`environments: {default: {myenv: {A: a, B: b}}, hpc: {myenv: {B: b2}}}`, platform `hpc`, a component with
`command.environment: myenv` — is the input the harness rediscovers on the real code
(oracle `declared-variable-missing`, `primitive: false`).
-/
namespace St4sd.C17.Witness
open St4sd.Assoc St4sd.Env

deriving instance DecidableEq for Except

def pkg : Envs := loadEnvs
  [("default".toList, [("myenv".toList, [("A".toList, "a".toList), ("B".toList, "b".toList)])]),
   ("hpc".toList, [("myenv".toList, [("B".toList, "b2".toList)])])]
def sys : Dict := [("INSTANCE_DIR".toList, "/i".toList)]

/-- the package read directly (primitive configuration): `A` from the default platform, `B` from `hpc` -/
theorem primitive_layers :
    envForNode sys pkg "hpc".toList [] (some "myenv".toList) false =
      .ok [("INSTANCE_DIR".toList, "/i".toList), ("A".toList, "a".toList), ("B".toList, "b2".toList)] := by decide

/-- the old instance document: the variable that only the default platform declares is gone -/
theorem old_instance_loses_default_layer :
    envForNode sys (instEnvsOld pkg "hpc".toList) "hpc".toList [] (some "myenv".toList) false =
      .ok [("INSTANCE_DIR".toList, "/i".toList), ("B".toList, "b2".toList)] := by decide

/-- the repaired instance document gives what the package gives -/
theorem repaired_instance_layers :
    envForNode sys (instEnvs pkg "hpc".toList) "hpc".toList [] (some "myenv".toList) false =
      envForNode sys pkg "hpc".toList [] (some "myenv".toList) false := by decide

/-- stated on the lookup the property speaks about: with the old flattening the named environment visible to
`hpc` does not contain the default platform's `A` (so `Props.C17.instance_platform_over_default` is false for
`instEnvsOld`) -/
theorem old_violates_platform_over_default :
    ∃ r, getEnv (instEnvsOld pkg "hpc".toList) "myenv".toList "hpc".toList = .ok r ∧
      dget r "A".toList = none ∧
      (∃ d, platEnv pkg "myenv".toList sDefault = .ok d ∧ dget d "A".toList = some "a".toList) :=
  ⟨[("B".toList, "b2".toList)], by decide, by decide, [("A".toList, "a".toList), ("B".toList, "b".toList)], by decide, by decide⟩

/-! ### `%(name)s` references: one interpolation context per environment

`fillEnvsAcc` / `instDocAcc` is `FlowIRConcrete.instance` with `env_variables = global_variables.copy()` hoisted out
of the loop over the environments (one context that accumulates the entries of every environment processed so
far).  Package: environment `a_tools` has a variable of its own called `prefix`, environment `b_tools` references
the *global* variable `prefix`; `a_tools` is processed first. -/

def pkgV : Envs := loadEnvs
  [("default".toList, [("a_tools".toList, [("prefix".toList, "/opt/a".toList), ("BIN_A".toList, "%(prefix)s/bin".toList)]),
                       ("b_tools".toList, [("BIN_B".toList, "%(prefix)s/bin".toList)])]),
   ("cluster".toList, [("b_tools".toList, [("LIB_B".toList, "%(prefix)s/lib".toList)])])]
def varsV : Vars :=
  [("default".toList, [("prefix".toList, "/global".toList)]), ("cluster".toList, [("prefix".toList, "/cluster".toList)])]
/-- the same package without the environment nobody selects -/
def pkgV' : Envs := loadEnvs
  [("default".toList, [("b_tools".toList, [("BIN_B".toList, "%(prefix)s/bin".toList)])]),
   ("cluster".toList, [("b_tools".toList, [("LIB_B".toList, "%(prefix)s/lib".toList)])])]

/-- as coded: `b_tools` gets the global variable of the platform -/
theorem own_context_resolves_from_globals :
    envForNodeV sys (instDoc ⟨pkgV, varsV⟩ "cluster".toList (safeOf false)) "cluster".toList []
      (some "b_tools".toList) false false =
      .ok [("INSTANCE_DIR".toList, "/i".toList), ("BIN_B".toList, "/cluster/bin".toList),
           ("LIB_B".toList, "/cluster/lib".toList)] := by decide

/-- with the accumulating context the value of the unselected environment `a_tools` leaks into `b_tools` -/
theorem accumulating_context_leaks :
    envForNodeV sys (instDocAcc ⟨pkgV, varsV⟩ "cluster".toList (safeOf false)) "cluster".toList []
      (some "b_tools".toList) false false =
      .ok [("INSTANCE_DIR".toList, "/i".toList), ("BIN_B".toList, "/opt/a/bin".toList),
           ("LIB_B".toList, "/opt/a/lib".toList)] := by decide

/-- … so `Props.C17.task_env_independent_of_other_envs` is false for `instDocAcc`: removing the environment nobody
selects changes the answer -/
theorem accumulating_context_depends_on_other_envs :
    platEnv pkgV "b_tools".toList "cluster".toList = platEnv pkgV' "b_tools".toList "cluster".toList ∧
    platEnv pkgV "b_tools".toList sDefault = platEnv pkgV' "b_tools".toList sDefault ∧
    envForNodeV sys (instDocAcc ⟨pkgV, varsV⟩ "cluster".toList (safeOf false)) "cluster".toList []
      (some "b_tools".toList) false false ≠
    envForNodeV sys (instDocAcc ⟨pkgV', varsV⟩ "cluster".toList (safeOf false)) "cluster".toList []
      (some "b_tools".toList) false false := by decide

/-! ### typed scalars: the conversion must map only null to the empty text

`Scalar.textFalsy` is `str(value) if value else ""` in place of `env_value_to_string` (flowir.py 5557-5560): every
falsy scalar becomes the empty text.  Package: the default platform declares `OMP: 4, USE_GPU: true, SCALE: 1.5`
and `LAUNCH: run --threads=${OMP} --gpu=$USE_GPU`, platform `single` re-declares them as `0 / false / 0.0`; the
launch environment has an `OMP` of its own.  (The harness finds such inputs on the real code: oracle
`declared-variable-missing`.) -/

def pkgT : TEnvs :=
  [("default".toList, [("gpu".toList, [("OMP".toList, .int 4), ("USE_GPU".toList, .bool true),
      ("SCALE".toList, .float "1.5".toList),
      ("LAUNCH".toList, .str "run --threads=${OMP} --gpu=$USE_GPU".toList)])]),
   ("single".toList, [("gpu".toList, [("OMP".toList, .int 0), ("USE_GPU".toList, .bool false),
      ("SCALE".toList, .float "0.0".toList)])])]
def launchT : Dict := [("OMP".toList, "64".toList)]

/-- as coded: the three variables are there with the texts `0`, `False`, `0.0`, and references see them -/
theorem falsy_scalars_are_values :
    envForNodeT sys pkgT "single".toList launchT (some "gpu".toList) false true false =
      .ok [("INSTANCE_DIR".toList, "/i".toList), ("OMP".toList, "0".toList), ("USE_GPU".toList, "False".toList),
           ("SCALE".toList, "0.0".toList), ("LAUNCH".toList, "run --threads=0 --gpu=False".toList)] := by decide

/-- with the falsy conversion the platform's values still override the default platform's and are then dropped:
the task runs without `OMP`, `USE_GPU`, `SCALE`, and the references expand to nothing -/
theorem falsy_conversion_drops_declared_variables :
    envForNode sys (loadEnvs (textEnvsWith Scalar.textFalsy pkgT)) "single".toList launchT (some "gpu".toList) false =
      .ok [("INSTANCE_DIR".toList, "/i".toList), ("LAUNCH".toList, "run --threads= --gpu=".toList)] := by decide

/-- … so `Props.C17.text_isEmpty` / `typed_declared_kept` are false for that conversion -/
theorem falsy_conversion_empties_nonempty_scalars :
    (Scalar.int 0).declaredEmpty = false ∧ (Scalar.int 0).textFalsy = [] ∧
    (Scalar.bool false).declaredEmpty = false ∧ (Scalar.bool false).textFalsy = [] ∧
    (Scalar.float "0.0".toList).declaredEmpty = false ∧ (Scalar.float "0.0".toList).textFalsy = [] ∧
    (Scalar.int 1).textFalsy = "1".toList ∧ (Scalar.bool true).textFalsy = "True".toList := by decide

end St4sd.C17.Witness
