import St4sd.Model.Validate
import St4sd.Model.ValidateLoop
import St4sd.Gen.C11
/-!
# C11 — witnesses for the code as it was before `fixes/C11-bool-options.diff`

`FlowIR.convert_component_types` converted the boolean options (`aggregate`, `isMigratable`, `isMigrated`,
`isRepeat`, `optimizer.disable`) with Python's builtin `bool`: every non-empty string is `True`.  A wrongly
typed option (`aggregate: zzz`) was accepted, and `aggregate: "no"` was read as `True`.
-/
namespace St4sd.C11.Witness
open St4sd.ValSchema St4sd.Validate

/-- the conversion table entry as it was -/
def oldTable : List (S × Conv) :=
  [("workflowAttributes".toList, .node [("aggregate".toList, .leaf .bool)])]

def doc (word : String) : Doc :=
  { comps := [{ stage := 0, name := "ca".toList, refs := [], argRefs := [], vars := [], uses := [],
                opts := .dict [("workflowAttributes".toList, .dict [("aggregate".toList, .str word.toList)])] }],
    globals := [] }

/-- builtin `bool`: "no" becomes `True` -/
theorem builtin_bool_reads_no_as_true :
    (match convLeaf .bool (.str "no".toList) with | some (.bool b) => b | _ => false) = true := by decide

/-- with the old table a word given for the boolean option `aggregate` is accepted -/
theorem old_accepts_word_for_boolean :
    validate oldTable Gen.C11.componentSchema (doc "zzz") = [] := by decide +kernel

/-- with the repaired converter it is rejected, and "no" is read as `False` -/
theorem repaired_rejects_word_for_boolean :
    validate [("workflowAttributes".toList, .node [("aggregate".toList, .leaf .toBool)])]
      Gen.C11.componentSchema (doc "zzz") = [Err.option (0, "ca".toList) .convertFailed] := by decide +kernel

theorem repaired_reads_no_as_false :
    (match convLeaf .toBool (.str "no".toList) with | some (.bool b) => b | _ => true) = false := by decide

/-! ## why the cycle check must see the edges that leave aggregating components

An aggregating component does not forward its `replicate` value, so for the *propagation* of `replicate` the
edges aggregator → consumer carry nothing.  They still carry dependencies: a cycle check over the propagation
graph without them accepts a document whose expanded graph is cyclic. -/

def edgesWithoutAggregatorOut (d : Doc) : List (Id × Id) := (edges d).filter (fun e => !isAgg d e.1)

def cyc : Doc :=
  { comps := [{ stage := 0, name := "gen".toList, refs := [(0, "red".toList)], argRefs := [], opts := .dict [],
                vars := [], uses := [], replicate := some 2 },
              { stage := 0, name := "sim".toList, refs := [(0, "gen".toList)], argRefs := [], opts := .dict [],
                vars := [], uses := [] },
              { stage := 0, name := "red".toList, refs := [(0, "sim".toList)], argRefs := [], opts := .dict [],
                vars := [], uses := [], aggregate := true }],
    globals := [] }

/-- Kahn's algorithm over the reduced graph ranks every component of `cyc` … -/
theorem reduced_graph_looks_acyclic :
    (ids cyc).all (isRanked (kahn (edgesWithoutAggregatorOut cyc) (ids cyc) (ids cyc).length 0 [])) = true := by
  decide +kernel

/-- … but the expanded graph has the cycle `red → gen0 → sim0 → red`, and the check over the full graph
reports it -/
theorem expanded_graph_is_cyclic :
    ((0, "red".toList), (0, "gen0".toList)) ∈ edges (expandDoc cyc) ∧
    ((0, "gen0".toList), (0, "sim0".toList)) ∈ edges (expandDoc cyc) ∧
    ((0, "sim0".toList), (0, "red".toList)) ∈ edges (expandDoc cyc) ∧ acyclicB cyc = false := by
  decide +kernel

/-! ## why the conversion pre-pass must leave floats alone

`convert_component_types` applies `expected_type(value)` to `str`/`int`/`bool` values only.  Were floats converted
too, `int(2.5)` would hand the schema a proper `2`: the wrongly typed `numberProcesses: 2.5` would load with a value
the author did not write. -/

/-- `expected_type(value)` applied to a float as well (`int()` truncates) -/
def coerceFloat : ConvKind → Val → Val
  | .int, .float i _ => .int i
  | .optionalInt, .float i _ => .int i
  | _, v => v

def intRule : Schema := .or [.ty [.int], .pred .isVarReference]

theorem truncated_float_passes_int_rule : check intRule (coerceFloat .int (.float 2 true)) = [] := by decide
theorem float_fails_int_rule : check intRule (.float 2 true) = [.valueInvalid] ∧
    check intRule (.float 3 false) = [.valueInvalid] := by decide
/-- the conversion of the model (= of the source) does not touch it -/
theorem model_conversion_keeps_float : convert (.leaf .int) (.float 2 true) = some (.float 2 true) := rfl

/-! ## a binding value that names the importing entry (known finding C11-binding-to-import-entry)

`package_document_load` compares the binding values of a `$import` entry with a set of identifiers that contains
the `$import` entries themselves; `instantiate_dowhile_next_iteration` compares them with the components of the
graph.  When no looped component reads the binding, nothing of iteration 0 carries the dangling name: the package
loads, and the instantiation of iteration 1 raises `FlowIRReferenceToUnknownComponent`. -/

/-- `ca` (stage 0) feeds the loop imported as `stage1.loop0`; the second input binding `in1`, read by nobody, is
bound to the entry itself -/
def selfBound : Package :=
  { main := { comps := [{ stage := 0, name := "ca".toList, refs := [], argRefs := [], opts := .dict [], vars := [],
                          uses := [] }], globals := [] },
    loops := [{ stage := 1, name := "loop0".toList, inputs := ["in0".toList, "in1".toList],
                bindings := [("in0".toList, (0, "ca".toList)), ("in1".toList, (1, "loop0".toList))],
                loopBindings := [], cond := (0, "la".toList),
                comps := [{ stage := 0, name := "la".toList, refs := [(0, "in0".toList)], opts := .dict [],
                            vars := [], uses := [] }] }] }

/-- the code as it is accepts the package … -/
theorem asis_accepts_binding_to_import_entry :
    validateP Gen.C11.convTable Gen.C11.componentSchema selfBound = [] := by decide +kernel

/-- … and the binding check of the next iteration fails -/
theorem asis_next_iteration_raises :
    nextBindingErrors selfBound selfBound.loops.head! 0
      = [.bindingUnknown "in1".toList (1, "loop0".toList)] := by decide +kernel

/-- the hypothesis of `next_iteration_bindings_known_partial` excludes exactly this -/
theorem selfBound_violates_hypothesis : bindingsAvoidImportEntries selfBound selfBound.loops.head! = false := by
  decide +kernel

/-- the repaired load-time check reports the binding -/
theorem repaired_rejects_binding_to_import_entry :
    validatePFixed Gen.C11.convTable Gen.C11.componentSchema selfBound
      = [.loop (1, "loop0".toList) (.bindingUnknown "in1".toList (1, "loop0".toList))] := by decide +kernel

end St4sd.C11.Witness
