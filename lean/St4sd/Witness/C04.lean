import St4sd.Model.Resolve
import St4sd.Model.TreeFlatten
/-!
# C04 — witness: the override of ANOTHER platform can break the resolution

`get_component_configuration` applies `fill_in` to the whole layered dictionary, and the component layer
carries the complete `override` dictionary (all platforms).  A variable reference inside the override for
platform `q` is therefore interpolated with the variables of the platform being resolved: if the variable
exists only on `q`, resolving the component for `default` (or any other platform) fails with
`FlowIRVariableUnknown`, although no layer of that platform mentions the variable.  Replayed on the real
code by harness/c04.py (structural stream, `foreign-override-ref`; a package with such an override cannot
be loaded on the default platform).  The model reproduces the behaviour as it is.
-/
namespace St4sd.C04.Witness
open St4sd.Tree

def dW : Desc :=
  { platforms := [defaultName, ['q']], blueprint := [],
    variables := [(defaultName, { global := [], stages := [] }),
                  (['q'], { global := [("qonly".toList, .str ['Q'])], stages := [] })],
    comps := [⟨0, ['c'],
      [("stage".toList, .int 0), ("name".toList, .str ['c']),
       ("command".toList, .dict [("executable".toList, .str "echo".toList), ("arguments".toList, .str "hello".toList)]),
       ("variables".toList, .dict []),
       ("override".toList, .dict [(['q'], .dict [("command".toList,
            .dict [("arguments".toList, .str "--q=%(qonly)s".toList)])])])]⟩] }

/-- on `q` the component resolves … -/
theorem resolves_on_q :
    (match resolve dW ['q'] 0 ['c'] false 60 with
     | .ok v => lookupPath ["command".toList, "arguments".toList] v
     | .error _ => none) = some (.str "--q=Q".toList) := by rfl

/-- … on `default`, whose layers never mention `qonly`, the resolution fails because of `q`'s override. -/
theorem foreign_override_breaks_default :
    resolve dW defaultName 0 ['c'] false 60 = .error (.unknownVariable "qonly".toList) := by rfl

/-! ## witness: the fold binds references of global variables EARLY

`instance()` interpolates the global variables in the global scope (and the stage variables in global+stage
scope) once and for all.  A global variable `g: %(v)s-g` therefore keeps the GLOBAL value of `v` in the
flattened description even for a component whose stage (or own) section re-defines `v`; the un-flattened
description resolves `g` with the component's layered variables (`v` from the stage).  The two views of the
same workflow disagree - the layering clause of the property ("layer, THEN substitute") holds for the
un-flattened view only.  This is why `flatten_preserves_resolution` is stated for the layering skeleton and
`preevaluation_preserves_resolution` / `flatten_strict_pass_is_preevaluation` need the no-shadowing
hypothesis.  Replayed on the real code by harness/c04.py (stream `shadowed-reference`). -/

def dE : Desc :=
  { platforms := [defaultName], blueprint := [],
    variables := [(defaultName, { global := [(['v'], .str "dg".toList), (['g'], .str "%(v)s-g".toList)],
                                  stages := [(0, [(['v'], .str "ds".toList)])] })],
    comps := [⟨0, ['c'],
      [("stage".toList, .int 0), ("name".toList, .str ['c']),
       ("command".toList, .dict [("arguments".toList, .str "%(g)s".toList)]),
       ("variables".toList, .dict [])]⟩] }

def argumentsOf (r : Except Err Val) : St4sd.Str.S :=
  match r with
  | .ok v => (match lookupPath ["command".toList, "arguments".toList] v with
    | some (.str s) => s
    | _ => [])
  | .error _ => []

/-- un-flattened: the reference inside the global variable sees the stage value … -/
theorem unflattened_binds_late :
    argumentsOf (resolve dE defaultName 0 ['c'] false 60) = "ds-g".toList := by decide +kernel

/-- … flattened (what the runtime executes): it was bound to the global value when the description was folded. -/
theorem flattened_binds_early :
    (match flatten 60 dE defaultName false true with
     | .ok fd => argumentsOf (resolve fd defaultName 0 ['c'] false 60)
     | .error _ => []) = "dg-g".toList := by decide +kernel

end St4sd.C04.Witness
