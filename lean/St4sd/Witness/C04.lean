import St4sd.Model.Resolve
/-!
# C04 — witness: the override of ANOTHER platform can break the resolution

`get_component_configuration` applies `fill_in` to the whole layered dictionary, and the component layer
carries the complete `override` dictionary (all platforms).  A variable reference inside the override for
platform `q` is therefore interpolated with the variables of the platform being resolved: if the variable
exists only on `q`, resolving the component for `default` (or any other platform) fails with
`FlowIRVariableUnknown`, although no layer of that platform mentions the variable.  Replayed on the real
code by harness/c04.py (structural stream, `foreign-override-ref`; a package with such an override cannot
be loaded on the default platform).  The model reproduces the behaviour as it is.
-/
namespace St4sd.C04.Witness
open St4sd.Tree

def dW : Desc :=
  { platforms := [defaultName, ['q']], blueprint := [],
    variables := [(defaultName, { global := [], stages := [] }),
                  (['q'], { global := [("qonly".toList, .str ['Q'])], stages := [] })],
    comps := [⟨0, ['c'],
      [("stage".toList, .int 0), ("name".toList, .str ['c']),
       ("command".toList, .dict [("executable".toList, .str "echo".toList), ("arguments".toList, .str "hello".toList)]),
       ("variables".toList, .dict []),
       ("override".toList, .dict [(['q'], .dict [("command".toList,
            .dict [("arguments".toList, .str "--q=%(qonly)s".toList)])])])]⟩] }

/-- on `q` the component resolves … -/
theorem resolves_on_q :
    (match resolve dW ['q'] 0 ['c'] false 60 with
     | .ok v => lookupPath ["command".toList, "arguments".toList] v
     | .error _ => none) = some (.str "--q=Q".toList) := by rfl

/-- … on `default`, whose layers never mention `qonly`, the resolution fails because of `q`'s override. -/
theorem foreign_override_breaks_default :
    resolve dW defaultName 0 ['c'] false 60 = .error (.unknownVariable "qonly".toList) := by rfl

end St4sd.C04.Witness
