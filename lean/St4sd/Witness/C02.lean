import St4sd.Model.Ctrl
import St4sd.Model.CtrlSplit
/-!
# C02 — machine-checked counterexample to the full-strength confluence statement

Workflow (single stage): `c0 → c1 → c2` where `c1` has `shutdownOn = [KnownIssue]` and its task exits
with `KnownIssue`, and `c2` is a *repeating observer* of `c1` (same stage).  No task exits
unrecoverably.  The documented rules give `[finished, shutdown, shutdown]`.

* History `late`: `c1` has ended (shut down) before the scheduler pass that looks at `c2` → `c2` is
  shut down without running; `run()` raises `FinalStageNoFinishedLeafComponents`.
* History `early`: a scheduler pass runs while `c1` is still running → `c2` is launched (the
  repeating exception of C01), later finishes on its own → `[finished, shutdown, finished]`,
  `run()` returns normally.

Both histories are quiescent.  The same two schedules are replayed on the real Controller by
`harness/c02.py` (first corpus entry; known finding `C02-observer-of-shutdown-producer`).
-/
namespace St4sd.C02W
open St4sd.Ctrl

def wfW : Wf :=
  { n := 3
    cdef := fun i => match i with
      | 0 => {}
      | 1 => { preds := [0], shutdownOn := [.knownIssue], script := [.knownIssue] }
      | 2 => { preds := [1], isRepeat := true, script := [.success] }
      | _ => {}
    order := [0, 1, 2] }

def late : List Op :=
  [.sched, .sched, .exit 0, .pm 0, .fin 0, .sched, .exit 1, .pm 1, .sched, .fin 2, .fin 1]

def early : List Op :=
  [.sched, .sched, .exit 0, .pm 0, .fin 0, .sched, .sched, .exit 1, .pm 1, .fin 1, .exit 2, .pm 2, .fin 2]

/-- no component can fail: every rule-given state and every own outcome is finished or shutdown -/
theorem no_unrecoverable_exit :
    (List.range 3).all (fun c => spec wfW c != .failed && own wfW c != .failed) = true := by decide +kernel

theorem rules_say : (List.range 3).map (spec wfW) = [.finished, .shutdown, .shutdown] := by decide +kernel

theorem late_quiescent : quiescent wfW (run wfW late) = true := by decide +kernel
theorem early_quiescent : quiescent wfW (run wfW early) = true := by decide +kernel

theorem late_final :
    (List.range 3).map (fun c => ((run wfW late).comp c).ctrl) =
      [some .finished, some .shutdown, some .shutdown] := by decide +kernel

theorem early_final :
    (List.range 3).map (fun c => ((run wfW early).comp c).ctrl) =
      [some .finished, some .shutdown, some .finished] := by decide +kernel

/-- Negation of the full-strength `confluent_without_failure` at a concrete input: two quiescent
histories of the same workflow and exit scripts, without any unrecoverable exit, end with
different final states for `c2` (and one of them differs from the rules). -/
theorem not_confluent :
    quiescent wfW (run wfW late) = true ∧ quiescent wfW (run wfW early) = true ∧
    ((run wfW late).comp 2).ctrl ≠ ((run wfW early).comp 2).ctrl ∧
    ((run wfW early).comp 2).ctrl ≠ some (spec wfW 2) := by decide +kernel

/-- … and even what `run()` reports differs between the two orderings. -/
theorem verdict_depends_on_schedule :
    verdict wfW (run wfW late) = .noFinishedLeaf ∧ verdict wfW (run wfW early) = .ok := by decide +kernel

/-! ## the external stage-completion hook, before the repair `fixes/C02-completion-hook-unstaged.diff`

`c0 → c1` in one stage.  `c0` is running, `c1` waits for it (not staged in).  The package's `IsStageComplete`
hook returns `True`.  The closure of `_observe_completionCheck` used to call `_stopComponents` only
(`Ctrl.stopComponents`): `finish(SHUTDOWN)` on both.  `c0` is killed, ends SHUTDOWN and is recorded.  `c1`
becomes SHUTDOWN at once - but the controller never subscribed to it, so no notification ever reaches
`finishedCheck`, it is never added to `comp_done`, the scheduler skips it (its state is final) and the loop
of `Controller.run()` never ends.  (Rediscovered by the generator of `harness/c02.py` on the real Controller;
the schedule is its third corpus entry.) -/

def wfH : Wf :=
  { n := 2
    cdef := fun i => match i with
      | 0 => {}
      | 1 => { preds := [0] }
      | _ => {}
    order := [0, 1] }

/-- scheduler pass, the OLD hook, the killed task of `c0` exits, its notification is handled, two passes -/
def hookOld : St :=
  [Op.exit 0, .fin 0, .sched, .sched].foldl (step wfH) (stopComponents wfH (run wfH [.sched]) 0)

/-- nothing can happen any more (no live task, nothing queued, nothing to schedule), both components are
SHUTDOWN, and yet `c1` is not in `comp_done`: the stage loop does not terminate -/
theorem old_hook_strands_unstaged_component :
    quiescent wfH hookOld = true ∧
    (List.range 2).map (fun c => (hookOld.comp c).ctrl) = [some .shutdown, some .shutdown] ∧
    hookOld.done 0 = true ∧ hookOld.done 1 = false ∧ (hookOld.comp 1).staged = false ∧
    stageDone wfH hookOld = false := by decide +kernel

/-- the same history with the hook as it is now (`SOp.complete k` = `HOp.hook k` = `stopStage`): `c1` is
fake-finished, its notification reaches the controller and the stage completes -/
theorem repaired_hook_completes :
    let s := hrun wfH [.op .sched, .hook 0, .op (.exit 0), .op (.fin 0), .op (.fin 1), .op .sched]
    quiescent wfH s = true ∧ stageDone wfH s = true ∧
    (List.range 2).map (fun c => (s.comp c).ctrl) = [some .shutdown, some .shutdown] := by decide +kernel

end St4sd.C02W
