import St4sd.Model.CtrlLoop
/-!
# C01 — witness: waiting only for the LATEST iteration of a looped component is not enough

`CtrlLoop.readyLatest` drops, from the producers the consumer of a DoWhile loop waits for, the instances that a
later iteration has superseded.  A looped component that is off the critical path of the loop condition can still
be running when the next iteration exists and is over: the variant launches the consumer while that instance
(iteration 0 of component 1) has not ended; `CtrlLoop.ready` (the code that exists) does not.
-/
namespace St4sd.C01W
open St4sd.CtrlLoop

def loopEx : Loop := { n := 2, cond := 0, refs := [1] }

def opsLaggard : List Op :=
  [.exit 0 0, .crit 0 0 true, .post 0 0, .exit 1 0, .crit 1 0 true, .post 1 0,
   .exit 1 1, .crit 1 1 true, .post 1 1, .sched]

/-- the latest-only variant launches the consumer while instance (0, 1) is still running (phase 0) -/
theorem latest_only_launches_before_older_instance_is_over :
    ((runLatest loopEx [true, false] opsLaggard).launched.map (fun v => (v.1, v.2 0 1, v.2 1 1))) =
      some (1, 0, 3) := by decide

/-- the same history under the rule that exists: no launch -/
theorem all_instances_rule_does_not_launch :
    (run loopEx [true, false] opsLaggard).launched.isNone = true := by decide

end St4sd.C01W
