import St4sd.Model.Instance
/-!
Witness for C07 (DESIGN section 8 #14, known finding `C07-setoption-patch-lost`): the full statement
"the reloaded experiment has the same resolved configuration" is false of the code that exists as soon as an
option or variable was changed through `setOptionForNode` / `ComponentSpecification.setOption` before the store:
the patch is applied to the replicated `_concrete` only, `store_unreplicated_flowir_to_disk` dumps `_unreplicated`.

Input replayed by the harness on the real code (corpus case 0): one component `src` with
`workflowAttributes.maxRestarts: 2`, patched to 7, and a new variable `patched = pv`.
Names: 1 = `src`, 2 = option path `workflowAttributes.maxRestarts`, 3 = variable `patched`;
characters: 50 = '2', 55 = '7', 112 = 'p', 118 = 'v'.
-/
namespace St4sd.C07.Witness
open St4sd.Instance

def doc : Doc :=
  { vars := [(0, ⟨[], []⟩)], bps := [],
    comps := [{ stage := 0, name := 1, isDoc := false, opts := [(2, [.ch 50])], vars := [], ovr := [] }] }

def patched : Exp :=
  { doc := doc, plat := 0,
    patches := [⟨0, 1, false, 2, [.ch 55]⟩, ⟨0, 1, true, 3, [.ch 112, .ch 118]⟩] }

/-- before the reload the node answers maxRestarts = 7 and has the variable `patched` … -/
theorem running_sees_patch :
    runningConfig 4 patched = [⟨0, 1, [(2, [.ch 55])], [(3, [.ch 112, .ch 118])]⟩] := by decide

/-- … after store + reload it answers maxRestarts = 2 and the variable is gone -/
theorem reload_loses_patch :
    runningConfig 4 (reload 4 patched) = [⟨0, 1, [(2, [.ch 50])], []⟩] := by decide

/-- negation of the full-strength statement at this input (its other hypothesis holds) -/
theorem reload_changes_configuration :
    resolves 4 patched.doc patched.plat = true ∧ runningConfig 4 (reload 4 patched) ≠ runningConfig 4 patched := by
  decide

/-- the stored description does not mention the patch at all -/
theorem store_ignores_patches : store 4 patched = store 4 { patched with patches := [] } := rfl

/-! ### known finding `C07-platformless-restore-forgets-platform`

"Loading and storing again does not change the stored description" is false of the code that exists when the
instance was created for a platform `P ≠ default` and is loaded by `experimentFromInstance(dir)` (no platform; the
reload re-stores): the description is stored for `default`, which drops the raw `override.P` blocks and writes
`platforms: [default]`.  The resolved configuration is unchanged (`platformless_reload_preserves_resolution`), but
the description on disk differs and can no longer be loaded naming `P` (`FlowIRPlatformUnknown`).

Input: platform 1 (`hpc`), one component with variable 3 = "s" and `override.hpc.variables.3 = "f"`. -/

def docP : Doc :=
  { vars := [(0, ⟨[], []⟩), (1, ⟨[], []⟩)], bps := [],
    comps := [{ stage := 0, name := 1, isDoc := false, opts := [(2, [.ref 3])], vars := [(3, [.ch 115])],
                ovr := [⟨1, [], [(3, [.ch 102])]⟩] }] }

def onHpc : Exp := { doc := docP, plat := 1, patches := [] }

/-- the stored description holds the folded value and the raw override block … -/
theorem store_keeps_override :
    (store 4 onHpc).comps = [{ stage := 0, name := 1, isDoc := false, opts := [(2, [.ref 3])],
                               vars := [(3, [.ch 102])], ovr := [⟨1, [], [(3, [.ch 102])]⟩] }] := by decide

/-- … a platform-less load + store writes a different description (hypotheses of the round trip hold) … -/
theorem platformless_store_changes_description :
    resolves 4 onHpc.doc onHpc.plat = true ∧ store 4 (reloadAs 4 onHpc 0) ≠ store 4 onHpc := by decide

/-- … that resolves to the same configuration … -/
theorem platformless_same_configuration : runningConfig 4 (reloadAs 4 onHpc 0) = runningConfig 4 onHpc := by decide

/-- … and whose platform list no longer admits a load that names the platform -/
theorem platform_forgotten :
    loadable (storedPlatforms onHpc.plat) onHpc.plat = true ∧
    loadable (storedPlatforms (reloadAs 4 onHpc 0).plat) onHpc.plat = false := by decide

/-! ### why the stored description must keep explicitly empty collections

`FlowIR.compress_flowir` (the call sits commented out in `store_unreplicated_flowir_to_disk`) would drop every
empty dict/list before dumping.  For a list option whose inherited value is not empty that changes the experiment:
blueprint `restartHookOn: [K]`, component `restartHookOn: []` (path 2; characters 91 `[`, 75 `K`, 93 `]`). -/

def docEmpty : Doc :=
  { vars := [(0, ⟨[], []⟩)], bps := [(0, ⟨[(2, [.ch 91, .ch 75, .ch 93])], []⟩)],
    comps := [{ stage := 0, name := 1, isDoc := false, opts := [(2, [.ch 91, .ch 93])], vars := [], ovr := [] }] }

def expEmpty : Exp := { doc := docEmpty, plat := 0, patches := [] }

/-- the value `[]` -/
def isEmptyList (t : Tmpl) : Bool := t == [.ch 91, .ch 93]

/-- the store as it is keeps `[]`: same configuration after the reload, same description after a second store -/
theorem store_keeps_empty_list :
    runningConfig 4 expEmpty = [⟨0, 1, [(2, [.ch 91, .ch 93])], []⟩] ∧
    runningConfig 4 (reload 4 expEmpty) = runningConfig 4 expEmpty ∧
    store 4 (reload 4 expEmpty) = store 4 expEmpty := by decide

/-- a compressing store loses it: the reloaded component inherits the blueprint's list (the configuration
differs), and storing again folds that list into the component (the stored description changes once more) -/
theorem compressing_store_breaks_both_clauses :
    resolves 4 expEmpty.doc expEmpty.plat = true ∧
    runningConfig 4 (reloadCompressed isEmptyList 4 expEmpty) = [⟨0, 1, [(2, [.ch 91, .ch 75, .ch 93])], []⟩] ∧
    runningConfig 4 (reloadCompressed isEmptyList 4 expEmpty) ≠ runningConfig 4 expEmpty ∧
    storeCompressed isEmptyList 4 (reloadCompressed isEmptyList 4 expEmpty) ≠ storeCompressed isEmptyList 4 expEmpty := by
  decide

/-! ### why the store of a new iteration must not depend on how the experiment object was obtained

`instantiate_dowhile_next_iteration(…, store_flowir_to_disk=True)` stores unconditionally (`Instance.step`).  A variant
that stores only when the configuration object may update the instance files (`Instance.stepGated`) loses the iterations
of a restarted experiment (`elaunch --restart` loads with `updateInstanceConfiguration=False` and keeps looping): the
object in memory has the components of the new iteration, the next load of the directory does not.
History: create (component 1), iterate (component 5), restart, iterate (component 6), load. -/

def iter1 : Step := .iterate [{ stage := 0, name := 5, isDoc := false, opts := [], vars := [], ovr := [] }]
def iter2 : Step := .iterate [{ stage := 0, name := 6, isDoc := false, opts := [], vars := [], ovr := [] }]
def restartHistory : List Step := [iter1, .load 0 false, iter2, .load 0 false]

/-- the code that exists: the second load sees all three components (instance of `session_components`) -/
theorem restart_keeps_iterations :
    compIds (runSteps 4 (Session.create 4 ⟨doc, 0, []⟩) restartHistory).exp.doc
      = [(0, 1, false), (0, 5, false), (0, 6, false)] := by decide

/-- the gated variant: the restarted object holds component 6 after its iteration, the directory it maintains does
not, and the next load yields an experiment without it -/
theorem gated_store_loses_iterations_of_a_restart :
    compIds ((restartHistory.take 3).foldl (stepGated 4) (Session.create 4 ⟨doc, 0, []⟩)).exp.doc
      = [(0, 1, false), (0, 5, false), (0, 6, false)] ∧
    compIds ((restartHistory.take 3).foldl (stepGated 4) (Session.create 4 ⟨doc, 0, []⟩)).disk
      = [(0, 1, false), (0, 5, false)] ∧
    compIds (restartHistory.foldl (stepGated 4) (Session.create 4 ⟨doc, 0, []⟩)).exp.doc
      = [(0, 1, false), (0, 5, false)] := by decide


/-! ## components instantiated after a reload

`looped`: platform 1 (`hpc`); the default blueprint of stage 1 (the stage of the loop) sets option 50 (say
`resourceRequest.numberThreads`) to `2`, the global blueprint of platform 1 sets it to `4` and option 51 (say
`command.environment`) to `e`.  The new component 40 of the next iteration sets neither. -/

def looped : Exp :=
  { doc := { vars := [(0, ⟨[(10, [.ch 49])], []⟩)]
             bps := [(0, ⟨[], [(1, [(50, [.ch 50])])]⟩), (1, ⟨[(50, [.ch 52]), (51, [.ch 101])], []⟩)]
             comps := [ { stage := 0, name := 30, isDoc := false, opts := [(23, [.ch 120])], vars := [], ovr := [] },
                        { stage := 1, name := 31, isDoc := true, opts := [], vars := [], ovr := [] } ] }
    plat := 1, patches := [] }

def nextIter : Comp := { stage := 1, name := 40, isDoc := false, opts := [(23, [.ch 121])], vars := [], ovr := [] }

/-- the folding BEFORE fix 1b655bb (`flattenOld` / `reloadOld`: stored stage blueprint = default-stage + platform-stage
only): the experiment that holds the package description gives the new component the platform's value `4`, the
experiment loaded from the stored description the default-stage value `2` -/
theorem stored_blueprints_swap_stage_and_platform_layers :
    resolves 4 looped.doc 1 = true ∧ bpClosed 4 looped.doc 1 1 = true ∧ bpOrderFree looped.doc 1 1 = false ∧
    get? (flatComp 4 (addIteration looped [nextIter]).doc 1 nextIter).opts 50 = some [.ch 52] ∧
    get? (flatComp 4 (addIteration (reloadOld 4 looped) [nextIter]).doc 1 nextIter).opts 50 = some [.ch 50] := by decide

/-- the code that exists (after the fix: the stored stage blueprint repeats the platform-global blueprint above a
non-empty default-stage blueprint): the restarted experiment gives the platform's value `4` too — an instance of
`C07.new_component_after_reload_partial` -/
theorem stored_blueprints_keep_platform_global_above_default_stage :
    get? ((layerOf (store 4 looped).bps 0).stage 1) 50 = some [.ch 52] ∧
    get? (flatComp 4 (addIteration (reload 4 looped) [nextIter]).doc 1 nextIter).opts 50 = some [.ch 52] ∧
    sameComp (flatComp 4 (addIteration (reload 4 looped) [nextIter]).doc 1 nextIter)
      (flatComp 4 (addIteration looped [nextIter]).doc 1 nextIter) = true := by decide

/-- on the other paths the two foldings agree -/
theorem stored_blueprints_agree_elsewhere :
    get? (flatComp 4 (addIteration looped [nextIter]).doc 1 nextIter).opts 51 = some [.ch 101] ∧
    get? (flatComp 4 (addIteration (reload 4 looped) [nextIter]).doc 1 nextIter).opts 51 = some [.ch 101] ∧
    get? (flatComp 4 (addIteration (reloadOld 4 looped) [nextIter]).doc 1 nextIter).opts 51 = some [.ch 101] := by decide

/-- NOT the code that exists: a store that leaves the blueprints out (`storeNoBlueprints`: "the components already
have them folded in").  Right after the reload nothing differs — every existing component has the configuration it
had and storing again writes the same components — but the next iteration of the restarted experiment loses every
inherited setting: option 51 is absent where the never-reloaded experiment has `e`. -/
theorem blueprintless_store_breaks_next_iteration :
    (let R : Exp := { doc := storeNoBlueprints 4 looped, plat := 1, patches := [] }
     runningConfig 4 R = runningConfig 4 looped ∧
     (store 4 R).comps = (store 4 looped).comps ∧
     get? (flatComp 4 (addIteration looped [nextIter]).doc 1 nextIter).opts 51 = some [.ch 101] ∧
     get? (flatComp 4 (addIteration R [nextIter]).doc 1 nextIter).opts 51 = none) := by decide

/-! ### a writer that files components under their name alone

(`Instance.storeByName`, NOT the code that exists.)  `stage0.sim` and `stage1.sim` (name 30) share a name;
`stage1.collect` (31) consumes `stage1.sim`.  The experiment in memory has three components, the description such a
writer stores has two: the lookup of (0, 30) answers nothing after the reload, the component set and the resolved
configurations differ - while a description with stage-unique names is stored exactly as the real store does. -/

def twoStages : Exp :=
  { doc := { vars := [(0, ⟨[(10, [.ch 49])], []⟩)], bps := [],
             comps := [ { stage := 0, name := 30, isDoc := false, opts := [(23, [.ch 120])], vars := [], ovr := [] },
                        { stage := 1, name := 30, isDoc := false, opts := [(23, [.ch 121])], vars := [], ovr := [] },
                        { stage := 1, name := 31, isDoc := false, opts := [(23, [.ref 10])], vars := [], ovr := [] } ] },
    plat := 0, patches := [] }

theorem store_keeps_namesakes_of_different_stages :
    compIds (store 2 twoStages) = [(0, 30, false), (1, 30, false), (1, 31, false)] := by decide

theorem reload_answers_each_namesake_its_own_configuration :
    (runningConfig 2 (reload 2 twoStages)).map (fun r => (r.stage, r.name, get? r.opts 23))
      = [(0, 30, some [.ch 120]), (1, 30, some [.ch 121]), (1, 31, some [.ch 49])]
    ∧ (runningConfig 2 twoStages).map (fun r => (r.stage, r.name, get? r.opts 23))
      = [(0, 30, some [.ch 120]), (1, 30, some [.ch 121]), (1, 31, some [.ch 49])] := by decide +kernel

theorem name_keyed_store_loses_a_component :
    compIds (storeByName 2 twoStages) = [(1, 30, false), (1, 31, false)]
    ∧ (findComp (store 2 twoStages) 0 30).isSome = true
    ∧ findComp (storeByName 2 twoStages) 0 30 = none := by decide +kernel

theorem name_keyed_reload_has_a_component_less :
    (runningConfig 2 (reloadByName 2 twoStages)).map (fun r => (r.stage, r.name))
      = [(1, 30), (1, 31)] := by decide +kernel

theorem name_keyed_store_invisible_with_unique_names :
    (let E : Exp := { twoStages with doc := { twoStages.doc with comps := twoStages.doc.comps.drop 1 } }
     compIds (storeByName 2 E) = compIds (store 2 E)) := by decide +kernel

end St4sd.C07.Witness
