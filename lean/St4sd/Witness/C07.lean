import St4sd.Model.Instance
/-!
Witness for C07 (DESIGN section 8 #14, known finding `C07-setoption-patch-lost`): the full statement
"the reloaded experiment has the same resolved configuration" is false of the code that exists as soon as an
option or variable was changed through `setOptionForNode` / `ComponentSpecification.setOption` before the store:
the patch is applied to the replicated `_concrete` only, `store_unreplicated_flowir_to_disk` dumps `_unreplicated`.

Input replayed by the harness on the real code (corpus case 0): one component `src` with
`workflowAttributes.maxRestarts: 2`, patched to 7, and a new variable `patched = pv`.
Names: 1 = `src`, 2 = option path `workflowAttributes.maxRestarts`, 3 = variable `patched`;
characters: 50 = '2', 55 = '7', 112 = 'p', 118 = 'v'.
-/
namespace St4sd.C07.Witness
open St4sd.Instance

def doc : Doc :=
  { vars := [(0, ⟨[], []⟩)], bps := [],
    comps := [{ stage := 0, name := 1, isDoc := false, opts := [(2, [.ch 50])], vars := [], ovr := [] }] }

def patched : Exp :=
  { doc := doc, plat := 0,
    patches := [⟨0, 1, false, 2, [.ch 55]⟩, ⟨0, 1, true, 3, [.ch 112, .ch 118]⟩] }

/-- before the reload the node answers maxRestarts = 7 and has the variable `patched` … -/
theorem running_sees_patch :
    runningConfig 4 patched = [⟨0, 1, [(2, [.ch 55])], [(3, [.ch 112, .ch 118])]⟩] := by decide

/-- … after store + reload it answers maxRestarts = 2 and the variable is gone -/
theorem reload_loses_patch :
    runningConfig 4 (reload 4 patched) = [⟨0, 1, [(2, [.ch 50])], []⟩] := by decide

/-- negation of the full-strength statement at this input (its other hypothesis holds) -/
theorem reload_changes_configuration :
    resolves 4 patched.doc patched.plat = true ∧ runningConfig 4 (reload 4 patched) ≠ runningConfig 4 patched := by
  decide

/-- the stored description does not mention the patch at all -/
theorem store_ignores_patches : store 4 patched = store 4 { patched with patches := [] } := rfl

end St4sd.C07.Witness
