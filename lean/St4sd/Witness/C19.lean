import St4sd.Model.Ini
import St4sd.Model.IniNames
/-!
Witnesses for C19 (hand-written copies of the table rows as they are in the unrepaired code, so that
this file checks whatever the state of /repo):

* `max-restarts` is a known key (through `_translate_map`) but the reader's branch tests the FlowIR
  name `maxRestarts`: the line is consumed and the option is lost (fixes/C19-max-restarts-key.diff);
* the boolean printers apply `str(value).lower()` to a variable reference (fixes/C19-bool-varref-lowercased.diff);
* an explicitly empty list is written as `key = `, read as `[]` and removed by `compress_flowir`, so the
  default shows through (known finding).
-/
namespace St4sd.C19.Witness
open St4sd.Ini

def wa : List Char := "workflowAttributes".toList
def oldDump : List DumpEntry := [⟨[wa, "maxRestarts".toList], "max-restarts".toList, .strOf⟩]
def oldParse : List ParseEntry := [⟨"maxRestarts".toList, [([wa, "maxRestarts".toList], .parsed .toInt)]⟩]
def oldKnown : List (List Char) := ["max-restarts".toList, "replicate".toList]

/-- `maxRestarts = 4` is written as `max-restarts = 4`; reading the section back yields nothing at all -/
theorem old_max_restarts_lost :
    dumpSection oldDump [] [([wa, "maxRestarts".toList], .int 4)] = [("max-restarts".toList, "4".toList)] ∧
    parseSection oldParse oldKnown (dumpSection oldDump [] [([wa, "maxRestarts".toList], .int 4)]) = some [] := by decide

theorem old_tables_disagree : oldDump.all (agrees oldParse oldKnown) = false := by decide

/-- the repaired row agrees -/
theorem fixed_tables_agree :
    oldDump.all (agrees [⟨"max-restarts".toList, [([wa, "maxRestarts".toList], .parsed .toInt)]⟩] oldKnown) = true := by decide

/-- `resolvePath = %(GBool)s`: the old printer changes the name of the variable, the repaired one does not -/
theorem old_bool_printer_renames_variable :
    parse .toBool (print .strLower (.str "%(GBool)s".toList)) = some (.str "%(gbool)s".toList) ∧
    parse .toBool (print .lowerIfBool (.str "%(GBool)s".toList)) = some (.str "%(GBool)s".toList) ∧
    parse .toBool (print .lowerIfBool (.bool true)) = some (.bool true) := by decide

def hookOn : Path := [wa, "restartHookOn".toList]
def hookDump : List DumpEntry := [⟨hookOn, "restart-hook-on".toList, .joinWords⟩]
def hookParse : List ParseEntry := [⟨"restart-hook-on".toList, [(hookOn, .parsed .split)]⟩]
def dflt (p : Path) : Val := if p = hookOn then .words ["ResourceExhausted".toList] else .none

/-- an explicitly empty `restartHookOn` survives writer and reader (`restart-hook-on = ` → `[]`) but not
`compress_flowir`: the resolved option is the default `['ResourceExhausted']` again -/
theorem empty_list_shows_default :
    parseSection hookParse ["restart-hook-on".toList] (dumpSection hookDump [] [(hookOn, .words [])])
      = some [(hookOn, .words [])] ∧
    resolve dflt [(hookOn, .words [])] hookOn = .words [] ∧
    resolve dflt (compress [(hookOn, .words [])]) hookOn = .words ["ResourceExhausted".toList] := by decide

/-! Name decoders that agree with the coded ones on the names of ordinary packages (one hyphen, one digit)
but not on the whole name class of `Props.C19.section_name_roundtrip` / `stage_section_roundtrip`. -/
section Names
open St4sd.IniNames St4sd.Str

/-- `split('-')[1]` equals `[4:]` for `ENV-MPI` but truncates an environment whose own name has a hyphen -/
theorem split_at_hyphen_truncates :
    envNameBySplit (envSection "mpi".toList) = envName (envSection "mpi".toList) ∧
    envNameBySplit (envSection "hpc-python".toList) = some "HPC".toList ∧
    envName (envSection "hpc-python".toList) = some "HPC-PYTHON".toList := by decide

/-- reading one digit of the stage index is right up to `STAGE9` and wrong from `STAGE10` on -/
theorem one_digit_stage_index_breaks_at_ten :
    stageIndexOneDigit (stageSection 9) = some 9 ∧ stageIndexOneDigit (stageSection 10) = some 1 ∧
    stageIndex (stageSection 10) = some 10 := by decide

end Names

end St4sd.C19.Witness
