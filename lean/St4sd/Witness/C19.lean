import St4sd.Model.Ini
import St4sd.Model.IniNames
import St4sd.Model.IniFloat
import St4sd.Model.IniProc
import St4sd.Model.IniDir
/-!
Witnesses for C19 (hand-written copies of the table rows as they are in the unrepaired code, so that
this file checks whatever the state of /repo):

* `max-restarts` is a known key (through `_translate_map`) but the reader's branch tests the FlowIR
  name `maxRestarts`: the line is consumed and the option is lost (fixes/C19-max-restarts-key.diff);
* the boolean printers apply `str(value).lower()` to a variable reference (fixes/C19-bool-varref-lowercased.diff);
* an explicitly empty list is written as `key = `, read as `[]` and removed by `compress_flowir`, so the
  default shows through (known finding).
-/
namespace St4sd.C19.Witness
open St4sd.Ini

def wa : List Char := "workflowAttributes".toList
def oldDump : List DumpEntry := [⟨[wa, "maxRestarts".toList], "max-restarts".toList, .strOf⟩]
def oldParse : List ParseEntry := [⟨"maxRestarts".toList, [([wa, "maxRestarts".toList], .parsed .toInt)]⟩]
def oldKnown : List (List Char) := ["max-restarts".toList, "replicate".toList]

/-- `maxRestarts = 4` is written as `max-restarts = 4`; reading the section back yields nothing at all -/
theorem old_max_restarts_lost :
    dumpSection oldDump [] [([wa, "maxRestarts".toList], .int 4)] = [("max-restarts".toList, "4".toList)] ∧
    parseSection oldParse oldKnown (dumpSection oldDump [] [([wa, "maxRestarts".toList], .int 4)]) = some [] := by decide

theorem old_tables_disagree : oldDump.all (agrees oldParse oldKnown) = false := by decide

/-- the repaired row agrees -/
theorem fixed_tables_agree :
    oldDump.all (agrees [⟨"max-restarts".toList, [([wa, "maxRestarts".toList], .parsed .toInt)]⟩] oldKnown) = true := by decide

/-- `resolvePath = %(GBool)s`: the old printer changes the name of the variable, the repaired one does not -/
theorem old_bool_printer_renames_variable :
    parse .toBool (print .strLower (.str "%(GBool)s".toList)) = some (.str "%(gbool)s".toList) ∧
    parse .toBool (print .lowerIfBool (.str "%(GBool)s".toList)) = some (.str "%(GBool)s".toList) ∧
    parse .toBool (print .lowerIfBool (.bool true)) = some (.bool true) := by decide

def hookOn : Path := [wa, "restartHookOn".toList]
def hookDump : List DumpEntry := [⟨hookOn, "restart-hook-on".toList, .joinWords⟩]
def hookParse : List ParseEntry := [⟨"restart-hook-on".toList, [(hookOn, .parsed .split)]⟩]
def dflt (p : Path) : Val := if p = hookOn then .words ["ResourceExhausted".toList] else .none

/-- an explicitly empty `restartHookOn` survives writer and reader (`restart-hook-on = ` → `[]`) but not
`compress_flowir`: the resolved option is the default `['ResourceExhausted']` again -/
theorem empty_list_shows_default :
    parseSection hookParse ["restart-hook-on".toList] (dumpSection hookDump [] [(hookOn, .words [])])
      = some [(hookOn, .words [])] ∧
    resolve dflt [(hookOn, .words [])] hookOn = .words [] ∧
    resolve dflt (compress [(hookOn, .words [])]) hookOn = .words ["ResourceExhausted".toList] := by decide

/-! Name decoders that agree with the coded ones on the names of ordinary packages (one hyphen, one digit)
but not on the whole name class of `Props.C19.section_name_roundtrip` / `stage_section_roundtrip`. -/
section Names
open St4sd.IniNames St4sd.Str

/-- `split('-')[1]` equals `[4:]` for `ENV-MPI` but truncates an environment whose own name has a hyphen -/
theorem split_at_hyphen_truncates :
    envNameBySplit (envSection "mpi".toList) = envName (envSection "mpi".toList) ∧
    envNameBySplit (envSection "hpc-python".toList) = some "HPC".toList ∧
    envName (envSection "hpc-python".toList) = some "HPC-PYTHON".toList := by decide

/-- reading one digit of the stage index is right up to `STAGE9` and wrong from `STAGE10` on -/
theorem one_digit_stage_index_breaks_at_ten :
    stageIndexOneDigit (stageSection 9) = some 9 ∧ stageIndexOneDigit (stageSection 10) = some 1 ∧
    stageIndex (stageSection 10) = some 10 := by decide

end Names

/-! A printer with a fixed precision (`'%.2f' % value`, the format of the auto-generated default weights)
instead of `str(value)` looks the same on weights such as 0.01 / 0.04 / 0.95 and is not a round trip on the
float fields that have more digits. -/
section Numbers
open St4sd.IniFloat St4sd.Str

def w0005 : Lit := ⟨false, ['0'], some ['0', '0', '5'], none⟩
def w0125 : Lit := ⟨false, ['0'], some ['1', '2', '5'], none⟩
def w075 : Lit := ⟨false, ['0'], some ['7', '5'], none⟩
def w004 : Lit := ⟨false, ['0'], some ['0', '4'], none⟩

/-- `str(0.005)` is read back as 0.005; with two fixed fraction digits the file says 0.00 (digits cut off) or
0.01 (rounded) and the loaded weight is another number -/
theorem fixed_precision_printer_does_not_roundtrip :
    canonical w0005 = true ∧ printWeight w0005 = "0.005".toList ∧ parseWeight (printWeight w0005) = some w0005 ∧
    printFixed2 w0005 = "0.00".toList ∧ parseWeight (printFixed2 w0005) ≠ some w0005 ∧
    printFixed2Round w0005 = "0.01".toList ∧ parseWeight (printFixed2Round w0005) ≠ some w0005 := by decide

/-- the same for 0.125 (0.12 / 0.13), while a weight with two decimals survives both printers up to its literal's
value (0.04 -> 0.04) -/
theorem fixed_precision_printer_0125 :
    canonical w0125 = true ∧ parseWeight (printWeight w0125) = some w0125 ∧
    printFixed2 w0125 = "0.12".toList ∧ parseWeight (printFixed2 w0125) ≠ some w0125 ∧
    printFixed2Round w0125 = "0.13".toList ∧ parseWeight (printFixed2Round w0125) ≠ some w0125 ∧
    parseWeight (printFixed2 w004) = some w004 ∧ parseWeight (printFixed2Round w004) = some w004 := by decide

/-- thousandths of an exponent-free literal -/
def thousandths (w : Lit) : Nat := (digitsToNat? (w.int ++ ((w.frac.getD []) ++ ['0', '0', '0']).take 3)).getD 0

/-- the weights 0.125 / 0.125 / 0.75 add up to one; what a two-digit printer leaves of them does not
(0.12 + 0.12 + 0.75 = 0.99), so FlowIR would replace all of them by equal weights -/
theorem fixed_precision_breaks_the_sum :
    ([w0125, w0125, w075].map thousandths).sum = 1000 ∧
    ([w0125, w0125, w075].map fun w => thousandths (fixed2 w)).sum = 990 := by decide

end Numbers

/-! ### why `known_flowir_options()` must hand out a fresh list

`validate_component` extends the answer of `known_flowir_options()` with the options of the component's backend.  If
the answer were one cached list object (`IniProc.parseSeq true`), every option name of a backend read earlier in the
process would count as a known key from then on: a component variable of that name (the simulator backend is
parametrised through such variables) is consumed by the if/elif chain, which has no branch for it, and is lost — in
the simulator component itself and in every component read later, of any workflow. -/
section Process
open St4sd.IniProc

def simKey : List Char := "sim_expected_exit_code".toList
def procParse : List ParseEntry :=
  [⟨jobType, [(["resourceManager".toList, "config".toList, "backend".toList], .parsed .raw)]⟩]
def procKnown : List (List Char) := [jobType]
def procBackends : BackendTable := [("simulator".toList, [simKey])]
def simSection : Section := [(jobType, "simulator".toList), (simKey, "0".toList)]
def laterSection : Section := [(jobType, "local".toList), (simKey, "3".toList)]

/-- the code that exists: both components keep the variable, in either order -/
theorem fresh_list_keeps_variables :
    (parseSeq false procParse procBackends ⟨procKnown⟩ [simSection, laterSection]).2
      = [some [(["resourceManager".toList, "config".toList, "backend".toList], .str "simulator".toList),
               ([variablesSeg, simKey], .str "0".toList)],
         some [(["resourceManager".toList, "config".toList, "backend".toList], .str "local".toList),
               ([variablesSeg, simKey], .str "3".toList)]] := by decide

/-- a cached list: the variable is gone from both components … -/
theorem cached_list_drops_variables :
    (parseSeq true procParse procBackends ⟨procKnown⟩ [simSection, laterSection]).2
      = [some [(["resourceManager".toList, "config".toList, "backend".toList], .str "simulator".toList)],
         some [(["resourceManager".toList, "config".toList, "backend".toList], .str "local".toList)]] := by decide

/-- … and the answer for `laterSection` depends on what was read before -/
theorem cached_list_answer_depends_on_history :
    (parseSeq true procParse procBackends ⟨procKnown⟩ [laterSection]).2
      = [some [(["resourceManager".toList, "config".toList, "backend".toList], .str "local".toList),
               ([variablesSeg, simKey], .str "3".toList)]] := by decide

end Process

/-! ### why the clean-up of `dump(update_existing=True)` must remove every stage file of the flavour

A clean-up that removes only the files about to be regenerated (`IniDir.dumpKeep`) leaves the file of a stage that the
new description no longer has; `_discover_stages` picks it up and the loaded description has a phantom stage. -/
section Directory
open St4sd.IniDir

def three : Files Nat := descOf [10, 11, 12]
def two : Files Nat := descOf [20, 21]

theorem cleanup_of_all_stage_files_no_phantom :
    discover ((dump (dump (⟨[], []⟩ : Dir Nat) true three) true two).files true) = some [20, 21] := by decide

theorem partial_cleanup_leaves_phantom_stage :
    discover ((dumpKeep (dumpKeep (⟨[], []⟩ : Dir Nat) true three) true two).files true) = some [20, 21, 12] := by decide

end Directory

end St4sd.C19.Witness
