import St4sd.Model.Weights
/-!
Witnesses for C20: the algorithm *before* the repair (`keptOld`: keep iff the truncated
thousandths `int(w*1000)` sum to 1000) violates the property.  The `ts` below are the values
CPython computes for the weights named in the comment; the harness replays the same weights
on the real loader.
-/
namespace St4sd.C20.Witness
open St4sd.Weights

/-- (0.5004, 0.5004): truncated to (500, 500): kept although the sum is 1.0008 -/
theorem old_keeps_sum_above_one : keptOld [500, 500] = true ∧ sum [500400000, 500400000] ≠ one := by decide
/-- (-0.5, 1.5): kept although one weight is negative -/
theorem old_keeps_negative : keptOld [-500, 1500] = true ∧ allNonneg [-500000000, 1500000000] = false := by decide
/-- (0.3333, 0.3333, 0.3334) sums to one but is replaced -/
theorem old_replaces_proper : keptOld [333, 333, 333] = false ∧ sum [333300000, 333300000, 333400000] = one := by decide

/-! Reading the in-transit list and the finished list at two different instants (not inside
one `comp_lock` critical section) breaks the hypothesis of `progress_of_partition_le_one`. -/

/-- weights (0.1, 0.8, 0.1), current stage 0 complete; stage 1 is read as in transit (its
progress already 1.0), completes, and is then read as finished too: it is counted twice and
the reported total is 1.7 > 1. -/
theorem double_count_without_disjointness :
    checkTotal 1000 0 [1] [1] (readOf [1000, 1000, 0]) [100000000, 800000000, 100000000] = 1700 * one ∧
    ¬ (checkTotal 1000 0 [1] [1] (readOf [1000, 1000, 0]) [100000000, 800000000, 100000000]
        ≤ 1000 * sum [100000000, 800000000, 100000000]) := by decide

/-- the other order (finished list first, in-transit list later): a stage that completes in
between is in neither list and its weight is lost: the total (0.1) is below the progress of
every state the controller went through (0.9). -/
theorem lost_stage_without_snapshot :
    checkTotal 1000 0 [] [] (readOf [1000, 0, 0]) [100000000, 800000000, 100000000] = 100 * one ∧
    wsum (readOf [1000, 1000, 0]) [100000000, 800000000, 100000000] = 900 * one := by decide

/-- a finished list with a repetition counts the stage twice as well -/
theorem double_count_with_repetition :
    ¬ (checkTotal 1000 0 [] [1, 1] (readOf [0, 0]) [200000000, 800000000] ≤ 1000 * sum [200000000, 800000000]) := by
  decide

/-- Twelve stages lined up by the lexicographic order of their names (stage0, stage1, stage10,
stage11, stage2, …): the list passes `StatusMonitor`'s re-check (`proper`) but position 2 holds
the weight of stage 10 — not what `monitor_keeps_loaded` states. -/
theorem lexicographic_order_passes_recheck :
    let loaded : List Int := [10, 10, 10, 10, 10, 10, 10, 10, 10, 10, 10, 890].map (· * 1000000)
    let lex : List Int := [10, 10, 10, 890, 10, 10, 10, 10, 10, 10, 10, 10].map (· * 1000000)
    proper loaded = true ∧ proper lex = true ∧ monitorWeights loaded = some loaded ∧ lex ≠ loaded := by decide

/-- A loader that validates with the default 0.0 but does not store it: package weights
(0.4, 0.6, missing) sum to one, yet `StatusMonitor` meets a stage without `stage-weight`, puts its
sentinel there, fails its own test and falls back to `1/n` for ALL stages — whereas the report of
the real loader (`loadReport`) gives (0.4, 0.6, 0.0). -/
theorem report_without_default_falls_back :
    monitorFromReport (loadReportNoDefault [some 400000000, some 600000000, none]) = none ∧
    monitorFromReport (loadReport [some 400000000, some 600000000, none]) = some [400000000, 600000000, 0] := by
  decide

/-- A denominator remembered at the first query goes stale when the stage grows: one component,
queried, finished; the DoWhile adds two components which finish too: 3 finished over the
remembered population 1 (progress 3.0), where the current population gives 3/3. -/
theorem stale_population_exceeds_one :
    let c := run ⟨[[false], [false]], [none, none]⟩ [.query 1, .fin 1 0, .grow 1 2, .fin 1 1, .fin 1 2]
    queryStageStale c 1 = (3, 1) ∧ queryStage c 1 = (3, 3) := by decide

/-- An in-transit list that skips nodes by their STATE being FINISHED (instead of by `comp_done`
membership) puts a stage that completed with a SHUTDOWN component into BOTH lists: its weight is
counted 1 + 1/2 times (0.3 instead of 0.2 while stage 1 runs) and the total exceeds one (1.1) once every
stage has completed — `compTotal` (lists from `comp_done`) reports 0.2 and 1.0 on the same states. -/
theorem by_state_in_transit_double_counts :
    let ws := [200000000, 300000000, 500000000]
    let s1 : List (List Comp) := [[⟨some .finished, true⟩, ⟨some .shutdown, true⟩], [Comp.fresh], [Comp.fresh]]
    let s2 : List (List Comp) := [[⟨some .finished, true⟩, ⟨some .shutdown, true⟩], [⟨some .finished, true⟩], [⟨some .finished, true⟩]]
    (0 ∈ inTransitByStateOf s1 ∧ 0 ∈ finishedOf s1) ∧
    compTotalByState 1 s1 ws = 2 * 300000000 ∧ compTotal 1 s1 ws = 2 * 200000000 ∧
    compTotalByState 2 s2 ws = 2 * 1100000000 ∧ compTotal 2 s2 ws = 2 * one := by decide

/-- The code that exists reports the FINISHED fraction for the CURRENT stage even when all of its
components terminated: a last stage that was stopped (one component FINISHED, one SHUTDOWN) keeps the
total at 0.75 although every stage has terminated (hypothesis `hcur` of `comp_total_complete`). -/
theorem current_stage_with_stopped_component_stays_below_one :
    compTotal 1 [[⟨some .finished, true⟩], [⟨some .finished, true⟩, ⟨some .shutdown, true⟩]]
      [500000000, 500000000] = 2 * 750000000 := by decide

end St4sd.C20.Witness
