import St4sd.Model.Weights
/-!
Witnesses for C20: the algorithm *before* the repair (`keptOld`: keep iff the truncated
thousandths `int(w*1000)` sum to 1000) violates the property.  The `ts` below are the values
CPython computes for the weights named in the comment; the harness replays the same weights
on the real loader.
-/
namespace St4sd.C20.Witness
open St4sd.Weights

/-- (0.5004, 0.5004): truncated to (500, 500): kept although the sum is 1.0008 -/
theorem old_keeps_sum_above_one : keptOld [500, 500] = true ∧ sum [500400000, 500400000] ≠ one := by decide
/-- (-0.5, 1.5): kept although one weight is negative -/
theorem old_keeps_negative : keptOld [-500, 1500] = true ∧ allNonneg [-500000000, 1500000000] = false := by decide
/-- (0.3333, 0.3333, 0.3334) sums to one but is replaced -/
theorem old_replaces_proper : keptOld [333, 333, 333] = false ∧ sum [333300000, 333300000, 333400000] = one := by decide

end St4sd.C20.Witness
