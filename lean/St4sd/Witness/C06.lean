import St4sd.Model.Dsl
/-!
# C06 — machine-checked counterexamples for the algorithms as coded before fixes/C06-*.diff

The same inputs are in the corpus of `harness/c06.py` and fail on the unfixed real code
(`FlowIRComponentExists`, `AttributeError`, endless loop / silently wrong producer, `KeyError`).
-/
namespace St4sd.C06.Witness
open St4sd.Dsl St4sd.Str

private def lc (s : String) : S := s.toList

/-- (a) steps `foo-I`, `foo` (visit order of `main`) and `foo` of a nested workflow: the counter-based naming
produces `foo-I` twice. -/
theorem old_naming_collides :
    assignNamesOld [] [lc "foo-I", lc "foo", lc "foo"] = [lc "foo-I", lc "foo", lc "foo-I"] ∧
    ¬ (assignNamesOld [] [lc "foo-I", lc "foo", lc "foo"]).Nodup := by decide

/-- … while the repaired naming takes the first unused suffix. -/
theorem new_naming_distinct :
    assignNames [] [lc "foo-I", lc "foo", lc "foo"] = some [(0, lc "foo-I"), (0, lc "foo"), (0, lc "foo-II")] := by
  decide

/-- (b) a step called `step1` is kept as component name although it is not a valid component name
(`SignatureNamePattern.fullmatch` is `None` in the code → `AttributeError`); the repaired flattener reports it. -/
theorem old_naming_keeps_invalid_name :
    assignNamesOld [] [lc "step1"] = [lc "step1"] ∧ validName (lc "step1") = false := by decide

/-- (c) `OutputReference.split` as coded: a reference to the *workflow* step `a` is attributed to the unrelated
component `c` (overlap 1), a reference to the missing step `a/nosuch` to `a/p` (overlap 2); the repaired `split`
finds no producer, which is reported as an error. -/
theorem old_split_accepts_partial_overlap :
    splitOld [[lc "e", lc "c"], [lc "e", lc "a", lc "p"]] [lc "e", lc "a"] = some ([lc "e", lc "c"], []) ∧
    splitOld [[lc "e", lc "c"], [lc "e", lc "a", lc "p"]] [lc "e", lc "a", lc "nosuch"] = some ([lc "e", lc "a", lc "p"], []) ∧
    split [[lc "e", lc "c"], [lc "e", lc "a", lc "p"]] [lc "e", lc "a"] = none ∧
    split [[lc "e", lc "c"], [lc "e", lc "a", lc "p"]] [lc "e", lc "a", lc "nosuch"] = none := by decide

/-- (d) a component whose `command.environment` names a parameter it does not have: the code as it was raised a
bare `KeyError` (after recording the proper error); the repaired check refuses it with a located DSL error. -/
theorem old_env_unknown_parameter_raises_keyerror :
    envOfOld [(lc "env", [.dict (lc "{A:1}")])] (some (lc "nosuch")) = .keyError ∧
    envOf [(lc "env", [.dict (lc "{A:1}")])] (some (lc "nosuch")) = none ∧
    envOfOld [(lc "env", [.dict (lc "{A:1}")])] (some (lc "env")) = .ok (.dict (lc "{A:1}")) := by decide

/-- (e) why names must be compared as parsed `(stage, name)` pairs: the step names `generate` and `stage0.generate`
are different strings, both are read as `(0, generate)` by the name pattern; the naming keeps them apart. -/
theorem spellings_collide_as_strings_not_as_names :
    lc "generate" ≠ lc "stage0.generate" ∧
    parseName (lc "generate") = parseName (lc "stage0.generate") ∧
    assignNames [] [lc "generate", lc "stage0.generate"] = some [(0, lc "generate"), (0, lc "generate-I")] := by decide

private def e : Name := entryName
private def first (replicates : Bool) : Inst :=
  ⟨[e, lc "first"], .tmpl true 0 (some 0), 0, [], [], none, replicates, false, false⟩
private def second (aggregates : Bool) : Inst :=
  ⟨[e, lc "second"], .tmpl true 0 (some 1), 1, [(lc "m", [.ref [e, lc "first"] (some (lc "output"))])], [], none,
    false, aggregates, false⟩
private def third : Inst :=
  ⟨[e, lc "third"], .tmpl true 0 (some 2), 2, [(lc "m", [.ref [e, lc "second"] (some (lc "output"))])], [], none,
    false, false, false⟩
/-- `first` (replicates?) → `second` (aggregates?) → `third` -/
private def chain (secondAggregates firstReplicates : Bool) : List Inst :=
  [first firstReplicates, second secondAggregates, third]

/-- (f) the hypothesis `Memo.Sound` of `memo_answer_sound` is needed: with memo dictionaries that hold entries of
*another* namespace (same locations, other roles) `can_template_replicate` answers wrongly in both directions —
`third` of `first(replicate) → second → third` is a replica, but not with a stale "`second` aggregates" entry;
`third` of `first → second → third` (nothing replicates) is not, but is with a stale "`second` replicates" entry. -/
theorem stale_memo_changes_the_answer :
    isReplica (chain false true) third = true ∧
    (canReplicateM (chain false true) {} third).1 = true ∧
    (canReplicateM (chain false true) { agg := [[e, lc "second"]] } third).1 = false ∧
    isReplica (chain false false) third = false ∧
    (canReplicateM (chain false false) {} third).1 = false ∧
    (canReplicateM (chain false false) { rep := [[e, lc "second"]] } third).1 = true := by decide

/-- the memo a compilation leaves behind is exactly such an entry: compiling `first(replicate) → second(aggregate)`
records "`entry-instance/second` aggregates" -/
theorem memo_left_behind :
    (canReplicateM (chain true true) {} (second true)).2 = { agg := [[e, lc "second"]] } := by decide

/-- (g) the hypothesis "the hash tells different dictionaries apart" of `environment_binding_faithful` is needed: a
hash that only looks at the variable NAMES binds the second component (same names, other values) to the first
component's environment; the hash by canonical text keeps them apart. -/
theorem names_only_hash_shares_environment :
    (bindAll (fun d => d.takeWhile (· != '=')) [] [lc "MODE=fast", lc "MODE=accurate"]).1 = [0, 0] ∧
    (bindAll (fun d => d.takeWhile (· != '=')) [] [lc "MODE=fast", lc "MODE=accurate"]).2 =
      [(lc "MODE", lc "MODE=fast")] ∧
    (bindAll (fun d => d) [] [lc "MODE=fast", lc "MODE=accurate"]).1 = [0, 1] := by decide

end St4sd.C06.Witness
