import St4sd.Model.Dsl
/-!
# C06 — machine-checked counterexamples for the algorithms as coded before fixes/C06-*.diff

The same inputs are in the corpus of `harness/c06.py` and fail on the unfixed real code
(`FlowIRComponentExists`, `AttributeError`, endless loop / silently wrong producer, `KeyError`).
-/
namespace St4sd.C06.Witness
open St4sd.Dsl St4sd.Str

private def lc (s : String) : S := s.toList

/-- (a) steps `foo-I`, `foo` (visit order of `main`) and `foo` of a nested workflow: the counter-based naming
produces `foo-I` twice. -/
theorem old_naming_collides :
    assignNamesOld [] [lc "foo-I", lc "foo", lc "foo"] = [lc "foo-I", lc "foo", lc "foo-I"] ∧
    ¬ (assignNamesOld [] [lc "foo-I", lc "foo", lc "foo"]).Nodup := by decide

/-- … while the repaired naming takes the first unused suffix. -/
theorem new_naming_distinct :
    assignNames [] [lc "foo-I", lc "foo", lc "foo"] = some [lc "foo-I", lc "foo", lc "foo-II"] := by decide

/-- (b) a step called `step1` is kept as component name although it is not a valid component name
(`SignatureNamePattern.fullmatch` is `None` in the code → `AttributeError`); the repaired flattener reports it. -/
theorem old_naming_keeps_invalid_name :
    assignNamesOld [] [lc "step1"] = [lc "step1"] ∧ validName (lc "step1") = false := by decide

/-- (c) `OutputReference.split` as coded: a reference to the *workflow* step `a` is attributed to the unrelated
component `c` (overlap 1), a reference to the missing step `a/nosuch` to `a/p` (overlap 2); the repaired `split`
finds no producer, which is reported as an error. -/
theorem old_split_accepts_partial_overlap :
    splitOld [[lc "e", lc "c"], [lc "e", lc "a", lc "p"]] [lc "e", lc "a"] = some ([lc "e", lc "c"], []) ∧
    splitOld [[lc "e", lc "c"], [lc "e", lc "a", lc "p"]] [lc "e", lc "a", lc "nosuch"] = some ([lc "e", lc "a", lc "p"], []) ∧
    split [[lc "e", lc "c"], [lc "e", lc "a", lc "p"]] [lc "e", lc "a"] = none ∧
    split [[lc "e", lc "c"], [lc "e", lc "a", lc "p"]] [lc "e", lc "a", lc "nosuch"] = none := by decide

/-- (d) a component whose `command.environment` names a parameter it does not have: the code as it was raised a
bare `KeyError` (after recording the proper error); the repaired check refuses it with a located DSL error. -/
theorem old_env_unknown_parameter_raises_keyerror :
    envOfOld [(lc "env", [.dict (lc "{A:1}")])] (some (lc "nosuch")) = .keyError ∧
    envOf [(lc "env", [.dict (lc "{A:1}")])] (some (lc "nosuch")) = none ∧
    envOfOld [(lc "env", [.dict (lc "{A:1}")])] (some (lc "env")) = .ok (.dict (lc "{A:1}")) := by decide

end St4sd.C06.Witness
