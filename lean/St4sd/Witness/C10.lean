import St4sd.Model.ArgSubst
/-!
Witnesses for C10: the algorithm *before* the repair (`resolveOld`: one `str.replace` per reference, in
declaration order) violates the statement.  The harness replays the same inputs on the real code
(harness/c10.py `CORPUS`).
-/
namespace St4sd.C10.Witness
open St4sd.ArgSubst St4sd.Str

def refA : Ref := { abs := "stage0.A:ref".toList, rel := "A:ref".toList, relActive := true, kind := .ref, value := some "/i/stages/stage0/A".toList }
def refBA : Ref := { abs := "stage0.BA:ref".toList, rel := "BA:ref".toList, relActive := true, kind := .ref, value := some "/i/stages/stage0/BA".toList }

/-- one producer's name ends another's: `BA:ref` becomes `B<path of A>` and `BA` is reported unused … -/
theorem old_name_containment :
    (resolveOld [refA, refBA] "x=BA:ref y=A:ref".toList).out = "x=B/i/stages/stage0/A y=/i/stages/stage0/A".toList ∧
    (resolveOld [refA, refBA] "x=BA:ref y=A:ref".toList).unused = ["stage0.BA:ref".toList] := by decide

/-- … but not when the references are declared in the other order: the result depends on the declaration order -/
theorem old_order_dependent :
    (resolveOld [refBA, refA] "x=BA:ref y=A:ref".toList).out = "x=/i/stages/stage0/BA y=/i/stages/stage0/A".toList ∧
    (resolveOld [refA, refBA] "x=BA:ref y=A:ref".toList).out ≠ (resolveOld [refBA, refA] "x=BA:ref y=A:ref".toList).out := by
  decide

/-- the repaired algorithm gives the exact result in both orders -/
theorem new_exact_both_orders :
    (resolve [refA, refBA] "x=BA:ref y=A:ref".toList).out = "x=/i/stages/stage0/BA y=/i/stages/stage0/A".toList ∧
    (resolve [refBA, refA] "x=BA:ref y=A:ref".toList).out = "x=/i/stages/stage0/BA y=/i/stages/stage0/A".toList ∧
    (resolve [refA, refBA] "x=BA:ref y=A:ref".toList).unused = [] := by decide

/-- both spellings of one reference in one command line: only the absolute one is replaced -/
theorem old_mixed_spellings :
    (resolveOld [refA] "x=stage0.A:ref y=A:ref".toList).out = "x=/i/stages/stage0/A y=A:ref".toList ∧
    (resolve [refA] "x=stage0.A:ref y=A:ref".toList).out = "x=/i/stages/stage0/A y=/i/stages/stage0/A".toList := by decide

def ref1A : Ref := { abs := "stage1.A:ref".toList, rel := "A:ref".toList, relActive := true, kind := .ref, value := some "/i/stages/stage1/A".toList }
def ref0A : Ref := { abs := "stage0.A:ref".toList, rel := "A:ref".toList, relActive := false, kind := .ref, value := some "/i/stages/stage0/A".toList }

/-- equal names across stages (consumer in stage 1): the relative spelling of `stage1.A` also rewrites the
tail of `stage0.A:ref` -/
theorem old_equal_names_across_stages :
    (resolveOld [ref1A, ref0A] "x=A:ref stage0.A:ref".toList).out = "x=/i/stages/stage1/A stage0./i/stages/stage1/A".toList ∧
    (resolve [ref1A, ref0A] "x=A:ref stage0.A:ref".toList).out = "x=/i/stages/stage1/A /i/stages/stage0/A".toList ∧
    (resolve [ref0A, ref1A] "x=A:ref stage0.A:ref".toList).out = "x=/i/stages/stage1/A /i/stages/stage0/A".toList := by decide

def refOut : Ref := { abs := "stage0.A/out.txt:output".toList, rel := "A/out.txt:output".toList, relActive := false, kind := .output,
                      value := some "hello A:ref".toList }

/-- the contents of an `:output` reference are scanned again by the references declared after it -/
theorem old_rescans_inserted_values :
    (resolveOld [refOut, ref1A] "stage0.A/out.txt:output".toList).out = "hello /i/stages/stage1/A".toList ∧
    (resolve [refOut, ref1A] "stage0.A/out.txt:output".toList).out = "hello A:ref".toList := by decide

/-- the value of an `:output` reference is the file's text minus its final newlines; stripping all surrounding
white space instead (`str.strip()`) would lose blanks and tabs that belong to the contents -/
theorem strip_is_not_the_output_value :
    outputValue "  ATOM  1 \t\n\n".toList = "  ATOM  1 \t".toList ∧
    St4sd.Str.strip "  ATOM  1 \t\n\n".toList = "ATOM  1".toList ∧
    outputValue " a\r\n".toList = " a\r".toList ∧ loopInstanceValue " a\r\n".toList = " a".toList := by decide

/-! ### the file part: `None` is not the empty string -/

/-- the reference declared as `Gen/:ref` read with the file part tested for truthiness: the spellings lose the `/` -/
def genSlashTruthy : Ref :=
  { abs := withFileTruthy "stage1.Gen".toList (some []) ++ ":ref".toList,
    rel := withFileTruthy "Gen".toList (some []) ++ ":ref".toList,
    relActive := true, kind := .ref, value := some (refPath "/i/stages/stage1/Gen".toList (some [])) }

/-- **Why the spellings must keep an empty file part.**  `Gen/:ref` declared and written in the command line: with
the spellings of the code (`withFile`, `is not None`) the token is replaced by `<dir>/`; were the empty file part
treated as absent (`if self.fileRef:`), the spellings would be `Gen:ref` / `stage1.Gen:ref`, which do not occur in
the text: nothing is replaced, the reference is reported unused and the text is flagged as an unresolved
reference — a valid workflow would be rejected. -/
theorem empty_file_part_must_be_spelled :
    ((declOfText 1 false "Gen/:ref".toList (.path (refPath "/i/stages/stage1/Gen".toList (some [])))).map
        fun d => (resolveD [d] "-a Gen/:ref stage1.Gen/:ref".toList).out)
      = some "-a /i/stages/stage1/Gen/ /i/stages/stage1/Gen/".toList ∧
    genSlashTruthy.spellings = ["stage1.Gen:ref".toList, "Gen:ref".toList] ∧
    (resolve [genSlashTruthy] "-a Gen/:ref stage1.Gen/:ref".toList).out = "-a Gen/:ref stage1.Gen/:ref".toList ∧
    (resolve [genSlashTruthy] "-a Gen/:ref stage1.Gen/:ref".toList).unused = ["stage1.Gen:ref".toList] ∧
    (resolve [genSlashTruthy] "-a Gen/:ref stage1.Gen/:ref".toList).unresolved = true := by decide

/-- the `:loopref` branch of `DataReference.resolve` does test the file part for truthiness: the VALUE of
`Gen/:loopref` has no trailing separator while that of `Gen/:ref` has one (the spellings keep it in both cases) -/
theorem loopref_drops_empty_file_part_in_the_value_only :
    loopRefPath "/i/stages/stage0/0#Gen".toList (some []) = "/i/stages/stage0/0#Gen".toList ∧
    refPath "/i/stages/stage0/0#Gen".toList (some []) = "/i/stages/stage0/0#Gen/".toList ∧
    loopRefPath "/i/stages/stage0/0#Gen".toList (some "t/".toList) = "/i/stages/stage0/0#Gen/t/".toList := by decide

/-- outside `TextOk` (hypothesis `file_rel` of `Props.C10.relative_text_spellings`): a file part that starts with
a separator (`Gen//o:ref`) makes `os.path.join` drop the producer — the spellings are `/o:ref`, not the declared
text.  Such references are not generated by the harness. -/
theorem doubled_separator_spelling_is_not_the_text :
    (parseRef 0 false "Gen//o:ref".toList).map Parts.absSpelling = some "/o:ref".toList := by decide

/-- why `looped_reference_to_paths` sorts on `int(<iteration>)`: sorting the instance ids as strings lists the 11
instances of a loop as `0, 1, 10, 2, …, 9` — a consumer that takes the last path / value for the final iteration reads
iteration 9 —, the numeric key lists them `0 … 10` (with up to 10 instances the two orders coincide) -/
theorem string_order_is_not_iteration_order :
    ((orderInstancesLex ((List.range 11).map fun i => (instId 0 i "A".toList, i))).map (·.2))
      = [0, 1, 10, 2, 3, 4, 5, 6, 7, 8, 9] ∧
    ((orderInstances ((List.range 11).map fun i => (instId 0 i "A".toList, i))).map (·.2)) = List.range 11 ∧
    ((orderInstancesLex ((List.range 10).map fun i => (instId 0 i "A".toList, i))).map (·.2)) = List.range 10 := by
  decide

end St4sd.C10.Witness
