import St4sd.Model.Hash
import St4sd.Model.HashCache
import St4sd.Model.HashExe
/-!
Witnesses for C16 (machine-checked, `decide`): the inputs on which the code that exists violates the full
statement.  `md5 := fun x => 'h' :: x` is a concrete *injective* stand-in, so none of the equalities below is
an md5 collision.  The harness replays the same inputs on the real code (corpus of harness/c16.py).
-/
namespace St4sd.C16.Witness
open St4sd.Str St4sd.Hash

def md5 (x : S) : S := 'h' :: x

theorem md5_injective : ∀ a b, md5 a = md5 b → a = b := by
  intro a b h; simpa [md5] using h

def inputRef : Ref :=
  ⟨"input/a.txt:ref".toList, "input/a.txt:ref".toList, "ref".toList, [], .file (some "AAA".toList)⟩

def comp (name : String) (stage : Nat) (exe : String) : Comp :=
  { name := name.toList, stage := stage, location := [], mtime := 0, replica := none, exe := exe.toList,
    args := "-l input/a.txt:ref".toList, refs := [inputRef], backend := .loc }

def bps : Blueprints :=
  [((0, "calc".toList), "/bin/ls".toList), ((0, "calc2".toList), "/bin/cat".toList),
   ((1, "step7".toList), "/bin/cat".toList)]

/-- #8a before the repair: `calc2` (`/bin/cat`) is hashed with the executable of `calc` (`/bin/ls`): same
strong hash for different work … -/
theorem old_blueprint_lookup_false_reuse :
    hashOneOld md5 false bps [] (comp "calc2" 0 "/bin/cat") = hashOneOld md5 false bps [] (comp "calc" 0 "/bin/ls")
    ∧ (hashOneOld md5 false bps [] (comp "calc" 0 "/bin/ls")).isSome = true := by decide

/-- … and `step7` (there is no component `step`) gets no hash although its input is present. -/
theorem old_blueprint_lookup_no_hash : hashOneOld md5 false bps [] (comp "step7" 1 "/bin/cat") = none := by decide

/-- … and so do the replicas `calc20`, `calc21` of a replicated `calc2` when there is no `calc`. -/
theorem old_blueprint_lookup_replica_no_hash :
    hashOneOld md5 false [((0, "calc2".toList), "/bin/ls".toList)] []
      { comp "calc21" 0 "/bin/ls" with replica := some 1 } = none := by decide

/-- after the repair the three components are told apart / hashed -/
theorem new_blueprint_lookup :
    hashOne md5 false bps [] (comp "calc2" 0 "/bin/cat") ≠ hashOne md5 false bps [] (comp "calc" 0 "/bin/ls")
    ∧ (hashOne md5 false bps [] (comp "step7" 1 "/bin/cat")).isSome = true
    ∧ (hashOne md5 false [((0, "calc2".toList), "/bin/ls".toList)] []
        { comp "calc21" 0 "/bin/ls" with replica := some 1 }).isSome = true := by decide

/-- #8b (known finding): `(arguments "a", executable "bexecutablec")` and `(arguments "aexecutableb",
executable "c")` are different infos with the same buffer — the key word occurs inside a value -/
theorem collision_keyword_inside_value :
    (⟨none, "a".toList, "bexecutablec".toList, []⟩ : Info) ≠ ⟨none, "aexecutableb".toList, "c".toList, []⟩
    ∧ serialize ⟨none, "a".toList, "bexecutablec".toList, []⟩ = serialize ⟨none, "aexecutableb".toList, "c".toList, []⟩ := by
  decide

/-- … and no value needs to contain a whole key word: `executable` overlaps itself by one letter -/
theorem collision_keyword_overlap :
    (⟨none, "xexecutabl".toList, "E".toList, []⟩ : Info) ≠ ⟨none, "x".toList, "xecutableE".toList, []⟩
    ∧ serialize ⟨none, "xexecutabl".toList, "E".toList, []⟩ = serialize ⟨none, "x".toList, "xecutableE".toList, []⟩ := by
  decide

def plain (name exe args : String) : Comp :=
  { name := name.toList, stage := 0, location := [], mtime := 0, replica := none, exe := exe.toList,
    args := args.toList, refs := [], backend := .loc }

/-- the same at the level of components: equal strong hashes for different executables and arguments -/
theorem collision_components :
    hashOne md5 false [((0, "c".toList), "bexecutablec".toList)] []
      (plain "c" "bexecutablec" "a")
    = hashOne md5 false [((0, "c".toList), "c".toList)] []
      (plain "c" "c" "aexecutableb") := by decide

def dock (image : String) : Comp :=
  { name := "dock".toList, stage := 0, location := [], mtime := 0, replica := none, exe := "/bin/cat".toList,
    args := "hi".toList, refs := [], backend := .docker image.toList }

/-- docker backend before the repair: the image is not part of the hash -/
theorem old_docker_image_ignored :
    hashOneOld md5 false [((0, "dock".toList), "/bin/cat".toList)] [] (dock "foo/bar:1")
      = hashOneOld md5 false [((0, "dock".toList), "/bin/cat".toList)] [] (dock "foo/bar:2")
    ∧ hashOne md5 false [((0, "dock".toList), "/bin/cat".toList)] [] (dock "foo/bar:1")
      ≠ hashOne md5 false [((0, "dock".toList), "/bin/cat".toList)] [] (dock "foo/bar:2") := by decide

def dirCopyConsumer : Comp :=
  { name := "run0".toList, stage := 1, location := [], mtime := 0, replica := none, exe := "exe2".toList,
    args := "go".toList, backend := .loc,
    refs := [⟨"stage0.post9:copy".toList, "post9:copy".toList, "copy".toList, [], .prodDir 0⟩] }

/-- known finding: a producer consumed only through a copy of its working directory does not reach the
consumer's fuzzy (or strong) hash: two different producer hashes, same consumer hash -/
theorem fuzzy_does_not_track_directory_copy :
    hashOne md5 true [((1, "run0".toList), "exe2".toList)] [some "aa".toList] dirCopyConsumer
      = hashOne md5 true [((1, "run0".toList), "exe2".toList)] [some "bb".toList] dirCopyConsumer
    ∧ (hashOne md5 true [((1, "run0".toList), "exe2".toList)] [some "aa".toList] dirCopyConsumer).isSome = true := by
  decide

def cfgRef (name : String) : Ref :=
  ⟨("data/" ++ name ++ ":copy").toList, ("data/" ++ name ++ ":copy").toList, "copy".toList, [],
    .file (some "tolerance: 1\n".toList)⟩

def merge (name : String) (refs : List Ref) : Comp :=
  { name := name.toList, stage := 0, location := [], mtime := 0, replica := none, exe := "sh".toList,
    args := "-c \"cat *.cfg\"".toList, refs := refs, backend := .loc }

def mergeBps : Blueprints := [((0, "merge_two".toList), "sh".toList), ((0, "merge_one".toList), "sh".toList)]

/-- `files` as a **set** identifies different work: `merge_two` copies `first.cfg` and `second.cfg` (two files, the
same contents), `merge_one` copies `first.cfg` only; `sh -c "cat *.cfg"` prints the text twice / once.  With a
set of `hash:method` entries both get the same strong and fuzzy hash; the list the code builds tells them apart. -/
theorem set_based_files_identify_different_work :
    hashOneSet md5 false mergeBps [] (merge "merge_two" [cfgRef "first.cfg", cfgRef "second.cfg"])
      = hashOneSet md5 false mergeBps [] (merge "merge_one" [cfgRef "first.cfg"])
    ∧ hashOneSet md5 true mergeBps [] (merge "merge_two" [cfgRef "first.cfg", cfgRef "second.cfg"])
      = hashOneSet md5 true mergeBps [] (merge "merge_one" [cfgRef "first.cfg"])
    ∧ (hashOneSet md5 false mergeBps [] (merge "merge_one" [cfgRef "first.cfg"])).isSome = true
    ∧ hashOne md5 false mergeBps [] (merge "merge_two" [cfgRef "first.cfg", cfgRef "second.cfg"])
      ≠ hashOne md5 false mergeBps [] (merge "merge_one" [cfgRef "first.cfg"])
    ∧ hashOne md5 true mergeBps [] (merge "merge_two" [cfgRef "first.cfg", cfgRef "second.cfg"])
      ≠ hashOne md5 true mergeBps [] (merge "merge_one" [cfgRef "first.cfg"]) := by decide

/-- … and the multiplicity is lost beyond "one or more": `[X, X, Y]` and `[X, Y, Y]` (one of three identical
files rewritten with the contents of the third) are the same set -/
theorem set_based_files_identify_rebalanced_contents :
    let x : Ref := cfgRef "a.cfg"
    let x' : Ref := cfgRef "b.cfg"
    let y (n : String) : Ref := { cfgRef n with target := .file (some "tolerance: 2\n".toList) }
    hashOneSet md5 false mergeBps [] (merge "merge_two" [x, x', y "c.cfg"])
      = hashOneSet md5 false mergeBps [] (merge "merge_two" [x, y "b.cfg", y "c.cfg"])
    ∧ hashOne md5 false mergeBps [] (merge "merge_two" [x, x', y "c.cfg"])
      ≠ hashOne md5 false mergeBps [] (merge "merge_two" [x, y "b.cfg", y "c.cfg"]) := by decide

/-! ### a hash asked for too early is remembered (sessions, `Model/HashCache.lean`)

`fast` and `slow` feed `consumer` (`cat fast/out.txt:ref slow/out.txt:ref`).  `slow` has written the first half
of its output when some code asks for the hash of the waiting consumer (what a status report that prints the
hashes of pending components does); the hash exists — every file is there — and is remembered.  `slow` then
writes the rest.  The hash that is read afterwards (the CDB look-up of `Controller.can_memoize`) is the
remembered one: not the hash of the final contents.  The session does not keep the discipline
(`disciplinedB = false`: the write goes under the producer cone of a remembered hash); the same reads in a
session without the early request are current. -/

def sref (abs rel : String) (p : Nat) (path : String) : SRef :=
  ⟨abs.toList, rel.toList, "ref".toList, "out.txt".toList, .produced p path.toList⟩

def scomp (name exe args : String) (refs : List SRef) : SComp :=
  { name := name.toList, stage := 0, location := [], mtime := 0, replica := none, exe := exe.toList,
    args := args.toList, refs := refs, backend := .loc }

def sessionComps : List SComp :=
  [scomp "fast" "sh" "-c one" [], scomp "slow" "sh" "-c two" [],
   scomp "consumer" "cat" "fast/out.txt:ref slow/out.txt:ref"
     [sref "stage0.fast/out.txt:ref" "fast/out.txt:ref" 0 "/i/fast/out.txt",
      sref "stage0.slow/out.txt:ref" "slow/out.txt:ref" 1 "/i/slow/out.txt"]]

def sessionBps : Blueprints :=
  [((0, "fast".toList), "sh".toList), ((0, "slow".toList), "sh".toList), ((0, "consumer".toList), "cat".toList)]

/-- `fast` is done, `slow` half-way -/
def sessionFs : Fs :=
  [("/i/fast/out.txt".toList, .file "one\n".toList 1 1), ("/i/slow/out.txt".toList, .file "part\n".toList 2 2)]

def finishSlow : SOp := .fs (.write "/i/slow/out.txt".toList "part\nrest\n".toList 3 2)

/-- the early request: evaluations of the producers and of the consumer before `slow` has finished -/
def earlySession : List SOp :=
  [.compute false 0, .compute false 1, .compute false 2, finishSlow, .compute false 2, .get false 2]

/-- the same without the early request -/
def lateSession : List SOp :=
  [.compute false 0, .compute false 1, finishSlow, .compute false 2, .get false 2]

theorem early_request_freezes_stale_hash :
    let s₀ := Session.new sessionFs 3
    let early := runS md5 sessionBps sessionComps s₀ earlySession
    let late := runS md5 sessionBps sessionComps s₀ lateSession
    -- both sessions end on the same files
    early.fs = late.fs
    -- the consumer's hash that is read at the end of the early session is not the hash of those files …
    ∧ getH early.strong 2 ≠ getH (hashesFs md5 false sessionBps early.fs sessionComps) 2
    ∧ (getH early.strong 2).isSome = true
    -- … it is the hash of the half-written output
    ∧ getH early.strong 2 = getH (hashesFs md5 false sessionBps sessionFs sessionComps) 2
    -- the late session reads the hash of the final contents
    ∧ getH late.strong 2 = getH (hashesFs md5 false sessionBps late.fs sessionComps) 2
    -- the checker: the early session breaks the discipline, the late one keeps it
    ∧ disciplinedB md5 sessionBps sessionComps s₀ earlySession = false
    ∧ disciplinedB md5 sessionBps sessionComps s₀ lateSession = true
    ∧ wellOrderedB sessionComps = true := by decide

/-! ### a reference to an un-hashable producer left in the arguments by name

What `replacementOf` must not do: leave the reference to the working directory of a producer that has no hash
in the arguments (`some none` instead of `none`).  The consumer would get a hash although a file up the chain
is missing — the same hash for consumers of producers that do different work, and another one after renaming
the producer.  In the model the consumer has no hash (`Props.C16.no_hash_down_the_chain`). -/

def chainComp (name exe args : String) (refs : List Ref) : Comp :=
  { name := name.toList, stage := 0, location := [], mtime := 0, replica := none, exe := exe.toList,
    args := args.toList, refs := refs, backend := .loc }

def chainBps : Blueprints :=
  [((0, "gen".toList), "/bin/echo".toList), ((0, "middle".toList), "/bin/cat".toList),
   ((0, "consumer".toList), "/bin/ls".toList)]

theorem no_hash_below_missing_file :
    let gen := chainComp "gen" "/bin/echo" "hello" []
    let middle := chainComp "middle" "/bin/cat" "gen/out.txt:ref"
      [⟨"stage0.gen/out.txt:ref".toList, "gen/out.txt:ref".toList, "ref".toList, "out.txt".toList, .prodFile 0 none⟩]
    let consumer := chainComp "consumer" "/bin/ls" "-l stage0.middle:ref"
      [⟨"stage0.middle:ref".toList, "middle:ref".toList, "ref".toList, [], .prodDir 1⟩]
    (hashes md5 false chainBps [gen, middle, consumer]).map Option.isSome = [true, false, false]
    ∧ (hashes md5 true chainBps [gen, middle, consumer]).map Option.isSome = [true, false, false] := by decide

/-! ### a reference spelling inside the text that replaced another reference (fuzzy hash, known finding)

The references are replaced in the arguments one after the other, each by `re.sub` over the text as it is by
then.  The fuzzy replacement of a produced file `stage0.N/F:output` is `file:fuzzy#<hash of N>#F:output` — it
ends in `F:output`.  When the producer is itself called `F` and the consumer also names `F:output` (the
standard output of the producer), the second substitution rewrites the inside of the first replacement: the
fuzzy hash of the consumer depends on the producer being called like the file it writes.  With any two other
names the hashes are equal. -/

def namedComp (name : S) (exe args : String) (refs : List Ref) : Comp :=
  { name := name, stage := 0, location := [], mtime := 0, replica := none, exe := exe.toList,
    args := args.toList, refs := refs, backend := .loc }

def namedProducer (n : S) : Comp := namedComp n "exe2" "input" []

def namedConsumer (n : S) : Comp :=
  { namedComp "sim3".toList "/bin/cat" ""
      [⟨"stage0.".toList ++ n ++ ":ref".toList, n ++ ":ref".toList, "ref".toList, [], .prodDir 0⟩,
       ⟨"stage0.".toList ++ n ++ "/x:output".toList, n ++ "/x:output".toList, "output".toList, "x".toList,
         .prodFile 0 (some "xx".toList)⟩,
       ⟨"stage0.".toList ++ n ++ ":output".toList, n ++ ":output".toList, "output".toList, [],
         .prodFile 0 (some [])⟩] with
    args := "@".toList ++ n ++ ":ref ".toList ++ n ++ ":output) a,b=stage0.".toList ++ n ++ "/x:output -l".toList }

def namedBps (n : S) : Blueprints := [((0, n), "exe2".toList), ((0, "sim3".toList), "/bin/cat".toList)]

def hashOfConsumer (fuzzy : Bool) (n : S) : Option S :=
  getH (hashes md5 fuzzy (namedBps n) [namedProducer n, namedConsumer n]) 1

set_option maxRecDepth 4000 in
theorem fuzzy_hash_other_names_equal :
    hashOfConsumer true "merge".toList = hashOfConsumer true "calc".toList
    ∧ (hashOfConsumer true "merge".toList).isSome = true := by decide

set_option maxRecDepth 4000 in
theorem fuzzy_hash_depends_on_producer_named_like_its_file :
    hashOfConsumer true "x".toList ≠ hashOfConsumer true "merge".toList := by decide

set_option maxRecDepth 4000 in
/-- the strong hashes are not affected -/
theorem strong_hash_of_producer_named_like_its_file :
    hashOfConsumer false "x".toList = hashOfConsumer false "merge".toList := by decide

/-! ### reading the executable from the validated live configuration (not the code: `Source.liveConfiguration`)

`single` runs the pathless `tool.sh` that the package ships in `bin/` (found through `PATH: $INSTANCE_DIR/bin:$PATH`);
`many1` is a replica of `many`, declared with the same executable.  After validation the live configuration of the
instance at `/i1` holds `/i1/bin/tool.sh`, the one at `/i2` holds `/i2/bin/tool.sh`. -/

def toolProbe (base : String) : Probe :=
  { which := some (base ++ "/bin/tool.sh").toList, real := [], ok := [(base ++ "/bin/tool.sh").toList] }

def toolConf : Conf :=
  { unrep := [((0, "single".toList), "tool.sh".toList), ((0, "many".toList), "tool.sh".toList)],
    live := [((0, "single".toList), "tool.sh".toList), ((0, "many1".toList), "tool.sh".toList)] }

def validatedAt (base : String) : Conf := toolConf.validate base.toList [toolProbe base, toolProbe base]

def single : Comp := comp "single" 0 "tool.sh"
def many1 : Comp := { comp "many1" 0 "tool.sh" with replica := some 1 }

/-- with the live configuration as source the hash of `single` depends on where the instance lives, changes when
the experiment is validated, and differs from the hash of the replica that does the same work … -/
theorem live_executable_depends_on_location_and_validation :
    hashOneFrom .liveConfiguration md5 false (validatedAt "/i1") [] single ≠
      hashOneFrom .liveConfiguration md5 false (validatedAt "/i2") [] single
    ∧ hashOneFrom .liveConfiguration md5 false (validatedAt "/i1") [] single ≠
      hashOneFrom .liveConfiguration md5 false toolConf [] single
    ∧ hashOneFrom .liveConfiguration md5 false (validatedAt "/i1") [] single ≠
      hashOneFrom .liveConfiguration md5 false (validatedAt "/i1") [] many1 := by decide

/-- … with the specification as source (the code) all of these are one hash -/
theorem specification_executable_is_stable :
    hashOneFrom .specification md5 false (validatedAt "/i1") [] single =
      hashOneFrom .specification md5 false (validatedAt "/i2") [] single
    ∧ hashOneFrom .specification md5 false (validatedAt "/i1") [] single =
      hashOneFrom .specification md5 false toolConf [] single
    ∧ hashOneFrom .specification md5 false (validatedAt "/i1") [] single =
      hashOneFrom .specification md5 false (validatedAt "/i1") [] many1
    ∧ (hashOneFrom .specification md5 false toolConf [] single).isSome = true := by decide

/-! ### the order in which the references are substituted (not the code: `sortRefsAlpha`, the order of the names)

A consumer runs `paste -d, N1/out.txt:ref N2/out.txt:ref prod/out.txt:ref` over the files of three producers `N1`,
`N2` and `prod`.  For `N1 = x-prod`, `N2 = y-prod` the spelling `prod/out.txt:ref` is, at word boundaries, the tail
of the other two.  Longest first (the code, `sortRefs`): every reference stands for its own content.  In the order
of the names `stage0.prod/…` comes first and rewrites the tails of the other two: `x-file:<md5 of prod's file>:ref`;
the places of the arguments no longer say which content is read there (false reuse when the two contents are
exchanged), and what is left of the producer names stays in the hashed text. -/

def insertAlpha (x : Ref) : List Ref → List Ref
  | [] => [x]
  | y :: ys => if lexLe x.abs y.abs then x :: y :: ys else y :: insertAlpha x ys

/-- `sorted(refs, key=spelling)` -/
def sortRefsAlpha : List Ref → List Ref
  | [] => []
  | x :: xs => insertAlpha x (sortRefsAlpha xs)

/-- `infoCore` with the order of the references as a parameter -/
def infoCoreBy (order : List Ref → List Ref) (md5 : S → S) (fuzzy : Bool) (ph : Nat → Option S) (image : Option S)
    (exe args : S) (refs : List Ref) : Option Info :=
  match fileEntries md5 fuzzy ph (order refs) with
  | none => none
  | some entries =>
    match replaceRefs fuzzy (tokens args) entries ph (order refs) args with
    | none => none
    | some a => some ⟨image, a, exe, entries.map (fun e => e.hash ++ ':' :: e.method)⟩

/-- the code is `infoCoreBy sortRefs` -/
theorem infoCoreBy_longest_first (md5 : S → S) (fuzzy : Bool) (ph : Nat → Option S) (image : Option S)
    (exe args : S) (refs : List Ref) :
    infoCoreBy sortRefs md5 fuzzy ph image exe args refs = infoCore md5 fuzzy ph image exe args refs := rfl

def outRef (n : String) (p : Nat) (content : String) : Ref :=
  ⟨("stage0." ++ n ++ "/out.txt:ref").toList, (n ++ "/out.txt:ref").toList, "ref".toList, "out.txt".toList,
    .prodFile p (some content.toList)⟩

/-- strong hash of the consumer of `n1` (contents `c1`), `n2` (contents `c2`) and `prod` -/
def pasteHash (order : List Ref → List Ref) (n1 n2 c1 c2 : String) : Option S :=
  (infoCoreBy order md5 false (fun _ => none) none "paste".toList
    ("-d, " ++ n1 ++ "/out.txt:ref " ++ n2 ++ "/out.txt:ref prod/out.txt:ref").toList
    [outRef n1 0 c1, outRef n2 1 c2, outRef "prod" 2 "RRRR"]).map (hashInfo md5)

set_option maxRecDepth 8000 in
/-- in the order of the names: `paste P Q R` and `paste Q P R` get one hash (`md5` is injective: no collision) -/
theorem alphabetical_order_false_reuse :
    pasteHash sortRefsAlpha "x-prod" "y-prod" "PPPP" "QQQQ" = pasteHash sortRefsAlpha "x-prod" "y-prod" "QQQQ" "PPPP"
    ∧ (pasteHash sortRefsAlpha "x-prod" "y-prod" "PPPP" "QQQQ").isSome = true := by decide

set_option maxRecDepth 8000 in
/-- … and the hash depends on what the producers are called -/
theorem alphabetical_order_depends_on_producer_names :
    pasteHash sortRefsAlpha "x-prod" "y-prod" "PPPP" "QQQQ" ≠ pasteHash sortRefsAlpha "u-prod" "v-prod" "PPPP" "QQQQ" := by
  decide

set_option maxRecDepth 8000 in
/-- longest first (the code): exchanged contents are different work, the names do not matter -/
theorem longest_first_nested_spellings :
    pasteHash sortRefs "x-prod" "y-prod" "PPPP" "QQQQ" ≠ pasteHash sortRefs "x-prod" "y-prod" "QQQQ" "PPPP"
    ∧ pasteHash sortRefs "x-prod" "y-prod" "PPPP" "QQQQ" = pasteHash sortRefs "u-prod" "v-prod" "PPPP" "QQQQ"
    ∧ pasteHash sortRefs "x-prod" "y-prod" "PPPP" "QQQQ" = pasteHash sortRefs "work" "calc7" "PPPP" "QQQQ"
    ∧ (pasteHash sortRefs "x-prod" "y-prod" "PPPP" "QQQQ").isSome = true := by decide

end St4sd.C16.Witness
