import St4sd.Model.Weights
/-!
# C20 — Reported progress is a proper weighted fraction

Property theorems only (helper lemmas are local `private` ones below the statements they serve).
Units: see `Model/Weights.lean` (1 = 10^9 units, tolerance 1e-6 = 1000 units).
-/
namespace St4sd.C20
open St4sd.Weights

private theorem sum_append (a b : List Int) : sum (a ++ b) = sum a + sum b := by
  induction a with
  | nil => simp [sum]
  | cons x xs ih => simp [sum, ih]; omega

private theorem sum_replicate (k : Nat) (x : Int) : sum (List.replicate k x) = (k : Int) * x := by
  induction k with
  | zero => simp [sum]
  | succ k ih =>
    simp only [List.replicate_succ, sum, ih]
    rw [Int.natCast_succ, Int.add_mul]; omega

private theorem allNonneg_iff (ws : List Int) : allNonneg ws = true ↔ ∀ x ∈ ws, 0 ≤ x := by
  induction ws with
  | nil => simp [allNonneg]
  | cons x xs ih => simp [allNonneg, ih]

/-- The fallback weights always sum to exactly one, for every number of stages `n ≥ 1`
(including `n > 1000`, where `int(1000/n) = 0` and the last stage carries everything). -/
theorem fallback_sums_to_one (n : Nat) (hn : 1 ≤ n) : sum (fallback n) = one := by
  unfold fallback
  rw [sum_append, sum_replicate]
  simp only [sum, one, milli]
  have : ((n - 1 : Nat) : Int) = (n : Int) - 1 := by omega
  rw [this]
  generalize (1000 / (n : Int)) = q
  generalize (n : Int) - 1 = m
  have h1 : m * (q * 1000000) = (m * q) * 1000000 := by rw [Int.mul_assoc]
  rw [h1, Int.sub_mul]
  omega

/-- … and are all non-negative. -/
theorem fallback_nonneg (n : Nat) (hn : 1 ≤ n) : ∀ x ∈ fallback n, 0 ≤ x := by
  intro x hx
  unfold fallback at hx
  have hq : 0 ≤ 1000 / (n : Int) := Int.ediv_nonneg (by omega) (by omega)
  rcases List.mem_append.mp hx with h | h
  · have := (List.mem_replicate.mp h).2
    subst this
    exact Int.mul_nonneg hq (by simp [milli])
  · simp only [List.mem_singleton] at h
    subst h
    apply Int.mul_nonneg _ (by simp [milli])
    -- (n-1) * (1000 / n) ≤ n * (1000 / n) ≤ 1000
    have h1 : (n : Int) * (1000 / (n : Int)) ≤ 1000 := Int.mul_ediv_self_le (by omega)
    have h2 : ((n : Int) - 1) * (1000 / (n : Int)) ≤ (n : Int) * (1000 / (n : Int)) :=
      Int.mul_le_mul_of_nonneg_right (by omega) hq
    omega

/-- `fallback n` has one weight per stage. -/
theorem fallback_length (n : Nat) (hn : 1 ≤ n) : (fallback n).length = n := by
  simp [fallback]; omega

/-- Full statement, clause 1: after loading, the weights are non-negative and sum to one
(within the loader's tolerance of 1e-6 when the package's own weights are kept, exactly
otherwise) — for every number of stages and every given weight list. -/
theorem loaded_weights_proper (ws : List Int) (hn : 1 ≤ ws.length) :
    (∀ x ∈ normalize ws, 0 ≤ x) ∧ sum (normalize ws) - one < tol ∧ one - sum (normalize ws) < tol := by
  unfold normalize
  split
  · rename_i h
    simp only [proper, Bool.and_eq_true, decide_eq_true_eq] at h
    exact ⟨(allNonneg_iff ws).mp h.1.1, h.1.2, h.2⟩
  · refine ⟨fallback_nonneg _ hn, ?_, ?_⟩ <;> rw [fallback_sums_to_one _ hn] <;> simp [tol]

/-- Full statement, clause 2: weights that already are non-negative and sum to one are
returned unchanged. -/
theorem proper_weights_kept (ws : List Int) (hs : sum ws = one) (hp : ∀ x ∈ ws, 0 ≤ x) :
    normalize ws = ws := by
  unfold normalize proper
  rw [(allNonneg_iff ws).mpr hp, hs]
  simp [tol]

/-- The re-check of `StatusMonitor.__init__` accepts whatever the loader produced … -/
theorem monitor_recheck_accepts_loaded (ws : List Int) (hn : 1 ≤ ws.length) : monitorKeeps (normalize ws) = true := by
  have h := loaded_weights_proper ws hn
  unfold monitorKeeps proper
  rw [(allNonneg_iff _).mpr h.1]
  simp [h.2.1, h.2.2]

/-- … and therefore the list `StatusMonitor` reports with is, position by position, the loaded
list: `stageWeights = loaded weights` as lists (same length, `stageWeights[i]` = loaded weight of
stage `i`), for every number of stages. -/
theorem monitor_keeps_loaded (ws : List Int) (hn : 1 ≤ ws.length) :
    monitorWeights (normalize ws) = some (normalize ws) := by
  have h := monitor_recheck_accepts_loaded ws hn
  unfold monitorKeeps at h
  simp [monitorWeights, h]

private theorem sum_perm {a b : List Int} (h : a.Perm b) : sum a = sum b := by
  induction h with
  | nil => rfl
  | cons x _ ih => simp [sum, ih]
  | swap x y l => simp only [sum]; omega
  | trans _ _ ih1 ih2 => omega

/-- Why the position-wise statement is needed: the re-check cannot see a misplaced weight —
any rearrangement of a proper list is proper again (non-negative, same sum). -/
theorem recheck_blind_to_order (a b : List Int) (h : a.Perm b) : proper a = proper b := by
  have hs := sum_perm h
  have hn : allNonneg a = allNonneg b := by
    rw [Bool.eq_iff_iff, allNonneg_iff, allNonneg_iff]
    exact ⟨fun f x hx => f x (h.mem_iff.mpr hx), fun f x hx => f x (h.mem_iff.mp hx)⟩
  unfold proper
  rw [hs, hn]

/-- Negative weights are never kept, whatever the sum. -/
theorem negative_never_kept (ws : List Int) (x : Int) (hx : x ∈ ws) (hneg : x < 0) :
    normalize ws = fallback ws.length := by
  unfold normalize
  have : proper ws = false := by
    unfold proper
    have : allNonneg ws = false := by
      cases h : allNonneg ws with
      | false => rfl
      | true => have := (allNonneg_iff ws).mp h x hx; omega
    simp [this]
  simp [this]

/-- The coded guard `num_stages * int(100*fallbackWeight) != 1000` can never be false:
`int(100*fallbackWeight) ≤ 100 / n`, so the product is at most 100. -/
theorem guard_always_true (n : Nat) (hn : 1 ≤ n) (c : Int) (hc : c ≤ 100 / (n : Int)) : (n : Int) * c ≠ 1000 := by
  have h1 : (n : Int) * (100 / (n : Int)) ≤ 100 := Int.mul_ediv_self_le (by omega)
  have h2 : (n : Int) * c ≤ (n : Int) * (100 / (n : Int)) := Int.mul_le_mul_of_nonneg_left hc (by omega)
  omega

/-- Progress bound: with per-stage progress `0 ≤ p ≤ scale` and non-negative weights,
`0 ≤ Σ p·w ≤ scale · Σ w`; (divide by `scale·one` to read it as `0 ≤ total ≤ Σ w`). -/
theorem progress_bounds (scale : Int) (ps : List (Int × Int))
    (hp : ∀ e ∈ ps, 0 ≤ e.1 ∧ e.1 ≤ scale) (hw : ∀ e ∈ ps, 0 ≤ e.2) :
    0 ≤ progress ps ∧ progress ps ≤ scale * sum (ps.map Prod.snd) := by
  induction ps with
  | nil => simp [progress, sum]
  | cons e r ih =>
    obtain ⟨p, w⟩ := e
    have hr := ih (fun e he => hp e (List.mem_cons_of_mem _ he)) (fun e he => hw e (List.mem_cons_of_mem _ he))
    have h1 := hp (p, w) (List.mem_cons_self)
    have h2 := hw (p, w) (List.mem_cons_self)
    simp only [progress, List.map, sum] at *
    have a : 0 ≤ p * w := Int.mul_nonneg h1.1 h2
    have b : p * w ≤ scale * w := Int.mul_le_mul_of_nonneg_right h1.2 h2
    rw [Int.mul_add]
    omega

/-- Progress equals (scale times) the weight sum once every stage is complete. -/
theorem progress_complete (scale : Int) (ps : List (Int × Int)) (hp : ∀ e ∈ ps, e.1 = scale) :
    progress ps = scale * sum (ps.map Prod.snd) := by
  induction ps with
  | nil => simp [progress, sum]
  | cons e r ih =>
    obtain ⟨p, w⟩ := e
    have hr := ih (fun e he => hp e (List.mem_cons_of_mem _ he))
    have h1 : p = scale := hp (p, w) (List.mem_cons_self)
    simp only [progress, List.map, sum, hr, h1, Int.mul_add]

/-- Consequence stated as in the property: for loaded weights and progress values in
`[0, scale]`, `0 ≤ total ≤ scale·(1+1e-6)`, and with exact weights (`sum = one`) the total
of a completed experiment is exactly `scale·one`. -/
theorem total_progress_in_unit_interval (scale : Int) (hs : 0 ≤ scale) (ws ps : List Int)
    (hn : 1 ≤ ws.length) (hl : ps.length = ws.length) (hp : ∀ p ∈ ps, 0 ≤ p ∧ p ≤ scale) :
    0 ≤ progress (ps.zip (normalize ws)) ∧ progress (ps.zip (normalize ws)) ≤ scale * (one + tol) := by
  have hw := loaded_weights_proper ws hn
  have hb := progress_bounds scale (ps.zip (normalize ws))
    (fun e he => hp e.1 (List.of_mem_zip he).1) (fun e he => hw.1 e.2 (List.of_mem_zip he).2)
  refine ⟨hb.1, Int.le_trans hb.2 ?_⟩
  apply Int.mul_le_mul_of_nonneg_left _ hs
  have hlen : (normalize ws).length = ws.length := by
    unfold normalize; split
    · rfl
    · exact fallback_length _ hn
  have : (ps.zip (normalize ws)).map Prod.snd = normalize ws := by
    apply List.map_snd_zip; omega
  rw [this]; omega

/-! ### One status check against a changing controller -/

private theorem wsumFrom_mono (f g : Nat → Int) (ws : List Int) (hw : ∀ w ∈ ws, 0 ≤ w)
    (hfg : ∀ k, f k ≤ g k) (k : Nat) : wsumFrom f k ws ≤ wsumFrom g k ws := by
  induction ws generalizing k with
  | nil => simp [wsumFrom]
  | cons w r ih =>
    have hr := ih (fun x hx => hw x (List.mem_cons_of_mem _ hx)) (k + 1)
    have h0 : 0 ≤ w := hw w List.mem_cons_self
    have := Int.mul_le_mul_of_nonneg_right (hfg k) h0
    simp only [wsumFrom]; omega

private theorem wsumFrom_const (c : Int) (ws : List Int) (k : Nat) :
    wsumFrom (fun _ => c) k ws = c * sum ws := by
  induction ws generalizing k with
  | nil => simp [wsumFrom, sum]
  | cons w r ih => simp only [wsumFrom, sum, ih, Int.mul_add]

private theorem wsumFrom_zero (f : Nat → Int) (ws : List Int) (k : Nat) (h : ∀ j, k ≤ j → f j = 0) :
    wsumFrom f k ws = 0 := by
  induction ws generalizing k with
  | nil => simp [wsumFrom]
  | cons w r ih =>
    simp only [wsumFrom, h k (Nat.le_refl k), ih (k + 1) (fun j hj => h j (by omega))]
    simp

private theorem wsumFrom_readOf (pre ps ws : List Int) :
    wsumFrom (readOf (pre ++ ps)) pre.length ws = progress (ps.zip ws) := by
  induction ws generalizing pre ps with
  | nil => simp [wsumFrom, progress]
  | cons w r ih =>
    cases ps with
    | nil =>
      simp only [List.zip_nil_left, progress]
      apply wsumFrom_zero
      intro j hj
      simp only [readOf, List.append_nil, List.getD_eq_getElem?_getD, List.getElem?_eq_none hj]
      rfl
    | cons p q =>
      simp only [List.zip_cons_cons, progress, wsumFrom]
      have h := ih (pre ++ [p]) q
      simp only [List.length_append, List.length_singleton, List.append_assoc, List.singleton_append] at h
      rw [h]
      simp [readOf]

/-- `Σ_k ps[k]·ws[k]` written with `wsum` is the `progress` of the zipped lists. -/
theorem wsum_readOf_eq_progress (ps ws : List Int) : wsum (readOf ps) ws = progress (ps.zip ws) := by
  have := wsumFrom_readOf [] ps ws
  simpa [wsum] using this

private theorem count_le_one_of_nodup {l : List Nat} (h : l.Nodup) (k : Nat) : l.count k ≤ 1 :=
  List.nodup_iff_count.mp h k

/-- what the lock gives, pointwise: a stage is weighted with at most `scale` … -/
private theorem stageFactor_bounds (scale : Int) (cur : Nat) (transit finished : List Nat) (p : Nat → Int)
    (hd : ∀ k, k ∈ transit → k ∉ finished) (hnd : finished.Nodup)
    (hp : ∀ k, 0 ≤ p k ∧ p k ≤ scale) (k : Nat) :
    0 ≤ stageFactor scale cur transit finished p k ∧ stageFactor scale cur transit finished p k ≤ scale := by
  have hs : 0 ≤ scale := Int.le_trans (hp 0).1 (hp 0).2
  have hc : (finished.filter (fun i => i != cur)).count k ≤ 1 :=
    count_le_one_of_nodup (hnd.filter _) k
  unfold stageFactor
  by_cases hk : k = cur ∨ k ∈ transit
  · have hz : (finished.filter (fun i => i != cur)).count k = 0 := by
      apply List.count_eq_zero.mpr
      intro hm
      have hm' := List.mem_filter.mp hm
      rcases hk with h | h
      · subst h; simp at hm'
      · exact hd k h hm'.1
    simp only [hk, if_true, hz]
    have := hp k
    omega
  · simp only [hk, if_false]
    have : (((finished.filter (fun i => i != cur)).count k : Nat) : Int) * scale ≤ 1 * scale :=
      Int.mul_le_mul_of_nonneg_right (by omega) hs
    have h0 : 0 ≤ (((finished.filter (fun i => i != cur)).count k : Nat) : Int) * scale :=
      Int.mul_nonneg (by omega) hs
    omega

/-- **The bound needs the partition.**  If the in-transit list and the finished list of one
check are disjoint and the finished list has no repetition (which is what reading both inside
one `comp_lock` critical section provides: a stage either still has an active component or it
has none), then for progress values in `[0, scale]` and non-negative weights
`0 ≤ total ≤ scale · Σ w` — whatever the instants at which the individual progress values
were read.  (`Witness.C20.double_count_without_disjointness`: without the hypothesis the bound fails.) -/
theorem progress_of_partition_le_one (scale : Int) (cur : Nat) (transit finished : List Nat) (p : Nat → Int)
    (ws : List Int) (hd : ∀ k, k ∈ transit → k ∉ finished) (hnd : finished.Nodup)
    (hp : ∀ k, 0 ≤ p k ∧ p k ≤ scale) (hw : ∀ w ∈ ws, 0 ≤ w) :
    0 ≤ checkTotal scale cur transit finished p ws ∧
      checkTotal scale cur transit finished p ws ≤ scale * sum ws := by
  have hb := stageFactor_bounds scale cur transit finished p hd hnd hp
  constructor
  · have := wsumFrom_mono (fun _ => 0) (stageFactor scale cur transit finished p) ws hw (fun k => (hb k).1) 0
    rw [wsumFrom_const] at this
    simpa [checkTotal, wsum] using this
  · have := wsumFrom_mono (stageFactor scale cur transit finished p) (fun _ => scale) ws hw (fun k => (hb k).2) 0
    rw [wsumFrom_const] at this
    simpa [checkTotal, wsum] using this

/-- … in particular with the loaded weights: `0 ≤ total ≤ scale·(1 + 1e-6)`. -/
theorem progress_of_partition_loaded (scale : Int) (cur : Nat) (transit finished : List Nat) (p : Nat → Int)
    (ws : List Int) (hn : 1 ≤ ws.length) (hd : ∀ k, k ∈ transit → k ∉ finished) (hnd : finished.Nodup)
    (hp : ∀ k, 0 ≤ p k ∧ p k ≤ scale) :
    0 ≤ checkTotal scale cur transit finished p (normalize ws) ∧
      checkTotal scale cur transit finished p (normalize ws) ≤ scale * (one + tol) := by
  have hl := loaded_weights_proper ws hn
  have hb := progress_of_partition_le_one scale cur transit finished p (normalize ws) hd hnd hp hl.1
  refine ⟨hb.1, Int.le_trans hb.2 ?_⟩
  exact Int.mul_le_mul_of_nonneg_left (by omega) (Int.le_trans (hp 0).1 (hp 0).2)

/-- A check whose lists AND progress values come from one consistent controller state
reports exactly `Σ_k prog k · w k` of that state. -/
theorem atomic_check_reports_snapshot (scale : Int) (s : Snap) (hc : s.Consistent scale) (ws : List Int) :
    checkTotal scale s.cur s.transit s.finished s.prog ws = wsum s.prog ws := by
  have hpt : ∀ k, stageFactor scale s.cur s.transit s.finished s.prog k = s.prog k := by
    intro k
    unfold stageFactor
    by_cases hk : k = s.cur ∨ k ∈ s.transit
    · have hz : (s.finished.filter (fun i => i != s.cur)).count k = 0 := by
        apply List.count_eq_zero.mpr
        intro hm
        have hm' := List.mem_filter.mp hm
        rcases hk with h | h
        · subst h; simp at hm'
        · exact hc.disjoint k h hm'.1
      simp [hk, hz]
    · have hk1 : k ≠ s.cur := fun h => hk (Or.inl h)
      have hk2 : k ∉ s.transit := fun h => hk (Or.inr h)
      simp only [hk, if_false]
      by_cases hf : k ∈ s.finished
      · have hm : k ∈ s.finished.filter (fun i => i != s.cur) := by
          apply List.mem_filter.mpr; simp [hf, hk1]
        have h1 : (s.finished.filter (fun i => i != s.cur)).count k = 1 := by
          have hle := count_le_one_of_nodup (hc.nodup.filter (fun i => i != s.cur)) k
          have hpos := List.count_pos_iff.mpr hm
          omega
        rw [h1, hc.fin_complete k hf]; simp
      · have hz : (s.finished.filter (fun i => i != s.cur)).count k = 0 := by
          apply List.count_eq_zero.mpr
          intro hm; exact hf (List.mem_filter.mp hm).1
        rw [hz, hc.idle_zero k hk2 hf]; simp
  unfold checkTotal wsum
  have : stageFactor scale s.cur s.transit s.finished s.prog = s.prog := funext hpt
  rw [this]

/-- The check as it is coded reads the two lists at one instant (state `s`, inside the lock)
and every progress value at some later instant: if each value read lies between the stage's
progress in `s` and its progress in a later state `hi` (progress only grows, a finished stage
stays complete), the reported total lies between the exact weighted progress of the state
`s` and that of the later state. -/
theorem check_between_snapshots (scale : Int) (s : Snap) (hc : s.Consistent scale)
    (p hi : Nat → Int) (ws : List Int) (hw : ∀ w ∈ ws, 0 ≤ w)
    (hlo : ∀ k, s.prog k ≤ p k) (hhi : ∀ k, p k ≤ hi k) (hscale : ∀ k, hi k ≤ scale) :
    wsum s.prog ws ≤ checkTotal scale s.cur s.transit s.finished p ws ∧
      checkTotal scale s.cur s.transit s.finished p ws ≤ wsum hi ws := by
  have hpt : ∀ k, s.prog k ≤ stageFactor scale s.cur s.transit s.finished p k ∧
      stageFactor scale s.cur s.transit s.finished p k ≤ hi k := by
    intro k
    unfold stageFactor
    by_cases hk : k = s.cur ∨ k ∈ s.transit
    · have hz : (s.finished.filter (fun i => i != s.cur)).count k = 0 := by
        apply List.count_eq_zero.mpr
        intro hm
        have hm' := List.mem_filter.mp hm
        rcases hk with h | h
        · subst h; simp at hm'
        · exact hc.disjoint k h hm'.1
      simp only [hk, if_true, hz]
      have := hlo k; have := hhi k; omega
    · have hk1 : k ≠ s.cur := fun h => hk (Or.inl h)
      have hk2 : k ∉ s.transit := fun h => hk (Or.inr h)
      simp only [hk, if_false]
      by_cases hf : k ∈ s.finished
      · have hm : k ∈ s.finished.filter (fun i => i != s.cur) := by
          apply List.mem_filter.mpr; simp [hf, hk1]
        have h1 : (s.finished.filter (fun i => i != s.cur)).count k = 1 := by
          have hle := count_le_one_of_nodup (hc.nodup.filter (fun i => i != s.cur)) k
          have hpos := List.count_pos_iff.mpr hm
          omega
        rw [h1]
        have e := hc.fin_complete k hf
        have := hlo k; have := hhi k; have := hscale k
        omega
      · have hz : (s.finished.filter (fun i => i != s.cur)).count k = 0 := by
          apply List.count_eq_zero.mpr
          intro hm; exact hf (List.mem_filter.mp hm).1
        rw [hz]
        have e := hc.idle_zero k hk2 hf
        have := hlo k; have := hhi k
        omega
  constructor
  · exact wsumFrom_mono _ _ ws hw (fun k => (hpt k).1) 0
  · exact wsumFrom_mono _ _ ws hw (fun k => (hpt k).2) 0

/-- Once every stage has completed (every stage finished, or current/in transit with full
progress) an atomic check reports `scale · Σ w`, i.e. one for exact weights. -/
theorem complete_snapshot_reports_one (scale : Int) (s : Snap) (hc : s.Consistent scale) (ws : List Int)
    (hall : ∀ k, s.prog k = scale) :
    checkTotal scale s.cur s.transit s.finished s.prog ws = scale * sum ws := by
  rw [atomic_check_reports_snapshot scale s hc ws]
  have : s.prog = fun _ => scale := funext hall
  rw [this]
  exact wsumFrom_const scale ws 0

/-! ### Missing stages: the default weight is materialised by the loader and read by the monitor -/

private theorem givenUnits_length (gs : List (Option Int)) : (givenUnits gs).length = gs.length := by
  induction gs with
  | nil => rfl
  | cons g r ih => cases g <;> simp [givenUnits, ih]

/-- position by position: a given stage contributes its weight, a missing one 0 -/
theorem givenUnits_eq_map (gs : List (Option Int)) : givenUnits gs = gs.map (fun o => o.getD 0) := by
  induction gs with
  | nil => rfl
  | cons g r ih => cases g <;> simp [givenUnits, ih]

private theorem mem_givenUnits (gs : List (Option Int)) (x : Int) (hx : x ∈ givenUnits gs) :
    x = 0 ∨ some x ∈ gs := by
  induction gs with
  | nil => simp [givenUnits] at hx
  | cons g r ih =>
    cases g with
    | none =>
      simp only [givenUnits, List.mem_cons] at hx
      rcases hx with h | h
      · exact Or.inl h
      · rcases ih h with h' | h'
        · exact Or.inl h'
        · exact Or.inr (List.mem_cons_of_mem _ h')
    | some u =>
      simp only [givenUnits, List.mem_cons] at hx
      rcases hx with h | h
      · subst h; exact Or.inr List.mem_cons_self
      · rcases ih h with h' | h'
        · exact Or.inl h'
        · exact Or.inr (List.mem_cons_of_mem _ h')

/-- Clause 1 with missing stages: whenever the weights a package GIVES are non-negative and sum to
one, the loaded weights are, position by position, the given weight for a stage that has one
and 0 for a stage without `status-report` entry / without `stage-weight` — for every number
of stages and every given/missing assignment. -/
theorem missing_stages_weigh_zero (gs : List (Option Int)) (hs : sum (givenUnits gs) = one)
    (hp : ∀ u, some u ∈ gs → 0 ≤ u) : load gs = gs.map (fun o => o.getD 0) := by
  unfold load
  rw [proper_weights_kept (givenUnits gs) hs, givenUnits_eq_map]
  intro x hx
  rcases mem_givenUnits gs x hx with h | h
  · omega
  · exact hp x h

/-- The report the loader leaves behind has a `stage-weight` for every stage … -/
theorem loaded_report_complete (gs : List (Option Int)) : ∀ e ∈ loadReport gs, e.isSome = true := by
  intro e he
  simp only [loadReport, List.mem_map] at he
  obtain ⟨x, _, rfl⟩ := he
  rfl

private theorem readReport_map_some (n : Nat) (l : List Int) : readReport n (l.map some) = l := by
  induction l with
  | nil => rfl
  | cons x r ih => simp [readReport, ih]

/-- … so `StatusMonitor`, reading that report key by key, never meets its "malformed" sentinel and
reports with exactly the loaded list (position by position), missing stages included. -/
theorem monitor_reads_loaded_report (gs : List (Option Int)) (hn : 1 ≤ gs.length) :
    monitorFromReport (loadReport gs) = some (load gs) := by
  unfold monitorFromReport loadReport
  rw [readReport_map_some]
  exact monitor_keeps_loaded (givenUnits gs) (by rw [givenUnits_length]; exact hn)

/-- Both together, as the property states it: given weights that sum to one are the weights used
for reporting, a missing stage reports with weight 0. -/
theorem monitor_uses_given_weights (gs : List (Option Int)) (hn : 1 ≤ gs.length)
    (hs : sum (givenUnits gs) = one) (hp : ∀ u, some u ∈ gs → 0 ≤ u) :
    monitorFromReport (loadReport gs) = some (gs.map (fun o => o.getD 0)) := by
  rw [monitor_reads_loaded_report gs hn, missing_stages_weigh_zero gs hs hp]

/-! ### Per-stage progress from the controller's bookkeeping -/

private theorem finishedCount_le (s : List Bool) : finishedCount s ≤ s.length := by
  induction s with
  | nil => simp [finishedCount]
  | cons b r ih => cases b <;> simp [finishedCount] <;> omega

/-- `get_stage_status`: finished ⊆ population, so the stage progress `finished/population` is a
value in `[0, 1]` … -/
theorem stage_progress_in_unit_interval (s : List Bool) : (stageProgress s).1 ≤ (stageProgress s).2 :=
  finishedCount_le s

/-- … after every history of component completions, population growth (DoWhile iterations) and
earlier queries, for every stage; and its denominator is the CURRENT population. -/
theorem stage_progress_in_unit_interval_history (c : Ctl) (h : List CtlOp) (k : Nat) :
    (queryStage (run c h) k).1 ≤ (queryStage (run c h) k).2 ∧
      (queryStage (run c h) k).2 = ((run c h).stages.getD k []).length :=
  ⟨finishedCount_le _, rfl⟩

/-- a stage all of whose components are finished has progress `population/population` = 1 -/
theorem stage_complete_progress_one (s : List Bool) (h : ∀ b ∈ s, b = true) :
    (stageProgress s).1 = (stageProgress s).2 := by
  induction s with
  | nil => rfl
  | cons b r ih =>
    have hb : b = true := h b List.mem_cons_self
    have hr := ih (fun x hx => h x (List.mem_cons_of_mem _ hx))
    subst hb
    simp only [stageProgress, finishedCount, List.length_cons] at *
    omega

/-- a new DoWhile iteration keeps the numerator and adds to the denominator -/
theorem grow_adds_to_population (s : List Bool) (m : Nat) :
    stageProgress (s ++ List.replicate m false) = ((stageProgress s).1, (stageProgress s).2 + m) := by
  have h : ∀ t : List Bool, finishedCount (t ++ List.replicate m false) = finishedCount t := by
    intro t
    induction t with
    | nil =>
      induction m with
      | zero => rfl
      | succ m ih => simpa [List.replicate_succ, finishedCount] using ih
    | cons b r ih => cases b <;> simp [finishedCount, ih]
  simp [stageProgress, h]

private theorem prodLen_nonneg (ss : List (List Bool)) : 0 ≤ prodLen ss := by
  induction ss with
  | nil => simp [prodLen]
  | cons s r ih => exact Int.mul_nonneg (by omega) ih

private theorem len_dvd_prodLen (ss : List (List Bool)) (s : List Bool) (hs : s ∈ ss) :
    (s.length : Int) ∣ prodLen ss := by
  induction ss with
  | nil => simp at hs
  | cons t r ih =>
    rcases List.mem_cons.mp hs with h | h
    · subst h; exact Int.dvd_mul_right _ _
    · exact Int.dvd_trans (ih h) (Int.dvd_mul_left _ _)

/-- the stage fractions over a common scale `D ≥ 0` satisfy `0 ≤ p ≤ D` (hypothesis of `progress_bounds`) -/
theorem scaled_bounds (D : Int) (hD : 0 ≤ D) (s : List Bool) (hne : s ≠ []) :
    0 ≤ scaled D s ∧ scaled D s ≤ D := by
  have hlen : 0 < (s.length : Int) := by
    cases s with
    | nil => exact absurd rfl hne
    | cons b r => simp only [List.length_cons]; omega
  have hq : 0 ≤ D / (s.length : Int) := Int.ediv_nonneg hD (by omega)
  have hf : (finishedCount s : Int) ≤ (s.length : Int) := by
    have := finishedCount_le s; omega
  have h1 : (s.length : Int) * (D / (s.length : Int)) ≤ D := Int.mul_ediv_self_le (by omega)
  have h2 : (finishedCount s : Int) * (D / (s.length : Int)) ≤ (s.length : Int) * (D / (s.length : Int)) :=
    Int.mul_le_mul_of_nonneg_right hf hq
  unfold scaled
  exact ⟨Int.mul_nonneg (by omega) hq, by omega⟩

/-- End to end: per-stage progress values that come from the controller's bookkeeping (every stage
has at least one component) and loaded weights give `0 ≤ total ≤ 1 + 1e-6`
(numerators over `prodLen stages · one`). -/
theorem total_of_component_progress_in_unit_interval (stages : List (List Bool)) (ws : List Int)
    (hne : ∀ s ∈ stages, s ≠ []) (hn : 1 ≤ ws.length) (hl : stages.length = ws.length) :
    0 ≤ totalOfStages stages (normalize ws) ∧
      totalOfStages stages (normalize ws) ≤ prodLen stages * (one + tol) := by
  unfold totalOfStages
  apply total_progress_in_unit_interval (prodLen stages) (prodLen_nonneg stages) ws _ hn (by simpa using hl)
  intro p hp
  obtain ⟨s, hs, rfl⟩ := List.mem_map.mp hp
  exact scaled_bounds _ (prodLen_nonneg stages) s (hne s hs)

/-- … and once every component of every stage has finished the total is exactly `Σ w` (= one). -/
theorem total_of_complete_stages (stages : List (List Bool)) (ws : List Int)
    (hl : stages.length = ws.length)
    (hall : ∀ s ∈ stages, ∀ b ∈ s, b = true) :
    totalOfStages stages ws = prodLen stages * sum ws := by
  unfold totalOfStages
  have hp : ∀ e ∈ (stages.map (scaled (prodLen stages))).zip ws, e.1 = prodLen stages := by
    intro e he
    have h1 := (List.of_mem_zip he).1
    obtain ⟨s, hs, hse⟩ := List.mem_map.mp h1
    rw [← hse]
    unfold scaled
    have hc := stage_complete_progress_one s (hall s hs)
    simp only [stageProgress] at hc
    rw [hc]
    exact Int.mul_ediv_cancel' (len_dvd_prodLen stages s hs)
  rw [progress_complete (prodLen stages) _ hp]
  have : ((stages.map (scaled (prodLen stages))).zip ws).map Prod.snd = ws := by
    apply List.map_snd_zip; simp; omega
  rw [this]

/-! ### Final states of components, `comp_done`, and the two stage lists of a status check

`Comp`, `inTransitOf`, `finishedOf`, `compTotal` (Model/Weights.lean): the lists are derived from the
controller's record of observed terminations only, the per-stage progress from the components' own
final states.  The theorems hold for EVERY controller state, hence after every history `runC c ops`
and for every assignment of final states (FINISHED / SHUTDOWN / FAILED) to the components. -/

private theorem mem_inTransitOf (ss : List (List Comp)) (k : Nat) :
    k ∈ inTransitOf ss ↔ k < ss.length ∧ hasActive (ss.getD k []) = true := by
  simp [inTransitOf, List.mem_filter, List.mem_range]

private theorem mem_finishedOf (ss : List (List Comp)) (k : Nat) :
    k ∈ finishedOf ss ↔ k < ss.length ∧ hasActive (ss.getD k []) = false := by
  simp [finishedOf, List.mem_filter, List.mem_range]

/-- No stage is both in transit and finished — whatever final states its components reached. -/
theorem finished_and_in_transit_disjoint (ss : List (List Comp)) :
    ∀ k, k ∈ inTransitOf ss → k ∉ finishedOf ss := by
  intro k h1 h2
  have a := (mem_inTransitOf ss k).mp h1
  have b := (mem_finishedOf ss k).mp h2
  rw [a.2] at b
  exact absurd b.2 (by simp)

/-- Every stage the controller knows is in one of the two lists. -/
theorem finished_or_in_transit (ss : List (List Comp)) (k : Nat) (hk : k < ss.length) :
    k ∈ inTransitOf ss ∨ k ∈ finishedOf ss := by
  cases h : hasActive (ss.getD k [])
  · exact Or.inr ((mem_finishedOf ss k).mpr ⟨hk, h⟩)
  · exact Or.inl ((mem_inTransitOf ss k).mpr ⟨hk, h⟩)

/-- The finished list names a stage at most once. -/
theorem finishedOf_nodup (ss : List (List Comp)) : (finishedOf ss).Nodup :=
  List.nodup_range.filter _

private theorem succCount_le (s : List Comp) : succCount s ≤ s.length := by
  induction s with
  | nil => simp [succCount]
  | cons c r ih => simp only [succCount, List.length_cons]; split <;> omega

private theorem succCount_all (s : List Comp) (h : ∀ c ∈ s, c.succeeded = true) : succCount s = s.length := by
  induction s with
  | nil => simp [succCount]
  | cons c r ih =>
    have hc := h c (by simp)
    have hr := ih (fun d hd => h d (by simp [hd]))
    simp only [succCount, List.length_cons, hc, if_true, hr]; omega

private theorem prodLenC_nonneg (ss : List (List Comp)) : 0 ≤ prodLenC ss := by
  induction ss with
  | nil => simp [prodLenC]
  | cons s r ih => exact Int.mul_nonneg (by omega) ih

private theorem lenC_dvd_prodLenC (ss : List (List Comp)) (k : Nat) (hk : k < ss.length) :
    ((ss.getD k []).length : Int) ∣ prodLenC ss := by
  induction ss generalizing k with
  | nil => simp at hk
  | cons t r ih =>
    cases k with
    | zero => simpa [prodLenC] using Int.dvd_mul_right _ _
    | succ k =>
      have := ih k (by simpa using hk)
      simpa [prodLenC] using Int.dvd_trans this (Int.dvd_mul_left _ _)

/-- the per-stage progress of every stage is within `[0, D]` (FINISHED components over the population) -/
theorem scaledC_bounds (D : Int) (hD : 0 ≤ D) (s : List Comp) : 0 ≤ scaledC D s ∧ scaledC D s ≤ D := by
  have hf := succCount_le s
  by_cases h0 : s.length = 0
  · have h1 : succCount s = 0 := by omega
    simp [scaledC, h1, hD]
  · have hq : 0 ≤ D / (s.length : Int) := Int.ediv_nonneg hD (by omega)
    have h1 : (s.length : Int) * (D / (s.length : Int)) ≤ D := Int.mul_ediv_self_le (by omega)
    have h2 : (succCount s : Int) * (D / (s.length : Int)) ≤ (s.length : Int) * (D / (s.length : Int)) :=
      Int.mul_le_mul_of_nonneg_right (by omega) hq
    unfold scaledC
    exact ⟨Int.mul_nonneg (by omega) hq, by omega⟩

/-- **A completed stage contributes exactly its weight, once.**  A stage other than the current one
all of whose components the controller observed terminating is weighted with the full scale by one
status check — whatever the final states (FINISHED, SHUTDOWN, FAILED, any mixture) of its components. -/
theorem completed_stage_counts_once (cur : Nat) (ss : List (List Comp)) (k : Nat) (hk : k < ss.length)
    (hc : k ≠ cur) (hdone : hasActive (ss.getD k []) = false) :
    stageFactor (prodLenC ss) cur (inTransitOf ss) (finishedOf ss) (progC ss) k = prodLenC ss := by
  have hnt : k ∉ inTransitOf ss := by
    intro h
    have := ((mem_inTransitOf ss k).mp h).2
    rw [hdone] at this; exact absurd this (by simp)
  have hf : k ∈ finishedOf ss := (mem_finishedOf ss k).mpr ⟨hk, hdone⟩
  have hm : k ∈ (finishedOf ss).filter (fun i => i != cur) := List.mem_filter.mpr ⟨hf, by simp [hc]⟩
  have hle := count_le_one_of_nodup ((finishedOf_nodup ss).filter (fun i => i != cur)) k
  have hpos : 0 < ((finishedOf ss).filter (fun i => i != cur)).count k := List.count_pos_iff.mpr hm
  have hcount : ((finishedOf ss).filter (fun i => i != cur)).count k = 1 := by omega
  unfold stageFactor
  simp [hc, hnt, hcount]

/-- The current stage and every stage that still has an active component contribute
progress × weight, once (they are never added a second time through the finished list). -/
theorem unfinished_stage_counts_its_progress (cur : Nat) (ss : List (List Comp)) (k : Nat)
    (h : k = cur ∨ (k < ss.length ∧ hasActive (ss.getD k []) = true)) :
    stageFactor (prodLenC ss) cur (inTransitOf ss) (finishedOf ss) (progC ss) k = progC ss k := by
  have hz : ((finishedOf ss).filter (fun i => i != cur)).count k = 0 := by
    apply List.count_eq_zero.mpr
    intro hm
    have hm' := List.mem_filter.mp hm
    rcases h with h | h
    · subst h; simp at hm'
    · exact finished_and_in_transit_disjoint ss k ((mem_inTransitOf ss k).mpr h) hm'.1
  have hk : k = cur ∨ k ∈ inTransitOf ss := by
    rcases h with h | h
    · exact Or.inl h
    · exact Or.inr ((mem_inTransitOf ss k).mpr h)
  unfold stageFactor
  simp only [hk, if_true, hz]
  simp

/-- **Total progress is a proper fraction in every controller state**: with the loaded weights
`0 ≤ total ≤ 1 + 1e-6` (numerator over `prodLenC ss · one`) for every current stage, every population
and every assignment of final states / observed flags to the components. -/
theorem comp_total_in_unit_interval (cur : Nat) (ss : List (List Comp)) (ws : List Int) (hn : 1 ≤ ws.length) :
    0 ≤ compTotal cur ss (normalize ws) ∧ compTotal cur ss (normalize ws) ≤ prodLenC ss * (one + tol) :=
  progress_of_partition_loaded (prodLenC ss) cur (inTransitOf ss) (finishedOf ss) (progC ss) ws hn
    (finished_and_in_transit_disjoint ss) (finishedOf_nodup ss)
    (fun k => scaledC_bounds _ (prodLenC_nonneg ss) _)

/-- … in particular after every history of terminations (in any final state), observations, DoWhile
growth, stage stops and stage-loop steps. -/
theorem comp_total_in_unit_interval_history (c : CState) (ops : List COp) (ws : List Int) (hn : 1 ≤ ws.length) :
    0 ≤ compTotal (runC c ops).cur (runC c ops).stages (normalize ws) ∧
      compTotal (runC c ops).cur (runC c ops).stages (normalize ws) ≤ prodLenC (runC c ops).stages * (one + tol) :=
  comp_total_in_unit_interval _ _ ws hn

private theorem wsumFrom_congr (f g : Nat → Int) (ws : List Int) (k : Nat)
    (h : ∀ j, k ≤ j → j < k + ws.length → f j = g j) : wsumFrom f k ws = wsumFrom g k ws := by
  induction ws generalizing k with
  | nil => rfl
  | cons w r ih =>
    simp only [wsumFrom]
    rw [h k (Nat.le_refl k) (by simp), ih (k + 1) (fun j h1 h2 => h j (by omega) (by simp only [List.length_cons]; omega))]

/-- **Equals one once every stage has completed**: every stage other than the current one has no
active component left (its components terminated in ANY final state and were observed) and the
current stage has full progress (all of its components FINISHED) ⇒ the check reports `Σ w`. -/
theorem comp_total_complete (cur : Nat) (ss : List (List Comp)) (ws : List Int) (hl : ss.length = ws.length)
    (hcl : cur < ss.length)
    (hother : ∀ k, k < ss.length → k ≠ cur → hasActive (ss.getD k []) = false)
    (hcur : ∀ c ∈ ss.getD cur [], c.succeeded = true) :
    compTotal cur ss ws = prodLenC ss * sum ws := by
  unfold compTotal checkTotal wsum
  rw [wsumFrom_congr _ (fun _ => prodLenC ss) ws 0 ?_, wsumFrom_const]
  intro j _ hj
  by_cases hjc : j = cur
  · subst hjc
    rw [unfinished_stage_counts_its_progress j ss j (Or.inl rfl)]
    unfold progC scaledC
    rw [succCount_all _ hcur]
    exact Int.mul_ediv_cancel' (lenC_dvd_prodLenC ss j hcl)
  · exact completed_stage_counts_once cur ss j (by omega) hjc (hother j (by omega) hjc)

/-- well-formed bookkeeping: the controller observed only components that terminated -/
def ObservedTerminated (ss : List (List Comp)) : Prop :=
  ∀ s ∈ ss, ∀ c ∈ s, c.seen = true → c.st.isSome = true

private theorem mem_modifyAt {α : Type} (f : α → α) (l : List α) (i : Nat) (x : α) (hx : x ∈ modifyAt f l i) :
    x ∈ l ∨ ∃ y ∈ l, x = f y := by
  induction l generalizing i with
  | nil => simp [modifyAt] at hx
  | cons a r ih =>
    cases i with
    | zero =>
      simp only [modifyAt, List.mem_cons] at hx
      rcases hx with h | h
      · exact Or.inr ⟨a, by simp, h⟩
      · exact Or.inl (by simp [h])
    | succ i =>
      simp only [modifyAt, List.mem_cons] at hx
      rcases hx with h | h
      · exact Or.inl (by simp [h])
      · rcases ih i h with h' | ⟨y, hy, hxy⟩
        · exact Or.inl (by simp [h'])
        · exact Or.inr ⟨y, by simp [hy], hxy⟩

private theorem wfc_term (f : Final) (c : Comp) (h : c.seen = true → c.st.isSome = true) :
    (Comp.term f c).seen = true → (Comp.term f c).st.isSome = true := by
  unfold Comp.term; split <;> simp_all

private theorem wfc_see (c : Comp) (h : c.seen = true → c.st.isSome = true) :
    (Comp.see c).seen = true → (Comp.see c).st.isSome = true := by
  unfold Comp.see; split <;> simp_all

private theorem wfc_stop (c : Comp) (h : c.seen = true → c.st.isSome = true) :
    (Comp.stop c).seen = true → (Comp.stop c).st.isSome = true := by
  unfold Comp.stop; split <;> simp_all

private theorem wf_stage_op (g : List Comp → List Comp)
    (hg : ∀ s, (∀ c ∈ s, c.seen = true → c.st.isSome = true) → ∀ c ∈ g s, c.seen = true → c.st.isSome = true)
    (ss : List (List Comp)) (k : Nat) (h : ObservedTerminated ss) : ObservedTerminated (modifyAt g ss k) := by
  intro s hs
  rcases mem_modifyAt g ss k s hs with h1 | ⟨y, hy, rfl⟩
  · exact h s h1
  · exact hg y (h y hy)

/-- **History invariant**: along every history the controller's `comp_done` only holds components
that reached a final state (so "no active node" means "every component of the stage terminated"). -/
theorem observed_only_after_termination (c : CState) (ops : List COp) (h : ObservedTerminated c.stages) :
    ObservedTerminated (runC c ops).stages := by
  induction ops generalizing c with
  | nil => exact h
  | cons o r ih =>
    apply ih
    cases o with
    | term k i f =>
      apply wf_stage_op _ _ _ _ h
      intro s hs c hc
      rcases mem_modifyAt _ s i c hc with h1 | ⟨y, hy, rfl⟩
      · exact hs c h1
      · exact wfc_term f y (hs y hy)
    | see k i =>
      apply wf_stage_op _ _ _ _ h
      intro s hs c hc
      rcases mem_modifyAt _ s i c hc with h1 | ⟨y, hy, rfl⟩
      · exact hs c h1
      · exact wfc_see y (hs y hy)
    | grow k m =>
      apply wf_stage_op _ _ _ _ h
      intro s hs c hc
      rcases List.mem_append.mp hc with h1 | h1
      · exact hs c h1
      · have := (List.mem_replicate.mp h1).2
        subst this; simp [Comp.fresh]
    | stop k =>
      apply wf_stage_op _ _ _ _ h
      intro s hs c hc
      obtain ⟨y, hy, rfl⟩ := List.mem_map.mp hc
      exact wfc_stop y (hs y hy)
    | next => exact h

-- non-vacuity: hypotheses are met by concrete non-trivial inputs
example : normalize [333300000, 333300000, 333400000] = [333300000, 333300000, 333400000] := by decide
example : normalize [500400000, 500400000] = fallback 2 := by decide
example : normalize [-500000000, 1500000000] = [500 * milli, 500 * milli] := by decide
example : fallback 3 = [333 * milli, 333 * milli, 334 * milli] := by decide
example : progress ([500, 1000].zip (normalize [250000000, 750000000])) = 875 * one := by decide

example : monitorWeights (normalize [100000000, 800000000, 100000000]) = some [100000000, 800000000, 100000000] := by decide
-- a consistent controller state: stage 0 finished, stage 1 in transit and current at 40%, stage 2 unknown
example : Snap.Consistent ⟨1, [1], [0], readOf [1000, 400, 0]⟩ 1000 :=
  ⟨by decide, by decide, by intro k; match k with | 0 | 1 | 2 => decide | k + 3 => simp [readOf],
   by intro k hk; simp at hk; subst hk; decide,
   by intro k h1 h2; match k with | 0 => simp at h2 | 1 => simp at h1 | k + 2 => cases k <;> simp [readOf]⟩
example : checkTotal 1000 1 [1] [0] (readOf [1000, 400, 0]) [100000000, 800000000, 100000000] = 420 * one := by decide

-- missing stages: [0.4, 0.6, missing] is loaded as [0.4, 0.6, 0.0] and reported with as such
example : load [some 400000000, some 600000000, none] = [400000000, 600000000, 0] := by decide
example : monitorFromReport (loadReport [none, some 250000000, some 750000000]) = some [0, 250000000, 750000000] := by
  decide
-- a DoWhile stage: 1 of 1 finished, the next iteration adds two components, both finish later
example : queryStage (run ⟨[[false], [false]], [none, none]⟩ [.query 1, .fin 1 0, .grow 1 2, .query 1]) 1 = (1, 3) := by
  decide
example : totalOfStages [[true], [true, false, false]] [250000000, 750000000] = 3 * 250000000 + 1 * 750000000 := by
  decide

-- a stage that completed with a SHUTDOWN and a FAILED component: finished, not in transit, weight once
example : finishedOf [[⟨some .finished, true⟩, ⟨some .shutdown, true⟩, ⟨some .failed, true⟩], [Comp.fresh], [Comp.fresh]] = [0]
    ∧ inTransitOf [[⟨some .finished, true⟩, ⟨some .shutdown, true⟩, ⟨some .failed, true⟩], [Comp.fresh], [Comp.fresh]] = [1, 2] := by
  decide
example : compTotal 1 [[⟨some .finished, true⟩, ⟨some .shutdown, true⟩], [Comp.fresh], [Comp.fresh]]
    [200000000, 300000000, 500000000] = 2 * 200000000 := by decide
example : compTotal 2 [[⟨some .finished, true⟩, ⟨some .shutdown, true⟩], [⟨some .failed, true⟩], [⟨some .finished, false⟩]]
    [200000000, 300000000, 500000000] = 2 * one := by decide
example : ObservedTerminated (runC ⟨0, [[Comp.fresh, Comp.fresh], [Comp.fresh]]⟩
    [.term 0 0 .finished, .see 0 0, .stop 0, .next, .term 1 0 .failed, .see 1 0]).stages := by
  intro s hs c hc; revert c; revert s; decide

end St4sd.C20
