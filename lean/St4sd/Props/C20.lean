import St4sd.Model.Weights
/-!
# C20 — Reported progress is a proper weighted fraction

Property theorems only (helper lemmas are local `private` ones below the statements they serve).
Units: see `Model/Weights.lean` (1 = 10^9 units, tolerance 1e-6 = 1000 units).
-/
namespace St4sd.C20
open St4sd.Weights

private theorem sum_append (a b : List Int) : sum (a ++ b) = sum a + sum b := by
  induction a with
  | nil => simp [sum]
  | cons x xs ih => simp [sum, ih]; omega

private theorem sum_replicate (k : Nat) (x : Int) : sum (List.replicate k x) = (k : Int) * x := by
  induction k with
  | zero => simp [sum]
  | succ k ih =>
    simp only [List.replicate_succ, sum, ih]
    rw [Int.natCast_succ, Int.add_mul]; omega

private theorem allNonneg_iff (ws : List Int) : allNonneg ws = true ↔ ∀ x ∈ ws, 0 ≤ x := by
  induction ws with
  | nil => simp [allNonneg]
  | cons x xs ih => simp [allNonneg, ih]

/-- The fallback weights always sum to exactly one, for every number of stages `n ≥ 1`
(including `n > 1000`, where `int(1000/n) = 0` and the last stage carries everything). -/
theorem fallback_sums_to_one (n : Nat) (hn : 1 ≤ n) : sum (fallback n) = one := by
  unfold fallback
  rw [sum_append, sum_replicate]
  simp only [sum, one, milli]
  have : ((n - 1 : Nat) : Int) = (n : Int) - 1 := by omega
  rw [this]
  generalize (1000 / (n : Int)) = q
  generalize (n : Int) - 1 = m
  have h1 : m * (q * 1000000) = (m * q) * 1000000 := by rw [Int.mul_assoc]
  rw [h1, Int.sub_mul]
  omega

/-- … and are all non-negative. -/
theorem fallback_nonneg (n : Nat) (hn : 1 ≤ n) : ∀ x ∈ fallback n, 0 ≤ x := by
  intro x hx
  unfold fallback at hx
  have hq : 0 ≤ 1000 / (n : Int) := Int.ediv_nonneg (by omega) (by omega)
  rcases List.mem_append.mp hx with h | h
  · have := (List.mem_replicate.mp h).2
    subst this
    exact Int.mul_nonneg hq (by simp [milli])
  · simp only [List.mem_singleton] at h
    subst h
    apply Int.mul_nonneg _ (by simp [milli])
    -- (n-1) * (1000 / n) ≤ n * (1000 / n) ≤ 1000
    have h1 : (n : Int) * (1000 / (n : Int)) ≤ 1000 := Int.mul_ediv_self_le (by omega)
    have h2 : ((n : Int) - 1) * (1000 / (n : Int)) ≤ (n : Int) * (1000 / (n : Int)) :=
      Int.mul_le_mul_of_nonneg_right (by omega) hq
    omega

/-- `fallback n` has one weight per stage. -/
theorem fallback_length (n : Nat) (hn : 1 ≤ n) : (fallback n).length = n := by
  simp [fallback]; omega

/-- Full statement, clause 1: after loading, the weights are non-negative and sum to one
(within the loader's tolerance of 1e-6 when the package's own weights are kept, exactly
otherwise) — for every number of stages and every given weight list. -/
theorem loaded_weights_proper (ws : List Int) (hn : 1 ≤ ws.length) :
    (∀ x ∈ normalize ws, 0 ≤ x) ∧ sum (normalize ws) - one < tol ∧ one - sum (normalize ws) < tol := by
  unfold normalize
  split
  · rename_i h
    simp only [proper, Bool.and_eq_true, decide_eq_true_eq] at h
    exact ⟨(allNonneg_iff ws).mp h.1.1, h.1.2, h.2⟩
  · refine ⟨fallback_nonneg _ hn, ?_, ?_⟩ <;> rw [fallback_sums_to_one _ hn] <;> simp [tol]

/-- Full statement, clause 2: weights that already are non-negative and sum to one are
returned unchanged. -/
theorem proper_weights_kept (ws : List Int) (hs : sum ws = one) (hp : ∀ x ∈ ws, 0 ≤ x) :
    normalize ws = ws := by
  unfold normalize proper
  rw [(allNonneg_iff ws).mpr hp, hs]
  simp [tol]

/-- … and `StatusMonitor` keeps whatever the loader produced (so both places agree and the
weights used for reporting are the loaded ones). -/
theorem monitor_keeps_loaded (ws : List Int) (hn : 1 ≤ ws.length) : monitorKeeps (normalize ws) = true := by
  have h := loaded_weights_proper ws hn
  unfold monitorKeeps proper
  rw [(allNonneg_iff _).mpr h.1]
  simp [h.2.1, h.2.2]

/-- Negative weights are never kept, whatever the sum. -/
theorem negative_never_kept (ws : List Int) (x : Int) (hx : x ∈ ws) (hneg : x < 0) :
    normalize ws = fallback ws.length := by
  unfold normalize
  have : proper ws = false := by
    unfold proper
    have : allNonneg ws = false := by
      cases h : allNonneg ws with
      | false => rfl
      | true => have := (allNonneg_iff ws).mp h x hx; omega
    simp [this]
  simp [this]

/-- The coded guard `num_stages * int(100*fallbackWeight) != 1000` can never be false:
`int(100*fallbackWeight) ≤ 100 / n`, so the product is at most 100. -/
theorem guard_always_true (n : Nat) (hn : 1 ≤ n) (c : Int) (hc : c ≤ 100 / (n : Int)) : (n : Int) * c ≠ 1000 := by
  have h1 : (n : Int) * (100 / (n : Int)) ≤ 100 := Int.mul_ediv_self_le (by omega)
  have h2 : (n : Int) * c ≤ (n : Int) * (100 / (n : Int)) := Int.mul_le_mul_of_nonneg_left hc (by omega)
  omega

/-- Progress bound: with per-stage progress `0 ≤ p ≤ scale` and non-negative weights,
`0 ≤ Σ p·w ≤ scale · Σ w`; (divide by `scale·one` to read it as `0 ≤ total ≤ Σ w`). -/
theorem progress_bounds (scale : Int) (ps : List (Int × Int))
    (hp : ∀ e ∈ ps, 0 ≤ e.1 ∧ e.1 ≤ scale) (hw : ∀ e ∈ ps, 0 ≤ e.2) :
    0 ≤ progress ps ∧ progress ps ≤ scale * sum (ps.map Prod.snd) := by
  induction ps with
  | nil => simp [progress, sum]
  | cons e r ih =>
    obtain ⟨p, w⟩ := e
    have hr := ih (fun e he => hp e (List.mem_cons_of_mem _ he)) (fun e he => hw e (List.mem_cons_of_mem _ he))
    have h1 := hp (p, w) (List.mem_cons_self)
    have h2 := hw (p, w) (List.mem_cons_self)
    simp only [progress, List.map, sum] at *
    have a : 0 ≤ p * w := Int.mul_nonneg h1.1 h2
    have b : p * w ≤ scale * w := Int.mul_le_mul_of_nonneg_right h1.2 h2
    rw [Int.mul_add]
    omega

/-- Progress equals (scale times) the weight sum once every stage is complete. -/
theorem progress_complete (scale : Int) (ps : List (Int × Int)) (hp : ∀ e ∈ ps, e.1 = scale) :
    progress ps = scale * sum (ps.map Prod.snd) := by
  induction ps with
  | nil => simp [progress, sum]
  | cons e r ih =>
    obtain ⟨p, w⟩ := e
    have hr := ih (fun e he => hp e (List.mem_cons_of_mem _ he))
    have h1 : p = scale := hp (p, w) (List.mem_cons_self)
    simp only [progress, List.map, sum, hr, h1, Int.mul_add]

/-- Consequence stated as in the property: for loaded weights and progress values in
`[0, scale]`, `0 ≤ total ≤ scale·(1+1e-6)`, and with exact weights (`sum = one`) the total
of a completed experiment is exactly `scale·one`. -/
theorem total_progress_in_unit_interval (scale : Int) (hs : 0 ≤ scale) (ws ps : List Int)
    (hn : 1 ≤ ws.length) (hl : ps.length = ws.length) (hp : ∀ p ∈ ps, 0 ≤ p ∧ p ≤ scale) :
    0 ≤ progress (ps.zip (normalize ws)) ∧ progress (ps.zip (normalize ws)) ≤ scale * (one + tol) := by
  have hw := loaded_weights_proper ws hn
  have hb := progress_bounds scale (ps.zip (normalize ws))
    (fun e he => hp e.1 (List.of_mem_zip he).1) (fun e he => hw.1 e.2 (List.of_mem_zip he).2)
  refine ⟨hb.1, Int.le_trans hb.2 ?_⟩
  apply Int.mul_le_mul_of_nonneg_left _ hs
  have hlen : (normalize ws).length = ws.length := by
    unfold normalize; split
    · rfl
    · exact fallback_length _ hn
  have : (ps.zip (normalize ws)).map Prod.snd = normalize ws := by
    apply List.map_snd_zip; omega
  rw [this]; omega

-- non-vacuity: hypotheses are met by concrete non-trivial inputs
example : normalize [333300000, 333300000, 333400000] = [333300000, 333300000, 333400000] := by decide
example : normalize [500400000, 500400000] = fallback 2 := by decide
example : normalize [-500000000, 1500000000] = [500 * milli, 500 * milli] := by decide
example : fallback 3 = [333 * milli, 333 * milli, 334 * milli] := by decide
example : progress ([500, 1000].zip (normalize [250000000, 750000000])) = 875 * one := by decide

end St4sd.C20
