import St4sd.Lemmas.C05
/-!
# C05 — DoWhile unrolling is wired correctly for any number of iterations

Theorems about `St4sd.Loop` (`Model/Loop.lean`) with the repaired sort keys (`num = true`, i.e.
`fixes/C05-numeric-iteration-order.diff`) and the repaired single-pass substitution of argument strings
(`fixes/C05-rewrite-references-single-pass.diff`) and the condition matched on stage and name
(`fixes/C05-condition-matched-by-stage.diff`).  The code as it is violates the `latest`/order clauses from
iteration 10 on and the argument clause for repeated/overlapping references: `Witness/C05.lean`.

Standing hypotheses (what the loader validates / what the generator of the harness guarantees):
* `hOut`  : names of the components outside the loop contain no `#`;
* `hCond` : the condition (stage, name) is a looped component (`instantiate_dowhile` raises otherwise);
* `hNames`: names of the template components contain no `#` (needed for the loop-carried clause only);
* `hNodup`: the template has no duplicate component ids (`instantiate_dowhile` raises otherwise; needed for the
  aggregate order only).
-/
namespace St4sd.C05
open St4sd.Str St4sd.Loop St4sd.C05L

/-- ids of the instances of iteration `i` -/
def blockIds (d : Doc) (i : Nat) : List CId := d.comps.map fun c => (c.stage + d.importStage, instName i c.name)

/-- ids of the instances of iterations `0 … k`, iteration by iteration -/
def instanceIds (d : Doc) (k : Nat) : List CId := (List.range (k + 1)).flatMap (blockIds d)

/-- id of the placeholder of template component `c` -/
def pid (d : Doc) (c : Comp) : CId := (c.stage + d.importStage, c.name)

def OutsideUnlooped (out : List Comp) : Prop := ∀ c ∈ out, isLooped c.name = false
def CondInLoop (d : Doc) : Prop := ∃ c ∈ d.comps, c.stage = d.condStage ∧ c.name = d.condName

private theorem ids_instantiate (d : Doc) (known : List CId) (i : Nat) : ids (instantiate d known i) = blockIds d i := by
  simp [ids, instantiate, blockIds, Comp.id, List.map_map, Function.comp_def]

private theorem ids_append (a b : List Comp) : ids (a ++ b) = ids a ++ ids b := by simp [ids]

private theorem blockIds_eq (d : Doc) (i : Nat) : blockIds d i = (loopIds d).map fun q => (q.1, instName i q.2) := by
  simp [blockIds, loopIds, List.map_map, Function.comp_def]

private theorem mem_instanceIds {d : Doc} {k : Nat} {x : CId} (h : x ∈ instanceIds d k) :
    ∃ i, i ≤ k ∧ ∃ c ∈ d.comps, x = (c.stage + d.importStage, instName i c.name) := by
  simp only [instanceIds, List.mem_flatMap, List.mem_range, blockIds, List.mem_map] at h
  obtain ⟨i, hi, c, hc, e⟩ := h
  exact ⟨i, by omega, c, hc, e.symm⟩

private theorem instanceIds_mem {d : Doc} {k i : Nat} (hi : i ≤ k) {c : Comp} (hc : c ∈ d.comps) :
    (c.stage + d.importStage, instName i c.name) ∈ instanceIds d k := by
  simp only [instanceIds, List.mem_flatMap, List.mem_range, blockIds, List.mem_map]
  exact ⟨i, by omega, c, hc, rfl⟩

private theorem loopedIds_of_ids {out cs : List Comp} {d : Doc} {k : Nat} (hOut : OutsideUnlooped out)
    (h : ids cs = ids out ++ instanceIds d k) : loopedIds cs = instanceIds d k := by
  unfold loopedIds
  rw [h, List.filter_append]
  have h1 : (ids out).filter (fun x => isLooped x.2) = [] := by
    rw [List.filter_eq_nil_iff]
    intro x hx
    simp only [ids, List.mem_map] at hx
    obtain ⟨c, hc, e⟩ := hx
    subst e
    simp [Comp.id, hOut c hc]
  have h2 : (instanceIds d k).filter (fun x => isLooped x.2) = instanceIds d k := by
    rw [List.filter_eq_self]
    intro x hx
    obtain ⟨i, _, c, _, e⟩ := mem_instanceIds hx
    subst e
    simp
  rw [h1, h2, List.nil_append]

/-- Key lemma on the choice of the newest instance among the instances `0 … k` that satisfy a predicate which the
instance `k` of `c` satisfies: it is instance `k`. -/
private theorem firstMax_instances {d : Doc} {k : Nat} (p : CId → Bool) {z : CId}
    (hz : firstMaxBy (iterLt true) ((instanceIds d k).filter p) = some z)
    {c : Comp} (hc : c ∈ d.comps) (hp : p (c.stage + d.importStage, instName k c.name) = true) :
    ∃ c' ∈ d.comps, z = (c'.stage + d.importStage, instName k c'.name) ∧ p z = true := by
  rw [iterLt_true] at hz
  obtain ⟨hmem, hmax⟩ := firstMaxBy_key (fun x : CId => iterNum x.2) _ z hz
  rw [List.mem_filter] at hmem
  obtain ⟨i, hi, c', hc', e⟩ := mem_instanceIds hmem.1
  have hk := hmax (c.stage + d.importStage, instName k c.name) (List.mem_filter.mpr ⟨instanceIds_mem (Nat.le_refl k) hc, hp⟩)
  subst e
  simp only [iterNum_instName] at hk
  have : i = k := by omega
  subst this
  exact ⟨c', hc', rfl, hmem.2⟩

private theorem curIter_of_ids {out cs : List Comp} {d : Doc} {k : Nat} (hOut : OutsideUnlooped out) (hCond : CondInLoop d)
    (h : ids cs = ids out ++ instanceIds d k) :
    curIter d cs = k ∧ latestCond d cs = some (d.condStage + d.importStage, instName k d.condName) := by
  obtain ⟨c, hc, hcs, hcn⟩ := hCond
  have hL : condInstances d cs = (instanceIds d k).filter
      (fun x => x.1 == d.condStage + d.importStage && baseName x.2 == d.condName) := by
    unfold condInstances; rw [loopedIds_of_ids hOut h]
  have hp : (fun x : CId => x.1 == d.condStage + d.importStage && baseName x.2 == d.condName)
      (c.stage + d.importStage, instName k c.name) = true := by
    simp [hcn, hcs]
  have hne : condInstances d cs ≠ [] := by
    rw [hL]
    exact List.ne_nil_of_mem (List.mem_filter.mpr ⟨instanceIds_mem (Nat.le_refl k) hc, hp⟩)
  obtain ⟨z, hz⟩ := firstMaxBy_isSome (iterLt true) _ hne
  have hz' := hz
  rw [hL] at hz'
  obtain ⟨c', _, e, hpz⟩ := firstMax_instances _ hz' hc hp
  subst e
  simp only [baseName_instName, Bool.and_eq_true, beq_iff_eq] at hpz
  refine ⟨?_, ?_⟩
  · simp [curIter, latestCond, hz]
  · simp [latestCond, hz, hpz.1, hpz.2]

/-- Invariant of `run`: the component ids after `k` further iterations, and the iteration counter. -/
private theorem run_inv (d : Doc) (out : List Comp) (hOut : OutsideUnlooped out) (hCond : CondInLoop d) :
    ∀ k, ids (run d out k).comps = ids out ++ instanceIds d k := by
  intro k
  induction k with
  | zero =>
    simp [run, init, ids_append, ids_instantiate, instanceIds, List.range_succ]
  | succ k ih =>
    have hcur := (curIter_of_ids hOut hCond ih).1
    simp only [run, step, ids_append, ids_instantiate, hcur, ih]
    simp [instanceIds, List.range_succ, List.flatMap_append]

/-- **instances_exact.**  After any number `k` of further iterations the workflow consists of the components outside
the loop followed by exactly the instances `0 … k` of every looped component (iteration by iteration, template
order), and the components recognised as looped are exactly those instances. -/
theorem instances_exact (d : Doc) (out : List Comp) (hOut : OutsideUnlooped out) (hCond : CondInLoop d) (k : Nat) :
    ids (run d out k).comps = ids out ++ instanceIds d k ∧ loopedIds (run d out k).comps = instanceIds d k :=
  ⟨run_inv d out hOut hCond k, loopedIds_of_ids hOut (run_inv d out hOut hCond k)⟩

/-- membership form: `x` is a looped component of the workflow iff it is instance `i ≤ k` of a template component -/
theorem instances_exact_mem (d : Doc) (out : List Comp) (hOut : OutsideUnlooped out) (hCond : CondInLoop d) (k : Nat)
    (x : CId) : x ∈ loopedIds (run d out k).comps ↔
      ∃ i, i ≤ k ∧ ∃ c ∈ d.comps, x = (c.stage + d.importStage, instName i c.name) := by
  rw [(instances_exact d out hOut hCond k).2]
  constructor
  · exact mem_instanceIds
  · rintro ⟨i, hi, c, hc, e⟩; subst e; exact instanceIds_mem hi hc

/-- **condition_is_k.**  The loop's current iteration is `k` and its current condition is the condition reference of
the document produced by instance `k` of the condition component, in the condition's stage (for every `k`:
`compute_dowhile_state` sorts on `int`; with the repair it also matches the stage, so another looped component of
the same name in a different stage cannot be taken for the condition). -/
theorem condition_is_k (d : Doc) (out : List Comp) (hOut : OutsideUnlooped out) (hCond : CondInLoop d) (k : Nat) :
    curIter d (run d out k).comps = k ∧
    currentCondition d (run d out k).comps =
      some ((d.condStage + d.importStage, instName k d.condName), d.condFile) := by
  obtain ⟨h1, h2⟩ := curIter_of_ids hOut hCond (run_inv d out hOut hCond k)
  exact ⟨h1, by simp [currentCondition, h2]⟩

/-- the next iteration generated is always `k + 1`, from the ids known after `k` iterations -/
theorem run_succ (d : Doc) (out : List Comp) (hOut : OutsideUnlooped out) (hCond : CondInLoop d) (k : Nat) :
    (run d out (k + 1)).comps = (run d out k).comps ++ instantiate d (ids (run d out k).comps) (k + 1) := by
  have := (condition_is_k d out hOut hCond k).1
  simp [run, step, this]

private theorem matched_eq {d : Doc} {out : List Comp} (hOut : OutsideUnlooped out) (hCond : CondInLoop d) (k : Nat) (p : CId) :
    matched (run d out k).comps p = (instanceIds d k).filter (fun x => x.1 == p.1 && baseName x.2 == p.2) := by
  unfold matched; rw [(instances_exact d out hOut hCond k).2]

private theorem findPlaceholder_mem (num : Bool) (d : Doc) (cs : List Comp) (p : CId) (hp : p ∈ loopIds d) :
    findPlaceholder num d cs p =
      some { id := p, represents := matched cs p, latest := firstMaxBy (iterLt num) (matched cs p) } := by
  unfold findPlaceholder placeholders
  generalize loopIds d = l at hp
  induction l with
  | nil => simp at hp
  | cons x l ih =>
    simp only [List.map_cons, List.find?_cons]
    by_cases hx : x = p
    · subst hx; simp
    · have : (x == p) = false := by simpa using hx
      simp only [this]
      exact ih (by rcases List.mem_cons.mp hp with e | e; exact absurd e.symm hx; exact e)

/-- **latest_is_numeric_max.**  For every looped component `c` and every `k`, the placeholder's `latest` — the
producer that a `:ref`/`:output`/`:copy`/… reference from outside the loop resolves to — is instance `k`, the
numerically highest iteration (for `k ≥ 10` as well: `int` keys, `int(str(k)) = k`). -/
theorem latest_is_numeric_max (d : Doc) (out : List Comp) (hOut : OutsideUnlooped out) (hCond : CondInLoop d) (k : Nat)
    (c : Comp) (hc : c ∈ d.comps) :
    resolveProducer true d (run d out k).comps (pid d c) = some (c.stage + d.importStage, instName k c.name) := by
  have hp : pid d c ∈ loopIds d := List.mem_map.mpr ⟨c, hc, rfl⟩
  simp only [resolveProducer, findPlaceholder_mem true d _ _ hp]
  have hpred : (fun x : CId => x.1 == (pid d c).1 && baseName x.2 == (pid d c).2)
      (c.stage + d.importStage, instName k c.name) = true := by simp [pid]
  have hne : matched (run d out k).comps (pid d c) ≠ [] := by
    rw [matched_eq hOut hCond]
    exact List.ne_nil_of_mem (List.mem_filter.mpr ⟨instanceIds_mem (Nat.le_refl k) hc, hpred⟩)
  obtain ⟨z, hz⟩ := firstMaxBy_isSome (iterLt true) _ hne
  rw [hz]
  have hz' := hz
  rw [matched_eq hOut hCond] at hz'
  obtain ⟨c', _, e, hpz⟩ := firstMax_instances _ hz' hc hpred
  subst e
  simp only [pid, baseName_instName, Bool.and_eq_true, beq_iff_eq] at hpz
  rw [hpz.1, hpz.2]

/-- the same choice as a maximum: every instance the placeholder represents has an iteration number `≤` that of
`latest` -/
theorem latest_ge_all (d : Doc) (out : List Comp) (hOut : OutsideUnlooped out) (hCond : CondInLoop d) (k : Nat)
    (c : Comp) (x : CId) (hx : x ∈ matched (run d out k).comps (pid d c)) :
    iterNum x.2 ≤ k := by
  rw [matched_eq hOut hCond] at hx
  obtain ⟨i, hi, c', _, e⟩ := mem_instanceIds (List.mem_filter.mp hx).1
  subst e; simpa using hi

private theorem block_filter (d : Doc) (hNodup : (loopIds d).Nodup) (c : Comp) (hc : c ∈ d.comps) (i : Nat) :
    (blockIds d i).filter (fun x => x.1 == (pid d c).1 && baseName x.2 == (pid d c).2)
      = [(c.stage + d.importStage, instName i c.name)] := by
  have hp : pid d c ∈ loopIds d := List.mem_map.mpr ⟨c, hc, rfl⟩
  rw [blockIds_eq, List.filter_map]
  have : ((fun x : CId => x.1 == (pid d c).1 && baseName x.2 == (pid d c).2) ∘ fun q : CId => (q.1, instName i q.2))
      = fun q => q == pid d c := by
    funext q
    obtain ⟨a, b⟩ := q
    apply Bool.eq_iff_iff.mpr
    simp [pid, Prod.ext_iff]
  rw [this, filter_eq_singleton (pid d c) _ hNodup hp]
  simp [pid]

/-- the instances represented by the placeholder of `c`, in the order of the workflow -/
theorem represents_eq (d : Doc) (out : List Comp) (hOut : OutsideUnlooped out) (hCond : CondInLoop d)
    (hNodup : (loopIds d).Nodup) (k : Nat) (c : Comp) (hc : c ∈ d.comps) :
    matched (run d out k).comps (pid d c) =
      (List.range (k + 1)).map fun i => (c.stage + d.importStage, instName i c.name) := by
  rw [matched_eq hOut hCond, instanceIds, List.filter_flatMap]
  simp only [block_filter d hNodup c hc]
  induction (List.range (k + 1)) with
  | nil => rfl
  | cons a l ih => simp [List.flatMap_cons, ih]

/-- **loopref_sorted_numerically.**  An aggregate reference (`:loopref`, `:loopoutput`) to looped component `c` lists
exactly the instances `0, 1, …, k` in increasing iteration order, for every `k`. -/
theorem loopref_sorted_numerically (d : Doc) (out : List Comp) (hOut : OutsideUnlooped out) (hCond : CondInLoop d)
    (hNodup : (loopIds d).Nodup) (k : Nat) (c : Comp) (hc : c ∈ d.comps) :
    loopRefOrder true d (run d out k).comps (pid d c) =
      (List.range (k + 1)).map fun i => (c.stage + d.importStage, instName i c.name) := by
  have hp : pid d c ∈ loopIds d := List.mem_map.mpr ⟨c, hc, rfl⟩
  simp only [loopRefOrder, findPlaceholder_mem true d _ _ hp, represents_eq d out hOut hCond hNodup k c hc]
  apply sortBy_sorted
  rw [List.pairwise_map]
  refine List.Pairwise.imp ?_ (List.pairwise_lt_range (n := k + 1))
  intro a b hab
  simp [iterLt]
  omega

/-- the numeric sort puts any order of the represented instances (the real `represents` comes from a set) into
non-decreasing iteration order: adjacent results are never out of order -/
theorem sortBy_num_sorted (l : List CId) : (sortBy (iterLt true) l).Pairwise (fun a b => iterNum a.2 ≤ iterNum b.2) := by
  have hins : ∀ (a : CId) (l : List CId), l.Pairwise (fun a b => iterNum a.2 ≤ iterNum b.2) →
      (insertBy (iterLt true) a l).Pairwise (fun a b => iterNum a.2 ≤ iterNum b.2) ∧
      ∀ x ∈ insertBy (iterLt true) a l, x = a ∨ x ∈ l := by
    intro a l
    induction l with
    | nil => intro _; simp [insertBy]
    | cons b l ih =>
      intro h
      rw [List.pairwise_cons] at h
      simp only [insertBy]
      by_cases hlt : iterLt true b a = true
      · simp only [hlt, if_true]
        obtain ⟨ih1, ih2⟩ := ih h.2
        refine ⟨List.pairwise_cons.mpr ⟨?_, ih1⟩, ?_⟩
        · intro x hx
          rcases ih2 x hx with e | e
          · subst e; simp [iterLt] at hlt; omega
          · exact h.1 x e
        · intro x hx
          rcases List.mem_cons.mp hx with e | e
          · exact Or.inr (e ▸ List.mem_cons_self)
          · rcases ih2 x e with e' | e'
            · exact Or.inl e'
            · exact Or.inr (List.mem_cons_of_mem _ e')
      · simp only [hlt]
        have hge : iterNum a.2 ≤ iterNum b.2 := by simp [iterLt] at hlt; omega
        refine ⟨List.pairwise_cons.mpr ⟨?_, List.pairwise_cons.mpr h⟩, ?_⟩
        · intro x hx
          rcases List.mem_cons.mp hx with e | e
          · subst e; exact hge
          · have := h.1 x e; omega
        · intro x hx
          rcases List.mem_cons.mp hx with e | e
          · exact Or.inl e
          · exact Or.inr e
  induction l with
  | nil => simp [sortBy]
  | cons a l ih => exact (hins a _ ih).1

/-- … and the sort only reorders: the result is a permutation of the represented instances.  Together with
`sortBy_num_sorted`: whatever order the set `represents` is enumerated in, an aggregate reference lists all
instances, each once, in non-decreasing iteration order. -/
theorem sortBy_perm (lt : CId → CId → Bool) (l : List CId) : (sortBy lt l).Perm l := by
  have hins : ∀ (a : CId) (l : List CId), (insertBy lt a l).Perm (a :: l) := by
    intro a l
    induction l with
    | nil => simp [insertBy]
    | cons b l ih =>
      simp only [insertBy]
      by_cases h : lt b a = true
      · simp only [h, if_true]
        exact ((List.Perm.cons b ih).trans (List.Perm.swap a b l))
      · simp only [h]
        exact List.Perm.refl _
  induction l with
  | nil => simp [sortBy]
  | cons a l ih => exact (hins a _).trans (List.Perm.cons a ih)

/-! ### wiring -/

private theorem lookup_eff_binding (d : Doc) (i : Nat) (key : S)
    (h : i = 0 ∨ lookup key d.loopBindings = none) :
    lookup key (effBindings d i) = (lookup key d.bindings).map (expandRef d.importStage) := by
  unfold effBindings
  by_cases h0 : (i == 0 || d.loopBindings.isEmpty) = true
  · simp only [h0, if_true, expandBindings]
    exact lookup_map key _ _
  · simp only [h0, if_false, Bool.false_eq_true]
    have hl : lookup key d.loopBindings = none := by
      rcases h with h | h
      · subst h; simp at h0
      · exact h
    rw [lookup_append, projectedLoopBindings, lookup_map, hl]
    simp only [Option.map_none]
    have := lookup_filter_key key (fun k' => !(d.loopBindings.any fun lb => lb.1 == k'))
      (by simp only [lookup_none_any key _ hl, Bool.not_false]) (expandBindings d)
    rw [this, expandBindings]
    exact lookup_map key _ _

/-- **wiring (loop-carried inputs).**  In iteration `j + 1`, a reference of a looped component through a binding that
has a loopBinding `lb` (non-aggregating, pointing to a looped component, as the loader validates) is wired to
instance `j` of that component, in the component's stage (template stage + import stage, computed from the template
each time: no drift), keeping the binding's method and the file of the use site. -/
theorem wiring_loop_carried (d : Doc) (out : List Comp) (hOut : OutsideUnlooped out) (hCond : CondInLoop d)
    (hNames : ∀ c ∈ d.comps, isLooped c.name = false)
    (j : Nat) (owner : Nat) (r lb : Ref) (hr : r.direct = false)
    (hlb : lookup r.producer d.loopBindings = some lb) (hagg : isAggregate lb.method = false)
    (t : Comp) (ht : t ∈ d.comps) (hts : t.stage = lb.stage.getD 0) (htn : t.name = lb.producer) :
    rewriteRef d (ids (run d out j).comps) (j + 1) owner r =
      { direct := false, stage := some (t.stage + d.importStage), producer := instName j t.name,
        file := if r.file.isEmpty then lb.file else r.file, method := lb.method } := by
  have hne : d.loopBindings.isEmpty = false := by
    cases h : d.loopBindings with
    | nil => rw [h] at hlb; simp [lookup] at hlb
    | cons a l => rfl
  have hlook : lookup r.producer (effBindings d (j + 1)) =
      some (projectRef d.importStage (j + 1) lb) := by
    unfold effBindings
    simp only [hne, Nat.add_eq_zero_iff, Nat.succ_ne_self, and_false, beq_iff_eq, Bool.or_false, if_false]
    rw [lookup_append, projectedLoopBindings, lookup_map, hlb]
    rfl
  have hknown : (ids (run d out j).comps).contains (t.stage + d.importStage, instName j t.name) = true := by
    rw [(instances_exact d out hOut hCond j).1]
    simp only [List.contains_eq_mem, List.mem_append, decide_eq_true_eq]
    exact Or.inr (instanceIds_mem (Nat.le_refl j) ht)
  have hnl : (loopIds d).contains (t.stage + d.importStage, instName j t.name) = false := by
    rw [Bool.eq_false_iff]
    intro h
    simp only [List.contains_eq_mem, decide_eq_true_eq, loopIds, List.mem_map] at h
    obtain ⟨c, hc, e⟩ := h
    have e2 : c.name = instName j t.name := (Prod.ext_iff.mp e).2
    have := hNames c hc
    rw [e2] at this
    simp at this
  unfold rewriteRef
  simp only [hr, Bool.false_eq_true, if_false, hlook, projectRef, hagg, Nat.add_sub_cancel, Option.getD_some,
    ← hts, ← htn, hknown, hnl]
  simp

/-- **wiring (other inputs).**  In every iteration `i`, a reference through a binding that is not loop-carried (or any
binding in iteration 0) is wired to the original binding value `b`, which names a component outside the loop. -/
theorem wiring_binding (d : Doc) (known : List CId) (i : Nat) (owner : Nat) (r b : Ref) (hr : r.direct = false)
    (hnot : i = 0 ∨ lookup r.producer d.loopBindings = none)
    (hb : lookup r.producer d.bindings = some b)
    (hknown : known.contains (b.stage.getD d.importStage, b.producer) = true)
    (hout : (loopIds d).contains (b.stage.getD d.importStage, b.producer) = false) :
    rewriteRef d known i owner r =
      { direct := false, stage := some (b.stage.getD d.importStage), producer := b.producer,
        file := if r.file.isEmpty then b.file else r.file, method := b.method } := by
  unfold rewriteRef
  simp only [hr, Bool.false_eq_true, if_false, lookup_eff_binding d i r.producer hnot, hb, Option.map_some,
    expandRef, Option.getD_some, hknown, hout]
  simp

/-- **wiring (references between looped components; no drift).**  A reference of a looped component of template
stage `owner` to a looped component `t` (spelled relative or with the template stage) is wired, in every iteration
`i` and whatever the workflow contains, to instance `i` of `t` in stage `template stage + import stage` — the same
stage in every iteration; aggregating methods keep pointing at the placeholder. -/
theorem wiring_internal (d : Doc) (known : List CId) (i : Nat) (owner : Nat) (r : Ref) (hr : r.direct = false)
    (hb : lookup r.producer d.bindings = none) (hlb : lookup r.producer d.loopBindings = none)
    (t : Comp) (ht : t ∈ d.comps) (hts : t.stage = r.stage.getD owner) (htn : t.name = r.producer) :
    rewriteRef d known i owner r =
      { r with stage := some (t.stage + d.importStage),
               producer := if isAggregate r.method then r.producer else instName i r.producer } := by
  have hin : (loopIds d).contains (r.stage.getD owner + d.importStage, r.producer) = true := by
    simp only [List.contains_eq_mem, decide_eq_true_eq, loopIds, List.mem_map]
    exact ⟨t, ht, by rw [hts, htn]⟩
  unfold rewriteRef
  simp only [hr, Bool.false_eq_true, if_false, lookup_eff_binding d i r.producer (Or.inr hlb), hb, Option.map_none,
    Option.getD_some, hin, Bool.or_true, Bool.not_true, Bool.true_and, hts]
  cases isAggregate r.method <;> simp

/-- references to files and folders (direct references) are never rewritten -/
theorem wiring_direct (d : Doc) (known : List CId) (i : Nat) (owner : Nat) (r : Ref) (hr : r.direct = true) :
    rewriteRef d known i owner r = r := by
  simp [rewriteRef, hr]

/-- **wiring (structure).**  The workflow after `k` iterations is the outside components followed, for `i = 0 … k`, by
the template rewritten for iteration `i` against the component ids known when iteration `i` was generated; every
reference occurrence of the command line is rewritten exactly like the declared reference (single pass). -/
theorem wiring_structure (d : Doc) (out : List Comp) (hOut : OutsideUnlooped out) (hCond : CondInLoop d) (k : Nat) :
    (run d out (k + 1)).comps = (run d out k).comps ++
      d.comps.map (fun c => { stage := c.stage + d.importStage, name := instName (k + 1) c.name,
                              refs := c.refs.map (rewriteRef d (ids (run d out k).comps) (k + 1) c.stage),
                              args := c.args.map (rewriteRef d (ids (run d out k).comps) (k + 1) c.stage) }) := by
  rw [run_succ d out hOut hCond k]; rfl

/-! ### the hypotheses are satisfiable; the statements are not vacuous -/

section Examples

/-- the minimal package of the harness: one looped component `x` fed by `in0` (loop-carried from `x`), condition
`stop`, imported at stage 1; outside: `src0`, a `:ref` consumer and a `:loopref` consumer -/
def exDoc : Doc :=
  { comps := [{ stage := 0, name := "x".toList, refs := [⟨false, none, "in0".toList, [], "output".toList⟩] },
              { stage := 0, name := "stop".toList, refs := [⟨false, none, "x".toList, [], "output".toList⟩] }],
    bindings := [("in0".toList, ⟨false, some 0, "src0".toList, [], "output".toList⟩)],
    loopBindings := [("in0".toList, ⟨false, none, "x".toList, [], "output".toList⟩)],
    condStage := 0, condName := "stop".toList, condFile := [], importStage := 1 }

def exOut : List Comp :=
  [{ stage := 0, name := "src0".toList, refs := [] },
   { stage := 2, name := "plain0".toList, refs := [⟨false, some 1, "x".toList, [], "ref".toList⟩] },
   { stage := 2, name := "agg0".toList, refs := [⟨false, some 1, "x".toList, [], "loopref".toList⟩] }]

example : OutsideUnlooped exOut := by unfold OutsideUnlooped; decide
example : CondInLoop exDoc := ⟨_, List.mem_cons_of_mem _ List.mem_cons_self, rfl, rfl⟩
example : (loopIds exDoc).Nodup := by decide
example : ∀ c ∈ exDoc.comps, isLooped c.name = false := by decide
/-- iteration 2 of `x` reads instance 1 of `x` (loop-carried) … -/
example : ((run exDoc exOut 2).comps.filter (fun c => c.name == instName 2 "x".toList)).map (·.refs) =
    [[⟨false, some 1, instName 1 "x".toList, [], "output".toList⟩]] := by decide
/-- … and iteration 0 reads the original binding -/
example : ((run exDoc exOut 2).comps.filter (fun c => c.name == instName 0 "x".toList)).map (·.refs) =
    [[⟨false, some 0, "src0".toList, [], "output".toList⟩]] := by decide
example : resolveProducer true exDoc (run exDoc exOut 3).comps (1, "x".toList) = some (1, instName 3 "x".toList) := by
  decide

end Examples

end St4sd.C05
