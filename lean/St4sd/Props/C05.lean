import St4sd.Lemmas.C05
import St4sd.Lemmas.C05Multi
import St4sd.Lemmas.C05Disk
/-!
# C05 — DoWhile unrolling is wired correctly for any number of iterations

Theorems about `St4sd.Loop` (`Model/Loop.lean`) with the repaired sort keys (`num = true`, i.e.
`fixes/C05-numeric-iteration-order.diff`) and the repaired single-pass substitution of argument strings
(`fixes/C05-rewrite-references-single-pass.diff`) and the condition matched on stage and name
(`fixes/C05-condition-matched-by-stage.diff`).  The code as it is violates the `latest`/order clauses from
iteration 10 on and the argument clause for repeated/overlapping references: `Witness/C05.lean`.

Standing hypotheses (what the loader validates / what the generator of the harness guarantees):
* `hOut`  : names of the components outside the loop contain no `#`;
* `hCond` : the condition (stage, name) is a looped component (`instantiate_dowhile` raises otherwise);
* `hNames`: names of the template components contain no `#` (needed for the loop-carried clause only);
* `hNodup`: the template has no duplicate component ids (`instantiate_dowhile` raises otherwise; needed for the
  aggregate order only).
-/
namespace St4sd.C05
open St4sd.Str St4sd.Loop St4sd.C05L

/-- ids of the instances of iteration `i` -/
def blockIds (d : Doc) (i : Nat) : List CId := d.comps.map fun c => (c.stage + d.importStage, instName i c.name)

/-- ids of the instances of iterations `0 … k`, iteration by iteration -/
def instanceIds (d : Doc) (k : Nat) : List CId := (List.range (k + 1)).flatMap (blockIds d)

/-- id of the placeholder of template component `c` -/
def pid (d : Doc) (c : Comp) : CId := (c.stage + d.importStage, c.name)

def OutsideUnlooped (out : List Comp) : Prop := ∀ c ∈ out, isLooped c.name = false
def CondInLoop (d : Doc) : Prop := ∃ c ∈ d.comps, c.stage = d.condStage ∧ c.name = d.condName

private theorem ids_instantiate (d : Doc) (known : List CId) (i : Nat) : ids (instantiate d known i) = blockIds d i := by
  simp [ids, instantiate, blockIds, Comp.id, List.map_map, Function.comp_def]

private theorem ids_append (a b : List Comp) : ids (a ++ b) = ids a ++ ids b := by simp [ids]

private theorem blockIds_eq (d : Doc) (i : Nat) : blockIds d i = (loopIds d).map fun q => (q.1, instName i q.2) := by
  simp [blockIds, loopIds, List.map_map, Function.comp_def]

private theorem mem_instanceIds {d : Doc} {k : Nat} {x : CId} (h : x ∈ instanceIds d k) :
    ∃ i, i ≤ k ∧ ∃ c ∈ d.comps, x = (c.stage + d.importStage, instName i c.name) := by
  simp only [instanceIds, List.mem_flatMap, List.mem_range, blockIds, List.mem_map] at h
  obtain ⟨i, hi, c, hc, e⟩ := h
  exact ⟨i, by omega, c, hc, e.symm⟩

private theorem instanceIds_mem {d : Doc} {k i : Nat} (hi : i ≤ k) {c : Comp} (hc : c ∈ d.comps) :
    (c.stage + d.importStage, instName i c.name) ∈ instanceIds d k := by
  simp only [instanceIds, List.mem_flatMap, List.mem_range, blockIds, List.mem_map]
  exact ⟨i, by omega, c, hc, rfl⟩

private theorem loopedIds_of_ids {out cs : List Comp} {d : Doc} {k : Nat} (hOut : OutsideUnlooped out)
    (h : ids cs = ids out ++ instanceIds d k) : loopedIds cs = instanceIds d k := by
  unfold loopedIds
  rw [h, List.filter_append]
  have h1 : (ids out).filter (fun x => isLooped x.2) = [] := by
    rw [List.filter_eq_nil_iff]
    intro x hx
    simp only [ids, List.mem_map] at hx
    obtain ⟨c, hc, e⟩ := hx
    subst e
    simp [Comp.id, hOut c hc]
  have h2 : (instanceIds d k).filter (fun x => isLooped x.2) = instanceIds d k := by
    rw [List.filter_eq_self]
    intro x hx
    obtain ⟨i, _, c, _, e⟩ := mem_instanceIds hx
    subst e
    simp
  rw [h1, h2, List.nil_append]

/-- Key lemma on the choice of the newest instance among the instances `0 … k` that satisfy a predicate which the
instance `k` of `c` satisfies: it is instance `k`. -/
private theorem firstMax_instances {d : Doc} {k : Nat} (p : CId → Bool) {z : CId}
    (hz : firstMaxBy (iterLt true) ((instanceIds d k).filter p) = some z)
    {c : Comp} (hc : c ∈ d.comps) (hp : p (c.stage + d.importStage, instName k c.name) = true) :
    ∃ c' ∈ d.comps, z = (c'.stage + d.importStage, instName k c'.name) ∧ p z = true := by
  rw [iterLt_true] at hz
  obtain ⟨hmem, hmax⟩ := firstMaxBy_key (fun x : CId => iterNum x.2) _ z hz
  rw [List.mem_filter] at hmem
  obtain ⟨i, hi, c', hc', e⟩ := mem_instanceIds hmem.1
  have hk := hmax (c.stage + d.importStage, instName k c.name) (List.mem_filter.mpr ⟨instanceIds_mem (Nat.le_refl k) hc, hp⟩)
  subst e
  simp only [iterNum_instName] at hk
  have : i = k := by omega
  subst this
  exact ⟨c', hc', rfl, hmem.2⟩

private theorem curIter_of_ids {out cs : List Comp} {d : Doc} {k : Nat} (hOut : OutsideUnlooped out) (hCond : CondInLoop d)
    (h : ids cs = ids out ++ instanceIds d k) :
    curIter d cs = k ∧ latestCond d cs = some (d.condStage + d.importStage, instName k d.condName) := by
  obtain ⟨c, hc, hcs, hcn⟩ := hCond
  have hL : condInstances d cs = (instanceIds d k).filter
      (fun x => x.1 == d.condStage + d.importStage && baseName x.2 == d.condName) := by
    unfold condInstances; rw [loopedIds_of_ids hOut h]
  have hp : (fun x : CId => x.1 == d.condStage + d.importStage && baseName x.2 == d.condName)
      (c.stage + d.importStage, instName k c.name) = true := by
    simp [hcn, hcs]
  have hne : condInstances d cs ≠ [] := by
    rw [hL]
    exact List.ne_nil_of_mem (List.mem_filter.mpr ⟨instanceIds_mem (Nat.le_refl k) hc, hp⟩)
  obtain ⟨z, hz⟩ := firstMaxBy_isSome (iterLt true) _ hne
  have hz' := hz
  rw [hL] at hz'
  obtain ⟨c', _, e, hpz⟩ := firstMax_instances _ hz' hc hp
  subst e
  simp only [baseName_instName, Bool.and_eq_true, beq_iff_eq] at hpz
  refine ⟨?_, ?_⟩
  · simp [curIter, latestCond, hz]
  · simp [latestCond, hz, hpz.1, hpz.2]

/-- Invariant of `run`: the component ids after `k` further iterations, and the iteration counter. -/
private theorem run_inv (d : Doc) (out : List Comp) (hOut : OutsideUnlooped out) (hCond : CondInLoop d) :
    ∀ k, ids (run d out k).comps = ids out ++ instanceIds d k := by
  intro k
  induction k with
  | zero =>
    simp [run, init, ids_append, ids_instantiate, instanceIds, List.range_succ]
  | succ k ih =>
    have hcur := (curIter_of_ids hOut hCond ih).1
    simp only [run, step, ids_append, ids_instantiate, hcur, ih]
    simp [instanceIds, List.range_succ, List.flatMap_append]

/-- **instances_exact.**  After any number `k` of further iterations the workflow consists of the components outside
the loop followed by exactly the instances `0 … k` of every looped component (iteration by iteration, template
order), and the components recognised as looped are exactly those instances. -/
theorem instances_exact (d : Doc) (out : List Comp) (hOut : OutsideUnlooped out) (hCond : CondInLoop d) (k : Nat) :
    ids (run d out k).comps = ids out ++ instanceIds d k ∧ loopedIds (run d out k).comps = instanceIds d k :=
  ⟨run_inv d out hOut hCond k, loopedIds_of_ids hOut (run_inv d out hOut hCond k)⟩

/-- membership form: `x` is a looped component of the workflow iff it is instance `i ≤ k` of a template component -/
theorem instances_exact_mem (d : Doc) (out : List Comp) (hOut : OutsideUnlooped out) (hCond : CondInLoop d) (k : Nat)
    (x : CId) : x ∈ loopedIds (run d out k).comps ↔
      ∃ i, i ≤ k ∧ ∃ c ∈ d.comps, x = (c.stage + d.importStage, instName i c.name) := by
  rw [(instances_exact d out hOut hCond k).2]
  constructor
  · exact mem_instanceIds
  · rintro ⟨i, hi, c, hc, e⟩; subst e; exact instanceIds_mem hi hc

/-- **condition_is_k.**  The loop's current iteration is `k` and its current condition is the condition reference of
the document produced by instance `k` of the condition component, in the condition's stage (for every `k`:
`compute_dowhile_state` sorts on `int`; with the repair it also matches the stage, so another looped component of
the same name in a different stage cannot be taken for the condition). -/
theorem condition_is_k (d : Doc) (out : List Comp) (hOut : OutsideUnlooped out) (hCond : CondInLoop d) (k : Nat) :
    curIter d (run d out k).comps = k ∧
    currentCondition d (run d out k).comps =
      some ((d.condStage + d.importStage, instName k d.condName), d.condFile) := by
  obtain ⟨h1, h2⟩ := curIter_of_ids hOut hCond (run_inv d out hOut hCond k)
  exact ⟨h1, by simp [currentCondition, h2]⟩

/-- the next iteration generated is always `k + 1`, from the ids known after `k` iterations -/
theorem run_succ (d : Doc) (out : List Comp) (hOut : OutsideUnlooped out) (hCond : CondInLoop d) (k : Nat) :
    (run d out (k + 1)).comps = (run d out k).comps ++ instantiate d (ids (run d out k).comps) (k + 1) := by
  have := (condition_is_k d out hOut hCond k).1
  simp [run, step, this]

private theorem matched_eq {d : Doc} {out : List Comp} (hOut : OutsideUnlooped out) (hCond : CondInLoop d) (k : Nat) (p : CId) :
    matched (run d out k).comps p = (instanceIds d k).filter (fun x => x.1 == p.1 && baseName x.2 == p.2) := by
  unfold matched; rw [(instances_exact d out hOut hCond k).2]

private theorem findPlaceholder_mem (num : Bool) (d : Doc) (cs : List Comp) (p : CId) (hp : p ∈ loopIds d) :
    findPlaceholder num d cs p =
      some { id := p, represents := matched cs p, latest := firstMaxBy (iterLt num) (matched cs p) } := by
  unfold findPlaceholder placeholders
  generalize loopIds d = l at hp
  induction l with
  | nil => simp at hp
  | cons x l ih =>
    simp only [List.map_cons, List.find?_cons]
    by_cases hx : x = p
    · subst hx; simp
    · have : (x == p) = false := by simpa using hx
      simp only [this]
      exact ih (by rcases List.mem_cons.mp hp with e | e; exact absurd e.symm hx; exact e)

/-- **latest_is_numeric_max.**  For every looped component `c` and every `k`, the placeholder's `latest` — the
producer that a `:ref`/`:output`/`:copy`/… reference from outside the loop resolves to — is instance `k`, the
numerically highest iteration (for `k ≥ 10` as well: `int` keys, `int(str(k)) = k`). -/
theorem latest_is_numeric_max (d : Doc) (out : List Comp) (hOut : OutsideUnlooped out) (hCond : CondInLoop d) (k : Nat)
    (c : Comp) (hc : c ∈ d.comps) :
    resolveProducer true d (run d out k).comps (pid d c) = some (c.stage + d.importStage, instName k c.name) := by
  have hp : pid d c ∈ loopIds d := List.mem_map.mpr ⟨c, hc, rfl⟩
  simp only [resolveProducer, findPlaceholder_mem true d _ _ hp]
  have hpred : (fun x : CId => x.1 == (pid d c).1 && baseName x.2 == (pid d c).2)
      (c.stage + d.importStage, instName k c.name) = true := by simp [pid]
  have hne : matched (run d out k).comps (pid d c) ≠ [] := by
    rw [matched_eq hOut hCond]
    exact List.ne_nil_of_mem (List.mem_filter.mpr ⟨instanceIds_mem (Nat.le_refl k) hc, hpred⟩)
  obtain ⟨z, hz⟩ := firstMaxBy_isSome (iterLt true) _ hne
  rw [hz]
  have hz' := hz
  rw [matched_eq hOut hCond] at hz'
  obtain ⟨c', _, e, hpz⟩ := firstMax_instances _ hz' hc hpred
  subst e
  simp only [pid, baseName_instName, Bool.and_eq_true, beq_iff_eq] at hpz
  rw [hpz.1, hpz.2]

/-- the same choice as a maximum: every instance the placeholder represents has an iteration number `≤` that of
`latest` -/
theorem latest_ge_all (d : Doc) (out : List Comp) (hOut : OutsideUnlooped out) (hCond : CondInLoop d) (k : Nat)
    (c : Comp) (x : CId) (hx : x ∈ matched (run d out k).comps (pid d c)) :
    iterNum x.2 ≤ k := by
  rw [matched_eq hOut hCond] at hx
  obtain ⟨i, hi, c', _, e⟩ := mem_instanceIds (List.mem_filter.mp hx).1
  subst e; simpa using hi

private theorem block_filter (d : Doc) (hNodup : (loopIds d).Nodup) (c : Comp) (hc : c ∈ d.comps) (i : Nat) :
    (blockIds d i).filter (fun x => x.1 == (pid d c).1 && baseName x.2 == (pid d c).2)
      = [(c.stage + d.importStage, instName i c.name)] := by
  have hp : pid d c ∈ loopIds d := List.mem_map.mpr ⟨c, hc, rfl⟩
  rw [blockIds_eq, List.filter_map]
  have : ((fun x : CId => x.1 == (pid d c).1 && baseName x.2 == (pid d c).2) ∘ fun q : CId => (q.1, instName i q.2))
      = fun q => q == pid d c := by
    funext q
    obtain ⟨a, b⟩ := q
    apply Bool.eq_iff_iff.mpr
    simp [pid, Prod.ext_iff]
  rw [this, filter_eq_singleton (pid d c) _ hNodup hp]
  simp [pid]

/-- the instances represented by the placeholder of `c`, in the order of the workflow -/
theorem represents_eq (d : Doc) (out : List Comp) (hOut : OutsideUnlooped out) (hCond : CondInLoop d)
    (hNodup : (loopIds d).Nodup) (k : Nat) (c : Comp) (hc : c ∈ d.comps) :
    matched (run d out k).comps (pid d c) =
      (List.range (k + 1)).map fun i => (c.stage + d.importStage, instName i c.name) := by
  rw [matched_eq hOut hCond, instanceIds, List.filter_flatMap]
  simp only [block_filter d hNodup c hc]
  induction (List.range (k + 1)) with
  | nil => rfl
  | cons a l ih => simp [List.flatMap_cons, ih]

/-- **loopref_sorted_numerically.**  An aggregate reference (`:loopref`, `:loopoutput`) to looped component `c` lists
exactly the instances `0, 1, …, k` in increasing iteration order, for every `k`. -/
theorem loopref_sorted_numerically (d : Doc) (out : List Comp) (hOut : OutsideUnlooped out) (hCond : CondInLoop d)
    (hNodup : (loopIds d).Nodup) (k : Nat) (c : Comp) (hc : c ∈ d.comps) :
    loopRefOrder true d (run d out k).comps (pid d c) =
      (List.range (k + 1)).map fun i => (c.stage + d.importStage, instName i c.name) := by
  have hp : pid d c ∈ loopIds d := List.mem_map.mpr ⟨c, hc, rfl⟩
  simp only [loopRefOrder, findPlaceholder_mem true d _ _ hp, represents_eq d out hOut hCond hNodup k c hc]
  apply sortBy_sorted
  rw [List.pairwise_map]
  refine List.Pairwise.imp ?_ (List.pairwise_lt_range (n := k + 1))
  intro a b hab
  simp [iterLt]
  omega

/-- the numeric sort puts any order of the represented instances (the real `represents` comes from a set) into
non-decreasing iteration order: adjacent results are never out of order -/
theorem sortBy_num_sorted (l : List CId) : (sortBy (iterLt true) l).Pairwise (fun a b => iterNum a.2 ≤ iterNum b.2) := by
  have hins : ∀ (a : CId) (l : List CId), l.Pairwise (fun a b => iterNum a.2 ≤ iterNum b.2) →
      (insertBy (iterLt true) a l).Pairwise (fun a b => iterNum a.2 ≤ iterNum b.2) ∧
      ∀ x ∈ insertBy (iterLt true) a l, x = a ∨ x ∈ l := by
    intro a l
    induction l with
    | nil => intro _; simp [insertBy]
    | cons b l ih =>
      intro h
      rw [List.pairwise_cons] at h
      simp only [insertBy]
      by_cases hlt : iterLt true b a = true
      · simp only [hlt, if_true]
        obtain ⟨ih1, ih2⟩ := ih h.2
        refine ⟨List.pairwise_cons.mpr ⟨?_, ih1⟩, ?_⟩
        · intro x hx
          rcases ih2 x hx with e | e
          · subst e; simp [iterLt] at hlt; omega
          · exact h.1 x e
        · intro x hx
          rcases List.mem_cons.mp hx with e | e
          · exact Or.inr (e ▸ List.mem_cons_self)
          · rcases ih2 x e with e' | e'
            · exact Or.inl e'
            · exact Or.inr (List.mem_cons_of_mem _ e')
      · simp only [hlt]
        have hge : iterNum a.2 ≤ iterNum b.2 := by simp [iterLt] at hlt; omega
        refine ⟨List.pairwise_cons.mpr ⟨?_, List.pairwise_cons.mpr h⟩, ?_⟩
        · intro x hx
          rcases List.mem_cons.mp hx with e | e
          · subst e; exact hge
          · have := h.1 x e; omega
        · intro x hx
          rcases List.mem_cons.mp hx with e | e
          · exact Or.inl e
          · exact Or.inr e
  induction l with
  | nil => simp [sortBy]
  | cons a l ih => exact (hins a _ ih).1

/-- … and the sort only reorders: the result is a permutation of the represented instances.  Together with
`sortBy_num_sorted`: whatever order the set `represents` is enumerated in, an aggregate reference lists all
instances, each once, in non-decreasing iteration order. -/
theorem sortBy_perm (lt : CId → CId → Bool) (l : List CId) : (sortBy lt l).Perm l := by
  have hins : ∀ (a : CId) (l : List CId), (insertBy lt a l).Perm (a :: l) := by
    intro a l
    induction l with
    | nil => simp [insertBy]
    | cons b l ih =>
      simp only [insertBy]
      by_cases h : lt b a = true
      · simp only [h, if_true]
        exact ((List.Perm.cons b ih).trans (List.Perm.swap a b l))
      · simp only [h]
        exact List.Perm.refl _
  induction l with
  | nil => simp [sortBy]
  | cons a l ih => exact (hins a _).trans (List.Perm.cons a ih)

/-! ### wiring -/

private theorem lookup_eff_binding (d : Doc) (i : Nat) (key : S)
    (h : i = 0 ∨ lookup key d.loopBindings = none) :
    lookup key (effBindings d i) = (lookup key d.bindings).map (expandRef d.importStage) := by
  unfold effBindings
  by_cases h0 : (i == 0 || d.loopBindings.isEmpty) = true
  · simp only [h0, if_true, expandBindings]
    exact lookup_map key _ _
  · simp only [h0, if_false, Bool.false_eq_true]
    have hl : lookup key d.loopBindings = none := by
      rcases h with h | h
      · subst h; simp at h0
      · exact h
    rw [lookup_append, projectedLoopBindings, lookup_map, hl]
    simp only [Option.map_none]
    have := lookup_filter_key key (fun k' => !(d.loopBindings.any fun lb => lb.1 == k'))
      (by simp only [lookup_none_any key _ hl, Bool.not_false]) (expandBindings d)
    rw [this, expandBindings]
    exact lookup_map key _ _

/-- **wiring (loop-carried inputs).**  In iteration `j + 1`, a reference of a looped component through a binding that
has a loopBinding `lb` (non-aggregating, pointing to a looped component, as the loader validates) is wired to
instance `j` of that component, in the component's stage (template stage + import stage, computed from the template
each time: no drift), keeping the binding's method and the file of the use site. -/
theorem wiring_loop_carried (d : Doc) (out : List Comp) (hOut : OutsideUnlooped out) (hCond : CondInLoop d)
    (hNames : ∀ c ∈ d.comps, isLooped c.name = false)
    (j : Nat) (owner : Nat) (r lb : Ref) (hr : r.direct = false)
    (hlb : lookup r.producer d.loopBindings = some lb) (hagg : isAggregate lb.method = false)
    (t : Comp) (ht : t ∈ d.comps) (hts : t.stage = lb.stage.getD 0) (htn : t.name = lb.producer) :
    rewriteRef d (ids (run d out j).comps) (j + 1) owner r =
      { direct := false, stage := some (t.stage + d.importStage), producer := instName j t.name,
        file := if r.file.isEmpty then lb.file else r.file, method := lb.method } := by
  have hne : d.loopBindings.isEmpty = false := by
    cases h : d.loopBindings with
    | nil => rw [h] at hlb; simp [lookup] at hlb
    | cons a l => rfl
  have hlook : lookup r.producer (effBindings d (j + 1)) =
      some (projectRef d.importStage (j + 1) lb) := by
    unfold effBindings
    simp only [hne, Nat.add_eq_zero_iff, Nat.succ_ne_self, and_false, beq_iff_eq, Bool.or_false, if_false]
    rw [lookup_append, projectedLoopBindings, lookup_map, hlb]
    rfl
  have hknown : (ids (run d out j).comps).contains (t.stage + d.importStage, instName j t.name) = true := by
    rw [(instances_exact d out hOut hCond j).1]
    simp only [List.contains_eq_mem, List.mem_append, decide_eq_true_eq]
    exact Or.inr (instanceIds_mem (Nat.le_refl j) ht)
  have hnl : (loopIds d).contains (t.stage + d.importStage, instName j t.name) = false := by
    rw [Bool.eq_false_iff]
    intro h
    simp only [List.contains_eq_mem, decide_eq_true_eq, loopIds, List.mem_map] at h
    obtain ⟨c, hc, e⟩ := h
    have e2 : c.name = instName j t.name := (Prod.ext_iff.mp e).2
    have := hNames c hc
    rw [e2] at this
    simp at this
  unfold rewriteRef
  simp only [hr, Bool.false_eq_true, if_false, hlook, projectRef, hagg, Nat.add_sub_cancel, Option.getD_some,
    ← hts, ← htn, hknown, hnl]
  simp

/-- **wiring (other inputs).**  In every iteration `i`, a reference through a binding that is not loop-carried (or any
binding in iteration 0) is wired to the original binding value `b`, which names a component outside the loop. -/
theorem wiring_binding (d : Doc) (known : List CId) (i : Nat) (owner : Nat) (r b : Ref) (hr : r.direct = false)
    (hnot : i = 0 ∨ lookup r.producer d.loopBindings = none)
    (hb : lookup r.producer d.bindings = some b)
    (hknown : known.contains (b.stage.getD d.importStage, b.producer) = true)
    (hout : (loopIds d).contains (b.stage.getD d.importStage, b.producer) = false) :
    rewriteRef d known i owner r =
      { direct := false, stage := some (b.stage.getD d.importStage), producer := b.producer,
        file := if r.file.isEmpty then b.file else r.file, method := b.method } := by
  unfold rewriteRef
  simp only [hr, Bool.false_eq_true, if_false, lookup_eff_binding d i r.producer hnot, hb, Option.map_some,
    expandRef, Option.getD_some, hknown, hout]
  simp

/-- **wiring (references between looped components; no drift).**  A reference of a looped component of template
stage `owner` to a looped component `t` (spelled relative or with the template stage) is wired, in every iteration
`i` and whatever the workflow contains, to instance `i` of `t` in stage `template stage + import stage` — the same
stage in every iteration; aggregating methods keep pointing at the placeholder. -/
theorem wiring_internal (d : Doc) (known : List CId) (i : Nat) (owner : Nat) (r : Ref) (hr : r.direct = false)
    (hb : lookup r.producer d.bindings = none) (hlb : lookup r.producer d.loopBindings = none)
    (t : Comp) (ht : t ∈ d.comps) (hts : t.stage = r.stage.getD owner) (htn : t.name = r.producer) :
    rewriteRef d known i owner r =
      { r with stage := some (t.stage + d.importStage),
               producer := if isAggregate r.method then r.producer else instName i r.producer } := by
  have hin : (loopIds d).contains (r.stage.getD owner + d.importStage, r.producer) = true := by
    simp only [List.contains_eq_mem, decide_eq_true_eq, loopIds, List.mem_map]
    exact ⟨t, ht, by rw [hts, htn]⟩
  unfold rewriteRef
  simp only [hr, Bool.false_eq_true, if_false, lookup_eff_binding d i r.producer (Or.inr hlb), hb, Option.map_none,
    Option.getD_some, hin, Bool.or_true, Bool.not_true, Bool.true_and, hts]
  cases isAggregate r.method <;> simp

/-- references to files and folders (direct references) are never rewritten -/
theorem wiring_direct (d : Doc) (known : List CId) (i : Nat) (owner : Nat) (r : Ref) (hr : r.direct = true) :
    rewriteRef d known i owner r = r := by
  simp [rewriteRef, hr]

/-- **wiring (structure).**  The workflow after `k` iterations is the outside components followed, for `i = 0 … k`, by
the template rewritten for iteration `i` against the component ids known when iteration `i` was generated; every
reference occurrence of the command line is rewritten exactly like the declared reference (single pass). -/
theorem wiring_structure (d : Doc) (out : List Comp) (hOut : OutsideUnlooped out) (hCond : CondInLoop d) (k : Nat) :
    (run d out (k + 1)).comps = (run d out k).comps ++
      d.comps.map (fun c => { stage := c.stage + d.importStage, name := instName (k + 1) c.name,
                              refs := c.refs.map (rewriteRef d (ids (run d out k).comps) (k + 1) c.stage),
                              args := c.args.map (rewriteRef d (ids (run d out k).comps) (k + 1) c.stage) }) := by
  rw [run_succ d out hOut hCond k]; rfl


/-! ## several DoWhile documents, any interleaving of their iterations, readers in between

`ds` are the DoWhile documents of the workflow in document order, a history `h : List Nat` lists the documents that
instantiated a further iteration (in the order in which they did), `kOf h i` is the number of further iterations of
document `i`.  Additional standing hypotheses:
* `hConds`  : every document's condition is one of its looped components;
* `hNodups` : no document has duplicate template ids;
* `hDisj`   : no placeholder id belongs to two documents (`LoopsDisjoint`; the loader rejects duplicate component ids).
-/

section Multi

/-- number of further iterations document `i` has instantiated in history `h` -/
def kOf (h : List Nat) (i : Nat) : Nat := h.count i

/-- instance `j` of template component `c` of document `d` -/
abbrev instOf (d : Doc) (c : Comp) : Nat → CId := fun j => (c.stage + d.importStage, instName j c.name)

/-- invariant of `runM`: what every placeholder matches, and where every looped id comes from -/
def MInv (ds : List Doc) (kf : Nat → Nat) (cs : List Comp) : Prop :=
  (∀ i d, ds[i]? = some d → ∀ c ∈ d.comps, matched cs (pid d c) = (List.range (kf i + 1)).map (instOf d c)) ∧
  (∀ x ∈ loopedIds cs, ∃ i d, ds[i]? = some d ∧ ∃ j, j ≤ kf i ∧ ∃ c ∈ d.comps, x = instOf d c j)

private theorem pid_mem {d : Doc} {c : Comp} (hc : c ∈ d.comps) : pid d c ∈ loopIds d := List.mem_map.mpr ⟨c, hc, rfl⟩

private theorem loopedIds_instantiate (d : Doc) (known : List CId) (n : Nat) :
    loopedIds (instantiate d known n) = blockIds d n := by
  unfold loopedIds
  rw [ids_instantiate, List.filter_eq_self]
  intro x hx
  simp only [blockIds, List.mem_map] at hx
  obtain ⟨c, _, e⟩ := hx
  subst e
  simp

private theorem matched_block_self (d : Doc) (hNodup : (loopIds d).Nodup) (c : Comp) (hc : c ∈ d.comps)
    (known : List CId) (n : Nat) : matched (instantiate d known n) (pid d c) = [instOf d c n] := by
  unfold matched
  rw [loopedIds_instantiate]
  exact block_filter d hNodup c hc n

private theorem matched_block_other (d : Doc) (p : CId) (hp : p ∉ loopIds d) (known : List CId) (n : Nat) :
    matched (instantiate d known n) p = [] := by
  unfold matched
  rw [loopedIds_instantiate, List.filter_eq_nil_iff]
  intro x hx hm
  simp only [blockIds, List.mem_map] at hx
  obtain ⟨c, hc, e⟩ := hx
  subst e
  simp only [baseName_instName, Bool.and_eq_true, beq_iff_eq] at hm
  exact hp (List.mem_map.mpr ⟨c, hc, Prod.ext hm.1 hm.2⟩)

private theorem matched_out {out : List Comp} (hOut : OutsideUnlooped out) (p : CId) : matched out p = [] := by
  have : loopedIds out = [] := by
    unfold loopedIds
    rw [List.filter_eq_nil_iff]
    intro x hx
    simp only [ids, List.mem_map] at hx
    obtain ⟨c, hc, e⟩ := hx
    subst e
    simp [Comp.id, hOut c hc]
  simp [matched, this]

/-- current iteration and condition of a document from what its condition's placeholder matches -/
private theorem cond_of_matched {d : Doc} {cs : List Comp} {k : Nat} (hCond : CondInLoop d)
    (h : ∀ c ∈ d.comps, matched cs (pid d c) = (List.range (k + 1)).map (instOf d c)) :
    curIter d cs = k ∧ latestCond d cs = some (d.condStage + d.importStage, instName k d.condName) := by
  obtain ⟨c, hc, hcs, hcn⟩ := hCond
  have hL : condInstances d cs = matched cs (pid d c) := by
    unfold condInstances matched pid
    rw [← hcs, ← hcn]
  have hl : latestCond d cs = some (c.stage + d.importStage, instName k c.name) := by
    unfold latestCond
    rw [hL, h c hc]
    exact firstMaxBy_range_inst _ _ _
  refine ⟨?_, ?_⟩
  · simp [curIter, hl]
  · rw [hl, hcs, hcn]

private def bump (a : Nat) (kf : Nat → Nat) : Nat → Nat := fun i => if i = a then kf i + 1 else kf i

private theorem minv_step {ds : List Doc} (hConds : ∀ d ∈ ds, CondInLoop d) (hNodups : ∀ d ∈ ds, (loopIds d).Nodup)
    (hDisj : LoopsDisjoint ds) {kf : Nat → Nat} {w : Wf} (hI : MInv ds kf w.comps) (a : Nat) :
    MInv ds (bump a kf) (stepM ds a w).comps := by
  unfold stepM
  cases ha : ds[a]? with
  | none =>
    refine ⟨?_, ?_⟩
    · intro i d hi c hc
      have hne : i ≠ a := by intro e; subst e; rw [ha] at hi; cases hi
      simp only [bump, hne, if_false]
      exact hI.1 i d hi c hc
    · intro x hx
      obtain ⟨i, d, hi, j, hj, c, hc, e⟩ := hI.2 x hx
      refine ⟨i, d, hi, j, ?_, c, hc, e⟩
      simp only [bump]; split <;> omega
  | some da =>
    have hda : da ∈ ds := List.mem_of_getElem? ha
    have hcur := (cond_of_matched (hConds da hda) (hI.1 a da ha)).1
    simp only [hcur]
    refine ⟨?_, ?_⟩
    · intro i d hi c hc
      rw [matched_append, hI.1 i d hi c hc]
      by_cases hia : i = a
      · subst hia
        have hd : d = da := Option.some.inj (hi.symm.trans ha)
        subst hd
        rw [matched_block_self d (hNodups d hda) c hc]
        simp [bump, List.range_succ]
      · rw [matched_block_other da (pid d c) (disj_idx hDisj hi ha hia (pid d c) (pid_mem hc))]
        simp [bump, hia]
    · intro x hx
      rw [loopedIds_append, List.mem_append] at hx
      rcases hx with hx | hx
      · obtain ⟨i, d, hi, j, hj, c, hc, e⟩ := hI.2 x hx
        refine ⟨i, d, hi, j, ?_, c, hc, e⟩
        simp only [bump]; split <;> omega
      · rw [loopedIds_instantiate] at hx
        simp only [blockIds, List.mem_map] at hx
        obtain ⟨c, hc, e⟩ := hx
        exact ⟨a, da, ha, kf a + 1, by simp [bump], c, hc, e.symm⟩

private theorem initComps_matched_none (out : List Comp) : ∀ (ds : List Doc) (p : CId),
    (∀ d ∈ ds, p ∉ loopIds d) → matched (initComps out ds) p = [] := by
  intro ds
  induction ds with
  | nil => intro p _; simp [initComps, matched, loopedIds, ids]
  | cons d0 ds ih =>
    intro p h
    simp only [initComps]
    rw [matched_append, matched_block_other d0 p (h d0 List.mem_cons_self), ih p (fun d hd => h d (List.mem_cons_of_mem _ hd))]
    rfl

private theorem initComps_matched (out : List Comp) : ∀ (ds : List Doc), (∀ d ∈ ds, (loopIds d).Nodup) → LoopsDisjoint ds →
    ∀ (i : Nat) (d : Doc), ds[i]? = some d → ∀ c ∈ d.comps, matched (initComps out ds) (pid d c) = [instOf d c 0] := by
  intro ds
  induction ds with
  | nil => intro _ _ i d hi; simp at hi
  | cons d0 ds ih =>
    intro hN hD i d hi c hc
    have hD' := hD
    unfold LoopsDisjoint at hD'
    rw [List.pairwise_cons] at hD'
    simp only [initComps]
    rw [matched_append]
    cases i with
    | zero =>
      simp only [List.getElem?_cons_zero, Option.some.injEq] at hi
      subst hi
      rw [matched_block_self d0 (hN d0 List.mem_cons_self) c hc,
        initComps_matched_none out ds (pid d0 c) (fun d' hd' => hD'.1 d' hd' (pid d0 c) (pid_mem hc))]
      rfl
    | succ i =>
      have hi' : ds[i]? = some d := by simpa using hi
      have hnot : pid d c ∉ loopIds d0 := by
        intro hp0
        exact disj_idx hD (i := i + 1) (j := 0) hi (by simp) (by omega) (pid d c) (pid_mem hc) hp0
      rw [matched_block_other d0 (pid d c) hnot,
        ih (fun d' hd' => hN d' (List.mem_cons_of_mem _ hd')) hD'.2 i d hi' c hc]
      rfl

private theorem initComps_looped (out : List Comp) : ∀ (ds : List Doc) (x : CId), x ∈ loopedIds (initComps out ds) →
    ∃ (i : Nat) (d : Doc), ds[i]? = some d ∧ ∃ c ∈ d.comps, x = instOf d c 0 := by
  intro ds
  induction ds with
  | nil => intro x hx; simp [initComps, loopedIds, ids] at hx
  | cons d0 ds ih =>
    intro x hx
    simp only [initComps] at hx
    rw [loopedIds_append, List.mem_append] at hx
    rcases hx with hx | hx
    · rw [loopedIds_instantiate] at hx
      simp only [blockIds, List.mem_map] at hx
      obtain ⟨c, hc, e⟩ := hx
      exact ⟨0, d0, by simp, c, hc, e.symm⟩
    · obtain ⟨i, d, hi, c, hc, e⟩ := ih x hx
      exact ⟨i + 1, d, by simpa using hi, c, hc, e⟩

private theorem minv_init {ds : List Doc} {out : List Comp} (hOut : OutsideUnlooped out)
    (hNodups : ∀ d ∈ ds, (loopIds d).Nodup) (hDisj : LoopsDisjoint ds) : MInv ds (fun _ => 0) (initM ds out).comps := by
  have hcs : (initM ds out).comps = out ++ initComps out ds := rfl
  rw [hcs]
  refine ⟨?_, ?_⟩
  · intro i d hi c hc
    rw [matched_append, matched_out hOut, initComps_matched out ds hNodups hDisj i d hi c hc]
    rfl
  · intro x hx
    rw [loopedIds_append, List.mem_append] at hx
    rcases hx with hx | hx
    · have : matched out (x.1, baseName x.2) = [] := matched_out hOut _
      have hx' : x ∈ matched out (x.1, baseName x.2) := List.mem_filter.mpr ⟨hx, by simp⟩
      rw [this] at hx'
      cases hx'
    · obtain ⟨i, d, hi, c, hc, e⟩ := initComps_looped out ds x hx
      exact ⟨i, d, hi, 0, Nat.le_refl 0, c, hc, e⟩

private theorem minv_fold {ds : List Doc} (hConds : ∀ d ∈ ds, CondInLoop d) (hNodups : ∀ d ∈ ds, (loopIds d).Nodup)
    (hDisj : LoopsDisjoint ds) : ∀ (h : List Nat) (kf : Nat → Nat) (w : Wf), MInv ds kf w.comps →
      MInv ds (fun i => kf i + kOf h i) (h.foldl (fun w i => stepM ds i w) w).comps := by
  intro h
  induction h with
  | nil => intro kf w hI; simpa [kOf] using hI
  | cons a h ih =>
    intro kf w hI
    have := ih (bump a kf) (stepM ds a w) (minv_step hConds hNodups hDisj hI a)
    have hf : (fun i => bump a kf i + kOf h i) = (fun i => kf i + kOf (a :: h) i) := by
      funext i
      by_cases hia : i = a
      · subst hia; simp [bump, kOf]; omega
      · have : (a == i) = false := by simpa using (fun e : a = i => hia e.symm)
        simp [bump, kOf, List.count_cons, hia, this]
    rw [hf] at this
    exact this

/-- **the invariant holds after every history** -/
theorem multi_inv (ds : List Doc) (out : List Comp) (hOut : OutsideUnlooped out) (hConds : ∀ d ∈ ds, CondInLoop d)
    (hNodups : ∀ d ∈ ds, (loopIds d).Nodup) (hDisj : LoopsDisjoint ds) (h : List Nat) :
    MInv ds (kOf h) (runM ds out h).comps := by
  have := minv_fold hConds hNodups hDisj h (fun _ => 0) (initM ds out) (minv_init hOut hNodups hDisj)
  simpa [runM] using this

/-- **multi_represents_eq (instances exact, per document).**  Whatever the interleaving of the documents' iterations,
the placeholder of looped component `c` of document `i` matches exactly the instances `0 … kOf h i` of `c`, each once,
in this order — the iteration count of the document itself, never that of another document. -/
theorem multi_represents_eq (ds : List Doc) (out : List Comp) (hOut : OutsideUnlooped out) (hConds : ∀ d ∈ ds, CondInLoop d)
    (hNodups : ∀ d ∈ ds, (loopIds d).Nodup) (hDisj : LoopsDisjoint ds) (h : List Nat)
    (i : Nat) (d : Doc) (hi : ds[i]? = some d) (c : Comp) (hc : c ∈ d.comps) :
    matched (runM ds out h).comps (pid d c) =
      (List.range (kOf h i + 1)).map fun j => (c.stage + d.importStage, instName j c.name) :=
  (multi_inv ds out hOut hConds hNodups hDisj h).1 i d hi c hc

/-- **multi_instances_exact_mem.**  The looped components of the workflow are exactly the instances `j ≤ kOf h i` of the
template components of the documents `i`. -/
theorem multi_instances_exact_mem (ds : List Doc) (out : List Comp) (hOut : OutsideUnlooped out)
    (hConds : ∀ d ∈ ds, CondInLoop d) (hNodups : ∀ d ∈ ds, (loopIds d).Nodup) (hDisj : LoopsDisjoint ds) (h : List Nat)
    (x : CId) : x ∈ loopedIds (runM ds out h).comps ↔
      ∃ i d, ds[i]? = some d ∧ ∃ j, j ≤ kOf h i ∧ ∃ c ∈ d.comps, x = (c.stage + d.importStage, instName j c.name) := by
  have hI := multi_inv ds out hOut hConds hNodups hDisj h
  constructor
  · exact hI.2 x
  · rintro ⟨i, d, hi, j, hj, c, hc, e⟩
    subst e
    apply mem_loopedIds_of_matched (p := pid d c)
    rw [hI.1 i d hi c hc]
    simp only [List.mem_map, List.mem_range]
    exact ⟨j, by omega, rfl⟩

/-- **multi_condition_is_k.**  The current iteration of document `i` is its own count `kOf h i` and its current condition
is produced by instance `kOf h i` of its condition component. -/
theorem multi_condition_is_k (ds : List Doc) (out : List Comp) (hOut : OutsideUnlooped out) (hConds : ∀ d ∈ ds, CondInLoop d)
    (hNodups : ∀ d ∈ ds, (loopIds d).Nodup) (hDisj : LoopsDisjoint ds) (h : List Nat)
    (i : Nat) (d : Doc) (hi : ds[i]? = some d) :
    curIter d (runM ds out h).comps = kOf h i ∧
    currentCondition d (runM ds out h).comps =
      some ((d.condStage + d.importStage, instName (kOf h i) d.condName), d.condFile) := by
  have hI := multi_inv ds out hOut hConds hNodups hDisj h
  obtain ⟨h1, h2⟩ := cond_of_matched (hConds d (List.mem_of_getElem? hi)) (hI.1 i d hi)
  exact ⟨h1, by simp [currentCondition, h2]⟩

/-- the entry of `WorkflowGraph._placeholders` for a placeholder of document `i`: it is recorded for document `i`,
represents what the placeholder matches among ALL looped ids, and `latest` is chosen among these -/
theorem multi_placeholder_entry (num : Bool) (ds : List Doc) (hDisj : LoopsDisjoint ds) (cs : List Comp)
    (i : Nat) (d : Doc) (hi : ds[i]? = some d) (c : Comp) (hc : c ∈ d.comps) :
    findPlaceholderM num ds cs (pid d c) =
      some (d, { id := pid d c, represents := matched cs (pid d c),
                 latest := firstMaxBy (iterLt num) (matched cs (pid d c)) }) := by
  unfold findPlaceholderM placeholdersM
  rw [discover_find, tagged_find hDisj hi (pid_mem hc)]
  rfl

/-- **multi_latest_is_numeric_max.**  A `:ref`/`:output`/`:copy`/… reference from outside to looped component `c` of
document `i` resolves to instance `kOf h i` — an instance that exists, whatever the other documents did. -/
theorem multi_latest_is_numeric_max (ds : List Doc) (out : List Comp) (hOut : OutsideUnlooped out)
    (hConds : ∀ d ∈ ds, CondInLoop d) (hNodups : ∀ d ∈ ds, (loopIds d).Nodup) (hDisj : LoopsDisjoint ds) (h : List Nat)
    (i : Nat) (d : Doc) (hi : ds[i]? = some d) (c : Comp) (hc : c ∈ d.comps) :
    resolveProducerM true ds (runM ds out h).comps (pid d c) = some (c.stage + d.importStage, instName (kOf h i) c.name) := by
  simp only [resolveProducerM, multi_placeholder_entry true ds hDisj _ i d hi c hc,
    multi_represents_eq ds out hOut hConds hNodups hDisj h i d hi c hc]
  exact firstMaxBy_range_inst _ _ _

/-- **multi_loopref_sorted_numerically.**  An aggregate reference to looped component `c` of document `i` lists exactly
the instances `0 … kOf h i` of `c` in increasing iteration order, and nothing else. -/
theorem multi_loopref_sorted_numerically (ds : List Doc) (out : List Comp) (hOut : OutsideUnlooped out)
    (hConds : ∀ d ∈ ds, CondInLoop d) (hNodups : ∀ d ∈ ds, (loopIds d).Nodup) (hDisj : LoopsDisjoint ds) (h : List Nat)
    (i : Nat) (d : Doc) (hi : ds[i]? = some d) (c : Comp) (hc : c ∈ d.comps) :
    loopRefOrderM true ds (runM ds out h).comps (pid d c) =
      (List.range (kOf h i + 1)).map fun j => (c.stage + d.importStage, instName j c.name) := by
  simp only [loopRefOrderM, multi_placeholder_entry true ds hDisj _ i d hi c hc,
    multi_represents_eq ds out hOut hConds hNodups hDisj h i d hi c hc]
  exact sortBy_range_inst _ _ _

/-- **multi_ctl_predecessors.**  The Controller's dependency analysis of the placeholder of `c` yields the instances
`0 … kOf h i` of `c` and — unless `c` is the condition component itself — the producer of the document's current
condition, instance `kOf h i` of the condition component.  It is a function of the workflow: it yields a new list and
leaves `represents` as it is. -/
theorem multi_ctl_predecessors (ds : List Doc) (out : List Comp) (hOut : OutsideUnlooped out)
    (hConds : ∀ d ∈ ds, CondInLoop d) (hNodups : ∀ d ∈ ds, (loopIds d).Nodup) (hDisj : LoopsDisjoint ds) (h : List Nat)
    (i : Nat) (d : Doc) (hi : ds[i]? = some d) (c : Comp) (hc : c ∈ d.comps) :
    ctlPredecessors ds (runM ds out h).comps (pid d c) =
      ((List.range (kOf h i + 1)).map fun j => (c.stage + d.importStage, instName j c.name)) ++
        (if c.stage = d.condStage ∧ c.name = d.condName then []
         else [(d.condStage + d.importStage, instName (kOf h i) d.condName)]) := by
  have hI := multi_inv ds out hOut hConds hNodups hDisj h
  obtain ⟨_, h2⟩ := cond_of_matched (hConds d (List.mem_of_getElem? hi)) (hI.1 i d hi)
  simp only [ctlPredecessors, multi_placeholder_entry true ds hDisj _ i d hi c hc,
    multi_represents_eq ds out hOut hConds hNodups hDisj h i d hi c hc, h2]
  by_cases hcc : c.stage = d.condStage ∧ c.name = d.condName
  · have hmem : ((List.range (kOf h i + 1)).map fun j => ((c.stage + d.importStage, instName j c.name) : CId)).contains
        (d.condStage + d.importStage, instName (kOf h i) d.condName) = true := by
      simp only [List.contains_eq_mem, decide_eq_true_eq, List.mem_map, List.mem_range]
      exact ⟨kOf h i, by omega, by rw [hcc.1, hcc.2]⟩
    rw [hmem]
    simp [hcc]
  · have hmem : ((List.range (kOf h i + 1)).map fun j => ((c.stage + d.importStage, instName j c.name) : CId)).contains
        (d.condStage + d.importStage, instName (kOf h i) d.condName) = false := by
      rw [Bool.eq_false_iff]
      intro hm
      simp only [List.contains_eq_mem, decide_eq_true_eq, List.mem_map, List.mem_range] at hm
      obtain ⟨j, _, e⟩ := hm
      have e1 : c.stage + d.importStage = d.condStage + d.importStage := (Prod.ext_iff.mp e).1
      have e2 := congrArg baseName (Prod.ext_iff.mp e).2
      simp only [baseName_instName] at e2
      exact hcc ⟨by omega, e2⟩
    rw [hmem]
    simp [hcc]

/-- the Controller registers, per document, the producer of its current condition: instance `kOf h i` -/
theorem multi_ctl_conditions (ds : List Doc) (out : List Comp) (hOut : OutsideUnlooped out)
    (hConds : ∀ d ∈ ds, CondInLoop d) (hNodups : ∀ d ∈ ds, (loopIds d).Nodup) (hDisj : LoopsDisjoint ds) (h : List Nat)
    (i : Nat) (d : Doc) (hi : ds[i]? = some d) :
    (ctlConditions ds (runM ds out h).comps)[i]? =
      some (some (d.condStage + d.importStage, instName (kOf h i) d.condName)) := by
  have hI := multi_inv ds out hOut hConds hNodups hDisj h
  obtain ⟨_, h2⟩ := cond_of_matched (hConds d (List.mem_of_getElem? hi)) (hI.1 i d hi)
  simp [ctlConditions, hi, h2]

private theorem runM_snoc (ds : List Doc) (out : List Comp) (h : List Nat) (a : Nat) :
    runM ds out (h ++ [a]) = stepM ds a (runM ds out h) := by
  simp [runM, List.foldl_append]

private theorem kOf_snoc_ne (h : List Nat) {a b : Nat} (hab : a ≠ b) : kOf (h ++ [b]) a = kOf h a := by
  have : (b == a) = false := by simpa using (fun e : b = a => hab e.symm)
  simp [kOf, List.count_append, List.count_cons, this]

/-- **multi_wiring_structure.**  When document `a` instantiates its next iteration the workflow grows by the template of
`a` rewritten for iteration `kOf h a + 1` against the component ids known at that moment; nothing that exists changes. -/
theorem multi_wiring_structure (ds : List Doc) (out : List Comp) (hOut : OutsideUnlooped out) (hConds : ∀ d ∈ ds, CondInLoop d)
    (hNodups : ∀ d ∈ ds, (loopIds d).Nodup) (hDisj : LoopsDisjoint ds) (h : List Nat)
    (a : Nat) (d : Doc) (ha : ds[a]? = some d) :
    (runM ds out (h ++ [a])).comps = (runM ds out h).comps ++
      d.comps.map (fun c => { stage := c.stage + d.importStage, name := instName (kOf h a + 1) c.name,
                              refs := c.refs.map (rewriteRef d (ids (runM ds out h).comps) (kOf h a + 1) c.stage),
                              args := c.args.map (rewriteRef d (ids (runM ds out h).comps) (kOf h a + 1) c.stage) }) := by
  have hcur := (multi_condition_is_k ds out hOut hConds hNodups hDisj h a d ha).1
  rw [runM_snoc]
  simp only [stepM, ha, hcur]
  rfl

/-- **multi_independence.**  When another document `b ≠ a` instantiates an iteration, nothing of document `a` changes:
what its placeholders represent, its current iteration and condition, the instance an outside reference resolves to,
the expansion of an aggregate reference; and the components that exist are kept as they are. -/
theorem multi_independence (ds : List Doc) (out : List Comp) (hOut : OutsideUnlooped out) (hConds : ∀ d ∈ ds, CondInLoop d)
    (hNodups : ∀ d ∈ ds, (loopIds d).Nodup) (hDisj : LoopsDisjoint ds) (h : List Nat)
    (a b : Nat) (hab : a ≠ b) (d : Doc) (ha : ds[a]? = some d) (c : Comp) (hc : c ∈ d.comps) :
    matched (runM ds out (h ++ [b])).comps (pid d c) = matched (runM ds out h).comps (pid d c) ∧
    curIter d (runM ds out (h ++ [b])).comps = curIter d (runM ds out h).comps ∧
    currentCondition d (runM ds out (h ++ [b])).comps = currentCondition d (runM ds out h).comps ∧
    resolveProducerM true ds (runM ds out (h ++ [b])).comps (pid d c) =
      resolveProducerM true ds (runM ds out h).comps (pid d c) ∧
    loopRefOrderM true ds (runM ds out (h ++ [b])).comps (pid d c) =
      loopRefOrderM true ds (runM ds out h).comps (pid d c) ∧
    ∃ new, (runM ds out (h ++ [b])).comps = (runM ds out h).comps ++ new := by
  have hk := kOf_snoc_ne h hab
  refine ⟨?_, ?_, ?_, ?_, ?_, ?_⟩
  · rw [multi_represents_eq ds out hOut hConds hNodups hDisj _ a d ha c hc,
      multi_represents_eq ds out hOut hConds hNodups hDisj _ a d ha c hc, hk]
  · rw [(multi_condition_is_k ds out hOut hConds hNodups hDisj _ a d ha).1,
      (multi_condition_is_k ds out hOut hConds hNodups hDisj _ a d ha).1, hk]
  · rw [(multi_condition_is_k ds out hOut hConds hNodups hDisj _ a d ha).2,
      (multi_condition_is_k ds out hOut hConds hNodups hDisj _ a d ha).2, hk]
  · rw [multi_latest_is_numeric_max ds out hOut hConds hNodups hDisj _ a d ha c hc,
      multi_latest_is_numeric_max ds out hOut hConds hNodups hDisj _ a d ha c hc, hk]
  · rw [multi_loopref_sorted_numerically ds out hOut hConds hNodups hDisj _ a d ha c hc,
      multi_loopref_sorted_numerically ds out hOut hConds hNodups hDisj _ a d ha c hc, hk]
  · rw [runM_snoc]
    unfold stepM
    cases ds[b]? with
    | none => exact ⟨[], by simp⟩
    | some db => exact ⟨_, rfl⟩

/-- **multi_entry_frozen (finished placeholders keep their instances).**  While document `a` instantiates nothing (it
lies in a stage that is over: the Controller marked its placeholders FINISHED and `_discover_dowhile_placeholders` no
longer updates their entries), recomputing the entry of each of its placeholders from ALL looped ids of the workflow —
what the model does, and what the ids taken out of `remaining_looped_ids` amount to — gives the entry it had: the same
instances `0 … kOf h a`, the same `latest`, for the same document, whatever the other documents instantiate. -/
theorem multi_entry_frozen (ds : List Doc) (out : List Comp) (hOut : OutsideUnlooped out) (hConds : ∀ d ∈ ds, CondInLoop d)
    (hNodups : ∀ d ∈ ds, (loopIds d).Nodup) (hDisj : LoopsDisjoint ds) (h h' : List Nat)
    (a : Nat) (hfrozen : a ∉ h') (d : Doc) (ha : ds[a]? = some d) (c : Comp) (hc : c ∈ d.comps) :
    findPlaceholderM true ds (runM ds out (h ++ h')).comps (pid d c) =
      findPlaceholderM true ds (runM ds out h).comps (pid d c) ∧
    curIter d (runM ds out (h ++ h')).comps = curIter d (runM ds out h).comps ∧
    matched (runM ds out (h ++ h')).comps (pid d c) =
      (List.range (kOf h a + 1)).map fun j => (c.stage + d.importStage, instName j c.name) := by
  have hk : kOf (h ++ h') a = kOf h a := by
    simp [kOf, List.count_append, List.count_eq_zero.mpr hfrozen]
  refine ⟨?_, ?_, ?_⟩
  · rw [multi_placeholder_entry true ds hDisj _ a d ha c hc, multi_placeholder_entry true ds hDisj _ a d ha c hc,
      multi_represents_eq ds out hOut hConds hNodups hDisj _ a d ha c hc,
      multi_represents_eq ds out hOut hConds hNodups hDisj _ a d ha c hc, hk]
  · rw [(multi_condition_is_k ds out hOut hConds hNodups hDisj _ a d ha).1,
      (multi_condition_is_k ds out hOut hConds hNodups hDisj _ a d ha).1, hk]
  · rw [multi_represents_eq ds out hOut hConds hNodups hDisj _ a d ha c hc, hk]

/-- loop-carried wiring against any set of known ids that contains instance `j` of the producer -/
theorem wiring_loop_carried_of_known (d : Doc) (known : List CId)
    (hNames : ∀ c ∈ d.comps, isLooped c.name = false)
    (j : Nat) (owner : Nat) (r lb : Ref) (hr : r.direct = false)
    (hlb : lookup r.producer d.loopBindings = some lb) (hagg : isAggregate lb.method = false)
    (t : Comp) (hts : t.stage = lb.stage.getD 0) (htn : t.name = lb.producer)
    (hknown : known.contains (t.stage + d.importStage, instName j t.name) = true) :
    rewriteRef d known (j + 1) owner r =
      { direct := false, stage := some (t.stage + d.importStage), producer := instName j t.name,
        file := if r.file.isEmpty then lb.file else r.file, method := lb.method } := by
  have hne : d.loopBindings.isEmpty = false := by
    cases h : d.loopBindings with
    | nil => rw [h] at hlb; simp [lookup] at hlb
    | cons a l => rfl
  have hlook : lookup r.producer (effBindings d (j + 1)) =
      some (projectRef d.importStage (j + 1) lb) := by
    unfold effBindings
    simp only [hne, Nat.add_eq_zero_iff, Nat.succ_ne_self, and_false, beq_iff_eq, Bool.or_false, if_false]
    rw [lookup_append, projectedLoopBindings, lookup_map, hlb]
    rfl
  have hnl : (loopIds d).contains (t.stage + d.importStage, instName j t.name) = false := by
    rw [Bool.eq_false_iff]
    intro h
    simp only [List.contains_eq_mem, decide_eq_true_eq, loopIds, List.mem_map] at h
    obtain ⟨c, hc, e⟩ := h
    have e2 : c.name = instName j t.name := (Prod.ext_iff.mp e).2
    have := hNames c hc
    rw [e2] at this
    simp at this
  unfold rewriteRef
  simp only [hr, Bool.false_eq_true, if_false, hlook, projectRef, hagg, Nat.add_sub_cancel, Option.getD_some,
    ← hts, ← htn, hknown, hnl]
  simp

/-- **multi_wiring_loop_carried.**  In iteration `kOf h a + 1` of document `a` a loop-carried input is wired to instance
`kOf h a` of the producing looped component of the SAME document, whatever the other documents have instantiated. -/
theorem multi_wiring_loop_carried (ds : List Doc) (out : List Comp) (hOut : OutsideUnlooped out)
    (hConds : ∀ d ∈ ds, CondInLoop d) (hNodups : ∀ d ∈ ds, (loopIds d).Nodup) (hDisj : LoopsDisjoint ds) (h : List Nat)
    (a : Nat) (d : Doc) (ha : ds[a]? = some d) (hNames : ∀ c ∈ d.comps, isLooped c.name = false)
    (owner : Nat) (r lb : Ref) (hr : r.direct = false)
    (hlb : lookup r.producer d.loopBindings = some lb) (hagg : isAggregate lb.method = false)
    (t : Comp) (ht : t ∈ d.comps) (hts : t.stage = lb.stage.getD 0) (htn : t.name = lb.producer) :
    rewriteRef d (ids (runM ds out h).comps) (kOf h a + 1) owner r =
      { direct := false, stage := some (t.stage + d.importStage), producer := instName (kOf h a) t.name,
        file := if r.file.isEmpty then lb.file else r.file, method := lb.method } := by
  apply wiring_loop_carried_of_known d _ hNames (kOf h a) owner r lb hr hlb hagg t hts htn
  simp only [List.contains_eq_mem, decide_eq_true_eq]
  apply mem_ids_of_loopedIds
  rw [multi_instances_exact_mem ds out hOut hConds hNodups hDisj h]
  exact ⟨a, d, ha, kOf h a, Nat.le_refl _, t, ht, rfl⟩

/-! ### wiring of the consumers of a placeholder (graph edges) -/

/-- the producer of the current condition of document `d` after history `h`, `i` being the index of `d` -/
abbrev condOf (d : Doc) (k : Nat) : CId := (d.condStage + d.importStage, instName k d.condName)

/-- **multi_refPreds_placeholder (per-consumer expansion).**  Whatever the history, a reference `r` of ANY component `c`
(outside the loops or an instance of a looped component, e.g. the condition component aggregating a sibling with
`:loopref`/`:loopoutput`) that names the placeholder of looped component `t` of document `i` expands to exactly the
instances `0 … kOf h i` of `t` followed by the producer of the condition of iteration `kOf h i` — unless `c` is that
producer itself.  The right-hand side mentions only `c`: what another consumer of the same placeholder is, or whether
it was visited earlier in the same graph construction, does not matter. -/
theorem multi_refPreds_placeholder (ds : List Doc) (out : List Comp) (hOut : OutsideUnlooped out)
    (hConds : ∀ d ∈ ds, CondInLoop d) (hNodups : ∀ d ∈ ds, (loopIds d).Nodup) (hDisj : LoopsDisjoint ds) (h : List Nat)
    (i : Nat) (d : Doc) (hi : ds[i]? = some d) (t : Comp) (ht : t ∈ d.comps)
    (c : Comp) (r : Ref) (hr : (r.stage.getD c.stage, r.producer) = pid d t) :
    refPreds ds (runM ds out h).comps c r =
      ((List.range (kOf h i + 1)).map fun j => (t.stage + d.importStage, instName j t.name)) ++
        (if c.id = condOf d (kOf h i) then [] else [condOf d (kOf h i)]) := by
  have hI := multi_inv ds out hOut hConds hNodups hDisj h
  obtain ⟨_, h2⟩ := cond_of_matched (hConds d (List.mem_of_getElem? hi)) (hI.1 i d hi)
  simp only [refPreds, hr, multi_placeholder_entry true ds hDisj _ i d hi t ht,
    multi_represents_eq ds out hOut hConds hNodups hDisj h i d hi t ht, h2]
  by_cases hcc : c.id = condOf d (kOf h i)
  · simp [hcc]
  · have : ((d.condStage + d.importStage, instName (kOf h i) d.condName) != c.id) = true := by
      simp only [bne_iff_ne, ne_eq]
      exact fun e => hcc e.symm
    simp [this, hcc]

/-- every edge of a graph construction over the current workflow is an edge of the live graph: the edges of the nodes
that existed before an iteration are merged into the graph like those of the new nodes, on every iteration -/
theorem multi_edges_complete (ds : List Doc) (out : List Comp) (h : List Nat) :
    ∀ e ∈ edgesOfM ds (runM ds out h).comps, e ∈ (runM ds out h).edges := by
  unfold runM
  have h0 : ∀ e ∈ edgesOfM ds (initM ds out).comps, e ∈ (initM ds out).edges := fun e he => he
  generalize initM ds out = w at h0
  induction h generalizing w with
  | nil => exact h0
  | cons a h ih =>
    simp only [List.foldl_cons]
    apply ih
    unfold stepM
    cases ds[a]? with
    | none => exact h0
    | some d => intro e he; exact List.mem_append_right _ he

/-- the components that exist are kept, in particular those outside the loops -/
theorem multi_out_mem (ds : List Doc) (out : List Comp) (h : List Nat) {c : Comp} (hc : c ∈ out) :
    c ∈ (runM ds out h).comps := by
  unfold runM
  have h0 : c ∈ (initM ds out).comps := List.mem_append_left _ hc
  generalize initM ds out = w at h0
  induction h generalizing w with
  | nil => exact h0
  | cons a h ih =>
    simp only [List.foldl_cons]
    apply ih
    unfold stepM
    cases ds[a]? with
    | none => exact h0
    | some d => exact List.mem_append_left _ h0

/-- **multi_consumer_wired.**  After every history `h` (every number of iterations of every document, in any
interleaving), a component `c` of the workflow that declares a reference to looped component `t` of document `i` has, in
the live graph, an edge from EVERY instance `0 … kOf h i` of `t` — in particular from the numerically highest one, also
when `c` existed long before that instance — and, unless it produces that condition itself, from the producer of the
condition of iteration `kOf h i`: it is not released before the loop decided whether there is a further iteration. -/
theorem multi_consumer_wired (ds : List Doc) (out : List Comp) (hOut : OutsideUnlooped out)
    (hConds : ∀ d ∈ ds, CondInLoop d) (hNodups : ∀ d ∈ ds, (loopIds d).Nodup) (hDisj : LoopsDisjoint ds) (h : List Nat)
    (i : Nat) (d : Doc) (hi : ds[i]? = some d) (t : Comp) (ht : t ∈ d.comps)
    (c : Comp) (hc : c ∈ (runM ds out h).comps) (r : Ref) (hrc : r ∈ c.refs) (hrd : r.direct = false)
    (hr : (r.stage.getD c.stage, r.producer) = pid d t) :
    (∀ j, j ≤ kOf h i → ((t.stage + d.importStage, instName j t.name), c.id) ∈ (runM ds out h).edges) ∧
    (c.id ≠ condOf d (kOf h i) → (condOf d (kOf h i), c.id) ∈ (runM ds out h).edges) := by
  have hexp := multi_refPreds_placeholder ds out hOut hConds hNodups hDisj h i d hi t ht c r hr
  have hmemids : ∀ (t' : Comp), t' ∈ d.comps → ∀ j, j ≤ kOf h i →
      (t'.stage + d.importStage, instName j t'.name) ∈ ids (runM ds out h).comps := by
    intro t' ht' j hj
    apply mem_ids_of_loopedIds
    rw [multi_instances_exact_mem ds out hOut hConds hNodups hDisj h]
    exact ⟨i, d, hi, j, hj, t', ht', rfl⟩
  refine ⟨?_, ?_⟩
  · intro j hj
    apply multi_edges_complete
    apply mem_edgesOfM hc hrc hrd
    · rw [hexp]
      apply List.mem_append_left
      simp only [List.mem_map, List.mem_range]
      exact ⟨j, by omega, rfl⟩
    · exact hmemids t ht j hj
  · intro hne
    apply multi_edges_complete
    apply mem_edgesOfM hc hrc hrd
    · rw [hexp]
      apply List.mem_append_right
      simp [hne]
    · obtain ⟨c', hc', hcs, hcn⟩ := hConds d (List.mem_of_getElem? hi)
      have := hmemids c' hc' (kOf h i) (Nat.le_refl _)
      rw [hcs, hcn] at this
      exact this

/-- the same for a component outside the loops, which exists from the start: after every iteration it is wired to the
instances and the condition of THAT iteration -/
theorem multi_outside_consumer_wired (ds : List Doc) (out : List Comp) (hOut : OutsideUnlooped out)
    (hConds : ∀ d ∈ ds, CondInLoop d) (hNodups : ∀ d ∈ ds, (loopIds d).Nodup) (hDisj : LoopsDisjoint ds) (h : List Nat)
    (i : Nat) (d : Doc) (hi : ds[i]? = some d) (t : Comp) (ht : t ∈ d.comps)
    (c : Comp) (hc : c ∈ out) (r : Ref) (hrc : r ∈ c.refs) (hrd : r.direct = false)
    (hr : (r.stage.getD c.stage, r.producer) = pid d t) :
    ((t.stage + d.importStage, instName (kOf h i) t.name), c.id) ∈ (runM ds out h).edges ∧
    (condOf d (kOf h i), c.id) ∈ (runM ds out h).edges := by
  have hw := multi_consumer_wired ds out hOut hConds hNodups hDisj h i d hi t ht c (multi_out_mem ds out h hc) r hrc hrd hr
  refine ⟨hw.1 _ (Nat.le_refl _), hw.2 ?_⟩
  intro e
  have := hOut c hc
  have e2 : c.name = instName (kOf h i) d.condName := (Prod.ext_iff.mp e).2
  rw [e2] at this
  simp at this

/-- **multi_condition_not_its_own_predecessor.**  The component that produces the current condition may itself read a
looped sibling `t` through its placeholder (an aggregate reference): the expansion for THIS consumer is the instances of
`t` alone — it never names the consumer itself, so the graph gets no self-loop (no cycle), while every other consumer of
the same placeholder does get the condition (`multi_refPreds_placeholder`). -/
theorem multi_condition_not_its_own_predecessor (ds : List Doc) (out : List Comp) (hOut : OutsideUnlooped out)
    (hConds : ∀ d ∈ ds, CondInLoop d) (hNodups : ∀ d ∈ ds, (loopIds d).Nodup) (hDisj : LoopsDisjoint ds) (h : List Nat)
    (i : Nat) (d : Doc) (hi : ds[i]? = some d) (t : Comp) (ht : t ∈ d.comps)
    (hnc : ¬ (t.stage = d.condStage ∧ t.name = d.condName))
    (c : Comp) (hcc : c.id = condOf d (kOf h i)) (r : Ref) (hr : (r.stage.getD c.stage, r.producer) = pid d t) :
    c.id ∉ refPreds ds (runM ds out h).comps c r := by
  rw [multi_refPreds_placeholder ds out hOut hConds hNodups hDisj h i d hi t ht c r hr, hcc]
  simp only [if_true, List.append_nil, List.mem_map, List.mem_range, not_exists, not_and]
  intro j _ e
  have e1 : t.stage + d.importStage = d.condStage + d.importStage := (Prod.ext_iff.mp e).1
  have e2 := congrArg baseName (Prod.ext_iff.mp e).2
  simp only [baseName_instName] at e2
  exact hnc ⟨by omega, e2⟩

/-- **readers change nothing.**  For every sequence of operations — documents instantiating iterations, and in between the
Controller's dependency analysis / status report / placeholder state or a consumer resolving references — the workflow
is the one obtained from the instantiations alone: all theorems above hold after any such sequence. -/
theorem runOps_eq_runM (ds : List Doc) (out : List Comp) (ops : List Op) :
    runOps ds out ops = runM ds out (advances ops) := by
  unfold runOps runM
  generalize initM ds out = w
  induction ops generalizing w with
  | nil => rfl
  | cons o ops ih =>
    cases o with
    | advance i => simp only [List.foldl_cons, advances, applyOp]; exact ih _
    | read => simp only [List.foldl_cons, advances, applyOp]; exact ih _

/-- a read between two operations is not observable afterwards -/
theorem read_is_identity (ds : List Doc) (out : List Comp) (ops ops' : List Op) :
    runOps ds out (ops ++ Op.read :: ops') = runOps ds out (ops ++ ops') := by
  simp [runOps_eq_runM, advances_append, advances]

/-! ### one document: the model of this section is the model of the first part -/

private theorem find_mk (num : Bool) (cs : List Comp) (p : CId) : ∀ (l : List CId),
    (l.map fun q => ({ id := q, represents := matched cs q, latest := firstMaxBy (iterLt num) (matched cs q) } : Placeholder)).find?
        (fun q => q.id == p) =
      (l.find? (fun q => q == p)).map fun q =>
        ({ id := q, represents := matched cs q, latest := firstMaxBy (iterLt num) (matched cs q) } : Placeholder) := by
  intro l
  induction l with
  | nil => rfl
  | cons a l ih =>
    by_cases ha : (a == p) = true
    · simp [ha]
    · simp only [List.map_cons, List.find?_cons, ha, ih]

private theorem findM_single (num : Bool) (d : Doc) (cs : List Comp) (p : CId) :
    findPlaceholderM num [d] cs p = (findPlaceholder num d cs p).map fun q => (d, q) := by
  have ht : taggedIds [d] = (loopIds d).map fun q => (d, q) := by simp [taggedIds]
  unfold findPlaceholderM placeholdersM findPlaceholder placeholders
  rw [discover_find, ht, find_tag, find_mk]
  by_cases hp : p ∈ loopIds d
  · rw [find_beq p _ hp]; rfl
  · rw [find_beq_none p _ hp]; rfl

private theorem edgesOfM_single (d : Doc) (cs : List Comp) : edgesOfM [d] cs = edgesOf d cs := by
  unfold edgesOfM edgesOf
  simp only [findM_single]
  congr 1
  funext c
  congr 1
  funext r
  cases findPlaceholder true d cs (r.stage.getD c.stage, r.producer) <;> rfl

/-- **runM_single.**  For a workflow with one DoWhile document the model of this section coincides with `run`: the
theorems of the first part are statements about the same function the harness compares the real code with. -/
theorem runM_single (d : Doc) (out : List Comp) (k : Nat) : runM [d] out (List.replicate k 0) = run d out k := by
  induction k with
  | zero => simp [runM, run, initM, init, initComps, edgesOfM_single]
  | succ k ih =>
    rw [List.replicate_succ', runM_snoc, ih]
    simp [stepM, run, step, edgesOfM_single]

end Multi

/-! ### aggregate and newest-instance references resolved against what is on disk

`Model/LoopDisk.lean`.  `disk` — for every instance: is the file the reference asks for there, and what does it contain —
is universally quantified: every instance independently may have produced its output or not (never executed, shut down,
directory cleaned), whatever the history `h` of the iterations was. -/

section Disk

/-- instance `j` of looped component `c` of document `d` -/
def inst (d : Doc) (c : Comp) (j : Nat) : CId := (c.stage + d.importStage, instName j c.name)

/-- **multi_loopoutput_all_or_error.**  `<c>:loopoutput` resolves to `vs` iff EVERY instance `0 … kOf h i` has its file
and `vs` are their contents in increasing iteration order: position `j` of a resolved value is the output of iteration
`j`, nothing is skipped and nothing is added. -/
theorem multi_loopoutput_all_or_error (ds : List Doc) (out : List Comp) (hOut : OutsideUnlooped out)
    (hConds : ∀ d ∈ ds, CondInLoop d) (hNodups : ∀ d ∈ ds, (loopIds d).Nodup) (hDisj : LoopsDisjoint ds) (h : List Nat)
    (i : Nat) (d : Doc) (hi : ds[i]? = some d) (c : Comp) (hc : c ∈ d.comps) (disk : Disk) (vs : List S) :
    loopOutputM true ds (runM ds out h).comps (pid d c) disk = .ok vs ↔
      ((List.range (kOf h i + 1)).map fun j => (disk (inst d c j)).content?) = vs.map some := by
  unfold loopOutputM
  rw [multi_loopref_sorted_numerically ds out hOut hConds hNodups hDisj h i d hi c hc, resolveLoopOutput_ok_iff,
    List.map_map]
  rfl

/-- **multi_loopoutput_length.**  A resolved `:loopoutput` value has exactly one entry per instance: `kOf h i + 1`. -/
theorem multi_loopoutput_length (ds : List Doc) (out : List Comp) (hOut : OutsideUnlooped out)
    (hConds : ∀ d ∈ ds, CondInLoop d) (hNodups : ∀ d ∈ ds, (loopIds d).Nodup) (hDisj : LoopsDisjoint ds) (h : List Nat)
    (i : Nat) (d : Doc) (hi : ds[i]? = some d) (c : Comp) (hc : c ∈ d.comps) (disk : Disk) (vs : List S)
    (hok : loopOutputM true ds (runM ds out h).comps (pid d c) disk = .ok vs) : vs.length = kOf h i + 1 := by
  have e := (multi_loopoutput_all_or_error ds out hOut hConds hNodups hDisj h i d hi c hc disk vs).mp hok
  have := congrArg List.length e
  simpa using this.symm

/-- **multi_loopoutput_position.**  Entry `j` of a resolved `:loopoutput` value is the contents of the file of instance
`j` — for every `j ≤ kOf h i` (in particular `j ≥ 10`). -/
theorem multi_loopoutput_position (ds : List Doc) (out : List Comp) (hOut : OutsideUnlooped out)
    (hConds : ∀ d ∈ ds, CondInLoop d) (hNodups : ∀ d ∈ ds, (loopIds d).Nodup) (hDisj : LoopsDisjoint ds) (h : List Nat)
    (i : Nat) (d : Doc) (hi : ds[i]? = some d) (c : Comp) (hc : c ∈ d.comps) (disk : Disk) (vs : List S)
    (hok : loopOutputM true ds (runM ds out h).comps (pid d c) disk = .ok vs) (j : Nat) (hj : j ≤ kOf h i) :
    (disk (inst d c j)).content? = vs[j]? ∧ (vs[j]?).isSome = true := by
  have e := (multi_loopoutput_all_or_error ds out hOut hConds hNodups hDisj h i d hi c hc disk vs).mp hok
  have hlen := multi_loopoutput_length ds out hOut hConds hNodups hDisj h i d hi c hc disk vs hok
  have hj' : j < vs.length := by omega
  have ej := congrArg (fun l => l[j]?) e
  simp only [List.getElem?_map] at ej
  rw [List.getElem?_range (by omega)] at ej
  rw [List.getElem?_eq_getElem hj'] at ej ⊢
  simp only [Option.map_some] at ej
  exact ⟨Option.some.inj ej, rfl⟩

/-- **multi_loopoutput_missing_is_error.**  If the file of ANY instance `j ≤ kOf h i` — the first, one in the middle, the
last — is not there, the reference does not resolve: the error names exactly the instances without a file, in
increasing iteration order.  It never resolves to a shorter list. -/
theorem multi_loopoutput_missing_is_error (ds : List Doc) (out : List Comp) (hOut : OutsideUnlooped out)
    (hConds : ∀ d ∈ ds, CondInLoop d) (hNodups : ∀ d ∈ ds, (loopIds d).Nodup) (hDisj : LoopsDisjoint ds) (h : List Nat)
    (i : Nat) (d : Doc) (hi : ds[i]? = some d) (c : Comp) (hc : c ∈ d.comps) (disk : Disk)
    (j : Nat) (hj : j ≤ kOf h i) (hmiss : (disk (inst d c j)).content? = none) :
    loopOutputM true ds (runM ds out h).comps (pid d c) disk =
      .error (((List.range (kOf h i + 1)).filter fun j => missing disk (inst d c j)).map (inst d c)) := by
  unfold loopOutputM
  rw [multi_loopref_sorted_numerically ds out hOut hConds hNodups hDisj h i d hi c hc]
  have hmem : inst d c j ∈ ((List.range (kOf h i + 1)).map fun j => ((c.stage + d.importStage, instName j c.name) : CId)).filter
      (missing disk) := by
    refine List.mem_filter.mpr ⟨List.mem_map.mpr ⟨j, List.mem_range.mpr (by omega), rfl⟩, ?_⟩
    simp [missing, hmiss]
  rcases resolveLoopOutput_ok_or_error disk
      ((List.range (kOf h i + 1)).map fun j => ((c.stage + d.importStage, instName j c.name) : CId)) with
    ⟨_, _, hnil⟩ | ⟨herr, _⟩
  · rw [hnil] at hmem; cases hmem
  · rw [herr, List.filter_map]
    rfl

/-- **multi_stage_loopref.**  Staging a `:loopref` reference succeeds iff the path of EVERY instance `0 … kOf h i` exists,
and then yields those paths in increasing iteration order. -/
theorem multi_stage_loopref (ds : List Doc) (out : List Comp) (hOut : OutsideUnlooped out)
    (hConds : ∀ d ∈ ds, CondInLoop d) (hNodups : ∀ d ∈ ds, (loopIds d).Nodup) (hDisj : LoopsDisjoint ds) (h : List Nat)
    (i : Nat) (d : Doc) (hi : ds[i]? = some d) (c : Comp) (hc : c ∈ d.comps) (ex : CId → Bool) (r : List CId) :
    stageLoopRefM true ds (runM ds out h).comps (pid d c) ex = .ok r ↔
      r = (List.range (kOf h i + 1)).map (inst d c) ∧ ∀ j, j ≤ kOf h i → ex (inst d c j) = true := by
  unfold stageLoopRefM
  rw [multi_loopref_sorted_numerically ds out hOut hConds hNodups hDisj h i d hi c hc, stageLoopRef_ok_iff]
  constructor
  · rintro ⟨e, hall⟩
    refine ⟨e, fun j hj => hall _ (List.mem_map.mpr ⟨j, List.mem_range.mpr (by omega), rfl⟩)⟩
  · rintro ⟨e, hall⟩
    refine ⟨e, fun x hx => ?_⟩
    obtain ⟨j, hj, rfl⟩ := List.mem_map.mp hx
    exact hall j (by have := List.mem_range.mp hj; omega)

/-- **multi_output_latest_or_error.**  `<c>:output` from outside the loop resolves to `v` iff the file of the
numerically highest instance `kOf h i` is there with contents `v`; if it is not there the reference fails naming that
instance — it never falls back to the output of an older iteration. -/
theorem multi_output_latest_or_error (ds : List Doc) (out : List Comp) (hOut : OutsideUnlooped out)
    (hConds : ∀ d ∈ ds, CondInLoop d) (hNodups : ∀ d ∈ ds, (loopIds d).Nodup) (hDisj : LoopsDisjoint ds) (h : List Nat)
    (i : Nat) (d : Doc) (hi : ds[i]? = some d) (c : Comp) (hc : c ∈ d.comps) (disk : Disk) :
    resolveOutputM true ds (runM ds out h).comps (pid d c) disk =
      match (disk (inst d c (kOf h i))).content? with
      | some v => .ok v
      | none => .error (some (inst d c (kOf h i))) := by
  unfold resolveOutputM
  rw [multi_latest_is_numeric_max ds out hOut hConds hNodups hDisj h i d hi c hc]
  rfl

/-- **arg_loopoutput_never_partial.**  What `resolveArguments` puts on a command line for a `:loopoutput` reference is
the complete list (one value per instance, in order) or — when files are missing — nothing at all (`blank`: exactly one
missing; `inconsistent`: more than one): never a shorter list. -/
theorem arg_loopoutput_never_partial (disk : Disk) (l : List CId) :
    (∃ vs, argLoopOutput disk l = .full vs ∧ (l.map fun x => (disk x).content?) = vs.map some) ∨
    (argLoopOutput disk l = .blank ∧ (l.filter (missing disk)).length = 1) ∨
    (argLoopOutput disk l = .inconsistent ∧ 2 ≤ (l.filter (missing disk)).length) := by
  unfold argLoopOutput
  rcases resolveLoopOutput_ok_or_error disk l with ⟨vs, hok, _⟩ | ⟨herr, hne⟩
  · rw [hok]
    exact Or.inl ⟨vs, rfl, (resolveLoopOutput_ok_iff disk l vs).mp hok⟩
  · rw [herr]
    match hf : l.filter (missing disk), hne with
    | [], hne => exact absurd rfl hne
    | [a], _ => exact Or.inr (Or.inl ⟨rfl, rfl⟩)
    | a :: b :: t, _ => exact Or.inr (Or.inr ⟨rfl, by simp⟩)

/-- **multi_arg_loopoutput.**  The command-line value of `<c>:loopoutput` after history `h`: `full vs` iff all files of
the instances `0 … kOf h i` are there and `vs` are their contents in iteration order. -/
theorem multi_arg_loopoutput (ds : List Doc) (out : List Comp) (hOut : OutsideUnlooped out)
    (hConds : ∀ d ∈ ds, CondInLoop d) (hNodups : ∀ d ∈ ds, (loopIds d).Nodup) (hDisj : LoopsDisjoint ds) (h : List Nat)
    (i : Nat) (d : Doc) (hi : ds[i]? = some d) (c : Comp) (hc : c ∈ d.comps) (disk : Disk) (vs : List S) :
    argLoopOutputM true ds (runM ds out h).comps (pid d c) disk = .full vs ↔
      ((List.range (kOf h i + 1)).map fun j => (disk (inst d c j)).content?) = vs.map some := by
  rw [← multi_loopoutput_all_or_error ds out hOut hConds hNodups hDisj h i d hi c hc disk vs]
  unfold argLoopOutputM loopOutputM argLoopOutput
  generalize resolveLoopOutput disk _ = r
  match r with
  | .ok ws => simp
  | .error [] => simp
  | .error [_] => simp
  | .error (_ :: _ :: _) => simp

/-- **multi_arg_output_latest.**  The command-line value of `<c>:output` is the contents of the file of instance
`kOf h i`, or empty when that file is not there — never the output of an older iteration. -/
theorem multi_arg_output_latest (ds : List Doc) (out : List Comp) (hOut : OutsideUnlooped out)
    (hConds : ∀ d ∈ ds, CondInLoop d) (hNodups : ∀ d ∈ ds, (loopIds d).Nodup) (hDisj : LoopsDisjoint ds) (h : List Nat)
    (i : Nat) (d : Doc) (hi : ds[i]? = some d) (c : Comp) (hc : c ∈ d.comps) (disk : Disk) :
    argOutputM true ds (runM ds out h).comps (pid d c) disk = ((disk (inst d c (kOf h i))).content?).getD [] := by
  unfold argOutputM
  rw [multi_output_latest_or_error ds out hOut hConds hNodups hDisj h i d hi c hc disk]
  cases (disk (inst d c (kOf h i))).content? <;> rfl

end Disk

/-! ### the hypotheses are satisfiable; the statements are not vacuous -/

section Examples

/-- the minimal package of the harness: one looped component `x` fed by `in0` (loop-carried from `x`), condition
`stop`, imported at stage 1; outside: `src0`, a `:ref` consumer and a `:loopref` consumer -/
def exDoc : Doc :=
  { comps := [{ stage := 0, name := "x".toList, refs := [⟨false, none, "in0".toList, [], "output".toList⟩] },
              { stage := 0, name := "stop".toList, refs := [⟨false, none, "x".toList, [], "output".toList⟩] }],
    bindings := [("in0".toList, ⟨false, some 0, "src0".toList, [], "output".toList⟩)],
    loopBindings := [("in0".toList, ⟨false, none, "x".toList, [], "output".toList⟩)],
    condStage := 0, condName := "stop".toList, condFile := [], importStage := 1 }

def exOut : List Comp :=
  [{ stage := 0, name := "src0".toList, refs := [] },
   { stage := 2, name := "plain0".toList, refs := [⟨false, some 1, "x".toList, [], "ref".toList⟩] },
   { stage := 2, name := "agg0".toList, refs := [⟨false, some 1, "x".toList, [], "loopref".toList⟩] }]

example : OutsideUnlooped exOut := by unfold OutsideUnlooped; decide
example : CondInLoop exDoc := ⟨_, List.mem_cons_of_mem _ List.mem_cons_self, rfl, rfl⟩
example : (loopIds exDoc).Nodup := by decide
example : ∀ c ∈ exDoc.comps, isLooped c.name = false := by decide
/-- iteration 2 of `x` reads instance 1 of `x` (loop-carried) … -/
example : ((run exDoc exOut 2).comps.filter (fun c => c.name == instName 2 "x".toList)).map (·.refs) =
    [[⟨false, some 1, instName 1 "x".toList, [], "output".toList⟩]] := by decide
/-- … and iteration 0 reads the original binding -/
example : ((run exDoc exOut 2).comps.filter (fun c => c.name == instName 0 "x".toList)).map (·.refs) =
    [[⟨false, some 0, "src0".toList, [], "output".toList⟩]] := by decide
example : resolveProducer true exDoc (run exDoc exOut 3).comps (1, "x".toList) = some (1, instName 3 "x".toList) := by
  decide

/-- the same template imported a second time, at stage 2 -/
def exDoc2 : Doc := { exDoc with importStage := 2 }

example : LoopsDisjoint [exDoc, exDoc2] := by unfold LoopsDisjoint; decide
example : ∀ d ∈ [exDoc, exDoc2], CondInLoop d := by
  intro d hd
  simp only [List.mem_cons, List.not_mem_nil, or_false] at hd
  rcases hd with e | e <;> subst e <;> exact ⟨_, List.mem_cons_of_mem _ List.mem_cons_self, rfl, rfl⟩
/-- the first document did one further iteration, the second three: a reference to `x` of the first resolves to its
instance 1, a reference to `x` of the second to its instance 3 -/
example : resolveProducerM true [exDoc, exDoc2] (runM [exDoc, exDoc2] exOut [0, 1, 1, 1]).comps (1, "x".toList)
    = some (1, instName 1 "x".toList) := by decide
example : resolveProducerM true [exDoc, exDoc2] (runM [exDoc, exDoc2] exOut [0, 1, 1, 1]).comps (2, "x".toList)
    = some (2, instName 3 "x".toList) := by decide
/-- the outside consumer `plain0` (there from the start) is wired to instance 2 of `x` and to the condition of iteration 2 -/
example : ((1, instName 2 "x".toList), ((2, "plain0".toList) : CId)) ∈ (runM [exDoc] exOut [0, 0]).edges ∧
    ((1, instName 2 "stop".toList), ((2, "plain0".toList) : CId)) ∈ (runM [exDoc] exOut [0, 0]).edges := by decide
/-- the condition component aggregates the looped sibling `x` (`x:loopoutput`) that `plain0` reads from outside -/
def exDocAgg : Doc :=
  { exDoc with comps := [{ stage := 0, name := "x".toList, refs := [⟨false, none, "in0".toList, [], "output".toList⟩] },
                         { stage := 0, name := "stop".toList, refs := [⟨false, none, "x".toList, [], "loopoutput".toList⟩] }] }

/-- the expansion of the SAME placeholder differs between its two consumers: the producer of the current condition
gets the instances only (no self-loop), the outside consumer gets the instances and that producer -/
example :
    refPreds [exDocAgg] (runM [exDocAgg] exOut [0]).comps
        { stage := 1, name := instName 1 "stop".toList, refs := [] } ⟨false, some 1, "x".toList, [], "loopoutput".toList⟩
      = [(1, instName 0 "x".toList), (1, instName 1 "x".toList)] ∧
    refPreds [exDocAgg] (runM [exDocAgg] exOut [0]).comps
        { stage := 2, name := "plain0".toList, refs := [] } ⟨false, some 1, "x".toList, [], "ref".toList⟩
      = [(1, instName 0 "x".toList), (1, instName 1 "x".toList), (1, instName 1 "stop".toList)] := by decide
/-- … and the live graph has no self-loop -/
example : (runM [exDocAgg] exOut [0, 0]).edges.all (fun e => e.1 != e.2) = true := by decide
example : ctlPredecessors [exDoc, exDoc2] (runM [exDoc, exDoc2] exOut [1, 0]).comps (1, "x".toList)
    = [(1, instName 0 "x".toList), (1, instName 1 "x".toList), (1, instName 1 "stop".toList)] := by decide

/-- three instances of `x`; the file of iteration 1 is missing (the first and the last are there) -/
def exDisk : Disk := fun x =>
  if x == (1, instName 0 "x".toList) then .value "a".toList
  else if x == (1, instName 2 "x".toList) then .value "c".toList
  else if x == (1, instName 1 "x".toList) then .noFile else .noDir

/-- … `x:loopoutput` does not resolve (it names instance 1), its command-line value is blank, `x:output` is the output
of instance 2 -/
example : (match loopOutputM true [exDoc] (runM [exDoc] exOut [0, 0]).comps (1, "x".toList) exDisk with
    | .error nf => nf == [(1, instName 1 "x".toList)]
    | .ok _ => false) = true := by decide
example : argLoopOutputM true [exDoc] (runM [exDoc] exOut [0, 0]).comps (1, "x".toList) exDisk = .blank := by decide
example : argOutputM true [exDoc] (runM [exDoc] exOut [0, 0]).comps (1, "x".toList) exDisk = "c".toList := by decide
/-- with all three files there it resolves to the three values in iteration order -/
example : (match loopOutputM true [exDoc] (runM [exDoc] exOut [0, 0]).comps (1, "x".toList)
      (fun x => .value x.2) with
    | .ok vs => vs == [instName 0 "x".toList, instName 1 "x".toList, instName 2 "x".toList]
    | .error _ => false) = true := by decide

end Examples

end St4sd.C05
