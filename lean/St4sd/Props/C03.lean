import St4sd.Model.Repl
import St4sd.Model.ReplVars
import St4sd.Model.ReplConf
import St4sd.Lemmas.C03Text
import St4sd.Lemmas.C03Agg
import St4sd.Model.ReplOver
import St4sd.Lemmas.C03Over
/-!
# C03 — Replication expands a workflow without changing its dataflow

Property theorems about `St4sd.Repl` (model of `FlowIR.apply_replicate`), for every workflow given in
topological order, by induction over that order (`go_inv`).

* `plan_justified` — the propagated counts are exactly the closure "own request, or the count of a
  non-aggregating producer" (the replicated region = what is reachable from a replication point
  without crossing an aggregator);
* `expand_counts`, `piece_region`, `piece_outside`, `piece_agg` — a component of the region yields
  exactly the copies `0..N-1` (name suffix `i`, `replica = i`, `replicate = N`), every other component
  is emitted once and — unless it aggregates — unchanged;
* `expand_wiring`, `aggregator_wiring` — copy `i` consumes copy `i` of a replicated producer and the
  single instance of any other producer; an aggregator consumes the copies `0..N-1` in index order;
* `expand_closed` — every component reference of the result names a component of the result;
* `visible_lookup`, `count_own_chain`, `aggregate_own_chain`, `count_independent_of_siblings`,
  `resolveAll_perm`, `resolveComp_scope_only`, `expandRaw_ok` — a replica count / aggregate flag given
  through a variable is resolved in the scope chain of the component itself (own variables over the
  variables of its stage over the global ones), whatever the other components of the workflow define
  for themselves and in whatever order the components are processed;
* `copy_knows_its_index`, `copy_keeps_other_variables`, `expand_vars`, `expanded_copy_knows_its_index` — the
  component-level variables of copy `i` are those of the component with `replica := i`: whatever the
  component itself, its stage or the global scope define for `replica`, copy `i` sees `replica = i`; every
  other variable, and every variable of a component that is not replicated, is unchanged;
* `run_orig`, `reparametrised_equals_fresh`, `history_irrelevant`, `user_variable_chain` — the document a
  configuration object replicates after any history of (re-)parametrisations is the loaded document patched
  with the user variables of the CURRENT parametrisation (the same as a freshly constructed configuration);
* `platform_chain`, `layerRaw_none`, `layerT_map`, `override_block_consistent`, `goBlocks_readback`,
  `readback_copy_knows_its_index`, `pieceBase_text` — replication on a non-default platform (`Model/ReplOver.lean`):
  the scope chain is own > platform stage > platform global > default stage > default global; the kept
  `override.<platform>` block of every emitted component is rewritten consistently with the component, so what
  is read back through the platform layer (references, command line, every variable, `replica = i`) is exactly
  the rewritten component;
* `aggregated_path_ends_where_the_path_ends`, `aggregated_reference_then_text`, `aggregated_path_expansion` — the
  aggregator's text (`compile_component_aggregate`): the file path that follows an aggregated reference is exactly
  the run of `/segment`s over `[\w.*+~@-]`; whatever comes next (`)` `;` `|` `>` … of the surrounding shell text) is
  neither taken into the path nor repeated after every copy, it is scanned as text on its own;
* `text_refines_graph_partial` — for the repaired code the textual rewriting of a `references` entry of a
  copy equals the rendering of the graph-level rewriting, under two decidable side conditions (see there).
-/
namespace St4sd.C03
open St4sd.Repl St4sd.Str

/-! ## induction principle over the pass -/

theorem go_inv (P : Done → List Comp → Prop)
    (hstep : ∀ d out c p, P d out → closedAt d c = true → decide1 (vals d c) = some p →
      P ((c, p) :: d) (out ++ piece d c p)) :
    ∀ (cs : List Comp) (d : Done) (out : List Comp) (d' : Done) (out' : List Comp),
      P d out → go d out cs = .ok (d', out') → P d' out' := by
  intro cs
  induction cs with
  | nil =>
    intro d out d' out' h0 h
    simp only [go, Except.ok.injEq, Prod.mk.injEq] at h
    obtain ⟨rfl, rfl⟩ := h
    exact h0
  | cons c cs ih =>
    intro d out d' out' h0 h
    simp only [go] at h
    split at h
    · rename_i hc
      split at h
      · rename_i p hp
        exact ih _ _ _ _ (hstep d out c p h0 hc hp) h
      · cases h
    · cases h

/-! ## propagation -/

private theorem decide1_some {vs : List Nat} {p : Option Nat} (h : decide1 vs = some p) :
    ∀ n, p = some n ↔ n ∈ vs := by
  cases vs with
  | nil =>
    simp only [decide1, Option.some.injEq] at h
    subst h
    simp
  | cons v rest =>
    simp only [decide1] at h
    split at h
    · rename_i hall
      simp only [Option.some.injEq] at h
      subst h
      intro n
      simp only [Option.some.injEq, List.mem_cons]
      constructor
      · intro h; exact Or.inl h.symm
      · rintro (h | h)
        · exact h.symm
        · have := (List.all_eq_true.mp hall) n h
          exact (by simpa using this : n = v).symm
    · cases h

private theorem mem_vals {d : Done} {c : Comp} {n : Nat} :
    n ∈ vals d c ↔ (c.repl = some n ∨ ∃ r ∈ c.refs, inherit d r = some n) := by
  unfold vals
  rw [List.mem_append, List.mem_filterMap]
  constructor
  · rintro (⟨r, hr, h⟩ | h)
    · exact Or.inr ⟨r, hr, h⟩
    · left
      cases hrep : c.repl with
      | none => simp [hrep] at h
      | some m => simp [hrep] at h; simp [h]
  · rintro (h | ⟨r, hr, h⟩)
    · right; simp [h]
    · exact Or.inl ⟨r, hr, h⟩

/-- Every recorded count is justified relative to the components processed before it: the count of `c`
is `n` iff `c` itself requests `n` replicas or some non-aggregating producer of `c` has count `n`.
(Over a topological order this equation has exactly one solution: the region reachable from the
replication points without crossing an aggregator.) -/
def Justified : Done → Prop
  | [] => True
  | (c, p) :: d => (∀ n, p = some n ↔ (c.repl = some n ∨ ∃ r ∈ c.refs, inherit d r = some n)) ∧ Justified d

/-- `propagate_replicate` computes the justified counts, for the components in their given order. -/
theorem plan_justified (wf : List Comp) (d : Done) (out : List Comp) (h : go [] [] wf = .ok (d, out)) :
    Justified d ∧ d.map (·.1) = wf.reverse := by
  have key : ∀ (cs : List Comp) (d0 : Done) (out0 : List Comp) (d' : Done) (out' : List Comp),
      Justified d0 → go d0 out0 cs = .ok (d', out') →
      Justified d' ∧ d'.map (·.1) = cs.reverse ++ d0.map (·.1) := by
    intro cs
    induction cs with
    | nil =>
      intro d0 out0 d' out' hj h
      simp only [go, Except.ok.injEq, Prod.mk.injEq] at h
      obtain ⟨rfl, rfl⟩ := h
      exact ⟨hj, by simp⟩
    | cons c cs ih =>
      intro d0 out0 d' out' hj h
      simp only [go] at h
      split at h
      · split at h
        · rename_i p hp
          have hj' : Justified ((c, p) :: d0) :=
            ⟨fun n => (decide1_some hp n).trans mem_vals, hj⟩
          obtain ⟨h1, h2⟩ := ih _ _ _ _ hj' h
          exact ⟨h1, by simp [h2]⟩
        · cases h
      · cases h
  simpa using key wf [] [] d out trivial h

/-- A consumer of a replicated producer has the producer's count (so it is a copy or an aggregator). -/
theorem count_of_consumer {d : Done} {c : Comp} {p : Option Nat} (hp : decide1 (vals d c) = some p)
    {r : Ref} (hr : r ∈ c.refs) {n : Nat} (hi : inherit d r = some n) : p = some n :=
  (decide1_some hp n).mpr (mem_vals.mpr (Or.inr ⟨r, hr, hi⟩))

/-! ## counts -/

/-- the expansion is the concatenation of the pieces of the components, in order -/
def piecesOf : Done → List Comp
  | [] => []
  | (c, p) :: d => piecesOf d ++ piece d c p

theorem expand_counts (wf : List Comp) (d : Done) (out : List Comp) (h : go [] [] wf = .ok (d, out)) :
    out = piecesOf d := by
  refine go_inv (fun d out => out = piecesOf d) ?_ wf [] [] d out rfl h
  intro d out c p h0 _ _
  simp [piecesOf, h0]

/-- A non-aggregating component with count `N ≥ 1` yields exactly `N` copies; copy `i` carries the suffix
`i`, `replica = i`, `replicate = N`, stays in its stage and has one reference per original reference. -/
theorem piece_region (d : Done) (c : Comp) (n : Nat) (hagg : c.agg = false) (hn : 0 < n) :
    piece d c (some n) = (List.range n).map (mkCopy d c n) ∧
    (piece d c (some n)).length = n ∧
    ∀ i, i < n → ∃ o, (piece d c (some n))[i]? = some o ∧ o.stage = c.stage ∧
      o.name = c.name ++ natToDigits i ∧ o.replica = some i ∧ o.repl = some n ∧ o.agg = false ∧
      o.refs = c.refs.map (rwRef d i) := by
  have h1 : piece d c (some n) = (List.range n).map (mkCopy d c n) := by
    simp [piece, hagg, hn]
  refine ⟨h1, by simp [h1], ?_⟩
  intro i hi
  refine ⟨mkCopy d c n i, ?_, rfl, rfl, rfl, rfl, hagg, rfl⟩
  rw [h1]
  simp [hi]

/-- Everything outside the replicated region that does not aggregate is emitted once, unchanged. -/
theorem piece_outside (d : Done) (c : Comp) (p : Option Nat) (hagg : c.agg = false) (hp : p = none ∨ p = some 0) :
    piece d c p = [c] := by
  rcases hp with rfl | rfl <;> simp [piece, hagg]

/-- An aggregator stays single, keeps its name, stage and attributes; only its references are expanded. -/
theorem piece_agg (d : Done) (c : Comp) (p : Option Nat) (hagg : c.agg = true) :
    ∃ o, piece d c p = [o] ∧ o.name = c.name ∧ o.stage = c.stage ∧ o.replica = c.replica ∧ o.repl = c.repl ∧
      o.agg = true ∧ o.refs = c.refs.flatMap (aggRef d (p.getD 0)) := by
  exact ⟨{ c with refs := c.refs.flatMap (aggRef d (p.getD 0)) }, by simp [piece, hagg], rfl, rfl, rfl, rfl, hagg, rfl⟩

/-- In an aggregator a reference to a replicated producer becomes the references to its copies `0..N-1`
in index order, every other reference stays. -/
theorem aggregator_wiring (d : Done) (n : Nat) (r : Ref) :
    (replicated d r = true → aggRef d n r = (List.range n).map fun i => copyRef i r) ∧
    (replicated d r = false → aggRef d n r = [r]) := by
  constructor <;> intro h <;> simp [aggRef, h]

/-! ## wiring and closure -/

private theorem findDone_mem {d : Done} {st : Nat} {nm : S} {e : Comp × Option Nat}
    (h : findDone d st nm = some e) : e ∈ d ∧ e.1.stage = st ∧ e.1.name = nm := by
  unfold findDone at h
  have h1 := List.mem_of_find?_eq_some h
  have h2 := List.find?_some h
  simp only [Bool.and_eq_true, beq_iff_eq] at h2
  exact ⟨h1, h2.1, h2.2⟩

/-- what the pass guarantees about a processed component `e = (c, p)`: its copies / its single
instance are in the output -/
def Emitted (out : List Comp) (e : Comp × Option Nat) : Prop :=
  (e.1.agg = false → ∀ n, e.2 = some n → 0 < n → ∀ i, i < n →
      ∃ o ∈ out, o.stage = e.1.stage ∧ o.name = e.1.name ++ natToDigits i ∧ o.replica = some i) ∧
  ((e.1.agg = true ∨ e.2 = none ∨ e.2 = some 0) →
      ∃ o ∈ out, o.stage = e.1.stage ∧ o.name = e.1.name ∧ o.replica = e.1.replica)

private theorem emitted_mono {out out2 : List Comp} {e : Comp × Option Nat} (h : Emitted out e) :
    Emitted (out ++ out2) e := by
  obtain ⟨h1, h2⟩ := h
  constructor
  · intro ha n hn hpos i hi
    obtain ⟨o, ho, hh⟩ := h1 ha n hn hpos i hi
    exact ⟨o, List.mem_append_left _ ho, hh⟩
  · intro hc
    obtain ⟨o, ho, hh⟩ := h2 hc
    exact ⟨o, List.mem_append_left _ ho, hh⟩

private theorem emitted_self (d : Done) (out : List Comp) (c : Comp) (p : Option Nat) :
    Emitted (out ++ piece d c p) (c, p) := by
  constructor
  · intro ha n hn hpos i hi
    simp only at ha hn
    subst hn
    refine ⟨mkCopy d c n i, ?_, rfl, rfl, rfl⟩
    apply List.mem_append_right
    simp only [piece, ha, Bool.false_eq_true, if_false, Option.getD_some, hpos, if_true]
    exact List.mem_map.mpr ⟨i, List.mem_range.mpr hi, rfl⟩
  · intro hc
    simp only at hc
    by_cases ha : c.agg = true
    · refine ⟨{ c with refs := c.refs.flatMap (aggRef d (p.getD 0)) }, ?_, rfl, rfl, rfl⟩
      apply List.mem_append_right
      simp [piece, ha]
    · have ha' : c.agg = false := by simpa using ha
      have hp0 : ¬ (0 < p.getD 0) := by
        rcases hc with h | h | h
        · exact absurd h ha
        · simp [h]
        · simp [h]
      refine ⟨c, ?_, rfl, rfl, rfl⟩
      apply List.mem_append_right
      simp [piece, ha', hp0]

private theorem replicated_spec {d : Done} {r : Ref} (h : replicated d r = true) :
    ∃ q n, findDone d r.stage r.name = some (q, some n) ∧ q.agg = false ∧ 0 < n ∧ inherit d r = some n ∧
      r.isComp = true := by
  unfold replicated at h
  simp only [Bool.and_eq_true] at h
  obtain ⟨hc, hm⟩ := h
  split at hm
  · rename_i q n hf
    simp only [Bool.and_eq_true, Bool.not_eq_true', decide_eq_true_eq] at hm
    refine ⟨q, n, hf, hm.1, hm.2, ?_, hc⟩
    simp [inherit, hc, hf, hm.1]
  · cases hm

private theorem not_replicated_spec {d : Done} {r : Ref} (h : replicated d r = false) (hc : r.isComp = true)
    {e : Comp × Option Nat} (hf : findDone d r.stage r.name = some e) :
    e.1.agg = true ∨ e.2 = none ∨ e.2 = some 0 := by
  obtain ⟨q, p⟩ := e
  unfold replicated at h
  simp only [hc, Bool.true_and, hf] at h
  cases p with
  | none => exact Or.inr (Or.inl rfl)
  | some n =>
    simp only [Bool.and_eq_false_iff, Bool.not_eq_false', decide_eq_false_iff_not] at h
    rcases h with h | h
    · exact Or.inl h
    · right; right
      have : n = 0 := by omega
      simp [this]

private theorem closedAt_spec {d : Done} {c : Comp} (h : closedAt d c = true) {r : Ref} (hr : r ∈ c.refs)
    (hc : r.isComp = true) : ∃ e, findDone d r.stage r.name = some e := by
  unfold closedAt at h
  have := (List.all_eq_true.mp h) r hr
  simp only [hc, Bool.not_true, Bool.false_or] at this
  exact Option.isSome_iff_exists.mp this

/-- `e` is outside the replicated region (it aggregates, or has no / a zero count) -/
def Outside (e : Comp × Option Nat) : Prop := e.1.agg = true ∨ e.2 = none ∨ e.2 = some 0

/-- reference `r'` of the emitted component `o` names an emitted component `o'`; when `o` does not
aggregate, `o'` is either a copy with the **same replica index** as `o`, or the single instance of a
component outside the replicated region -/
def Target (d : Done) (out : List Comp) (o : Comp) (r' : Ref) : Prop :=
  ∃ o' ∈ out, o'.stage = r'.stage ∧ o'.name = r'.name ∧
    (o.agg = false → (o'.replica = o.replica ∧ o.replica ≠ none) ∨
      ∃ e ∈ d, Outside e ∧ o'.stage = e.1.stage ∧ o'.name = e.1.name)

/-- main invariant of the pass -/
def Inv (d : Done) (out : List Comp) : Prop :=
  (∀ e ∈ d, Emitted out e) ∧ (∀ o ∈ out, ∀ r' ∈ o.refs, r'.isComp = true → Target d out o r')

private theorem target_mono {d : Done} {out out2 : List Comp} {o : Comp} {r' : Ref} (e0 : Comp × Option Nat)
    (h : Target d out o r') : Target (e0 :: d) (out ++ out2) o r' := by
  obtain ⟨o', ho', h1, h2, h3⟩ := h
  refine ⟨o', List.mem_append_left _ ho', h1, h2, ?_⟩
  intro ha
  rcases h3 ha with h | ⟨e, he, hh⟩
  · exact Or.inl h
  · exact Or.inr ⟨e, List.mem_cons_of_mem _ he, hh⟩

/-- the copies of a replicated producer that a consumer with count `p` needs are there -/
private theorem wire_replicated {d : Done} {out : List Comp} (hE : ∀ e ∈ d, Emitted out e)
    {c : Comp} {p : Option Nat} (hp : decide1 (vals d c) = some p)
    {r : Ref} (hr : r ∈ c.refs) (hrep : replicated d r = true) :
    0 < p.getD 0 ∧ ∀ i, i < p.getD 0 →
      ∃ o' ∈ out, o'.stage = r.stage ∧ o'.name = r.name ++ natToDigits i ∧ o'.replica = some i := by
  obtain ⟨q, n, hf, hqa, hn, hinh, _⟩ := replicated_spec hrep
  have hpn : p = some n := count_of_consumer hp hr hinh
  subst hpn
  refine ⟨by simpa using hn, ?_⟩
  intro i hi
  obtain ⟨hm, hs, hnm⟩ := findDone_mem hf
  obtain ⟨o, ho, h1, h2, h3⟩ := (hE _ hm).1 hqa n rfl hn i (by simpa using hi)
  simp only at hs hnm h1 h2
  exact ⟨o, ho, h1.trans hs, by rw [h2, hnm], h3⟩

/-- the single instance of a producer outside the region is there -/
private theorem wire_plain {d : Done} {out : List Comp} (hE : ∀ e ∈ d, Emitted out e)
    {c : Comp} (hcl : closedAt d c = true) {r : Ref} (hr : r ∈ c.refs) (hrep : replicated d r = false)
    (hc : r.isComp = true) :
    ∃ o' ∈ out, o'.stage = r.stage ∧ o'.name = r.name ∧
      ∃ e ∈ d, Outside e ∧ o'.stage = e.1.stage ∧ o'.name = e.1.name := by
  obtain ⟨e, hf⟩ := closedAt_spec hcl hr hc
  obtain ⟨hm, hs, hnm⟩ := findDone_mem hf
  have hout := not_replicated_spec hrep hc hf
  obtain ⟨o, ho, h1, h2, _⟩ := (hE _ hm).2 hout
  exact ⟨o, ho, h1.trans hs, h2.trans hnm, e, hm, hout, h1, h2⟩

private theorem inv_step (d : Done) (out : List Comp) (c : Comp) (p : Option Nat) (h0 : Inv d out)
    (hcl : closedAt d c = true) (hp : decide1 (vals d c) = some p) :
    Inv ((c, p) :: d) (out ++ piece d c p) := by
  obtain ⟨hE, hT⟩ := h0
  refine ⟨?_, ?_⟩
  · intro e he
    rcases List.mem_cons.mp he with rfl | he
    · exact emitted_self d out c p
    · exact emitted_mono (hE e he)
  · intro o ho r' hr' hc'
    rcases List.mem_append.mp ho with ho | ho
    · exact target_mono _ (hT o ho r' hr' hc')
    · -- a freshly emitted component
      have lift : ∀ {o' : Comp}, o' ∈ out → o' ∈ out ++ piece d c p := fun h => List.mem_append_left _ h
      by_cases ha : c.agg = true
      · -- aggregator
        simp only [piece, ha, if_true, List.mem_singleton] at ho
        subst ho
        simp only [List.mem_flatMap] at hr'
        obtain ⟨r, hr, hra⟩ := hr'
        by_cases hrep : replicated d r = true
        · simp only [aggRef, hrep, if_true, List.mem_map, List.mem_range] at hra
          obtain ⟨i, hi, rfl⟩ := hra
          obtain ⟨_, hw⟩ := wire_replicated hE hp hr hrep
          obtain ⟨o', ho', h1, h2, _⟩ := hw i hi
          exact ⟨o', lift ho', h1, h2, fun hf => by simp at hf⟩
        · have hrep' : replicated d r = false := by simpa using hrep
          simp only [aggRef, hrep', Bool.false_eq_true, if_false, List.mem_singleton] at hra
          subst hra
          obtain ⟨o', ho', h1, h2, _⟩ := wire_plain hE hcl hr hrep' hc'
          exact ⟨o', lift ho', h1, h2, fun hf => by simp at hf⟩
      · have ha' : c.agg = false := by simpa using ha
        by_cases hn : 0 < p.getD 0
        · -- a copy
          simp only [piece, ha', Bool.false_eq_true, if_false, hn, if_true, List.mem_map, List.mem_range] at ho
          obtain ⟨i, hi, rfl⟩ := ho
          simp only [mkCopy, List.mem_map] at hr'
          obtain ⟨r, hr, rfl⟩ := hr'
          by_cases hrep : replicated d r = true
          · simp only [rwRef, hrep, if_true] at hc' ⊢
            obtain ⟨_, hw⟩ := wire_replicated hE hp hr hrep
            obtain ⟨o', ho', h1, h2, h3⟩ := hw i hi
            exact ⟨o', lift ho', h1, h2, fun _ => Or.inl ⟨h3, by simp [mkCopy]⟩⟩
          · have hrep' : replicated d r = false := by simpa using hrep
            simp only [rwRef, hrep', Bool.false_eq_true, if_false] at hc' ⊢
            obtain ⟨o', ho', h1, h2, e, he, hh⟩ := wire_plain hE hcl hr hrep' hc'
            exact ⟨o', lift ho', h1, h2, fun _ => Or.inr ⟨e, List.mem_cons_of_mem _ he, hh⟩⟩
        · -- unchanged
          simp only [piece, ha', Bool.false_eq_true, if_false, hn, List.mem_singleton] at ho
          subst ho
          have hrep' : replicated d r' = false := by
            cases hrep : replicated d r' with
            | false => rfl
            | true => exact absurd (wire_replicated hE hp hr' hrep).1 hn
          obtain ⟨o', ho', h1, h2, e, he, hh⟩ := wire_plain hE hcl hr' hrep' hc'
          exact ⟨o', lift ho', h1, h2, fun _ => Or.inr ⟨e, List.mem_cons_of_mem _ he, hh⟩⟩

/-- **Counts / copies exist.**  After expanding `wf`: every non-aggregating component with count `N ≥ 1`
has its `N` copies in the result (copy `i` named with suffix `i` and knowing `replica = i`), every other
component has its single instance in the result. -/
theorem expand_emits (wf : List Comp) (d : Done) (out : List Comp) (h : go [] [] wf = .ok (d, out)) :
    ∀ e ∈ d, Emitted out e :=
  (go_inv Inv inv_step wf [] [] d out ⟨by simp, by simp⟩ h).1

/-- **Wiring + closure.**  Every component reference of every component of the result names a component
of the result; for a non-aggregating consumer that component is a copy with the consumer's own replica
index (copy `i` consumes copy `i`) or the single instance of a component outside the replicated region. -/
theorem expand_wiring (wf : List Comp) (d : Done) (out : List Comp) (h : go [] [] wf = .ok (d, out)) :
    ∀ o ∈ out, ∀ r' ∈ o.refs, r'.isComp = true → Target d out o r' :=
  (go_inv Inv inv_step wf [] [] d out ⟨by simp, by simp⟩ h).2

/-- **Closure**, stated on `expand`: every reference in the result names a component that exists. -/
theorem expand_closed (wf out : List Comp) (h : expand wf = .ok out) :
    ∀ o ∈ out, ∀ r' ∈ o.refs, r'.isComp = true → ∃ o' ∈ out, idOf o' = (r'.stage, r'.name) := by
  unfold expand at h
  split at h
  · cases h
  · rename_i d out0 hg
    split at h
    · simp only [Except.ok.injEq] at h
      subst h
      intro o ho r' hr' hc
      obtain ⟨o', ho', h1, h2, _⟩ := expand_wiring wf d out0 hg o ho r' hr' hc
      exact ⟨o', ho', by simp [idOf, h1, h2]⟩
    · cases h

/-- the edges the loader derives are exactly the (producer, consumer) pairs of the references: no
reference is dropped because its producer is missing -/
theorem edges_complete (wf out : List Comp) (h : expand wf = .ok out) :
    ∀ o ∈ out, ∀ r' ∈ o.refs, r'.isComp = true → ((r'.stage, r'.name), idOf o) ∈ edges out := by
  intro o ho r' hr' hc
  obtain ⟨o', ho', hid⟩ := expand_closed wf out h o ho r' hr' hc
  unfold edges
  refine List.mem_flatMap.mpr ⟨o, ho, List.mem_map.mpr ⟨r', ?_, rfl⟩⟩
  refine List.mem_filter.mpr ⟨hr', ?_⟩
  simp only [hc, Bool.true_and, List.any_eq_true, beq_iff_eq]
  exact ⟨o', ho', hid⟩

/-! ## non-vacuity -/


def rA : Ref := { isComp := true, stage := 0, long := false, name := "A".toList, file := none, method := "ref".toList }
def rBA : Ref := { rA with name := "BA".toList }
def rC : Ref := { rA with name := "C".toList, long := true }
/-- `A` (2 replicas), `BA`, consumer `C` of both, aggregator `D` of `C`, plain consumer `E` of `D` -/
def wfEx : List Comp :=
  [ { stage := 0, name := "A".toList, refs := [], repl := some 2, agg := false },
    { stage := 0, name := "BA".toList, refs := [], repl := none, agg := false },
    { stage := 0, name := "C".toList, refs := [rA, rBA], repl := none, agg := false },
    { stage := 1, name := "D".toList, refs := [rC], repl := none, agg := true },
    { stage := 1, name := "E".toList, refs := [{ rA with stage := 1, name := "D".toList }], repl := none, agg := false } ]

example : (expand wfEx).toOption.map (·.map fun o => (String.ofList o.name, o.replica, o.refs.map fun r => String.ofList (render r))) =
    some [("A0", some 0, []), ("A1", some 1, []), ("BA", none, []),
          ("C0", some 0, ["stage0.A0:ref", "BA:ref"]), ("C1", some 1, ["stage0.A1:ref", "BA:ref"]),
          ("D", none, ["stage0.C0:ref", "stage0.C1:ref"]), ("E", none, ["D:ref"])] := by decide

/-- inconsistent counts are rejected -/
example : (match expand [ { stage := 0, name := "A".toList, refs := [], repl := some 2, agg := false },
                          { stage := 0, name := "C".toList, refs := [rA], repl := some 3, agg := false } ] with
    | .error .inconsistent => true
    | _ => false) = true := by decide

/-! ## replica counts and aggregate flags given through variables -/

theorem lookup_override (old new : Vars) (k : S) :
    lookup (override old new) k = (lookup new k).or (lookup old k) := by
  unfold override
  induction new with
  | nil => simp [lookup]
  | cons e new ih =>
    obtain ⟨k', v⟩ := e
    simp only [List.cons_append, lookup]
    split <;> simp [ih]

/-- **Layering** (the scope chain of C04): a name visible to a component has the value the component
gives it itself, else the value of its stage, else the global value. -/
theorem visible_lookup (g s own : Vars) (k : S) :
    lookup (visible g s own) k = (lookup own k).or ((lookup s k).or (lookup g k)) := by
  simp [visible, lookup_override]

/-- the value of `name` in the scope chain of `r` -/
def chain (g : Vars) (st : Nat → Vars) (r : Raw) (name : S) : Option S :=
  (lookup r.vars name).or ((lookup (st r.stage) name).or (lookup g name))

/-- **The count a component requests through a variable is the value of that variable in its own scope
chain**: `replicate: %(v)s` resolves to `int` of the first of (own variables, stage variables, global
variables) that defines `v`. -/
theorem count_own_chain (g : Vars) (st : Nat → Vars) (r : Raw) (c : Comp) (v : S)
    (h : resolveComp g st r = .ok c) (hv : r.replicate = .var v) :
    ∃ t n, chain g st r v = some t ∧ digitsToNat? t = some n ∧ c.repl = some n := by
  unfold resolveComp resolveIn countIn fillIn at h
  rw [hv] at h
  simp only [visible_lookup] at h
  unfold chain
  cases hl : (lookup r.vars v).or ((lookup (st r.stage) v).or (lookup g v)) with
  | none => simp [hl] at h
  | some t =>
    simp only [hl] at h
    cases hd : digitsToNat? t with
    | none => simp [hd] at h
    | some n =>
      simp only [hd] at h
      refine ⟨t, n, rfl, hd, ?_⟩
      split at h
      · cases h
      · rename_i n' a heq
        split at heq
        · cases heq
        · simp only [Except.ok.injEq, Prod.mk.injEq] at heq
          simp only [Except.ok.injEq] at h
          subst h
          exact heq.1.symm

/-- the same for `aggregate: %(v)s` -/
theorem aggregate_own_chain (g : Vars) (st : Nat → Vars) (r : Raw) (c : Comp) (v : S)
    (h : resolveComp g st r = .ok c) (hv : r.aggregate = .var v) :
    ∃ t, chain g st r v = some t ∧ toBool t = some c.agg := by
  unfold resolveComp resolveIn at h
  split at h
  · cases h
  · rename_i n a heq
    split at heq
    · cases heq
    · rename_i n' hn
      split at heq
      · cases heq
      · rename_i a' ha
        simp only [Except.ok.injEq, Prod.mk.injEq] at heq
        simp only [Except.ok.injEq] at h
        subst h
        obtain ⟨-, rfl⟩ := heq
        unfold aggIn fillIn at ha
        rw [hv] at ha
        simp only [visible_lookup] at ha
        unfold chain
        cases hl : (lookup r.vars v).or ((lookup (st r.stage) v).or (lookup g v)) with
        | none => simp [hl] at ha
        | some t =>
          simp only [hl] at ha
          refine ⟨t, rfl, ?_⟩
          cases hb : toBool t with
          | none => simp [hb] at ha
          | some b => simp only [hb, Except.ok.injEq] at ha; simp [ha]

/-- The resolution of a component reads the variables of no other stage. -/
theorem resolveComp_scope_only (g : Vars) (st st' : Nat → Vars) (r : Raw) (h : st r.stage = st' r.stage) :
    resolveComp g st r = resolveComp g st' r := by
  unfold resolveComp
  rw [h]

private theorem resolveAll_cons {g : Vars} {st : Nat → Vars} {r : Raw} {rs : List Raw} {out : List Comp} :
    resolveAll g st (r :: rs) = .ok out ↔
      ∃ c cs, resolveComp g st r = .ok c ∧ resolveAll g st rs = .ok cs ∧ out = c :: cs := by
  simp only [resolveAll]
  constructor
  · intro h
    split at h
    · cases h
    · rename_i c hc
      split at h
      · cases h
      · rename_i cs hcs
        simp only [Except.ok.injEq] at h
        exact ⟨c, cs, hc, hcs, h.symm⟩
  · rintro ⟨c, cs, hc, hcs, rfl⟩
    simp [hc, hcs]

private theorem resolveAll_append {g : Vars} {st : Nat → Vars} (pre post : List Raw) (out : List Comp) :
    resolveAll g st (pre ++ post) = .ok out ↔
      ∃ o1 o2, resolveAll g st pre = .ok o1 ∧ resolveAll g st post = .ok o2 ∧ out = o1 ++ o2 ∧
        o1.length = pre.length := by
  induction pre generalizing out with
  | nil =>
    constructor
    · intro h; exact ⟨[], out, rfl, h, rfl, rfl⟩
    · rintro ⟨o1, o2, h1, h2, rfl, hl⟩
      simp only [resolveAll, Except.ok.injEq] at h1
      subst h1
      simpa using h2
  | cons r pre ih =>
    simp only [List.cons_append]
    rw [resolveAll_cons]
    constructor
    · rintro ⟨c, cs, hc, hcs, rfl⟩
      obtain ⟨o1, o2, h1, h2, rfl, hl⟩ := (ih cs).mp hcs
      exact ⟨c :: o1, o2, resolveAll_cons.mpr ⟨c, o1, hc, h1, rfl⟩, h2, rfl, by simp [hl]⟩
    · rintro ⟨o1, o2, h1, h2, rfl, hl⟩
      obtain ⟨c, cs, hc, hcs, rfl⟩ := resolveAll_cons.mp h1
      refine ⟨c, cs ++ o2, hc, (ih _).mpr ⟨cs, o2, hcs, h2, rfl, by simpa using hl⟩, rfl⟩

/-- **The count (and the aggregate flag) a component ends up with does not depend on its siblings.**
Whatever components are processed before and after `r` — with whatever variables of their own — and in
whatever position `r` is processed, the resolution loop records for `r` the value `resolveComp g st r`,
which is a function of the global scope, the scope of `r`'s stage and `r`'s own variables only
(`resolveIn`). -/
theorem count_independent_of_siblings (g : Vars) (st : Nat → Vars) (r : Raw)
    (pre post pre' post' : List Raw) (out out' : List Comp)
    (h : resolveAll g st (pre ++ r :: post) = .ok out)
    (h' : resolveAll g st (pre' ++ r :: post') = .ok out') :
    ∃ c, resolveComp g st r = .ok c ∧ out[pre.length]? = some c ∧ out'[pre'.length]? = some c := by
  obtain ⟨o1, o2, _, h2, rfl, hl⟩ := (resolveAll_append pre (r :: post) out).mp h
  obtain ⟨o1', o2', _, h2', rfl, hl'⟩ := (resolveAll_append pre' (r :: post') out').mp h'
  obtain ⟨c, cs, hc, _, rfl⟩ := resolveAll_cons.mp h2
  obtain ⟨c', cs', hc', _, rfl⟩ := resolveAll_cons.mp h2'
  have : c' = c := by
    rw [hc] at hc'
    simpa using hc'.symm
  subst this
  refine ⟨c', hc, ?_, ?_⟩
  · rw [← hl]; simp
  · rw [← hl']; simp

/-- **Every processing order gives the same resolved components**: permuting the components handed to the
resolution loop permutes its result accordingly. -/
theorem resolveAll_perm (g : Vars) (st : Nat → Vars) {wf wf' : List Raw} (hp : wf.Perm wf') :
    ∀ out, resolveAll g st wf = .ok out → ∃ out', resolveAll g st wf' = .ok out' ∧ out.Perm out' := by
  induction hp with
  | nil => intro out h; exact ⟨out, h, List.Perm.refl _⟩
  | cons x _ ih =>
    intro out h
    obtain ⟨c, cs, hc, hcs, rfl⟩ := resolveAll_cons.mp h
    obtain ⟨cs', h', hp'⟩ := ih cs hcs
    exact ⟨c :: cs', resolveAll_cons.mpr ⟨c, cs', hc, h', rfl⟩, hp'.cons c⟩
  | swap x y l =>
    intro out h
    obtain ⟨c, cs, hc, hcs, rfl⟩ := resolveAll_cons.mp h
    obtain ⟨c2, cs2, hc2, hcs2, rfl⟩ := resolveAll_cons.mp hcs
    exact ⟨c2 :: c :: cs2, resolveAll_cons.mpr ⟨c2, _, hc2, resolveAll_cons.mpr ⟨c, cs2, hc, hcs2, rfl⟩, rfl⟩,
      List.Perm.swap c2 c cs2⟩
  | trans _ _ ih1 ih2 =>
    intro out h
    obtain ⟨o1, h1, p1⟩ := ih1 out h
    obtain ⟨o2, h2, p2⟩ := ih2 o1 h1
    exact ⟨o2, h2, p1.trans p2⟩

/-- `apply_replicate` on a raw document is the expansion (`expand`, all theorems above) of the components
with their attributes resolved as `count_own_chain` / `aggregate_own_chain` say. -/
theorem expandRaw_ok (g : Vars) (st : Nat → Vars) (wf : List Raw) (out : List Comp)
    (h : expandRaw g st wf = .ok out) : ∃ cs, resolveAll g st wf = .ok cs ∧ expand cs = .ok out := by
  unfold expandRaw at h
  split at h
  · cases h
  · rename_i cs hcs
    split at h
    · cases h
    · rename_i o ho
      simp only [Except.ok.injEq] at h
      subst h
      exact ⟨cs, hcs, ho⟩

/-- `calibrate` defines `numberPoints: 1` for itself, `simulate` (same stage) asks for `%(numberPoints)s`
replicas and does not define it: the global value (4) -/
def rawCalibrate : Raw :=
  { stage := 0, name := "calibrate".toList, refs := [], vars := [("numberPoints".toList, "1".toList)],
    replicate := .absent, aggregate := .absent }
def rawSimulate : Raw :=
  { stage := 0, name := "simulate".toList, refs := [{ rA with name := "calibrate".toList }], vars := [],
    replicate := .var "numberPoints".toList, aggregate := .absent }
def rawCollect : Raw :=
  { stage := 0, name := "collect".toList, refs := [{ rA with name := "simulate".toList }],
    vars := [("doAgg".toList, "yes".toList)], replicate := .absent, aggregate := .var "doAgg".toList }
def gEx : Vars := [("numberPoints".toList, "4".toList), ("doAgg".toList, "no".toList)]

example : (expandRaw gEx (fun _ => []) [rawCalibrate, rawSimulate, rawCollect]).toOption.map
      (·.map fun o => (String.ofList o.name, o.replica, o.refs.map fun r => String.ofList (render r))) =
    some [("calibrate", none, []), ("simulate0", some 0, ["calibrate:ref"]), ("simulate1", some 1, ["calibrate:ref"]),
          ("simulate2", some 2, ["calibrate:ref"]), ("simulate3", some 3, ["calibrate:ref"]),
          ("collect", none, ["stage0.simulate0:ref", "stage0.simulate1:ref", "stage0.simulate2:ref",
                             "stage0.simulate3:ref"])] := by decide

/-- the stage scope overrides the global one, the component's own scope overrides both -/
example : (resolveAll gEx (stageVars [(0, [("numberPoints".toList, "2".toList)])])
      [rawSimulate, { rawSimulate with vars := [("numberPoints".toList, "3".toList)] }, { rawSimulate with stage := 1 }]
    ).toOption.map (·.map (·.repl)) = some [some 2, some 3, some 4] := by decide

/-- a variable that only a sibling defines is not visible -/
example : (match resolveAll [] (fun _ => []) [rawCalibrate, rawSimulate] with
    | .error .unresolved => true
    | _ => false) = true := by decide

/-! ## text level -/

/-- **Refinement text level → graph level for the `references` entries of a copy (`_partial`).**
For the repaired code: rewriting the rendered reference `r` of component `c` for copy `i` by the regular
expression substitution gives the rendering of the graph-level rewriting `rwRef`, provided the two
decidable side conditions hold:
* (`r` replicated) the first alternative that matches the whole string `render r` is `render r` itself,
  with the rendering of copy `i` as its target;
* (`r` not replicated) no spelling of a replicated reference of `c` matches, with its token boundaries,
  anywhere in `render r`.
What is missing for the full statement: deriving these two conditions from the shape of names alone
(non-empty names over `[A-Za-z0-9_-]`, no `:` in paths and methods, short spellings only for the owner's
stage).  They are evaluated by `decide` in the examples of `Props/C03.lean` and `Witness/C03.lean` shows
that the unrepaired algorithm violates the conclusion; the correspondence run compares the conclusion
itself on every generated workflow. -/
theorem text_refines_graph_partial (d : Done) (c : Comp) (i : Nat) (r : Ref) (hne : render r ≠ []) :
    (replicated d r = true →
      firstMatch (translation d c i) (render r) = some (render r, render (copyRef i r)) →
      replicaText d c i (render r) = render (rwRef d i r)) ∧
    (replicated d r = false →
      noMatch (translation d c i) none (render r) = true →
      replicaText d c i (render r) = render (rwRef d i r)) := by
  constructor
  · intro hrep hm
    have hk : (translation d c i).isEmpty = false := by
      cases hK : translation d c i with
      | nil => simp [hK, firstMatch] at hm
      | cons _ _ => rfl
    simp only [replicaText, hk, Bool.false_eq_true, if_false, rwRef, hrep, if_true]
    exact scan_whole _ _ _ hne hm
  · intro hrep hm
    simp only [replicaText, rwRef, hrep, Bool.false_eq_true, if_false]
    split
    · rfl
    · exact scan_noMatch _ _ _ hm

/-- a component without replicated references keeps every string -/
theorem replicaText_id_of_no_replicated (d : Done) (c : Comp) (i : Nat) (s : S)
    (h : c.refs.filter (replicated d) = []) : replicaText d c i s = s := by
  simp [replicaText, translation, h, sortKeys]


/-- the processed components `A` (2 replicas), `BA` seen by the consumer `C` of `wfEx` -/
def dEx : Done :=
  [({ stage := 0, name := "BA".toList, refs := [], repl := none, agg := false }, none),
   ({ stage := 0, name := "A".toList, refs := [], repl := some 2, agg := false }, some 2)]
def cEx : Comp := { stage := 0, name := "C".toList, refs := [rA, rBA], repl := none, agg := false }

/-- both side conditions of `text_refines_graph_partial` hold on the input that breaks the unrepaired code
(`A:ref` replicated, `BA:ref` not) … -/
example : replicated dEx rA = true ∧ replicated dEx rBA = false ∧
    firstMatch (translation dEx cEx 1) (render rA) = some (render rA, render (copyRef 1 rA)) ∧
    noMatch (translation dEx cEx 1) none (render rBA) = true := by decide

/-- … and the rewritten strings are the expected ones -/
example : (String.ofList (replicaText dEx cEx 1 (render rA)), String.ofList (replicaText dEx cEx 1 (render rBA)),
           String.ofList (replicaText dEx cEx 1 "-f A:ref/x.txt --in=BA:ref data/A:ref stage0.A:ref".toList)) =
    ("stage0.A1:ref", "BA:ref", "-f stage0.A1:ref/x.txt --in=BA:ref data/A:ref stage0.A1:ref") := by decide

/-- the aggregator's strings: copies in index order, paths repeated, foreign tokens untouched -/
example : String.ofList (aggText dEx { cEx with agg := true } 2 "A:ref/x.txt BA:ref data/A:ref".toList) =
    "stage0.A0:ref/x.txt stage0.A1:ref/x.txt BA:ref data/A:ref" := by decide

/-! ## the aggregator's text: the file path after an aggregated reference ends where the path ends -/

/-- `(?:/[\w.*+~@-]+)+` read at the head of `path ++ tail`, where `path` is `/seg/seg…` (segments = non-empty runs of
`[\w.*+~@-]`) and `tail` is empty or starts with a character that is neither `[\w.*+~@-]` nor `/`: exactly `path` is
matched, however long `tail` is and whatever it contains. -/
theorem aggregated_path_ends_where_the_path_ends (segs : List S) (hs : goodSegs segs) (tail : S)
    (ht : tail = [] ∨ ∃ c r, tail = c :: r ∧ endsPath c = true) :
    pathLen (pathOf segs ++ tail).length (pathOf segs ++ tail) = (pathOf segs).length :=
  pathLen_stops segs hs tail ht _ (by
    have := pathOf_length_ge segs
    simp only [List.length_append]; omega)

/-- the replacement of one aggregated reference followed by `path` and then by other text: the copies in the given
(index) order, each with exactly `path`; the number of characters consumed after the reference is the length of
`path` — nothing of `tail`. -/
theorem aggregated_path_expansion (reps : List S) (segs : List S) (hs : goodSegs segs) (tail : S)
    (ht : plainTail tail) :
    aggExpand reps (pathOf segs ++ tail) = (join [' '] (reps.map (· ++ pathOf segs)), (pathOf segs).length) :=
  aggExpand_stops reps segs hs tail ht

/-- for every string `k ++ path ++ tail` in which the aggregated reference `k` matches: the result is the copies
with `path`, followed by the result of scanning `tail` on its own (so a `)` `;` `|` `>` glued to the path stays
where the user wrote it, once). -/
theorem aggregated_reference_then_text (keys : List (S × List S)) (prev : Option Char) (k : S) (reps : List S)
    (segs : List S) (tail : S) (hk : k ≠ []) (hl : leftOk prev = true)
    (hm : firstMatchAgg keys (k ++ pathOf segs ++ tail) = some (k, reps))
    (hs : goodSegs segs) (ht : plainTail tail) :
    aggScan keys 0 prev (k ++ pathOf segs ++ tail) =
      join [' '] (reps.map (· ++ pathOf segs)) ++ aggScan keys 0 ((k ++ pathOf segs).getLast?) tail :=
  aggScan_reference_then_text keys prev k reps segs tail hk hl hm hs ht

/-- the hypotheses are satisfiable by a non-trivial input: `$(cat A:ref/out/e.csv); sort` -/
example : goodSegs ["out".toList, "e.csv".toList] ∧ plainTail "); sort".toList ∧
    firstMatchAgg [("A:ref".toList, ["stage0.A0:ref".toList, "stage0.A1:ref".toList])]
      ("A:ref".toList ++ pathOf ["out".toList, "e.csv".toList] ++ "); sort".toList) =
      some ("A:ref".toList, ["stage0.A0:ref".toList, "stage0.A1:ref".toList]) :=
  ⟨by unfold goodSegs; decide, Or.inr ⟨')', "; sort".toList, rfl, by decide, by decide⟩, by decide⟩

/-- … and the whole command line of the aggregator is what the user wrote with the N copies in place -/
example : String.ofList (aggText dEx { cEx with agg := true } 2
      "$(cat A:ref/o/e.csv); ls A:ref| wc >BA:ref/o".toList) =
    "$(cat stage0.A0:ref/o/e.csv stage0.A1:ref/o/e.csv); ls stage0.A0:ref stage0.A1:ref| wc >BA:ref/o" := by
  decide +kernel

/-! ## every copy knows its own replica index -/

theorem copyVars_replica (own : Vars) (i : Nat) :
    lookup (copyVars own i) replicaKey = some (natToDigits i) := by
  simp [copyVars, lookup_override, lookup]

theorem copyVars_other (own : Vars) (i : Nat) (k : S) (hk : k ≠ replicaKey) :
    lookup (copyVars own i) k = lookup own k := by
  have : (replicaKey == k) = false := by
    simp only [beq_eq_false_iff_ne, ne_eq]
    exact fun h => hk h.symm
  simp [copyVars, lookup_override, lookup, this]

/-- **Copy `i` sees `replica = i`**, whatever the component itself (`own`), its stage (`s`) or the global
scope (`g`) define for `replica`: the injected index wins over all of them. -/
theorem copy_knows_its_index (g s own : Vars) (i : Nat) :
    lookup (visible g s (copyVars own i)) replicaKey = some (natToDigits i) := by
  rw [visible_lookup, copyVars_replica]
  rfl

/-- every other variable is resolved for the copy as for the component -/
theorem copy_keeps_other_variables (g s own : Vars) (i : Nat) (k : S) (hk : k ≠ replicaKey) :
    lookup (visible g s (copyVars own i)) k = lookup (visible g s own) k := by
  simp [visible_lookup, copyVars_other own i k hk]

/-- Everything outside the replicated region (aggregators included) keeps its variables. -/
theorem pieceVars_outside (c : Comp) (own : Vars) (p : Option Nat)
    (h : c.agg = true ∨ p = none ∨ p = some 0) : pieceVars c own p = [own] := by
  unfold pieceVars
  rcases h with h | h | h
  · simp [h]
  · subst h; simp
  · subst h; simp

/-- the emitted component `o` with component-level variables `v` stems from component `c` with own
variables `own`: it is copy `i` (suffix `i`, `replica = i`) carrying `own` with `replica := i`, or the single
instance of `c` carrying `own` unchanged -/
def VarsOf (c : Comp) (own : Vars) (o : Comp) (v : Vars) : Prop :=
  o.stage = c.stage ∧
    ((∃ i, o.replica = some i ∧ o.name = c.name ++ natToDigits i ∧ v = copyVars own i) ∨
     (o.replica = c.replica ∧ o.name = c.name ∧ v = own))

private theorem zip_map_map {α β γ : Type} (f : α → β) (g : α → γ) (l : List α) :
    (l.map f).zip (l.map g) = l.map fun x => (f x, g x) := by
  induction l with
  | nil => rfl
  | cons x l ih => simp [ih]

private theorem piece_varsOf (d : Done) (c : Comp) (own : Vars) (p : Option Nat) :
    (pieceVars c own p).length = (piece d c p).length ∧
    ∀ q ∈ (piece d c p).zip (pieceVars c own p), VarsOf c own q.1 q.2 := by
  unfold piece pieceVars
  by_cases ha : c.agg = true
  · simp only [ha, if_true, List.length_singleton, List.zip_cons_cons, List.zip_nil_right, List.mem_singleton,
      true_and]
    rintro q rfl
    exact ⟨rfl, Or.inr ⟨rfl, rfl, rfl⟩⟩
  · have ha' : c.agg = false := by simpa using ha
    by_cases hn : 0 < p.getD 0
    · simp only [ha', Bool.false_eq_true, if_false, hn, if_true, List.length_map, true_and]
      intro q hq
      rw [zip_map_map] at hq
      obtain ⟨i, _, rfl⟩ := List.mem_map.mp hq
      exact ⟨rfl, Or.inl ⟨i, rfl, rfl, rfl⟩⟩
    · simp only [ha', Bool.false_eq_true, if_false, hn, List.length_singleton, List.zip_cons_cons,
        List.zip_nil_right, List.mem_singleton, true_and]
      rintro q rfl
      exact ⟨rfl, Or.inr ⟨rfl, rfl, rfl⟩⟩

/-- **The variables of the expansion.**  The pass that emits the component-level variables (`goVars`)
succeeds whenever the expansion (`go`) does, emits one variable scope per emitted component, and every
emitted component `o` with scope `v` stems (`VarsOf`) from a component of the workflow. -/
theorem expand_vars (cs : List (Comp × Vars)) (d : Done) (out : List Comp)
    (h : go [] [] (cs.map (·.1)) = .ok (d, out)) :
    ∃ vs, goVars [] [] cs = some vs ∧ vs.length = out.length ∧
      ∀ q ∈ out.zip vs, ∃ cv ∈ cs, VarsOf cv.1 cv.2 q.1 q.2 := by
  have key : ∀ (rest : List (Comp × Vars)) (d0 : Done) (out0 : List Comp) (v0 : List Vars)
      (d' : Done) (out' : List Comp), (∀ cv ∈ rest, cv ∈ cs) →
      go d0 out0 (rest.map (·.1)) = .ok (d', out') → v0.length = out0.length →
      (∀ q ∈ out0.zip v0, ∃ cv ∈ cs, VarsOf cv.1 cv.2 q.1 q.2) →
      ∃ vs, goVars d0 v0 rest = some vs ∧ vs.length = out'.length ∧
        ∀ q ∈ out'.zip vs, ∃ cv ∈ cs, VarsOf cv.1 cv.2 q.1 q.2 := by
    intro rest
    induction rest with
    | nil =>
      intro d0 out0 v0 d' out' _ hg hl hq
      simp only [List.map_nil, go, Except.ok.injEq, Prod.mk.injEq] at hg
      obtain ⟨-, rfl⟩ := hg
      exact ⟨v0, rfl, hl, hq⟩
    | cons cv rest ih =>
      intro d0 out0 v0 d' out' hsub hg hl hq
      obtain ⟨c, own⟩ := cv
      simp only [List.map_cons, go] at hg
      split at hg
      · split at hg
        · rename_i p hp
          simp only [goVars, hp]
          obtain ⟨hlen, hpv⟩ := piece_varsOf d0 c own p
          refine ih _ _ _ _ _ (fun x hx => hsub x (List.mem_cons_of_mem _ hx)) hg (by simp [hl, hlen]) ?_
          intro q hq'
          rw [List.zip_append hl.symm] at hq'
          rcases List.mem_append.mp hq' with hq' | hq'
          · exact hq q hq'
          · exact ⟨(c, own), hsub _ (List.mem_cons_self ..), hpv q hq'⟩
        · cases hg
      · cases hg
  exact key cs [] [] [] d out (fun _ h => h) h rfl (by simp)

/-- **Each copy knows its own replica index**, stated on the expansion: for a workflow whose components
are not themselves copies, every emitted copy with index `i` resolves `replica` to `i` — whatever its own
variables, the variables `s` of its stage and the global variables `g` say about `replica` — and every
emitted component that is not a copy carries exactly the variables of the component it stems from. -/
theorem expanded_copy_knows_its_index (cs : List (Comp × Vars)) (d : Done) (out : List Comp)
    (h : go [] [] (cs.map (·.1)) = .ok (d, out)) (hin : ∀ cv ∈ cs, cv.1.replica = none) :
    ∃ vs, goVars [] [] cs = some vs ∧ vs.length = out.length ∧
      ∀ q ∈ out.zip vs,
        (∀ i, q.1.replica = some i → ∀ g s, lookup (visible g s q.2) replicaKey = some (natToDigits i)) ∧
        (q.1.replica = none → ∃ cv ∈ cs, q.1.stage = cv.1.stage ∧ q.1.name = cv.1.name ∧ q.2 = cv.2) := by
  obtain ⟨vs, h1, h2, h3⟩ := expand_vars cs d out h
  refine ⟨vs, h1, h2, ?_⟩
  intro q hq
  obtain ⟨cv, hcv, hst, hor⟩ := h3 q hq
  constructor
  · intro i hi g s
    rcases hor with ⟨j, hj, _, hv⟩ | ⟨hr, _, _⟩
    · rw [hj] at hi
      cases hi
      rw [hv]
      exact copy_knows_its_index g s cv.2 _
    · rw [hr, hin cv hcv] at hi
      cases hi
  · intro hnone
    rcases hor with ⟨j, hj, _, _⟩ | ⟨_, hn, hv⟩
    · rw [hj] at hnone
      cases hnone
    · exact ⟨cv, hcv, hst, hn, hv⟩

/-- `sample` asks for 2 replicas and defines `replica: 7` itself; the stage says `replica: 8`, the global
scope `replica: 9`: copy 0 sees 0, copy 1 sees 1; `n` is kept -/
example : ((goVars [] []
      [({ stage := 0, name := "sample".toList, refs := [], repl := some 2, agg := false },
        [("replica".toList, "7".toList), ("n".toList, "2".toList)])]).getD []).map
      (fun v => ((lookup (visible [("replica".toList, "9".toList)] [("replica".toList, "8".toList)] v) replicaKey).map
                  String.ofList,
                 (lookup v "n".toList).map String.ofList)) =
    [(some "0", some "2"), (some "1", some "2")] := by decide

/-! ## the configuration object: which document is replicated after a history of parametrisations -/

/-- the loaded document is never touched by a parametrisation -/
theorem run_orig (c : Conf) (h : List (UserVars × Bool)) : (run c h).orig = c.orig := by
  unfold run
  induction h generalizing c with
  | nil => rfl
  | cons s h ih =>
    simp only [List.foldl_cons]
    rw [ih]
    rfl

private theorem run_append_one (c : Conf) (h : List (UserVars × Bool)) (s : UserVars × Bool) :
    run c (h ++ [s]) = parametrize (run c h) s.1 s.2 := by
  simp [run, List.foldl_append]

/-- **A re-parametrised configuration is the freshly constructed one**: after ANY history of
parametrisations (with any user variables, primitive or not) on one configuration object, parametrising
with user variables `u` leaves the object with the `_concrete` and `_unreplicated` documents that
constructing a new configuration of the loaded document with `u` gives. -/
theorem reparametrised_equals_fresh (d : Doc) (u0 : UserVars) (p0 : Bool) (h : List (UserVars × Bool))
    (u : UserVars) (p : Bool) :
    (run (construct d u0 p0) (h ++ [(u, p)])).concrete = (construct d u p).concrete ∧
    (run (construct d u0 p0) (h ++ [(u, p)])).unrepl = (construct d u p).unrepl := by
  rw [run_append_one]
  have ho : (run (construct d u0 p0) h).orig = d := by
    rw [run_orig]
    rfl
  constructor
  · simp only [parametrize]
    rw [ho]
    rfl
  · simp only [parametrize]
    rw [ho]
    rfl

/-- **What is replicated is the loaded document patched with the user variables of the current
parametrisation** — not those of an earlier one, not the package defaults. -/
theorem history_irrelevant (d : Doc) (u0 : UserVars) (p0 : Bool) (h : List (UserVars × Bool)) (u : UserVars) :
    (run (construct d u0 p0) (h ++ [(u, false)])).concrete =
      .replicated (expandRaw d.g (patchStage u d.st) d.wf) := by
  rw [(reparametrised_equals_fresh d u0 p0 h u false).1]
  rfl

/-- the scope chain of a component of stage `i` in the patched document: its own variables, then the user
variables for its stage, then the global user variables, then the variables the package gives the stage,
then the global variables of the package -/
theorem user_variable_chain (u : UserVars) (d : Doc) (i : Nat) (own : Vars) (k : S) :
    lookup (visible d.g (patchStage u d.st i) own) k =
      (lookup own k).or ((lookup (stageVars u.stages i) k).or ((lookup u.global k).or
        ((lookup (d.st i) k).or (lookup d.g k)))) := by
  simp only [visible_lookup, patchStage, lookup_override]
  cases lookup own k <;> cases lookup (stageVars u.stages i) k <;> cases lookup u.global k <;>
    cases lookup (d.st i) k <;> rfl

/-- the package says `numberPoints: 4`; the configuration is loaded without user variables (primitive),
parametrised with `numberPoints: 1` and then with `numberPoints: 3`: three copies -/
example : (match (run (construct { g := gEx, st := fun _ => [], wf := [rawCalibrate, rawSimulate] } ⟨[], []⟩ true)
      [(⟨[("numberPoints".toList, "1".toList)], []⟩, false),
       (⟨[("numberPoints".toList, "3".toList)], []⟩, false)]).concrete with
    | .replicated (.ok out) => out.map fun o => String.ofList o.name
    | _ => []) = ["calibrate", "simulate0", "simulate1", "simulate2"] := by decide

/-! ## non-default platforms: platform scopes and the `override.<platform>` block -/

/-- **Scope chain on a platform**: a name visible to a component on platform `p` has the value the component
gives it (its own variables, `override.p.variables` included), else the value of `p`'s section of its stage,
else the one of `p`'s global section, else the one of the default section of its stage, else the default
global one. -/
theorem platform_chain (dg pg ds ps own : Vars) (k : S) :
    lookup (visible (platGlobal dg pg) (platStage ds ps pg) own) k =
      (lookup own k).or ((lookup ps k).or ((lookup pg k).or ((lookup ds k).or (lookup dg k)))) := by
  simp only [visible_lookup, platGlobal, platStage, lookup_override, lookup_filter_undefined]
  cases lookup pg k <;> cases lookup own k <;> cases lookup ps k <;> cases lookup ds k <;> simp

/-- on a platform for which a component has no override block the component is handed over as it is -/
theorem layerRaw_none (r : Raw) : layerRaw r none = r := rfl

/-- the variables `apply_replicate` sees for a component with an override block: the block's over its own -/
theorem layerRaw_vars (r : Raw) (o : Over) (k : S) :
    lookup (layerRaw r (some o)).vars k = (lookup o.vars k).or (lookup r.vars k) := by
  simp [layerRaw, lookup_override]

/-- layering commutes with ANY rewriting of the strings (`replace_strings` walks the component and the block
with the same function) -/
theorem layerT_map (f : S → S) (base over : TBlock) :
    layerT (base.map f) (over.map f) = (layerT base over).map f := by
  cases h1 : over.refs <;> cases h2 : over.args <;> simp [layerT, TBlock.map, override, h1, h2]

/-- **The override layer is rewritten consistently with the component.**  For a component whose effective
fields are its own fields with the block `over` layered on top (what `instance(platform)` produces): every
emitted component comes with exactly one kept block, and reading it back through the platform layer gives
exactly the emitted component fields — copy `i` keeps consuming copy `i`, an aggregator keeps its split list
of all copies, every variable (the injected `replica` included) resolves as in the component itself. -/
theorem override_block_consistent (d : Done) (c : Comp) (base over : TBlock) (p : Option Nat) :
    (pieceBase d c (layerT base over) p).length = (pieceOver d c over p).length ∧
    ∀ x ∈ (pieceBase d c (layerT base over) p).zip (pieceOver d c over p), BlockEq (readBack x) x.1 := by
  unfold pieceBase pieceOver
  by_cases ha : c.agg = true
  · simp only [ha, if_true, List.length_singleton, List.zip_cons_cons, List.zip_nil_right, List.mem_singleton,
      true_and]
    intro x hx
    subst hx
    exact readBack_layer_split _ base over
  · simp only [ha, Bool.false_eq_true, if_false]
    by_cases hn : 0 < p.getD 0
    · simp only [hn, if_true, List.length_map, List.length_range, true_and]
      intro x hx
      rw [List.zip_map', List.mem_map] at hx
      obtain ⟨i, _, rfl⟩ := hx
      exact readBack_layer_replica _ i base over
    · simp only [hn, if_false, List.length_singleton, List.zip_cons_cons, List.zip_nil_right, List.mem_singleton,
        true_and]
      intro x hx
      subst hx
      exact layerT_idem base over

/-- the same over the whole pass: in the replicated FlowIR of a platform every component reads back, through
its kept override block, as its own rewritten fields -/
theorem goBlocks_readback (cs : List (Comp × TBlock × TBlock)) :
    ∀ (d : Done) (out out' : List (TBlock × TBlock)),
      goBlocks d out (cs.map fun x => (x.1, layerT x.2.1 x.2.2, x.2.2)) = some out' →
      (∀ x ∈ out, BlockEq (readBack x) x.1) → ∀ x ∈ out', BlockEq (readBack x) x.1 := by
  induction cs with
  | nil =>
    intro d out out' h h0
    simp only [List.map_nil, goBlocks, Option.some.injEq] at h
    subst h
    exact h0
  | cons e cs ih =>
    intro d out out' h h0
    obtain ⟨c, base, over⟩ := e
    simp only [List.map_cons, goBlocks] at h
    split at h
    · rename_i p _
      refine ih _ _ _ h ?_
      intro x hx
      rcases List.mem_append.mp hx with hx | hx
      · exact h0 x hx
      · exact (override_block_consistent d c base over p).2 x hx
    · cases h

/-- **Copy `i` knows its index on every platform**: whatever `override.<platform>.variables` defines for
`replica`, what is read back for copy `i` is `i`. -/
theorem readback_copy_knows_its_index (g : S → S) (i : Nat) (base over : TBlock) :
    lookup (readBack (setReplica i ((layerT base over).map g), fixReplica i (over.map g))).vars replicaKey =
      some (natToDigits i) := by
  show lookup (layerT (setReplica i ((layerT base over).map g)) (fixReplica i (over.map g))).vars replicaKey = _
  rw [(readBack_layer_replica g i base over).2.2 replicaKey]
  simp [setReplica, copyVars_replica]

/-- the `references` and the command line of `pieceBase` are those of `pieceText` (the text level the
theorems above are about); `pieceBase` adds the rewriting of the variable VALUES -/
theorem pieceBase_text (d : Done) (c : Comp) (args : S) (vs : Vars) (p : Option Nat) :
    (pieceBase d c ⟨some (c.refs.map render), some args, vs⟩ p).map (fun b => (b.refs, b.args)) =
      (pieceText d c args p).map (fun t => (some t.refs, some t.args)) := by
  unfold pieceBase pieceText
  by_cases ha : c.agg = true
  · simp [ha, splitRefs, TBlock.map, List.flatMap_map]
  · by_cases hn : 0 < p.getD 0
    · simp [ha, hn, setReplica, TBlock.map, Function.comp_def]
    · simp [ha, hn]

/-- non-vacuity: on platform `hpc` the consumer restates its references (`A:ref BA:ref` instead of `A:ref`)
and defines `replica: 7` in its override block; copy 1 reads back `stage0.A1:ref`, `BA:ref` and `replica = 1` -/
example :
    let base : TBlock := ⟨some ["A:ref".toList], some "A:ref".toList, []⟩
    let over : TBlock := ⟨some ["A:ref".toList, "BA:ref".toList], none, [(replicaKey, "7".toList)]⟩
    ((pieceBase dEx cEx (layerT base over) (some 2)).zip (pieceOver dEx cEx over (some 2))).map
        (fun x => ((readBack x).refs.map (·.map String.ofList), (readBack x).args.map String.ofList,
                   (lookup (readBack x).vars replicaKey).map String.ofList)) =
      [(some ["stage0.A0:ref", "BA:ref"], some "stage0.A0:ref", some "0"),
       (some ["stage0.A1:ref", "BA:ref"], some "stage0.A1:ref", some "1")] := by decide

example : lookup (visible (platGlobal [("n".toList, "2".toList)] [("n".toList, "3".toList)])
    (platStage [("n".toList, "5".toList)] [] [("n".toList, "3".toList)]) []) "n".toList = some "3".toList := by decide

end St4sd.C03
