import St4sd.Model.FsAtomic
import St4sd.Model.StatusFile
import St4sd.Lemmas.C14Fs
import St4sd.Lemmas.C14Escape
import St4sd.Lemmas.C14Status
import St4sd.Lemmas.C14Conc
import St4sd.Lemmas.C14Sched
import St4sd.Lemmas.C14Typed
import St4sd.Lemmas.C14Listing
/-!
# C14 — Experiment state files are updated atomically and read back faithfully

Part 1 (atomicity): statements over *all* traces, all numbers and sizes of writes, all crash points.
Part 2 (fidelity): the status file encoding round-trips, for every history of updates.
Part 3 (several writers): statements over *all* interleavings of concurrent updates of one file.
Part 4 (typed values): the YAML/JSON state files hold typed values; read-back is exact (structural) equality, for every
history; a write-skipping optimisation is sound iff its comparison is structural (Python's `==` is not).
Part 5 (key-output listing): output.json is derived by reading output.txt back with a dosini reader; every value written
on a `key=value` line is read back exactly by the reader that exists (no inline comment prefixes), and a reader with inline
comment prefixes is faithful exactly on the values without `white space + prefix`.
-/
namespace St4sd.C14
open St4sd.FsAtomic

/-! ## Part 1: atomic update protocol -/

private theorem atomicGo_safe (t : Path) (tr : List Op) :
    ∀ (dirty : List Path) (fs : Fs), atomicGo t dirty tr = true →
      ∀ n, run (tr.take n) fs t = fs t ∨ run (tr.take n) fs t = run tr fs t := by
  induction tr with
  | nil => intro d fs h; simp [atomicGo] at h
  | cons o tr ih =>
    intro dirty fs h n
    cases n with
    | zero => left; rfl
    | succ n =>
      simp only [List.take_succ_cons, run_cons]
      by_cases ht : touches t o = true
      · simp only [atomicGo, ht, if_true] at h
        cases o with
        | rename a b =>
          simp only [Bool.and_eq_true] at h
          right
          rw [run_noTouch _ _ _ (noTouch_take _ _ _ h.2), run_noTouch _ _ _ h.2]
        | create p => simp at h
        | append p b => simp at h
        | close p => simp at h
        | remove p => simp at h
      · have ht' : touches t o = false := by simpa using ht
        simp only [atomicGo, ht'] at h
        rcases ih _ (apply fs o) h n with h1 | h1
        · left; rw [h1, apply_noTouch _ _ _ ht']
        · right; exact h1

/-- **Crash safety of the protocol.**  If the operations of an update follow the protocol
"the only operation naming the target is one final `rename tmp target` of a closed temporary file",
then after *every* prefix of the trace — i.e. whatever the crash point, however many writes of
whatever size the update performs, whatever else it does to other files — the target holds either
its previous content or the content it has after the complete update. -/
theorem atomic_protocol_safe (tr : List Op) (t : Path) (fs : Fs) (h : isAtomicProtocol tr t = true) :
    ∀ n, run (tr.take n) fs t = fs t ∨ run (tr.take n) fs t = run tr fs t :=
  atomicGo_safe t tr [] fs h

private theorem run_appends (tmp : Path) (chunks : List Content) (fs : Fs) (c : Content)
    (h : fs tmp = some c) :
    run (chunks.map (Op.append tmp)) fs = FsAtomic.set fs tmp (some (c ++ flatten chunks)) := by
  induction chunks generalizing fs c with
  | nil =>
    funext q
    by_cases hq : q = tmp
    · subst hq; simp [run, flatten, FsAtomic.set, h]
    · simp [run, FsAtomic.set, hq]
  | cons b bs ih =>
    simp only [List.map_cons, run_cons, apply, h]
    rw [ih (FsAtomic.set fs tmp (some (c ++ b))) (c ++ b) (set_same _ _ _)]
    funext q
    by_cases hq : q = tmp
    · subst hq; simp [FsAtomic.set, flatten, List.append_assoc]
    · simp [FsAtomic.set, hq]

/-- The complete trace of an atomic update leaves exactly the written text in the target. -/
theorem writer_final (tmp t : Path) (chunks : List Content) (fs : Fs) (hne : tmp ≠ t) :
    run (writerTrace tmp t chunks) fs t = some (flatten chunks) := by
  unfold writerTrace
  rw [run_append, run_append]
  have h1 : run [Op.create tmp] fs = FsAtomic.set fs tmp (some []) := rfl
  rw [h1, run_appends tmp chunks _ [] (set_same _ _ _)]
  simp only [run, List.foldl, apply, set_same, List.nil_append]
  have hne' : ¬ t = tmp := fun e => hne e.symm
  simp [hne, hne', FsAtomic.set]

private theorem atomicGo_appends (tmp t : Path) (hne : tmp ≠ t) (chunks : List Content) (dirty : List Path) (rest : List Op) :
    atomicGo t dirty (chunks.map (Op.append tmp) ++ rest) = atomicGo t (chunks.foldl (fun d _ => tmp :: d) dirty) rest := by
  induction chunks generalizing dirty with
  | nil => rfl
  | cons b bs ih =>
    have : touches t (Op.append tmp b) = false := by simp [touches, hne]
    simp only [List.map_cons, List.cons_append, atomicGo, this, List.foldl_cons, updDirty]
    exact ih _

/-- The writer "temporary file in the same directory, close, rename" follows the protocol. -/
theorem writer_trace_is_atomic (tmp t : Path) (chunks : List Content) (hne : tmp ≠ t) :
    isAtomicProtocol (writerTrace tmp t chunks) t = true := by
  unfold isAtomicProtocol writerTrace
  have h1 : touches t (Op.create tmp) = false := by simp [touches, hne]
  have h2 : touches t (Op.close tmp) = false := rfl
  have h3 : touches t (Op.rename tmp t) = true := by simp [touches]
  show atomicGo t [] (Op.create tmp :: (chunks.map (Op.append tmp) ++ [Op.close tmp, Op.rename tmp t])) = true
  simp only [atomicGo, h1, updDirty]
  rw [atomicGo_appends tmp t hne]
  simp only [atomicGo, h2, h3, updDirty, if_true, noTouch, List.all_nil, Bool.and_true]
  simp [hne]

/-- **Atomic update, all crash points.**  For every number and size of writes and every crash point
`n`, the target holds the complete previous version or the complete new version. -/
theorem atomic_update_safe (tmp t : Path) (chunks : List Content) (fs : Fs) (hne : tmp ≠ t) (n : Nat) :
    run ((writerTrace tmp t chunks).take n) fs t = fs t ∨
    run ((writerTrace tmp t chunks).take n) fs t = some (flatten chunks) := by
  rcases atomic_protocol_safe _ t fs (writer_trace_is_atomic tmp t chunks hne) n with h | h
  · exact Or.inl h
  · exact Or.inr (h.trans (writer_final tmp t chunks fs hne))

/-- **I/O error at any operation `i`, handler gives up** (closes the temporary file, no rename — what
`Status.update`, `OutputAgent.updateLogs` and the repaired writers do): at every crash point of the
resulting trace, and at its end, the target is still old or complete new. -/
theorem io_error_giveup_safe (tmp t : Path) (chunks : List Content) (fs : Fs) (hne : tmp ≠ t) (i n : Nat) :
    run ((writerTraceErrGiveUp tmp t chunks i).take n) fs t = fs t ∨
    run ((writerTraceErrGiveUp tmp t chunks i).take n) fs t = some (flatten chunks) := by
  unfold writerTraceErrGiveUp
  rw [List.take_append]
  rw [run_append]
  have hclose : ∀ (k : Nat) (g : Fs), run (List.take k [Op.close tmp]) g = g := by
    intro k g
    cases k with
    | zero => rfl
    | succ k => simp [run, apply]
  rw [hclose, List.take_take]
  exact atomic_update_safe tmp t chunks fs hne _

/-- **The in-place protocol is unsafe** (`open(target,'w')` … `close`): whenever the file had content
and the update writes content, the crash point right after the `open` shows an empty file, which is
neither the previous nor the new version.  (`store_unreplicated_flowir_to_disk` and the manifest writer
before the repair.) -/
theorem truncate_protocol_unsafe (t : Path) (chunks : List Content) (fs : Fs) (old : Content)
    (hold : fs t = some old) (h1 : old ≠ []) (h2 : flatten chunks ≠ []) :
    ∃ n, run ((truncTrace t chunks).take n) fs t ≠ fs t ∧
         run ((truncTrace t chunks).take n) fs t ≠ some (flatten chunks) := by
  refine ⟨1, ?_, ?_⟩
  · simp only [truncTrace, List.cons_append, List.take_succ_cons, List.take_zero, run,
      List.foldl, apply, set_same, hold]
    intro h; injection h with h; exact h1 h.symm
  · simp only [truncTrace, List.cons_append, List.take_succ_cons, List.take_zero, run,
      List.foldl, apply, set_same]
    intro h; injection h with h; exact h2 h.symm

/-- non-vacuity: a concrete atomic update with three writes; the hypotheses are satisfiable and the
conclusion is not trivially one-sided (both disjuncts occur). -/
example : isAtomicProtocol (writerTrace ['x'] ['t'] [['a'], ['b', 'c'], ['d']]) ['t'] = true := by decide
example : run ((writerTrace ['x'] ['t'] [['a'], ['b']]).take 4) (fun q => if q = ['t'] then some ['o'] else none) ['t']
    = some ['o'] := by decide
example : run ((writerTrace ['x'] ['t'] [['a'], ['b']]).take 5) (fun q => if q = ['t'] then some ['o'] else none) ['t']
    = some ['a', 'b'] := by decide
/-- the predicate rejects the in-place writer and a rename of a file that is still open -/
example : isAtomicProtocol (truncTrace ['t'] [['a']]) ['t'] = false := by decide
example : isAtomicProtocol [.create ['x'], .append ['x'] ['a'], .rename ['x'] ['t'], .close ['x']] ['t'] = false := by decide

/-! ## Part 2: the status file is read back faithfully -/
open St4sd.StatusFile

/-- **`unicode_escape` round-trip**: for every list of Unicode scalar values (backslashes, newlines,
control characters, non-ASCII up to U+10FFFF included) un-escaping the escaped text gives the text back. -/
theorem escape_roundtrip (s : List Char) : unescape (escape s) = some s := unescape_escape s

/-- the escaped text is a single line, so it cannot break the `key=value` line structure -/
theorem escape_single_line (s : List Char) : ∀ c ∈ escape s, c ≠ '\n' := escape_noNL s

private theorem decodeLine_clean (p : Pair) (h : pairClean p = true) :
    decodeLine (p.1 ++ '=' :: encodeValue p.1 p.2) = some (some p) ∧
    NoNL (p.1 ++ '=' :: encodeValue p.1 p.2) := by
  obtain ⟨k, v⟩ := p
  simp only [pairClean, Bool.and_eq_true] at h
  obtain ⟨hk, hv⟩ := h
  obtain ⟨hlow, hnoeq, hnonl⟩ := key_facts k hk
  have hsplit := splitFirst_eq k (encodeValue k v) hnoeq
  by_cases he : k = errKey
  · simp only [he, if_true, textClean, beq_iff_eq] at hv
    constructor
    · simp only [decodeLine, hsplit]
      simp only [he, if_true, encodeValue, escape_roundtrip]
      rw [← he, hlow, hv]
    · intro c hc
      simp only [List.mem_append, List.mem_cons] at hc
      rcases hc with hc | hc | hc
      · exact hnonl c hc
      · subst hc; decide
      · simp only [encodeValue, he, if_true] at hc
        exact escape_noNL v c hc
  · simp only [he, if_false, plainClean, Bool.and_eq_true, beq_iff_eq, List.all_eq_true, bne_iff_ne] at hv
    constructor
    · simp only [decodeLine, hsplit]
      simp only [he, if_false, encodeValue]
      rw [hlow, hv.2]
    · intro c hc
      simp only [List.mem_append, List.mem_cons] at hc
      rcases hc with hc | hc | hc
      · exact hnonl c hc
      · subst hc; decide
      · simp only [encodeValue, he, if_false] at hc
        exact (hv.1 c hc).1

/-- **Status file round-trip** (`_partial`: as coded the reader applies `.strip()` to every value, so
the statement needs the decidable hypothesis `dataClean`: keys are lower-case ASCII/digits/`-`; the
free-text value `error-description` may contain *any* characters but no white space at its two ends;
the other values are single-line and have no white space at their ends.  `Witness.C14` shows that the
hypothesis on the ends cannot be dropped.)  Reading the written file returns exactly the data. -/
theorem status_roundtrip_partial (d : Data) (h : dataClean d = true) : decode (encode d) = some d := by
  unfold decode encode
  induction d with
  | nil => simp [escapeData, rawLines, splitLines, decodeLines, decodeLine, St4sd.Str.splitFirst]
  | cons p d ih =>
    simp only [dataClean, List.all_cons, Bool.and_eq_true] at h
    obtain ⟨k, v⟩ := p
    have hl := decodeLine_clean (k, v) h.1
    have ih' := ih (by simpa [dataClean] using h.2)
    have e : rawLines (escapeData ((k, v) :: d)) =
        (k ++ '=' :: encodeValue k v) ++ '\n' :: rawLines (escapeData d) := by
      simp [escapeData, rawLines, rawLine, List.append_assoc]
    rw [e, splitLines_line _ _ hl.2]
    simp only [decodeLines, hl.1, ih']

/-- data after a history of setter rounds -/
def finalData (d : Data) (rounds : List (List Pair)) : Data := rounds.foldl applySets d

private theorem runHistory_new (rounds : List (List Pair)) : ∀ (d : Data), rounds ≠ [] →
    runHistory writeNew d rounds = (some (encode (finalData d rounds)), finalData d rounds) := by
  induction rounds with
  | nil => intro d h; exact absurd rfl h
  | cons r rs ih =>
    intro d _
    cases rs with
    | nil => rfl
    | cons r' rs' =>
      have := ih (applySets d r) (by simp)
      simpa [runHistory, writeNew, finalData] using this

/-- **Any number of updates** (repaired writer, `fixes/C14-status-escape.diff`): after a history of
`n ≥ 1` rounds of arbitrary setter calls, each followed by `update()`, the file decodes to exactly the
values last set, and the object still holds those values — for every `n`.  (Same `.strip()` caveat as
`status_roundtrip_partial`, on the final values only.) -/
theorem repeated_update_faithful (d : Data) (rounds : List (List Pair)) (hn : rounds ≠ [])
    (hc : dataClean (finalData d rounds) = true) :
    (runHistory writeNew d rounds).1.bind decode = some (finalData d rounds) ∧
    (runHistory writeNew d rounds).2 = finalData d rounds := by
  rw [runHistory_new rounds d hn]
  exact ⟨status_roundtrip_partial _ hc, rfl⟩

/-- `escapeData` applied `n` times -/
def escapeN : Nat → Data → Data
  | 0, d => d
  | n + 1, d => escapeN n (escapeData d)

/-- The writer before the repair escapes the stored text once more on every update: after `n`
updates without any setter call the object holds the `n`-fold escaped text. -/
theorem old_writer_compounds (d : Data) (n : Nat) :
    (runHistory writeOld d (List.replicate (n + 1) [])).2 = escapeN (n + 1) d := by
  induction n generalizing d with
  | zero => rfl
  | succ n ih =>
    have : runHistory writeOld d (List.replicate (n + 1 + 1) []) =
        runHistory writeOld (escapeData d) (List.replicate (n + 1) []) := rfl
    rw [this, ih (escapeData d)]
    rfl

/-- … and therefore, for *every* status, the file written by the second update of the unrepaired writer
reads back as the once-escaped data: any error description that `unicode_escape` changes (a backslash,
a newline, a non-ASCII character …) is not read back as written.  (`Witness.C14` instantiates this.) -/
theorem old_writer_second_update_reads_escaped (d : Data) (h : dataClean (escapeData d) = true) :
    (runHistory writeOld d [[], []]).1.bind decode = some (escapeData d) :=
  status_roundtrip_partial (escapeData d) h

example : dataClean (escapeData [(errKey, ['a', '\\', 'b'])]) = true ∧
    escapeData [(errKey, ['a', '\\', 'b'])] ≠ [(errKey, ['a', '\\', 'b'])] := by decide

/-- non-vacuity: a clean status with a hostile error description -/
example : dataClean [(['c', 'o', 's', 't'], ['0']),
    (errKey, ['C', ':', '\\', 't', '\n', '=', '%', 'é', '€', '\x00', '"'])] = true := by decide
example : decode (encode [(errKey, ['a', '\\', '\n', 'b'])]) = some [(errKey, ['a', '\\', '\n', 'b'])] := by decide
example : finalData [(errKey, ['x'])] [[(errKey, ['\\'])], [], []] = [(errKey, ['\\'])] := by decide

/-! ## Part 3: concurrent updates of one file (several writers, every interleaving)

`Status.update` takes no lock and is called on one `Status` object by the StatusMonitor thread and by the
main thread of `elaunch` (and by other processes: `ewrap`).  Model: `St4sd.FsConc` (names, files, open
handles with positions); a trace is the interleaving of the file operations of all the writers. -/
section Concurrent
open St4sd.FsConc

/-- **Interleaved atomic updates are safe.**  If the interleaved trace follows the protocol `concSafe`
— every update stages its text in a path that differs from the target and from the staging path of every
other update in flight, writes only through its own handle, closes, and only a closed staging file is
renamed over the target; nothing else names the target — then after *every* prefix of the trace (every
crash point of every interleaving, any number of writers, writes and updates) the target holds its
initial content or the complete text (all the writes, from open to close) of one update that the prefix
has installed. -/
theorem interleaved_atomic_updates_safe (t : Path) (evs : List Ev) (s : St) (hwf : WF s)
    (h : concSafe t evs = true) (n : Nat) :
    content (crun (evs.take n) s) t = content s t ∨
    ∃ v ∈ installedBy t (evs.take n), content (crun (evs.take n) s) t = some v := by
  unfold concSafe at h
  cases hc : chkRun t chk0 evs with
  | none => rw [hc] at h; exact absurd h (by simp)
  | some c' =>
    obtain ⟨c1, h1, _⟩ := chkRun_take t evs chk0 c' n hc
    have inv := inv_run t (content s t) (evs.take n) s chk0 c1 (Inv.init t s hwf) h1
    simp only [installedBy, h1]
    exact inv.tgt

/-- what a prefix has installed is among what the whole trace installs -/
theorem installed_by_prefix_subset (t : Path) (evs : List Ev) (h : concSafe t evs = true) (n : Nat) :
    ∀ v ∈ installedBy t (evs.take n), v ∈ installedBy t evs := by
  unfold concSafe at h
  cases hc : chkRun t chk0 evs with
  | none => rw [hc] at h; exact absurd h (by simp)
  | some c' =>
    obtain ⟨c1, h1, h2⟩ := chkRun_take t evs chk0 c' n hc
    simp only [installedBy, h1, hc]
    exact h2

/-- every prefix of a protocol-following trace follows the protocol -/
theorem concSafe_prefix (t : Path) (evs : List Ev) (h : concSafe t evs = true) (n : Nat) :
    concSafe t (evs.take n) = true := by
  unfold concSafe at h ⊢
  cases hc : chkRun t chk0 evs with
  | none => rw [hc] at h; exact absurd h (by simp)
  | some c' =>
    obtain ⟨c1, h1, _⟩ := chkRun_take t evs chk0 c' n hc
    simp [h1]

/-- **Every schedule of n updates that use pairwise different staging paths follows the protocol**: whatever
the order in which the kernel serves the operations of the `n` updates `open tmpᵢ; write…; close; rename tmpᵢ target`,
the interleaved trace satisfies `concSafe`, and the texts it installs are complete texts of these updates. -/
theorem scheduled_updates_follow_protocol (t : Path) (us : List Upd) (hd : DistinctTmps t us) (sched : List Nat) :
    concSafe t (interleave t us (fun _ => 0) sched) = true ∧
    ∀ v ∈ installedBy t (interleave t us (fun _ => 0) sched), ∃ u ∈ us, v = flatten u.chunks := by
  obtain ⟨c', h1, h2⟩ := interleave_accepted t us hd sched (fun _ => 0) chk0 (rel_init us)
  constructor
  · simp [concSafe, h1]
  · simpa only [installedBy, h1] using h2

/-- **n concurrent updates, every interleaving, every crash point**: with pairwise different staging paths
(what `uuid.uuid4()` provides) the target always holds the complete previous version or the complete text of
one of the updates — never a mixture. -/
theorem interleaved_writers_safe (t : Path) (us : List Upd) (hd : DistinctTmps t us) (s : St) (hwf : WF s)
    (sched : List Nat) (n : Nat) :
    content (crun ((interleave t us (fun _ => 0) sched).take n) s) t = content s t ∨
    ∃ u ∈ us, content (crun ((interleave t us (fun _ => 0) sched).take n) s) t = some (flatten u.chunks) := by
  obtain ⟨hs, hi⟩ := scheduled_updates_follow_protocol t us hd sched
  rcases interleaved_atomic_updates_safe t _ s hwf hs n with h | ⟨v, hv, h⟩
  · exact Or.inl h
  · obtain ⟨u, hu, e⟩ := hi v (installed_by_prefix_subset t _ hs n v hv)
    exact Or.inr ⟨u, hu, e ▸ h⟩

/-- the list of crash states the driver reports is the content of the target after every prefix of the trace -/
theorem crashStates_get (evs : List Ev) : ∀ (s : St) (t : Path) (n : Nat), n ≤ evs.length →
    (FsConc.crashStates evs s t)[n]? = some (content (crun (evs.take n) s) t) := by
  induction evs with
  | nil => intro s t n h; simp only [List.length_nil, Nat.le_zero] at h; subst h; rfl
  | cons e es ih =>
    intro s t n h
    cases n with
    | zero => rfl
    | succ n =>
      unfold FsConc.crashStates
      simp only [List.getElem?_cons_succ, List.take_succ_cons, crun_cons]
      exact ih (step s e) t n (by simpa using h)

/-- the initial states handed to the model by the harness are well-formed -/
theorem initial_state_wf (files : List (Path × Content)) : WF (mkSt files) := mkSt_wf files

/-- a decidable sufficient form of the hypothesis on the staging paths -/
theorem distinct_tmps_of_nodup (t : Path) (us : List Upd) (h1 : (us.map Upd.tmp).Nodup) (h2 : ∀ u ∈ us, u.tmp ≠ t) :
    DistinctTmps t us := distinctTmps_of_nodup t us h1 h2

/-- non-vacuity: two updates of different length with different staging paths, one nested inside the other
(the second runs completely between the `open` and the first `write` of the first): accepted, both installed,
and the final content is the complete text of the update that renamed last. -/
example : concSafe ['t'] (interleave ['t'] [⟨['x'], [['a']]⟩, ⟨['y'], [['1'], ['2', '3']]⟩] (fun _ => 0)
    [0, 1, 1, 1, 1, 1, 0, 0, 0]) = true := by decide
example : installedBy ['t'] (interleave ['t'] [⟨['x'], [['a']]⟩, ⟨['y'], [['1'], ['2', '3']]⟩] (fun _ => 0)
    [0, 1, 1, 1, 1, 1, 0, 0, 0]) = [['a'], ['1', '2', '3']] := by decide
example : content (crun (interleave ['t'] [⟨['x'], [['a']]⟩, ⟨['y'], [['1'], ['2', '3']]⟩] (fun _ => 0)
    [0, 1, 1, 1, 1, 1, 0, 0, 0]) (mkSt [(['t'], ['o'])])) ['t'] = some ['a'] := by decide
example : (([⟨['x'], [['a']]⟩, ⟨['y'], [['1'], ['2', '3']]⟩] : List Upd).map Upd.tmp).Nodup := by decide
/-- the predicate rejects a second `open` of a staging path that is in flight, and a rename of an open file -/
example : concSafe ['t'] [.openW 0 ['x'], .openW 1 ['x']] = false := by decide
example : concSafe ['t'] [.openW 0 ['x'], .write 0 ['a'], .rename ['x'] ['t']] = false := by decide

end Concurrent

/-- the one-pass computation of the crash states the driver uses is `crashStates` -/
theorem crashStates_eq_scan (tr : List Op) (fs : Fs) (t : Path) : scanStates tr fs t = crashStates tr fs t := by
  induction tr generalizing fs with
  | nil => simp [scanStates, crashStates, run]
  | cons o tr ih =>
    simp only [scanStates, crashStates, List.length_cons] at ih ⊢
    rw [List.range_succ_eq_map, List.map_cons, List.map_map, ih]
    simp [run, Function.comp_def]

private theorem find?_congr' {α : Type} (l : List α) (p q : α → Bool) (h : ∀ a ∈ l, p a = q a) : l.find? p = l.find? q := by
  induction l with
  | nil => rfl
  | cons a l ih =>
    simp only [List.find?_cons, h a (List.mem_cons_self ..)]
    rw [ih (fun b hb => h b (List.mem_cons_of_mem _ hb))]

/-- … and the first unsafe crash point read off that list is `firstUnsafe` -/
theorem firstUnsafe_eq_in (tr : List Op) (fs : Fs) (t : Path) :
    firstUnsafeIn (crashStates tr fs t) (fs t) (run tr fs t) = firstUnsafe tr fs t := by
  unfold firstUnsafeIn firstUnsafe
  have hl : (crashStates tr fs t).length = tr.length + 1 := by simp [crashStates]
  rw [hl]
  apply find?_congr'
  intro n hn
  have hlt : n < tr.length + 1 := List.mem_range.1 hn
  simp [crashStates, hlt]

section Typed
open St4sd.TypedStore

/-- The update the code performs (dump the new document, rename it over the target) stores the new value whatever the
file held: after every non-empty history of updates, from every initial content, the file holds exactly
(structurally: type tags included) the value written last. -/
theorem typed_store_reads_back_last (init : Stored) (h : List YVal) (v : YVal) :
    runStore writeAlways init (h ++ [v]) = some v := by
  rw [runStore_append]; rfl

/-- … and a reader between two updates always sees exactly the value of the latest update. -/
theorem typed_store_every_read_exact (init : Stored) (h : List YVal) :
    readBacks writeAlways init h = h.map some := by
  induction h generalizing init with
  | nil => rfl
  | cons v h ih => simp [readBacks, writeAlways, ih]

/-- On disk: whatever operations preceded it (any number of earlier updates, complete or not), an atomic update whose
chunks are the rendering of `v` leaves a target whose parse is exactly `v`, provided the parser inverts the renderer
(PyYAML / json as libraries: trusted, and exercised on every run). -/
theorem typed_update_on_disk_reads_back (render : YVal → Content) (parse : Content → Option YVal)
    (hrt : ∀ v, parse (render v) = some v) (pre : List Op) (fs : Fs) (tmp t : Path) (hne : tmp ≠ t)
    (v : YVal) (chunks : List Content) (hch : flatten chunks = render v) :
    (run (pre ++ writerTrace tmp t chunks) fs t).bind parse = some v := by
  rw [run_append, writer_final tmp t chunks _ hne, hch]
  simpa using hrt v

/-- Skipping the write when the file already holds a *structurally* equal value changes nothing: an identical rewrite
may be dropped. -/
theorem structural_skip_harmless (init : Stored) (h : List YVal) :
    runStore (writeSkip YVal.beq) init h = runStore writeAlways init h := by
  induction h generalizing init with
  | nil => rfl
  | cons v h ih =>
    have : writeSkip YVal.beq init v = writeAlways init v := by
      cases init with
      | none => rfl
      | some w =>
        simp only [writeSkip, writeAlways]
        split
        · next hb => rw [(YVal.beq_iff w v).1 hb]
        · rfl
    simp only [runStore, List.foldl_cons] at ih ⊢
    rw [this]; exact ih _

/-- A write-skipping optimisation "do not rewrite when `eq loaded new`" keeps the read-back clause for every history
**iff** `eq` only identifies structurally equal values. -/
theorem skip_sound_iff_structural (eq : YVal → YVal → Bool) :
    (∀ (init : Stored) (h : List YVal) (v : YVal), runStore (writeSkip eq) init (h ++ [v]) = some v) ↔
      (∀ a b, eq a b = true → a = b) := by
  constructor
  · intro hs a b hab
    have := hs (some a) [] b
    simp [runStore, writeSkip, hab] at this
    exact this
  · intro hst init h v
    rw [runStore_append]
    cases hr : runStore (writeSkip eq) init h with
    | none => rfl
    | some w =>
      simp only [writeSkip]
      split
      · next hb => rw [hst w v hb]
      · rfl

/-- Python's `==` identifies every pair of structurally equal values … -/
theorem pyEq_of_eq (a b : YVal) (h : a = b) : pyEq a b = true := h ▸ pyEq_refl a

/-- … and more (`3 == 3.0`, `1 == True`, `0 == False == 0.0 == -0.0`, also inside sequences and mappings): it is not
structural, -/
theorem pyEq_not_structural : ¬ ∀ a b, pyEq a b = true → a = b := by
  intro h
  have := h (.int 3) (.float 3 0) (by decide)
  cases this

/-- hence an update that skips the write when `yaml_load(existing) == data` violates the read-back clause. -/
theorem pyEq_skip_unsound :
    ¬ ∀ (init : Stored) (h : List YVal) (v : YVal), runStore (writeSkip pyEq) init (h ++ [v]) = some v :=
  fun h => pyEq_not_structural ((skip_sound_iff_structural pyEq).1 h)

example : pyEq (.int 1) (.bool true) = true ∧ pyEq (.float 1 0) (.bool true) = true ∧ pyEq (.int 0) (.fspec 0) = true ∧
    pyEq (.float 5 1) (.float 10 2) = true ∧ pyEq (.int 2) (.float 5 1) = false ∧ pyEq (.str [49]) (.int 1) = false ∧
    pyEq (.null) (.bool false) = false ∧ pyEq (.fspec 1) (.fspec 2) = false := by decide
example : pyEq (.map (.cons (.str [100]) (.cons (.seq (.cons (.int 3) (.cons (.bool false) .nil))) .nil)))
    (.map (.cons (.str [100]) (.cons (.seq (.cons (.float 3 0) (.cons (.int 0) .nil))) .nil))) = true := by decide
example : runStore writeAlways none [.int 3, .float 3 0] = some (.float 3 0) := by decide

end Typed

/-! ## Part 5: the key-output listing (output.txt -> dosini reader -> output.json) -/
section Listing
open St4sd.Listing St4sd.StatusFile

/-- **C14 (fidelity of the listing, the reader that exists).**  For every option name made of ASCII letters and every value
that survives `strip()` (the reader strips, as the status reader does), whatever other characters it contains - `#`, `;`,
`%`, `=`, `:`, brackets, white space inside -: the dosini reader without inline comment prefixes returns exactly the
value that `updateLogs` wrote on the line (under the lower-cased option name). -/
theorem listing_line_roundtrip (k v : List Char) (hk : listKey k = true) (hne : k ≠ []) (hv : pyStrip v = v) :
    readLine [] (writeLine k v) = some (lowerAscii k, v) := by
  rw [readLine_writeLine [] k v hk hne (by intro c _; rfl), cutInline_nil, hv]

/-- … for any set of inline comment prefixes: faithful on every value without a `white space + prefix` mark. -/
theorem listing_line_roundtrip_unmarked (inl k v : List Char) (hk : listKey k = true) (hne : k ≠ [])
    (hinl : ∀ c ∈ k, inl.contains c = false) (hv : pyStrip v = v) (hm : hasInlineMark inl v = false) :
    readLine inl (writeLine k v) = some (lowerAscii k, v) := by
  rw [readLine_writeLine inl k v hk hne hinl, cutInline_id inl v false hm, hv]

/-- **Necessity.**  A reader with inline comment prefixes loses every value that contains a white-space character followed
by one of the prefixes: what it returns is shorter than what was written (for every text before and after the mark). -/
theorem inline_reader_loses_value (inl k a b : List Char) (c p : Char) (hk : listKey k = true) (hne : k ≠ [])
    (hinl : ∀ x ∈ k, inl.contains x = false) (hc : pyIsSpace c = true) (hp : inl.contains p = true) :
    ∃ v', readLine inl (writeLine k (a ++ c :: p :: b)) = some (lowerAscii k, v') ∧ v'.length < (a ++ c :: p :: b).length := by
  refine ⟨_, readLine_writeLine inl k _ hk hne hinl, ?_⟩
  have h1 := pyStrip_length_le (cutInline inl false (a ++ c :: p :: b))
  have h2 := cutInline_mark_length inl c p b hc hp a false
  simp only [List.length_append, List.length_cons] at h1 h2 ⊢
  omega

/-- a reader is faithful on all strip-stable values iff it has no inline comment prefix (prefixes that are not letters) -/
theorem inline_reader_faithful_iff (inl : List Char) (hinl : ∀ c, letter c = true → inl.contains c = false) :
    (∀ k v, listKey k = true → k ≠ [] → pyStrip v = v → readLine inl (writeLine k v) = some (lowerAscii k, v)) ↔ inl = [] := by
  constructor
  · intro h
    cases inl with
    | nil => rfl
    | cons p inl =>
      exfalso
      have hp : (p :: inl).contains p = true := by simp
      have hps : pyIsSpace p = false ∨ pyIsSpace p = true := by cases pyIsSpace p <;> simp
      have hk : listKey ['f'] = true := by decide
      have hki : ∀ x ∈ ['f'], (p :: inl).contains x = false := by
        intro x hx; simp only [List.mem_cons, List.not_mem_nil, or_false] at hx; subst hx; exact hinl 'f' (by decide)
      -- the value `a<sp>p…b`: strip-stable because it starts and ends with a letter
      obtain ⟨v', hv', hlen⟩ := inline_reader_loses_value (p :: inl) ['f'] ['a'] ['b'] ' ' p hk (by simp) hki (by decide) hp
      have hstrip : pyStrip (['a'] ++ ' ' :: p :: ['b']) = ['a'] ++ ' ' :: p :: ['b'] := by
        simp [pyStrip, show pyIsSpace 'a' = false by decide, show pyIsSpace 'b' = false by decide]
      have := h ['f'] _ hk (by simp) hstrip
      rw [hv'] at this
      simp only [Option.some.injEq, Prod.mk.injEq] at this
      rw [this.2] at hlen
      exact Nat.lt_irrefl _ hlen
  · intro h k v hk hne hv
    subst h
    exact listing_line_roundtrip k v hk hne hv

example : readLine [] (writeLine "filepath".toList "stages/stage0/hello/summary #1.csv".toList)
    = some ("filepath".toList, "stages/stage0/hello/summary #1.csv".toList) := by decide
example : readLine [] (writeLine "creationTime".toList "a ;b = %(x)s : [c]".toList)
    = some ("creationtime".toList, "a ;b = %(x)s : [c]".toList) := by decide
example : listKey "creationTime".toList = true ∧ pyStrip "x #y".toList = "x #y".toList ∧ hasInlineMark ['#', ';'] "x#y;z".toList = false := by decide

end Listing

end St4sd.C14
