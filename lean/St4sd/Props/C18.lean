import St4sd.Lemmas.C18Confine
import St4sd.Lemmas.C18Keys
import St4sd.Lemmas.C18Stagers
import St4sd.Lemmas.C18StagersLocal
/-!
# C18 — Staging and deployment never write outside their target directory

Property theorems about the model `St4sd.Confine` (`Model/Confine.lean`); the invariants (`Safe`, `Good`,
`DGood`) and the lemmas that carry them through each operation are in `Lemmas/C18Confine.lean`.

Reading guide: locations are reversed component lists, `dest <:+ p` says "`p` is `dest` or lies below it".
`st.log` is the list of every physical location an operation created or modified (following symbolic links
and hard links the way the kernel does), `Frame dest fs0 fs` says that no location outside `dest` differs
between `fs0` and `fs`.
-/
namespace St4sd.C18
open St4sd.Confine St4sd.Str

/-- **extract_confined** (full statement, repaired check).  For *every* archive (any member names, any link
targets, any order) and every initial state in which the working directory holds no escaping link
(`Safe`: links under `dest` are relative without `..`, no file under `dest` is a hard link to the outside —
true of a freshly created working directory), staging by extraction
* creates or modifies only locations under `dest`,
* leaves every location outside `dest` exactly as it was, and
* re-establishes `Safe` (so the statement composes over any number of extract stagings),
whether the archive is accepted, rejected, or extraction stops with an error half-way.

**Hypothesis gap (known finding `C18-extract-through-staged-link`).**  `Safe` is not a formality: `Job.stageIn`
stages all references of a component into the same working directory, and a reference staged with `:link`
(`stageLink`) leaves an absolute link there.  That state is not `Safe`
(`Witness.C18.linked_state_not_safe`), and an archive extracted afterwards with a member `<link name>/evil`
is accepted by the repaired check and written through the link, outside `dest`
(`Witness.C18.link_then_extract_escapes`, also via a descending archive link:
`link_then_extract_escapes_via_descending_member_link`).  The theorem therefore covers working directories that
hold only what copy staging and earlier (checked) extractions put there — `copy_confined` and the third conjunct
keep `Safe` — not directories that also hold link-staged inputs.  The harness generates exactly those states
(real `StageReference(…:link)` before the archive) and reports the escapes under the slug
`extract-writes-through-staged-link`. -/
theorem extract_confined (dest : Path) (fs : Fs) (ms : List Member) (hs : Safe dest fs) :
    (∀ p ∈ (stageExtractFixed dest ⟨fs, []⟩ ms).1.log, dest <:+ p) ∧
    (∀ q, ¬ dest <:+ q → (stageExtractFixed dest ⟨fs, []⟩ ms).1.fs.get q = fs.get q) ∧
    Safe dest (stageExtractFixed dest ⟨fs, []⟩ ms).1.fs := by
  have hg0 : Good dest fs ⟨fs, []⟩ := good_init hs
  unfold stageExtractFixed
  split
  · rename_i hc
    have hrel : ∀ m ∈ ms.map (relativize dest), MemberRel m := by
      intro m hm
      obtain ⟨m0, hm0, rfl⟩ := List.mem_map.mp hm
      exact memberRel_of_ok (List.all_eq_true.mp hc m0 hm0)
    have hg := extractAll_good (ms.map (relativize dest)) ⟨fs, []⟩ _ _ hg0 hrel rfl
    exact ⟨hg.log, hg.frame, hg.safe⟩
  · exact ⟨hg0.log, hg0.frame, hg0.safe⟩

/-- the same over a whole history of extract stagings into the same working directory -/
theorem extract_sequence_confined (dest : Path) (fs0 : Fs) :
    ∀ (archives : List (List Member)) (st : St), Good dest fs0 st →
      Good dest fs0 (archives.foldl (fun st ms => (stageExtractFixed dest st ms).1) st) := by
  intro archives
  induction archives with
  | nil => intro st hg; exact hg
  | cons ms rest ih =>
    intro st hg
    simp only [List.foldl_cons]
    apply ih
    unfold stageExtractFixed
    split
    · rename_i hc
      have hrel : ∀ m ∈ ms.map (relativize dest), MemberRel m := by
        intro m hm
        obtain ⟨m0, hm0, rfl⟩ := List.mem_map.mp hm
        exact memberRel_of_ok (List.all_eq_true.mp hc m0 hm0)
      exact extractAll_good (ms.map (relativize dest)) st _ _ hg hrel rfl
    · exact hg

/-- offending archives are rejected before anything is touched: a rejected archive leaves state and log as
they were and reports `rejected` (the code raises `tarfile.ReadError`, reported as
`DataReferenceCouldNotStageError`) -/
theorem rejected_touches_nothing (dest : Path) (st : St) (ms : List Member) (h : checkFixed dest ms = false) :
    stageExtractFixed dest st ms = (st, some Err.rejected) := by
  simp [stageExtractFixed, h]

/-- a member whose name has a `..` component below `dest` makes the archive offending -/
theorem parent_segment_rejected (dest : Path) (ms : List Member) (m : Member) (hm : m ∈ ms)
    (h : allNames (below dest m.name) = false) : checkFixed dest ms = false := by
  cases hc : checkFixed dest ms with
  | false => rfl
  | true =>
    have := List.all_eq_true.mp hc m hm
    cases m <;> simp [memberOk, Member.name] at this h <;> simp_all

/-- an absolute member name that does not lie under `dest` makes the archive offending -/
theorem absolute_outside_rejected (dest : Path) (ms : List Member) (m : Member) (hm : m ∈ ms)
    (h : prefixOk dest m.name = false) : checkFixed dest ms = false := by
  cases hc : checkFixed dest ms with
  | false => rfl
  | true =>
    have := List.all_eq_true.mp hc m hm
    cases m <;> simp [memberOk, Member.name] at this h <;> simp_all

/-- a symlink or hardlink member whose target is absolute or has a `..` component makes the archive offending -/
theorem escaping_link_rejected (dest : Path) (ms : List Member) (n t : RawPath)
    (hm : Member.sym n t ∈ ms ∨ Member.hard n t ∈ ms) (h : descending t = false) : checkFixed dest ms = false := by
  cases hc : checkFixed dest ms with
  | false => rfl
  | true =>
    rcases hm with hm | hm <;>
    · have := List.all_eq_true.mp hc _ hm
      simp [memberOk] at this
      simp_all

/-- **link targets are judged by their text, never by normalisation.**  The repaired check is *exactly* the
textual-normalisation check (`checkNormpath`: link target relative and, after `os.path.normpath` against the
directory holding the link, still under `dest`) together with "no link target has a `..` component or is
absolute" — for every archive.  So the two checks differ precisely on archives with a link member whose target
has a `..` component that normalises away; `Witness.C18.normpath_link_rule_unsound_*` show that on those the
textual rule lets chains of links (members placed through earlier link members) out of `dest`. -/
theorem checkFixed_eq_normpath_and_descending (dest : Path) (ms : List Member) :
    checkFixed dest ms = (checkNormpath dest ms && ms.all linkTargetDescending) := by
  unfold checkFixed checkNormpath
  induction ms with
  | nil => rfl
  | cons m r ih =>
    simp only [List.all_cons, ih, memberOk_eq dest m]
    cases memberOkNormpath dest m <;> cases linkTargetDescending m <;> simp

/-- everything the repaired check accepts, the textual-normalisation check accepts as well (the relaxation is
a relaxation), … -/
theorem checkFixed_imp_checkNormpath (dest : Path) (ms : List Member) (h : checkFixed dest ms = true) :
    checkNormpath dest ms = true := by
  rw [checkFixed_eq_normpath_and_descending] at h
  exact (Bool.and_eq_true_iff.mp h).1

/-- … and on archives whose link members all have descending targets (in particular archives without link
members) the two checks agree, so `extract_confined` transfers: extraction guarded by the textual rule is
confined **provided** no link target has a `..` component — for chains of any depth, links placed through
earlier links, hard links to earlier links included. -/
theorem normpath_confined_when_targets_descend (dest : Path) (fs : Fs) (ms : List Member) (hs : Safe dest fs)
    (hd : ms.all linkTargetDescending = true) :
    (∀ p ∈ (stageExtractNormpath dest ⟨fs, []⟩ ms).1.log, dest <:+ p) ∧
    (∀ q, ¬ dest <:+ q → (stageExtractNormpath dest ⟨fs, []⟩ ms).1.fs.get q = fs.get q) ∧
    Safe dest (stageExtractNormpath dest ⟨fs, []⟩ ms).1.fs := by
  have he : stageExtractNormpath dest ⟨fs, []⟩ ms = stageExtractFixed dest ⟨fs, []⟩ ms := by
    unfold stageExtractNormpath stageExtractFixed
    rw [checkFixed_eq_normpath_and_descending, hd, Bool.and_true]
  rw [he]
  exact extract_confined dest fs ms hs

/-- a link member placed *through* an earlier link member (its name continues the name of the earlier link)
with a `..` in its target makes the archive offending, however confined the target looks textually: the
second link of the chain `a/s -> ..`, `a/s/esc -> ..` is refused although `normpath("a/s/..") = "a"` -/
theorem through_link_member_rejected (dest : Path) (pre post : List Member) (n : RawPath) (through : List Seg)
    (t1 t2 : RawPath) (h : allNames t2.segs = false) :
    checkFixed dest (pre ++ [Member.sym n t1, Member.sym ⟨n.abs, n.segs ++ through⟩ t2] ++ post) = false :=
  escaping_link_rejected dest _ ⟨n.abs, n.segs ++ through⟩ t2
    (Or.inl (by simp)) (by simp [descending, h])

/-- **copy_link_confined**, copy half: copy staging of a file or directory writes `dest/basename(ref)` (and
below it) only — in a `Safe` working directory also when that name already exists as a link. -/
theorem copy_confined (dest : Path) (fs0 : Fs) (st : St) (ref : S) (k : RefKind) (hg : Good dest fs0 st) :
    Good dest fs0 (stageCopy dest st ref k).1 := by
  unfold stageCopy
  split
  · rename_i b hb
    cases k with
    | file =>
      simp only
      exact writeFile_good hg (List.suffix_refl dest) rfl
    | dir =>
      simp only
      split
      · exact hg
      · have h1 := good_put hg (under_cons b (List.suffix_refl dest)) (n := Node.dir) trivial
        exact good_put h1 (under_cons ['f'] (under_cons b (List.suffix_refl dest)))
          (n := Node.file (['f'] :: b :: dest)) (under_cons ['f'] (under_cons b (List.suffix_refl dest)))
  · exact hg

/-- **copy_link_confined**, link half: link staging creates exactly one entry, `dest/basename(ref)`, or fails
without touching anything; nothing outside `dest` changes (no hypothesis on the state). -/
theorem link_confined (dest : Path) (st : St) (ref : S) :
    ((stageLink dest st ref).1 = st ∧ (stageLink dest st ref).2 = some Err.os) ∨
    (∃ b, (stageLink dest st ref).1.log = (b :: dest) :: st.log ∧ (stageLink dest st ref).2 = none ∧
      ∀ q, ¬ dest <:+ q → (stageLink dest st ref).1.fs.get q = st.fs.get q) := by
  unfold stageLink
  split
  · rename_i b hb
    split
    · exact Or.inl ⟨rfl, rfl⟩
    · refine Or.inr ⟨b, rfl, rfl, ?_⟩
      intro q hq
      show (st.fs.put (b :: dest) _).get q = st.fs.get q
      rw [get_put]
      split
      · rename_i heq; subst heq; exact absurd (under_cons b (List.suffix_refl dest)) hq
      · rfl
  · exact Or.inl ⟨rfl, rfl⟩

/-- deployment alone (a package object built without `Manifest.validate`) is confined as well -/
theorem deploy_confined (target : Path) (fs : Fs) (es : List Entry) (confIsKey : Bool)
    (hanc : ∀ q, q <:+ target → q ≠ [] → fs.get q ≠ none)
    (hfiles : ∀ p ino, target <:+ p → fs.get p = some (Node.file ino) → target <:+ ino) :
    (∀ p ∈ (deploy true target ⟨fs, []⟩ es confIsKey).1.log, target <:+ p) ∧
    (∀ q, ¬ target <:+ q → (deploy true target ⟨fs, []⟩ es confIsKey).1.fs.get q = fs.get q) := by
  have hg0 : DGood target fs ⟨fs, []⟩ := ⟨(by intro p hp; cases hp), (by intro q _; rfl), hanc, hfiles⟩
  unfold deploy
  cases h1 : deployAll true target ⟨fs, []⟩ es with
  | mk st1 e1 =>
    have hg1 := deployAll_good es _ _ _ hg0 h1
    cases e1 with
    | some x => exact ⟨hg1.log, hg1.frame⟩
    | none =>
      simp only
      have hg2 := deployConf_good hg1 (k := confIsKey) rfl
      exact ⟨hg2.log, hg2.frame⟩

/-- **manifest_confined** (full statement, repaired code).  For *every* manifest (any keys, nested or with
`..`, any mix of copy and link entries, any order) deployed into an instance directory `target` that exists
together with its ancestors (`hanc`) and holds no hard link to the outside (`hfiles`; true of a new instance
directory), loading + deployment creates or modifies only locations under `target` and leaves every other
location as it was — including the source folders that link entries point to. -/
theorem manifest_confined (target : Path) (fs : Fs) (es : List Entry) (confIsKey : Bool)
    (hanc : ∀ q, q <:+ target → q ≠ [] → fs.get q ≠ none)
    (hfiles : ∀ p ino, target <:+ p → fs.get p = some (Node.file ino) → target <:+ ino) :
    (∀ p ∈ (loadAndDeploy true target ⟨fs, []⟩ es confIsKey).1.log, target <:+ p) ∧
    (∀ q, ¬ target <:+ q → (loadAndDeploy true target ⟨fs, []⟩ es confIsKey).1.fs.get q = fs.get q) := by
  have hl : loadAndDeploy true target ⟨fs, []⟩ es confIsKey =
      if validateFixed es then deploy true target ⟨fs, []⟩ es confIsKey else (⟨fs, []⟩, some Err.rejected) := by
    simp [loadAndDeploy]
  rw [hl]
  split
  · exact deploy_confined target fs es confIsKey hanc hfiles
  · exact ⟨(by intro p hp; cases hp), (by intro q _; rfl)⟩

/-- a manifest with an absolute key or a key with a `..` component is refused at load, nothing is deployed -/
theorem manifest_offending_key_rejected (target : Path) (st : St) (es : List Entry) (k : Bool) (e : Entry)
    (he : e ∈ es) (h : descending e.key = false) :
    loadAndDeploy true target st es k = (st, some Err.rejected) := by
  have : validateFixed es = false := by
    cases hv : validateFixed es with
    | false => rfl
    | true => have := List.all_eq_true.mp hv e he; simp_all
  simp [loadAndDeploy, this]

/-! ### the string test of the code is the component test of the model -/

private theorem isPrefixOf_name_sep (x y r1 r2 : S) (hx : '/' ∉ x) (hy : '/' ∉ y) :
    (x ++ '/' :: r1).isPrefixOf (y ++ '/' :: r2) = (x == y && r1.isPrefixOf r2) := by
  induction x generalizing y with
  | nil =>
    cases y with
    | nil => simp
    | cons d y' =>
      have hd : d ≠ '/' := fun e => hy (by simp [e])
      have : ('/' == d) = false := by simpa using Ne.symm hd
      simp [List.isPrefixOf_cons_cons, this]
  | cons c x' ih =>
    have hc : c ≠ '/' := fun e => hx (by simp [e])
    have hx' : '/' ∉ x' := fun e => hx (by simp [e])
    cases y with
    | nil =>
      have : (c == '/') = false := by simpa using hc
      simp [List.isPrefixOf_cons_cons, this]
    | cons d y' =>
      have hy' : '/' ∉ y' := fun e => hy (by simp [e])
      simp only [List.cons_append, List.isPrefixOf_cons_cons, ih y' hx' hy']
      by_cases hcd : c = d
      · subst hcd; simp
      · have : (c == d) = false := by simpa using hcd
        simp [this, hcd]

private theorem compsText_sep_head (l : List S) : ∃ r, compsText l ++ ['/'] = '/' :: r := by
  cases l with
  | nil => exact ⟨[], rfl⟩
  | cons x l' => exact ⟨x ++ compsText l' ++ ['/'], by simp [compsText]⟩

private theorem compsText_prefix (a b : List S) (h : ∀ x ∈ a ++ b, '/' ∉ x) :
    (compsText a ++ ['/']).isPrefixOf (compsText b ++ ['/']) = a.isPrefixOf b := by
  induction a generalizing b with
  | nil =>
    obtain ⟨r, hr⟩ := compsText_sep_head b
    simp [compsText, hr]
  | cons x a' ih =>
    cases b with
    | nil =>
      obtain ⟨r, hr⟩ := compsText_sep_head a'
      have hne : x ++ '/' :: r ≠ [] := by simp
      cases hxr : x ++ '/' :: r with
      | nil => exact absurd hxr hne
      | cons c t => simp [compsText, hr, hxr, List.isPrefixOf_cons_cons, List.isPrefixOf]
    | cons y b' =>
      have hx : '/' ∉ x := h x (by simp)
      have hy : '/' ∉ y := h y (by simp)
      have h' : ∀ z ∈ a' ++ b', '/' ∉ z := by
        intro z hz
        apply h z
        rcases List.mem_append.mp hz with hz | hz
        · simp [hz]
        · simp [hz]
      obtain ⟨r1, hr1⟩ := compsText_sep_head a'
      obtain ⟨r2, hr2⟩ := compsText_sep_head b'
      have ih' := ih b' h'
      rw [hr1, hr2] at ih'
      simp only [List.isPrefixOf_cons_cons, beq_self_eq_true, Bool.true_and] at ih'
      simp only [compsText, List.cons_append, List.append_assoc, List.isPrefixOf_cons_cons, beq_self_eq_true,
        Bool.true_and, hr1, hr2]
      rw [isPrefixOf_name_sep x y r1 r2 hx hy, ih']

/-- **The string comparison the code performs is the comparison of the model**: for locations whose component
names contain no separator (every real path), "`realpath(dest) + '/'` is the common prefix of itself and
`realpath(p) + '/'`" holds exactly when `p` is `dest` or lies below it component-wise.  The appended separator
is what makes the character-wise test a component-wise one. -/
theorem underTextSep_eq_under (dest p : Path) (h : ∀ x ∈ dest ++ p, '/' ∉ x) :
    underTextSep dest p = under dest p := by
  unfold underTextSep under pathText
  rw [compsText_prefix dest.reverse p.reverse (by
    intro x hx
    apply h x
    rcases List.mem_append.mp hx with hx | hx
    · exact List.mem_append.mpr (Or.inl (List.mem_reverse.mp hx))
    · exact List.mem_append.mpr (Or.inr (List.mem_reverse.mp hx)))]
  rfl

private theorem compsText_append (a b : List S) : compsText (a ++ b) = compsText a ++ compsText b := by
  induction a with
  | nil => rfl
  | cons x a' ih => simp [compsText, ih]

/-- without the separator the string test is only NECESSARY: everything under `dest` passes it … (what else
passes: `Witness.C18.string_prefix_accepts_sibling`) -/
theorem under_imp_underText (dest p : Path) (h : under dest p = true) : underText dest p = true := by
  unfold under at h
  unfold underText pathText
  have hs : dest <:+ p := by simpa using h
  obtain ⟨t, ht⟩ := hs
  rw [← ht, List.reverse_append, compsText_append]
  simp

/-- the parametrised deployment step with the component test is the repaired code -/
theorem deployOneWith_under (target : Path) (st : St) (e : Entry) :
    deployOneWith under target st e = deployOne true target st e := by
  unfold deployOneWith deployOne
  simp only [Bool.true_and, Bool.true_eq_false, if_false]
  rfl

theorem deployAllWith_under (target : Path) (es : List Entry) :
    ∀ st, deployAllWith under target st es = deployAll true target st es := by
  induction es with
  | nil => intro st; rfl
  | cons e es ih =>
    intro st
    simp only [deployAllWith, deployAll, deployOneWith_under]
    cases deployOne true target st e with
    | mk st1 r =>
      cases r with
      | none => exact ih st1
      | some x => rfl

/-! ### manifest keys as TEXT: alias spellings, destinations that already exist, histories of deployments

`Model/C18Keys.lean`: `shared`, `shared/`, `./shared`, `shared//`, `shared/.` are different dictionary keys and name
the same entry of the instance directory; an instance directory may be deployed into more than once, with a
manifest that changed in between (an entry switched from `:link` to `:copy`), and may hold links before the first
deployment.  None of this is a hypothesis below: the theorems quantify over all key texts, all lists of
deployments and all initial states in which the instance directory exists (with its ancestors) and holds no hard
link to the outside. -/

/-- **alias_manifest_confined**: loading + deployment of *every* manifest, keys taken as text (any spelling, any
two spellings of one entry, any order, copy and link entries), creates or modifies only locations under the
instance directory and leaves every other location as it was — in particular the directory an entry was linked
to earlier in the same manifest. -/
theorem alias_manifest_confined (target : Path) (fs : Fs) (es : List KEntry)
    (hanc : ∀ q, q <:+ target → q ≠ [] → fs.get q ≠ none)
    (hfiles : ∀ p ino, target <:+ p → fs.get p = some (Node.file ino) → target <:+ ino) :
    (∀ p ∈ (loadAndDeployK true target ⟨fs, []⟩ es).1.log, target <:+ p) ∧
    (∀ q, ¬ target <:+ q → (loadAndDeployK true target ⟨fs, []⟩ es).1.fs.get q = fs.get q) := by
  have hg0 : DGood target fs ⟨fs, []⟩ := ⟨(by intro p hp; cases hp), (by intro q _; rfl), hanc, hfiles⟩
  have := deployStep_good (d := ⟨es, true⟩) hg0 (st' := (loadAndDeployK true target ⟨fs, []⟩ es).1)
    (x := (loadAndDeployK true target ⟨fs, []⟩ es).2) (by simp [deployStep])
  exact ⟨this.log, this.frame⟩

/-- **deploy_history_confined**: any number of deployments into the same instance directory, one after the
other, each with its own manifest (validated at load or not), each continuing from whatever the previous one
left (deployed, rejected, stopped half-way): everything created or modified over the whole history lies under
the instance directory, every other location is as it was before the first deployment.  No hypothesis on the
links the instance directory holds initially or acquires on the way. -/
theorem deploy_history_confined (target : Path) (fs : Fs) (ds : List Deployment)
    (hanc : ∀ q, q <:+ target → q ≠ [] → fs.get q ≠ none)
    (hfiles : ∀ p ino, target <:+ p → fs.get p = some (Node.file ino) → target <:+ ino) :
    (∀ p ∈ (deployHistory true target ⟨fs, []⟩ ds).1.log, target <:+ p) ∧
    (∀ q, ¬ target <:+ q → (deployHistory true target ⟨fs, []⟩ ds).1.fs.get q = fs.get q) := by
  have hg0 : DGood target fs ⟨fs, []⟩ := ⟨(by intro p hp; cases hp), (by intro q _; rfl), hanc, hfiles⟩
  have := deployHistory_good ds _ hg0
  exact ⟨this.log, this.frame⟩

/-- a key without trailing separator and without final `.` component is handled exactly as its parsed form
(`./a`, `a//b`, `a/./b` are the entries `a`, `a/b`, `a/b`): the text model extends `deployOne`, it does not
replace it -/
theorem deployOneK_plain (guard : Bool) (target : Path) (st : St) (e : KEntry)
    (h1 : endsWithDot e.key = false) (h2 : endsWithSep e.key = false) :
    deployOneK guard target st e = deployOne guard target st e.entry := by
  simp [deployOneK, h1, h2]

/-- **copy_entry_never_merges**: a copy entry that is deployed (no error) has created its destination directory
in this very step — the destination did not exist before, neither as a directory, nor as a file, nor as a LINK.
So a copy entry is never merged into what an earlier entry, an earlier deployment or anybody else put there; an
entry whose destination exists is answered with an error. -/
theorem copy_entry_never_merges (target : Path) (st st' : St) (e : Entry) (hm : e.method = Method.copy)
    (h : deployOne true target st e = (st', none)) :
    ∃ par s, st.fs.get (s :: par) = none ∧ st'.fs.get (s :: par) = some Node.dir ∧ (s :: par) ∈ st'.log := by
  unfold deployOne at h
  split at h
  · cases h
  · split at h
    · cases h
    · split at h
      · rename_i parents s hsplit
        split at h
        · cases h
        · rename_i base rest blocked hwalk
          split at h
          · cases h
          · split at h
            · cases h
            · rw [hm] at h
              simp only at h
              cases hmk : mkChain st base rest with
              | mk st1 par =>
                simp only [hmk] at h
                split at h
                · cases h
                · rename_i hfree
                  have hnone : st1.fs.get (s :: par) = none := by
                    cases hh : st1.fs.get (s :: par) <;> simp_all
                  cases h
                  refine ⟨par, s, mkChain_get_none _ _ _ _ _ _ hmk hnone, ?_, ?_⟩
                  · show ((st1.fs.put (s :: par) Node.dir).put (['f'] :: s :: par) _).get (s :: par) = _
                    rw [get_put, get_put]
                    simp
                  · simp
      · cases h

/-- the same for a key in any spelling -/
theorem copy_entry_never_merges_any_spelling (target : Path) (st st' : St) (e : KEntry)
    (hm : e.method = Method.copy) (h : deployOneK true target st e = (st', none)) :
    ∃ par s, st.fs.get (s :: par) = none ∧ st'.fs.get (s :: par) = some Node.dir ∧ (s :: par) ∈ st'.log := by
  have hm' : e.entry.method = Method.copy := hm
  unfold deployOneK at h
  simp only at h
  split at h
  · split at h
    · cases h
    · split at h
      · cases h
      · split at h
        · cases h
        · split at h
          · cases h
          · rw [hm] at h
            simp only at h
            split at h
            · cases h
            · exact copy_entry_never_merges target st st' e.entry hm' h
  · split at h
    · rename_i hc
      simp [hm] at hc
    · exact copy_entry_never_merges target st st' e.entry hm' h

/-- **copy_onto_existing_entry_rejected**: a copy entry for a top-level name that already exists in the instance
directory — e.g. as the link an earlier entry `name: <elsewhere>:link` created — is answered with an error and
touches nothing, whatever the spelling of its key (`name`, `name/`, `./name`, `name//`, `name/.` …) -/
theorem copy_onto_existing_entry_rejected (target : Path) (st : St) (k : S) (s : S) (src : List Seg)
    (hk : parsePath k = ⟨false, [Seg.name s]⟩) (hex : (st.fs.get (s :: target)).isSome = true) :
    ∃ x, deployOneK true target st ⟨k, src, Method.copy⟩ = (st, some x) := by
  cases hr : deployOneK true target st ⟨k, src, Method.copy⟩ with
  | mk st' r =>
    cases r with
    | none =>
      exfalso
      -- the only way to be deployed is through `deployOne` on the parsed key, which finds the destination
      have key : deployOne true target st ⟨⟨false, [Seg.name s]⟩, src, Method.copy⟩ =
          (st, some Err.os) := by
        simp [deployOne, allNames, isName, splitLastSeg, walk, fuel0, under, extend, mkChain, hex]
      unfold deployOneK at hr
      simp only [KEntry.entry, hk] at hr
      split at hr
      · split at hr
        · cases hr
        · split at hr
          · cases hr
          · split at hr
            · cases hr
            · split at hr
              · cases hr
              · split at hr
                · cases hr
                · rw [key] at hr; cases hr
      · split at hr
        · rename_i hc; simp at hc
        · rw [key] at hr; cases hr
    | some x =>
      refine ⟨x, ?_⟩
      -- an error leaves the state as it was: every error branch of a top-level copy entry returns `st`
      have key : deployOne true target st ⟨⟨false, [Seg.name s]⟩, src, Method.copy⟩ =
          (st, some Err.os) := by
        simp [deployOne, allNames, isName, splitLastSeg, walk, fuel0, under, extend, mkChain, hex]
      unfold deployOneK at hr
      simp only [KEntry.entry, hk] at hr
      split at hr
      · split at hr
        · cases hr; rfl
        · split at hr
          · cases hr; rfl
          · split at hr
            · cases hr; rfl
            · split at hr
              · cases hr; rfl
              · split at hr
                · cases hr; rfl
                · rw [key] at hr; cases hr; rfl
      · split at hr
        · rename_i hc; simp at hc
        · rw [key] at hr; cases hr; rfl

/-! ### two components staging archives at the same time

`Model/C18Stagers.lean`: two extractions interleaved member by member under an arbitrary schedule, on one shared
file system; each stager extracts into its own ABSOLUTE working directory and owns nothing but (`dest`, members
left, log, answer). -/

/-- **stager_step_confined**: at every single step — whatever happened before, whatever the other stager did to
its own directory in the meantime — the member a stager extracts is logged under the stager's OWN working
directory and no location outside that directory changes (so nothing in the other stager's directory). -/
theorem stager_step_confined (d : Path) (fs : Fs) (s : Stager) (hs : Safe d fs) (hg : SGood d s) :
    (∀ p ∈ (s.step fs).2.log, d <:+ p) ∧ (∀ q, ¬ d <:+ q → (s.step fs).1.get q = fs.get q) ∧
    Safe d (s.step fs).1 := by
  obtain ⟨h1, h2, h3⟩ := stager_step_good hs hg (fs' := (s.step fs).1) (s' := (s.step fs).2) rfl
  exact ⟨h1.log, h3, h2⟩

/-- **stagers_confined**: for *every* schedule, every pair of archives and every pair of working directories
neither of which lies in the other (`Apart`), both `Safe` initially: everything the first stager creates or
modifies lies under the first working directory and not under the second, and vice versa; no location outside
the two working directories changes; both directories stay `Safe`.  Accepted, rejected or failing half-way. -/
theorem stagers_confined (fs : Fs) (dA dB : Path) (msA msB : List Member) (sched : List Bool)
    (hap : Apart dA dB) (hA : Safe dA fs) (hB : Safe dB fs) :
    (∀ p ∈ (runStagers fs dA dB msA msB sched).a.log, dA <:+ p ∧ ¬ dB <:+ p) ∧
    (∀ p ∈ (runStagers fs dA dB msA msB sched).b.log, dB <:+ p ∧ ¬ dA <:+ p) ∧
    (∀ q, ¬ dA <:+ q → ¬ dB <:+ q → (runStagers fs dA dB msA msB sched).fs.get q = fs.get q) ∧
    Safe dA (runStagers fs dA dB msA msB sched).fs ∧ Safe dB (runStagers fs dA dB msA msB sched).fs := by
  have h0 : WGood dA dB fs { fs := fs, a := Stager.init dA msA, b := Stager.init dB msB } :=
    ⟨sgood_init dA msA, sgood_init dB msB, hA, hB, fun _ _ _ => rfl⟩
  have hw := world_finish_good hap (world_sched_good hap sched _ h0)
  refine ⟨?_, ?_, hw.frame, hw.safeA, hw.safeB⟩
  · intro p hp
    have := hw.a.log p hp
    exact ⟨this, apart_under hap this⟩
  · intro p hp
    have := hw.b.log p hp
    exact ⟨this, apart_under' hap this⟩

/-- **stager_receives_own_members**: under *every* schedule each component ends with exactly what staging its
own archive ALONE gives — the same answer, the same log, the same members left (none), and a working directory
that holds, location by location, what the solo extraction puts there: nothing of the other component's archive,
nothing of its own missing.  (`(Stager.init d ms).drain fs` is the extraction of `ms` into `d` with nobody else
around.)  Extraction is local to the working directory (`Lemmas/C18StagersLocal.lean`: `extractOne_local`). -/
theorem stager_receives_own_members (fs : Fs) (dA dB : Path) (msA msB : List Member) (sched : List Bool)
    (hap : Apart dA dB) (hA : Safe dA fs) (hB : Safe dB fs) :
    (runStagers fs dA dB msA msB sched).a = ((Stager.init dA msA).drain fs).2 ∧
    (∀ p, dA <:+ p → (runStagers fs dA dB msA msB sched).fs.get p = ((Stager.init dA msA).drain fs).1.get p) ∧
    (runStagers fs dA dB msA msB sched).b = ((Stager.init dB msB).drain fs).2 ∧
    (∀ p, dB <:+ p → (runStagers fs dA dB msA msB sched).fs.get p = ((Stager.init dB msB).drain fs).1.get p) := by
  have h0 : WGood dA dB fs { fs := fs, a := Stager.init dA msA, b := Stager.init dB msB } :=
    ⟨sgood_init dA msA, sgood_init dB msB, hA, hB, fun _ _ _ => rfl⟩
  have ta : TrackA dA dB fs ((Stager.init dA msA).drain fs) { fs := fs, a := Stager.init dA msA, b := Stager.init dB msB } :=
    ⟨h0, pending_init dA msA, fs, agree_refl dA fs, hA, rfl⟩
  have tb : TrackB dA dB fs ((Stager.init dB msB).drain fs) { fs := fs, a := Stager.init dA msA, b := Stager.init dB msB } :=
    ⟨h0, pending_init dB msB, fs, agree_refl dB fs, hB, rfl⟩
  obtain ⟨ha1, ha2⟩ := trackA_finish hap (trackA_sched hap sched _ ta)
  obtain ⟨hb1, hb2⟩ := trackB_finish hap (trackB_sched hap sched _ tb)
  exact ⟨ha1, ha2, hb1, hb2⟩

/-- in particular the result does not depend on the schedule -/
theorem stagers_schedule_independent (fs : Fs) (dA dB : Path) (msA msB : List Member) (s1 s2 : List Bool)
    (hap : Apart dA dB) (hA : Safe dA fs) (hB : Safe dB fs) :
    (runStagers fs dA dB msA msB s1).a = (runStagers fs dA dB msA msB s2).a ∧
    (runStagers fs dA dB msA msB s1).b = (runStagers fs dA dB msA msB s2).b ∧
    (∀ p, dA <:+ p ∨ dB <:+ p →
      (runStagers fs dA dB msA msB s1).fs.get p = (runStagers fs dA dB msA msB s2).fs.get p) := by
  obtain ⟨a1, f1, b1, g1⟩ := stager_receives_own_members fs dA dB msA msB s1 hap hA hB
  obtain ⟨a2, f2, b2, g2⟩ := stager_receives_own_members fs dA dB msA msB s2 hap hA hB
  refine ⟨a1.trans a2.symm, b1.trans b2.symm, ?_⟩
  intro p hp
  rcases hp with hp | hp
  · exact (f1 p hp).trans (f2 p hp).symm
  · exact (g1 p hp).trans (g2 p hp).symm

private theorem step_idle (fs : Fs) (s : Stager) (h : s.todo = []) : s.step fs = (fs, s) := by
  simp [Stager.step, h]

private theorem drain_idle (fs : Fs) (s : Stager) (h : s.todo = []) : s.drain fs = (fs, s) := by
  simp [Stager.drain, h]

private theorem sched_first_idle (sched : List Bool) :
    ∀ (w : World), w.a.todo = [] → (sched.foldl World.step w).a = w.a := by
  induction sched with
  | nil => intro w _; rfl
  | cons x r ih =>
    intro w h
    simp only [List.foldl_cons]
    have : (w.step x).a = w.a := by
      cases x with
      | true => simp only [World.step, if_true]
      | false => simp only [World.step, Bool.false_eq_true, if_false, step_idle w.fs w.a h]
    rw [ih _ (by rw [this]; exact h), this]

/-- an offending archive is rejected before anything is touched, also when another component is staging at the
same time: under every schedule the stager of a rejected archive ends with the answer `rejected` and an empty
log (and, by `stagers_confined`, the other stager's log lies in its own directory) -/
theorem stager_rejected_touches_nothing (fs : Fs) (dA dB : Path) (msA msB : List Member) (sched : List Bool)
    (h : checkFixed dA msA = false) :
    (runStagers fs dA dB msA msB sched).a.log = [] ∧
    (runStagers fs dA dB msA msB sched).a.res = some Err.rejected := by
  have hinit : Stager.init dA msA = { dest := dA, todo := [], log := [], res := some Err.rejected } := by
    simp [Stager.init, h]
  have h1 := sched_first_idle sched { fs := fs, a := Stager.init dA msA, b := Stager.init dB msB }
    (by rw [hinit])
  unfold runStagers World.finish
  generalize sched.foldl World.step { fs := fs, a := Stager.init dA msA, b := Stager.init dB msB } = w at h1 ⊢
  simp only at h1
  have ha : w.a.todo = [] := by rw [h1, hinit]
  rw [drain_idle _ _ ha]
  simp only
  cases w.b.drain w.fs with
  | mk fs2 b1 =>
    show w.a.log = [] ∧ w.a.res = some Err.rejected
    rw [h1, hinit]
    exact ⟨rfl, rfl⟩

/-! ### the hypotheses are satisfiable and the statements are not vacuous -/

/-- sandbox used in the examples: `/i/w` is the working directory, `/o` is outside -/
def exFs : Fs := [([['w'], ['i']], Node.dir), ([['i']], Node.dir), ([['o']], Node.dir), ([['v'], ['o']], Node.file [['v'], ['o']])]
def exDest : Path := [['w'], ['i']]

example : Safe exDest exFs := by
  intro p n hp hget
  simp only [exFs, Fs.get] at hget
  split at hget
  · cases hget; trivial
  · split at hget
    · cases hget; trivial
    · split at hget
      · cases hget; trivial
      · split at hget
        · rename_i h; subst h; exact absurd hp (by decide)
        · cases hget

/-- an archive with a directory, a nested file, a descending symlink, a file written *through* that symlink
and a hard link is accepted by the repaired check and extracted (7 locations touched, no error) -/
example :
    let ms := [Member.dir ⟨false, [Seg.name ['d']]⟩, Member.file ⟨false, [Seg.name ['d'], Seg.name ['x']]⟩,
               Member.sym ⟨false, [Seg.name ['l']]⟩ ⟨false, [Seg.name ['d']]⟩,
               Member.file ⟨false, [Seg.name ['l'], Seg.name ['y']]⟩,
               Member.hard ⟨false, [Seg.name ['h']]⟩ ⟨false, [Seg.name ['d'], Seg.name ['x']]⟩,
               Member.file ⟨false, [Seg.name ['h']]⟩]
    checkFixed exDest ms = true ∧ (stageExtractFixed exDest ⟨exFs, []⟩ ms).2 = none ∧
    (stageExtractFixed exDest ⟨exFs, []⟩ ms).1.log.length = 7 ∧
    (stageExtractFixed exDest ⟨exFs, []⟩ ms).1.fs.get [['y'], ['d'], ['w'], ['i']] = some (Node.file [['y'], ['d'], ['w'], ['i']]) := by
  decide

/-- links placed through earlier links, a hard link to an earlier link: with descending targets such a chain
is accepted by both checks and extracted — `l -> d`, `l/m -> e` is created as `d/m`, `l/m/y` lands in `d/e/y`,
`h` becomes a second name of the link `d/m` -/
example :
    let ms := [Member.dir ⟨false, [Seg.name ['d'], Seg.name ['e']]⟩,
               Member.sym ⟨false, [Seg.name ['l']]⟩ ⟨false, [Seg.name ['d']]⟩,
               Member.sym ⟨false, [Seg.name ['l'], Seg.name ['m']]⟩ ⟨false, [Seg.name ['e']]⟩,
               Member.file ⟨false, [Seg.name ['l'], Seg.name ['m'], Seg.name ['y']]⟩,
               Member.hard ⟨false, [Seg.name ['h']]⟩ ⟨false, [Seg.name ['l'], Seg.name ['m']]⟩]
    checkFixed exDest ms = true ∧ checkNormpath exDest ms = true ∧ ms.all linkTargetDescending = true ∧
    (stageExtractNormpath exDest ⟨exFs, []⟩ ms).2 = none ∧
    (stageExtractNormpath exDest ⟨exFs, []⟩ ms).1.fs.get [['m'], ['d'], ['w'], ['i']] = some (Node.link false [Seg.name ['e']]) ∧
    (stageExtractNormpath exDest ⟨exFs, []⟩ ms).1.fs.get [['y'], ['e'], ['d'], ['w'], ['i']] =
      some (Node.file [['y'], ['e'], ['d'], ['w'], ['i']]) ∧
    (stageExtractNormpath exDest ⟨exFs, []⟩ ms).1.fs.get [['h'], ['w'], ['i']] = some (Node.link false [Seg.name ['e']]) := by
  decide

/-- the two checks really differ: `lib/x -> ../lib64/x` is textually confined and refused by the repaired check -/
example :
    let ms := [Member.sym ⟨false, [Seg.name ['l'], Seg.name ['x']]⟩ ⟨false, [Seg.up, Seg.name ['k'], Seg.name ['x']]⟩]
    checkNormpath exDest ms = true ∧ checkFixed exDest ms = false ∧ ms.all linkTargetDescending = false := by
  decide

/-- parsing of names as they appear in archives -/
example : parsePath ['.', '.', '/', 'e'] = ⟨false, [Seg.up, Seg.name ['e']]⟩ := by decide
example : parsePath ['/', 'a', '/', '/', '.', '/', 'b', '/'] = ⟨true, [Seg.name ['a'], Seg.name ['b']]⟩ := by decide

/-- the hypotheses of `manifest_confined` hold in the sandbox, and a manifest with a nested copy key and a
link key is deployed (with `conf/flowir_package.yaml`) -/
example : (∀ q, q <:+ exDest → q ≠ [] → exFs.get q ≠ none) := by
  intro q hq hne
  have : q = exDest ∨ q = [['i']] ∨ q = [] := by
    simp only [exDest] at hq ⊢
    rcases List.suffix_cons_iff.mp hq with h | h
    · exact Or.inl h
    · rcases List.suffix_cons_iff.mp h with h | h
      · exact Or.inr (Or.inl h)
      · exact Or.inr (Or.inr (List.suffix_nil.mp h))
  rcases this with rfl | rfl | rfl
  · decide
  · decide
  · exact absurd rfl hne

example :
    let es := [Entry.mk ⟨false, [Seg.name ['a'], Seg.name ['b']]⟩ [Seg.name ['o']] Method.copy,
               Entry.mk ⟨false, [Seg.name ['k']]⟩ [Seg.name ['o']] Method.link]
    (loadAndDeploy true exDest ⟨exFs, []⟩ es false).2 = none ∧
    (loadAndDeploy true exDest ⟨exFs, []⟩ es false).1.log.length = 6 := by
  decide

/-! ### alias keys, histories and two stagers: the statements are not vacuous -/

def kS : S := ['k']
def kSlash : S := ['k', '/']
def kDotSlash : S := ['.', '/', 'k']
def kSlashDot : S := ['k', '/', '.']

/-- the five spellings are one entry -/
example : (parsePath kS, parsePath kSlash, parsePath kDotSlash, parsePath kSlashDot, parsePath ['k', '/', '/']) =
    (⟨false, [Seg.name ['k']]⟩, ⟨false, [Seg.name ['k']]⟩, ⟨false, [Seg.name ['k']]⟩, ⟨false, [Seg.name ['k']]⟩,
     ⟨false, [Seg.name ['k']]⟩) := by decide

/-- `k` linked to `/o`, then a copy entry for the same entry in each spelling: the link is created, the copy
entry is answered with an error, only the link was touched, `/o` holds what it held -/
example : ∀ k ∈ [kSlash, kDotSlash, kSlashDot, ['k', '/', '/'], ['.', '/', 'k', '/']],
    let es := [KEntry.mk kS [Seg.name ['o']] Method.link, KEntry.mk k [Seg.name ['o']] Method.copy]
    validateK true es = true ∧
    (loadAndDeployK true exDest ⟨exFs, []⟩ es).2 ≠ none ∧
    (loadAndDeployK true exDest ⟨exFs, []⟩ es).1.log = [[['k'], ['w'], ['i']]] ∧
    (loadAndDeployK true exDest ⟨exFs, []⟩ es).1.fs.get [['f'], ['o']] = none := by decide

/-- spellings of a key whose entry does not exist yet are deployed like the plain key (copy), a link entry with
a trailing separator or a final `.` is an error -/
example :
    (deployOneK true exDest ⟨exFs, []⟩ ⟨kSlash, [Seg.name ['o']], Method.copy⟩).2 = none ∧
    (deployOneK true exDest ⟨exFs, []⟩ ⟨kSlashDot, [Seg.name ['o']], Method.copy⟩).2 = none ∧
    (deployOneK true exDest ⟨exFs, []⟩ ⟨kDotSlash, [Seg.name ['o']], Method.link⟩).2 = none ∧
    (deployOneK true exDest ⟨exFs, []⟩ ⟨kSlash, [Seg.name ['o']], Method.link⟩).2 = some Err.os ∧
    (deployOneK true exDest ⟨exFs, []⟩ ⟨kSlash, [Seg.name ['o']], Method.link⟩).1.log = [] ∧
    (deployOneK true exDest ⟨exFs, []⟩ ⟨kSlashDot, [Seg.name ['o']], Method.link⟩).2 = some Err.os ∧
    (deployOneK true exDest ⟨exFs, []⟩ ⟨kSlashDot, [Seg.name ['o']], Method.link⟩).1.log = [] := by
  decide

/-- a history: the instance is deployed with `k` linked to `/o`, then again after the manifest changed to
`k: …:copy` (first entry of the new manifest): the second deployment is answered with an error and `/o` is as
it was; a third deployment with a key nested under the old link is rejected -/
example :
    let d1 : Deployment := ⟨[⟨kS, [Seg.name ['o']], Method.link⟩], true⟩
    let d2 : Deployment := ⟨[⟨kS, [Seg.name ['o']], Method.copy⟩], true⟩
    let d3 : Deployment := ⟨[⟨['k', '/', 'x'], [Seg.name ['o']], Method.copy⟩], false⟩
    (deployHistory true exDest ⟨exFs, []⟩ [d1, d2, d3]).2 = [none, some Err.os, some Err.rejected] ∧
    (deployHistory true exDest ⟨exFs, []⟩ [d1, d2, d3]).1.fs.get [['f'], ['o']] = none ∧
    (deployHistory true exDest ⟨exFs, []⟩ [d1, d2, d3]).1.fs.get [['x'], ['o']] = none := by decide

/-- every node is a directory or a regular file with its own name only: `Safe` for every directory -/
private theorem safe_of_plain (d : Path) :
    ∀ fs : Fs, (∀ pn ∈ fs, pn.2 = Node.dir ∨ pn.2 = Node.file pn.1) → Safe d fs
  | [], _ => by intro p n _ h; simp [Fs.get] at h
  | (q, m) :: r, hpl => by
    intro p n hp hget
    simp only [Fs.get] at hget
    split at hget
    · rename_i heq
      cases hget
      subst heq
      rcases hpl (q, m) (List.mem_cons_self ..) with h | h
      · simp only at h; subst h; trivial
      · simp only at h; subst h; exact hp
    · exact safe_of_plain d r (fun pn h => hpl pn (List.mem_cons_of_mem _ h)) p n hp hget

/-- a second working directory `/i/u` next to `/i/w` -/
def exFs2 : Fs := ([['u'], ['i']], Node.dir) :: exFs
def exDest2 : Path := [['u'], ['i']]

example : Apart exDest exDest2 ∧ Safe exDest exFs2 ∧ Safe exDest2 exFs2 :=
  ⟨⟨by decide, by decide⟩, safe_of_plain _ _ (by decide), safe_of_plain _ _ (by decide)⟩

/-- two archives with the SAME member names, extracted under three schedules (alternating, first stager first,
second stager in the middle of the first): each stager logs its own directory only, each directory receives both
members, nothing else changes, no error -/
example : ∀ sched ∈ [[false, true, false, true], [], [false, true, true, false]],
    let ms := [Member.file ⟨false, [Seg.name ['x']]⟩, Member.file ⟨false, [Seg.name ['d'], Seg.name ['y']]⟩]
    let w := runStagers exFs2 exDest exDest2 ms ms sched
    w.a.res = none ∧ w.b.res = none ∧ w.a.todo = [] ∧ w.b.todo = [] ∧
    w.a.log.all (under exDest) = true ∧ w.b.log.all (under exDest2) = true ∧
    w.a.log.length = 3 ∧ w.b.log.length = 3 ∧
    w.fs.get [['y'], ['d'], ['w'], ['i']] = some (Node.file [['y'], ['d'], ['w'], ['i']]) ∧
    w.fs.get [['y'], ['d'], ['u'], ['i']] = some (Node.file [['y'], ['d'], ['u'], ['i']]) ∧
    w.fs.get [['x'], ['i']] = none := by decide

/-- an archive aimed at the other component's directory (`../u/x`) is rejected while the other one is extracted -/
example :
    let w := runStagers exFs2 exDest exDest2 [Member.file ⟨false, [Seg.up, Seg.name ['u'], Seg.name ['x']]⟩]
      [Member.file ⟨false, [Seg.name ['x']]⟩] [true, false]
    w.a.res = some Err.rejected ∧ w.a.log = [] ∧ w.b.res = none ∧ w.b.log = [[['x'], ['u'], ['i']]] := by decide

end St4sd.C18
