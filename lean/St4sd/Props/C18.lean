import St4sd.Lemmas.C18Confine
/-!
# C18 — Staging and deployment never write outside their target directory

Property theorems about the model `St4sd.Confine` (`Model/Confine.lean`); the invariants (`Safe`, `Good`,
`DGood`) and the lemmas that carry them through each operation are in `Lemmas/C18Confine.lean`.

Reading guide: locations are reversed component lists, `dest <:+ p` says "`p` is `dest` or lies below it".
`st.log` is the list of every physical location an operation created or modified (following symbolic links
and hard links the way the kernel does), `Frame dest fs0 fs` says that no location outside `dest` differs
between `fs0` and `fs`.
-/
namespace St4sd.C18
open St4sd.Confine St4sd.Str

/-- **extract_confined** (full statement, repaired check).  For *every* archive (any member names, any link
targets, any order) and every initial state in which the working directory holds no escaping link
(`Safe`: links under `dest` are relative without `..`, no file under `dest` is a hard link to the outside —
true of a freshly created working directory), staging by extraction
* creates or modifies only locations under `dest`,
* leaves every location outside `dest` exactly as it was, and
* re-establishes `Safe` (so the statement composes over any number of extract stagings),
whether the archive is accepted, rejected, or extraction stops with an error half-way. -/
theorem extract_confined (dest : Path) (fs : Fs) (ms : List Member) (hs : Safe dest fs) :
    (∀ p ∈ (stageExtractFixed dest ⟨fs, []⟩ ms).1.log, dest <:+ p) ∧
    (∀ q, ¬ dest <:+ q → (stageExtractFixed dest ⟨fs, []⟩ ms).1.fs.get q = fs.get q) ∧
    Safe dest (stageExtractFixed dest ⟨fs, []⟩ ms).1.fs := by
  have hg0 : Good dest fs ⟨fs, []⟩ := good_init hs
  unfold stageExtractFixed
  split
  · rename_i hc
    have hrel : ∀ m ∈ ms.map (relativize dest), MemberRel m := by
      intro m hm
      obtain ⟨m0, hm0, rfl⟩ := List.mem_map.mp hm
      exact memberRel_of_ok (List.all_eq_true.mp hc m0 hm0)
    have hg := extractAll_good (ms.map (relativize dest)) ⟨fs, []⟩ _ _ hg0 hrel rfl
    exact ⟨hg.log, hg.frame, hg.safe⟩
  · exact ⟨hg0.log, hg0.frame, hg0.safe⟩

/-- the same over a whole history of extract stagings into the same working directory -/
theorem extract_sequence_confined (dest : Path) (fs0 : Fs) :
    ∀ (archives : List (List Member)) (st : St), Good dest fs0 st →
      Good dest fs0 (archives.foldl (fun st ms => (stageExtractFixed dest st ms).1) st) := by
  intro archives
  induction archives with
  | nil => intro st hg; exact hg
  | cons ms rest ih =>
    intro st hg
    simp only [List.foldl_cons]
    apply ih
    unfold stageExtractFixed
    split
    · rename_i hc
      have hrel : ∀ m ∈ ms.map (relativize dest), MemberRel m := by
        intro m hm
        obtain ⟨m0, hm0, rfl⟩ := List.mem_map.mp hm
        exact memberRel_of_ok (List.all_eq_true.mp hc m0 hm0)
      exact extractAll_good (ms.map (relativize dest)) st _ _ hg hrel rfl
    · exact hg

/-- offending archives are rejected before anything is touched: a rejected archive leaves state and log as
they were and reports `rejected` (the code raises `tarfile.ReadError`, reported as
`DataReferenceCouldNotStageError`) -/
theorem rejected_touches_nothing (dest : Path) (st : St) (ms : List Member) (h : checkFixed dest ms = false) :
    stageExtractFixed dest st ms = (st, some Err.rejected) := by
  simp [stageExtractFixed, h]

/-- a member whose name has a `..` component below `dest` makes the archive offending -/
theorem parent_segment_rejected (dest : Path) (ms : List Member) (m : Member) (hm : m ∈ ms)
    (h : allNames (below dest m.name) = false) : checkFixed dest ms = false := by
  cases hc : checkFixed dest ms with
  | false => rfl
  | true =>
    have := List.all_eq_true.mp hc m hm
    cases m <;> simp [memberOk, Member.name] at this h <;> simp_all

/-- an absolute member name that does not lie under `dest` makes the archive offending -/
theorem absolute_outside_rejected (dest : Path) (ms : List Member) (m : Member) (hm : m ∈ ms)
    (h : prefixOk dest m.name = false) : checkFixed dest ms = false := by
  cases hc : checkFixed dest ms with
  | false => rfl
  | true =>
    have := List.all_eq_true.mp hc m hm
    cases m <;> simp [memberOk, Member.name] at this h <;> simp_all

/-- a symlink or hardlink member whose target is absolute or has a `..` component makes the archive offending -/
theorem escaping_link_rejected (dest : Path) (ms : List Member) (n t : RawPath)
    (hm : Member.sym n t ∈ ms ∨ Member.hard n t ∈ ms) (h : descending t = false) : checkFixed dest ms = false := by
  cases hc : checkFixed dest ms with
  | false => rfl
  | true =>
    rcases hm with hm | hm <;>
    · have := List.all_eq_true.mp hc _ hm
      simp [memberOk] at this
      simp_all

/-- **copy_link_confined**, copy half: copy staging of a file or directory writes `dest/basename(ref)` (and
below it) only — in a `Safe` working directory also when that name already exists as a link. -/
theorem copy_confined (dest : Path) (fs0 : Fs) (st : St) (ref : S) (k : RefKind) (hg : Good dest fs0 st) :
    Good dest fs0 (stageCopy dest st ref k).1 := by
  unfold stageCopy
  split
  · rename_i b hb
    cases k with
    | file =>
      simp only
      exact writeFile_good hg (List.suffix_refl dest) rfl
    | dir =>
      simp only
      split
      · exact hg
      · have h1 := good_put hg (under_cons b (List.suffix_refl dest)) (n := Node.dir) trivial
        exact good_put h1 (under_cons ['f'] (under_cons b (List.suffix_refl dest)))
          (n := Node.file (['f'] :: b :: dest)) (under_cons ['f'] (under_cons b (List.suffix_refl dest)))
  · exact hg

/-- **copy_link_confined**, link half: link staging creates exactly one entry, `dest/basename(ref)`, or fails
without touching anything; nothing outside `dest` changes (no hypothesis on the state). -/
theorem link_confined (dest : Path) (st : St) (ref : S) :
    ((stageLink dest st ref).1 = st ∧ (stageLink dest st ref).2 = some Err.os) ∨
    (∃ b, (stageLink dest st ref).1.log = (b :: dest) :: st.log ∧ (stageLink dest st ref).2 = none ∧
      ∀ q, ¬ dest <:+ q → (stageLink dest st ref).1.fs.get q = st.fs.get q) := by
  unfold stageLink
  split
  · rename_i b hb
    split
    · exact Or.inl ⟨rfl, rfl⟩
    · refine Or.inr ⟨b, rfl, rfl, ?_⟩
      intro q hq
      show (st.fs.put (b :: dest) _).get q = st.fs.get q
      rw [get_put]
      split
      · rename_i heq; subst heq; exact absurd (under_cons b (List.suffix_refl dest)) hq
      · rfl
  · exact Or.inl ⟨rfl, rfl⟩

/-- deployment alone (a package object built without `Manifest.validate`) is confined as well -/
theorem deploy_confined (target : Path) (fs : Fs) (es : List Entry) (confIsKey : Bool)
    (hanc : ∀ q, q <:+ target → q ≠ [] → fs.get q ≠ none)
    (hfiles : ∀ p ino, target <:+ p → fs.get p = some (Node.file ino) → target <:+ ino) :
    (∀ p ∈ (deploy true target ⟨fs, []⟩ es confIsKey).1.log, target <:+ p) ∧
    (∀ q, ¬ target <:+ q → (deploy true target ⟨fs, []⟩ es confIsKey).1.fs.get q = fs.get q) := by
  have hg0 : DGood target fs ⟨fs, []⟩ := ⟨(by intro p hp; cases hp), (by intro q _; rfl), hanc, hfiles⟩
  unfold deploy
  cases h1 : deployAll true target ⟨fs, []⟩ es with
  | mk st1 e1 =>
    have hg1 := deployAll_good es _ _ _ hg0 h1
    cases e1 with
    | some x => exact ⟨hg1.log, hg1.frame⟩
    | none =>
      simp only
      have hg2 := deployConf_good hg1 (k := confIsKey) rfl
      exact ⟨hg2.log, hg2.frame⟩

/-- **manifest_confined** (full statement, repaired code).  For *every* manifest (any keys, nested or with
`..`, any mix of copy and link entries, any order) deployed into an instance directory `target` that exists
together with its ancestors (`hanc`) and holds no hard link to the outside (`hfiles`; true of a new instance
directory), loading + deployment creates or modifies only locations under `target` and leaves every other
location as it was — including the source folders that link entries point to. -/
theorem manifest_confined (target : Path) (fs : Fs) (es : List Entry) (confIsKey : Bool)
    (hanc : ∀ q, q <:+ target → q ≠ [] → fs.get q ≠ none)
    (hfiles : ∀ p ino, target <:+ p → fs.get p = some (Node.file ino) → target <:+ ino) :
    (∀ p ∈ (loadAndDeploy true target ⟨fs, []⟩ es confIsKey).1.log, target <:+ p) ∧
    (∀ q, ¬ target <:+ q → (loadAndDeploy true target ⟨fs, []⟩ es confIsKey).1.fs.get q = fs.get q) := by
  have hl : loadAndDeploy true target ⟨fs, []⟩ es confIsKey =
      if validateFixed es then deploy true target ⟨fs, []⟩ es confIsKey else (⟨fs, []⟩, some Err.rejected) := by
    simp [loadAndDeploy]
  rw [hl]
  split
  · exact deploy_confined target fs es confIsKey hanc hfiles
  · exact ⟨(by intro p hp; cases hp), (by intro q _; rfl)⟩

/-- a manifest with an absolute key or a key with a `..` component is refused at load, nothing is deployed -/
theorem manifest_offending_key_rejected (target : Path) (st : St) (es : List Entry) (k : Bool) (e : Entry)
    (he : e ∈ es) (h : descending e.key = false) :
    loadAndDeploy true target st es k = (st, some Err.rejected) := by
  have : validateFixed es = false := by
    cases hv : validateFixed es with
    | false => rfl
    | true => have := List.all_eq_true.mp hv e he; simp_all
  simp [loadAndDeploy, this]

/-! ### the hypotheses are satisfiable and the statements are not vacuous -/

/-- sandbox used in the examples: `/i/w` is the working directory, `/o` is outside -/
def exFs : Fs := [([['w'], ['i']], Node.dir), ([['i']], Node.dir), ([['o']], Node.dir), ([['v'], ['o']], Node.file [['v'], ['o']])]
def exDest : Path := [['w'], ['i']]

example : Safe exDest exFs := by
  intro p n hp hget
  simp only [exFs, Fs.get] at hget
  split at hget
  · cases hget; trivial
  · split at hget
    · cases hget; trivial
    · split at hget
      · cases hget; trivial
      · split at hget
        · rename_i h; subst h; exact absurd hp (by decide)
        · cases hget

/-- an archive with a directory, a nested file, a descending symlink, a file written *through* that symlink
and a hard link is accepted by the repaired check and extracted (7 locations touched, no error) -/
example :
    let ms := [Member.dir ⟨false, [Seg.name ['d']]⟩, Member.file ⟨false, [Seg.name ['d'], Seg.name ['x']]⟩,
               Member.sym ⟨false, [Seg.name ['l']]⟩ ⟨false, [Seg.name ['d']]⟩,
               Member.file ⟨false, [Seg.name ['l'], Seg.name ['y']]⟩,
               Member.hard ⟨false, [Seg.name ['h']]⟩ ⟨false, [Seg.name ['d'], Seg.name ['x']]⟩,
               Member.file ⟨false, [Seg.name ['h']]⟩]
    checkFixed exDest ms = true ∧ (stageExtractFixed exDest ⟨exFs, []⟩ ms).2 = none ∧
    (stageExtractFixed exDest ⟨exFs, []⟩ ms).1.log.length = 7 ∧
    (stageExtractFixed exDest ⟨exFs, []⟩ ms).1.fs.get [['y'], ['d'], ['w'], ['i']] = some (Node.file [['y'], ['d'], ['w'], ['i']]) := by
  decide

/-- parsing of names as they appear in archives -/
example : parsePath ['.', '.', '/', 'e'] = ⟨false, [Seg.up, Seg.name ['e']]⟩ := by decide
example : parsePath ['/', 'a', '/', '/', '.', '/', 'b', '/'] = ⟨true, [Seg.name ['a'], Seg.name ['b']]⟩ := by decide

/-- the hypotheses of `manifest_confined` hold in the sandbox, and a manifest with a nested copy key and a
link key is deployed (with `conf/flowir_package.yaml`) -/
example : (∀ q, q <:+ exDest → q ≠ [] → exFs.get q ≠ none) := by
  intro q hq hne
  have : q = exDest ∨ q = [['i']] ∨ q = [] := by
    simp only [exDest] at hq ⊢
    rcases List.suffix_cons_iff.mp hq with h | h
    · exact Or.inl h
    · rcases List.suffix_cons_iff.mp h with h | h
      · exact Or.inr (Or.inl h)
      · exact Or.inr (Or.inr (List.suffix_nil.mp h))
  rcases this with rfl | rfl | rfl
  · decide
  · decide
  · exact absurd rfl hne

example :
    let es := [Entry.mk ⟨false, [Seg.name ['a'], Seg.name ['b']]⟩ [Seg.name ['o']] Method.copy,
               Entry.mk ⟨false, [Seg.name ['k']]⟩ [Seg.name ['o']] Method.link]
    (loadAndDeploy true exDest ⟨exFs, []⟩ es false).2 = none ∧
    (loadAndDeploy true exDest ⟨exFs, []⟩ es false).1.log.length = 6 := by
  decide

end St4sd.C18
