import St4sd.Lemmas.C18Confine
/-!
# C18 — Staging and deployment never write outside their target directory

Property theorems about the model `St4sd.Confine` (`Model/Confine.lean`); the invariants (`Safe`, `Good`,
`DGood`) and the lemmas that carry them through each operation are in `Lemmas/C18Confine.lean`.

Reading guide: locations are reversed component lists, `dest <:+ p` says "`p` is `dest` or lies below it".
`st.log` is the list of every physical location an operation created or modified (following symbolic links
and hard links the way the kernel does), `Frame dest fs0 fs` says that no location outside `dest` differs
between `fs0` and `fs`.
-/
namespace St4sd.C18
open St4sd.Confine St4sd.Str

/-- **extract_confined** (full statement, repaired check).  For *every* archive (any member names, any link
targets, any order) and every initial state in which the working directory holds no escaping link
(`Safe`: links under `dest` are relative without `..`, no file under `dest` is a hard link to the outside —
true of a freshly created working directory), staging by extraction
* creates or modifies only locations under `dest`,
* leaves every location outside `dest` exactly as it was, and
* re-establishes `Safe` (so the statement composes over any number of extract stagings),
whether the archive is accepted, rejected, or extraction stops with an error half-way.

**Hypothesis gap (known finding `C18-extract-through-staged-link`).**  `Safe` is not a formality: `Job.stageIn`
stages all references of a component into the same working directory, and a reference staged with `:link`
(`stageLink`) leaves an absolute link there.  That state is not `Safe`
(`Witness.C18.linked_state_not_safe`), and an archive extracted afterwards with a member `<link name>/evil`
is accepted by the repaired check and written through the link, outside `dest`
(`Witness.C18.link_then_extract_escapes`, also via a descending archive link:
`link_then_extract_escapes_via_descending_member_link`).  The theorem therefore covers working directories that
hold only what copy staging and earlier (checked) extractions put there — `copy_confined` and the third conjunct
keep `Safe` — not directories that also hold link-staged inputs.  The harness generates exactly those states
(real `StageReference(…:link)` before the archive) and reports the escapes under the slug
`extract-writes-through-staged-link`. -/
theorem extract_confined (dest : Path) (fs : Fs) (ms : List Member) (hs : Safe dest fs) :
    (∀ p ∈ (stageExtractFixed dest ⟨fs, []⟩ ms).1.log, dest <:+ p) ∧
    (∀ q, ¬ dest <:+ q → (stageExtractFixed dest ⟨fs, []⟩ ms).1.fs.get q = fs.get q) ∧
    Safe dest (stageExtractFixed dest ⟨fs, []⟩ ms).1.fs := by
  have hg0 : Good dest fs ⟨fs, []⟩ := good_init hs
  unfold stageExtractFixed
  split
  · rename_i hc
    have hrel : ∀ m ∈ ms.map (relativize dest), MemberRel m := by
      intro m hm
      obtain ⟨m0, hm0, rfl⟩ := List.mem_map.mp hm
      exact memberRel_of_ok (List.all_eq_true.mp hc m0 hm0)
    have hg := extractAll_good (ms.map (relativize dest)) ⟨fs, []⟩ _ _ hg0 hrel rfl
    exact ⟨hg.log, hg.frame, hg.safe⟩
  · exact ⟨hg0.log, hg0.frame, hg0.safe⟩

/-- the same over a whole history of extract stagings into the same working directory -/
theorem extract_sequence_confined (dest : Path) (fs0 : Fs) :
    ∀ (archives : List (List Member)) (st : St), Good dest fs0 st →
      Good dest fs0 (archives.foldl (fun st ms => (stageExtractFixed dest st ms).1) st) := by
  intro archives
  induction archives with
  | nil => intro st hg; exact hg
  | cons ms rest ih =>
    intro st hg
    simp only [List.foldl_cons]
    apply ih
    unfold stageExtractFixed
    split
    · rename_i hc
      have hrel : ∀ m ∈ ms.map (relativize dest), MemberRel m := by
        intro m hm
        obtain ⟨m0, hm0, rfl⟩ := List.mem_map.mp hm
        exact memberRel_of_ok (List.all_eq_true.mp hc m0 hm0)
      exact extractAll_good (ms.map (relativize dest)) st _ _ hg hrel rfl
    · exact hg

/-- offending archives are rejected before anything is touched: a rejected archive leaves state and log as
they were and reports `rejected` (the code raises `tarfile.ReadError`, reported as
`DataReferenceCouldNotStageError`) -/
theorem rejected_touches_nothing (dest : Path) (st : St) (ms : List Member) (h : checkFixed dest ms = false) :
    stageExtractFixed dest st ms = (st, some Err.rejected) := by
  simp [stageExtractFixed, h]

/-- a member whose name has a `..` component below `dest` makes the archive offending -/
theorem parent_segment_rejected (dest : Path) (ms : List Member) (m : Member) (hm : m ∈ ms)
    (h : allNames (below dest m.name) = false) : checkFixed dest ms = false := by
  cases hc : checkFixed dest ms with
  | false => rfl
  | true =>
    have := List.all_eq_true.mp hc m hm
    cases m <;> simp [memberOk, Member.name] at this h <;> simp_all

/-- an absolute member name that does not lie under `dest` makes the archive offending -/
theorem absolute_outside_rejected (dest : Path) (ms : List Member) (m : Member) (hm : m ∈ ms)
    (h : prefixOk dest m.name = false) : checkFixed dest ms = false := by
  cases hc : checkFixed dest ms with
  | false => rfl
  | true =>
    have := List.all_eq_true.mp hc m hm
    cases m <;> simp [memberOk, Member.name] at this h <;> simp_all

/-- a symlink or hardlink member whose target is absolute or has a `..` component makes the archive offending -/
theorem escaping_link_rejected (dest : Path) (ms : List Member) (n t : RawPath)
    (hm : Member.sym n t ∈ ms ∨ Member.hard n t ∈ ms) (h : descending t = false) : checkFixed dest ms = false := by
  cases hc : checkFixed dest ms with
  | false => rfl
  | true =>
    rcases hm with hm | hm <;>
    · have := List.all_eq_true.mp hc _ hm
      simp [memberOk] at this
      simp_all

/-- **link targets are judged by their text, never by normalisation.**  The repaired check is *exactly* the
textual-normalisation check (`checkNormpath`: link target relative and, after `os.path.normpath` against the
directory holding the link, still under `dest`) together with "no link target has a `..` component or is
absolute" — for every archive.  So the two checks differ precisely on archives with a link member whose target
has a `..` component that normalises away; `Witness.C18.normpath_link_rule_unsound_*` show that on those the
textual rule lets chains of links (members placed through earlier link members) out of `dest`. -/
theorem checkFixed_eq_normpath_and_descending (dest : Path) (ms : List Member) :
    checkFixed dest ms = (checkNormpath dest ms && ms.all linkTargetDescending) := by
  unfold checkFixed checkNormpath
  induction ms with
  | nil => rfl
  | cons m r ih =>
    simp only [List.all_cons, ih, memberOk_eq dest m]
    cases memberOkNormpath dest m <;> cases linkTargetDescending m <;> simp

/-- everything the repaired check accepts, the textual-normalisation check accepts as well (the relaxation is
a relaxation), … -/
theorem checkFixed_imp_checkNormpath (dest : Path) (ms : List Member) (h : checkFixed dest ms = true) :
    checkNormpath dest ms = true := by
  rw [checkFixed_eq_normpath_and_descending] at h
  exact (Bool.and_eq_true_iff.mp h).1

/-- … and on archives whose link members all have descending targets (in particular archives without link
members) the two checks agree, so `extract_confined` transfers: extraction guarded by the textual rule is
confined **provided** no link target has a `..` component — for chains of any depth, links placed through
earlier links, hard links to earlier links included. -/
theorem normpath_confined_when_targets_descend (dest : Path) (fs : Fs) (ms : List Member) (hs : Safe dest fs)
    (hd : ms.all linkTargetDescending = true) :
    (∀ p ∈ (stageExtractNormpath dest ⟨fs, []⟩ ms).1.log, dest <:+ p) ∧
    (∀ q, ¬ dest <:+ q → (stageExtractNormpath dest ⟨fs, []⟩ ms).1.fs.get q = fs.get q) ∧
    Safe dest (stageExtractNormpath dest ⟨fs, []⟩ ms).1.fs := by
  have he : stageExtractNormpath dest ⟨fs, []⟩ ms = stageExtractFixed dest ⟨fs, []⟩ ms := by
    unfold stageExtractNormpath stageExtractFixed
    rw [checkFixed_eq_normpath_and_descending, hd, Bool.and_true]
  rw [he]
  exact extract_confined dest fs ms hs

/-- a link member placed *through* an earlier link member (its name continues the name of the earlier link)
with a `..` in its target makes the archive offending, however confined the target looks textually: the
second link of the chain `a/s -> ..`, `a/s/esc -> ..` is refused although `normpath("a/s/..") = "a"` -/
theorem through_link_member_rejected (dest : Path) (pre post : List Member) (n : RawPath) (through : List Seg)
    (t1 t2 : RawPath) (h : allNames t2.segs = false) :
    checkFixed dest (pre ++ [Member.sym n t1, Member.sym ⟨n.abs, n.segs ++ through⟩ t2] ++ post) = false :=
  escaping_link_rejected dest _ ⟨n.abs, n.segs ++ through⟩ t2
    (Or.inl (by simp)) (by simp [descending, h])

/-- **copy_link_confined**, copy half: copy staging of a file or directory writes `dest/basename(ref)` (and
below it) only — in a `Safe` working directory also when that name already exists as a link. -/
theorem copy_confined (dest : Path) (fs0 : Fs) (st : St) (ref : S) (k : RefKind) (hg : Good dest fs0 st) :
    Good dest fs0 (stageCopy dest st ref k).1 := by
  unfold stageCopy
  split
  · rename_i b hb
    cases k with
    | file =>
      simp only
      exact writeFile_good hg (List.suffix_refl dest) rfl
    | dir =>
      simp only
      split
      · exact hg
      · have h1 := good_put hg (under_cons b (List.suffix_refl dest)) (n := Node.dir) trivial
        exact good_put h1 (under_cons ['f'] (under_cons b (List.suffix_refl dest)))
          (n := Node.file (['f'] :: b :: dest)) (under_cons ['f'] (under_cons b (List.suffix_refl dest)))
  · exact hg

/-- **copy_link_confined**, link half: link staging creates exactly one entry, `dest/basename(ref)`, or fails
without touching anything; nothing outside `dest` changes (no hypothesis on the state). -/
theorem link_confined (dest : Path) (st : St) (ref : S) :
    ((stageLink dest st ref).1 = st ∧ (stageLink dest st ref).2 = some Err.os) ∨
    (∃ b, (stageLink dest st ref).1.log = (b :: dest) :: st.log ∧ (stageLink dest st ref).2 = none ∧
      ∀ q, ¬ dest <:+ q → (stageLink dest st ref).1.fs.get q = st.fs.get q) := by
  unfold stageLink
  split
  · rename_i b hb
    split
    · exact Or.inl ⟨rfl, rfl⟩
    · refine Or.inr ⟨b, rfl, rfl, ?_⟩
      intro q hq
      show (st.fs.put (b :: dest) _).get q = st.fs.get q
      rw [get_put]
      split
      · rename_i heq; subst heq; exact absurd (under_cons b (List.suffix_refl dest)) hq
      · rfl
  · exact Or.inl ⟨rfl, rfl⟩

/-- deployment alone (a package object built without `Manifest.validate`) is confined as well -/
theorem deploy_confined (target : Path) (fs : Fs) (es : List Entry) (confIsKey : Bool)
    (hanc : ∀ q, q <:+ target → q ≠ [] → fs.get q ≠ none)
    (hfiles : ∀ p ino, target <:+ p → fs.get p = some (Node.file ino) → target <:+ ino) :
    (∀ p ∈ (deploy true target ⟨fs, []⟩ es confIsKey).1.log, target <:+ p) ∧
    (∀ q, ¬ target <:+ q → (deploy true target ⟨fs, []⟩ es confIsKey).1.fs.get q = fs.get q) := by
  have hg0 : DGood target fs ⟨fs, []⟩ := ⟨(by intro p hp; cases hp), (by intro q _; rfl), hanc, hfiles⟩
  unfold deploy
  cases h1 : deployAll true target ⟨fs, []⟩ es with
  | mk st1 e1 =>
    have hg1 := deployAll_good es _ _ _ hg0 h1
    cases e1 with
    | some x => exact ⟨hg1.log, hg1.frame⟩
    | none =>
      simp only
      have hg2 := deployConf_good hg1 (k := confIsKey) rfl
      exact ⟨hg2.log, hg2.frame⟩

/-- **manifest_confined** (full statement, repaired code).  For *every* manifest (any keys, nested or with
`..`, any mix of copy and link entries, any order) deployed into an instance directory `target` that exists
together with its ancestors (`hanc`) and holds no hard link to the outside (`hfiles`; true of a new instance
directory), loading + deployment creates or modifies only locations under `target` and leaves every other
location as it was — including the source folders that link entries point to. -/
theorem manifest_confined (target : Path) (fs : Fs) (es : List Entry) (confIsKey : Bool)
    (hanc : ∀ q, q <:+ target → q ≠ [] → fs.get q ≠ none)
    (hfiles : ∀ p ino, target <:+ p → fs.get p = some (Node.file ino) → target <:+ ino) :
    (∀ p ∈ (loadAndDeploy true target ⟨fs, []⟩ es confIsKey).1.log, target <:+ p) ∧
    (∀ q, ¬ target <:+ q → (loadAndDeploy true target ⟨fs, []⟩ es confIsKey).1.fs.get q = fs.get q) := by
  have hl : loadAndDeploy true target ⟨fs, []⟩ es confIsKey =
      if validateFixed es then deploy true target ⟨fs, []⟩ es confIsKey else (⟨fs, []⟩, some Err.rejected) := by
    simp [loadAndDeploy]
  rw [hl]
  split
  · exact deploy_confined target fs es confIsKey hanc hfiles
  · exact ⟨(by intro p hp; cases hp), (by intro q _; rfl)⟩

/-- a manifest with an absolute key or a key with a `..` component is refused at load, nothing is deployed -/
theorem manifest_offending_key_rejected (target : Path) (st : St) (es : List Entry) (k : Bool) (e : Entry)
    (he : e ∈ es) (h : descending e.key = false) :
    loadAndDeploy true target st es k = (st, some Err.rejected) := by
  have : validateFixed es = false := by
    cases hv : validateFixed es with
    | false => rfl
    | true => have := List.all_eq_true.mp hv e he; simp_all
  simp [loadAndDeploy, this]

/-! ### the string test of the code is the component test of the model -/

private theorem isPrefixOf_name_sep (x y r1 r2 : S) (hx : '/' ∉ x) (hy : '/' ∉ y) :
    (x ++ '/' :: r1).isPrefixOf (y ++ '/' :: r2) = (x == y && r1.isPrefixOf r2) := by
  induction x generalizing y with
  | nil =>
    cases y with
    | nil => simp
    | cons d y' =>
      have hd : d ≠ '/' := fun e => hy (by simp [e])
      have : ('/' == d) = false := by simpa using Ne.symm hd
      simp [List.isPrefixOf_cons_cons, this]
  | cons c x' ih =>
    have hc : c ≠ '/' := fun e => hx (by simp [e])
    have hx' : '/' ∉ x' := fun e => hx (by simp [e])
    cases y with
    | nil =>
      have : (c == '/') = false := by simpa using hc
      simp [List.isPrefixOf_cons_cons, this]
    | cons d y' =>
      have hy' : '/' ∉ y' := fun e => hy (by simp [e])
      simp only [List.cons_append, List.isPrefixOf_cons_cons, ih y' hx' hy']
      by_cases hcd : c = d
      · subst hcd; simp
      · have : (c == d) = false := by simpa using hcd
        simp [this, hcd]

private theorem compsText_sep_head (l : List S) : ∃ r, compsText l ++ ['/'] = '/' :: r := by
  cases l with
  | nil => exact ⟨[], rfl⟩
  | cons x l' => exact ⟨x ++ compsText l' ++ ['/'], by simp [compsText]⟩

private theorem compsText_prefix (a b : List S) (h : ∀ x ∈ a ++ b, '/' ∉ x) :
    (compsText a ++ ['/']).isPrefixOf (compsText b ++ ['/']) = a.isPrefixOf b := by
  induction a generalizing b with
  | nil =>
    obtain ⟨r, hr⟩ := compsText_sep_head b
    simp [compsText, hr]
  | cons x a' ih =>
    cases b with
    | nil =>
      obtain ⟨r, hr⟩ := compsText_sep_head a'
      have hne : x ++ '/' :: r ≠ [] := by simp
      cases hxr : x ++ '/' :: r with
      | nil => exact absurd hxr hne
      | cons c t => simp [compsText, hr, hxr, List.isPrefixOf_cons_cons, List.isPrefixOf]
    | cons y b' =>
      have hx : '/' ∉ x := h x (by simp)
      have hy : '/' ∉ y := h y (by simp)
      have h' : ∀ z ∈ a' ++ b', '/' ∉ z := by
        intro z hz
        apply h z
        rcases List.mem_append.mp hz with hz | hz
        · simp [hz]
        · simp [hz]
      obtain ⟨r1, hr1⟩ := compsText_sep_head a'
      obtain ⟨r2, hr2⟩ := compsText_sep_head b'
      have ih' := ih b' h'
      rw [hr1, hr2] at ih'
      simp only [List.isPrefixOf_cons_cons, beq_self_eq_true, Bool.true_and] at ih'
      simp only [compsText, List.cons_append, List.append_assoc, List.isPrefixOf_cons_cons, beq_self_eq_true,
        Bool.true_and, hr1, hr2]
      rw [isPrefixOf_name_sep x y r1 r2 hx hy, ih']

/-- **The string comparison the code performs is the comparison of the model**: for locations whose component
names contain no separator (every real path), "`realpath(dest) + '/'` is the common prefix of itself and
`realpath(p) + '/'`" holds exactly when `p` is `dest` or lies below it component-wise.  The appended separator
is what makes the character-wise test a component-wise one. -/
theorem underTextSep_eq_under (dest p : Path) (h : ∀ x ∈ dest ++ p, '/' ∉ x) :
    underTextSep dest p = under dest p := by
  unfold underTextSep under pathText
  rw [compsText_prefix dest.reverse p.reverse (by
    intro x hx
    apply h x
    rcases List.mem_append.mp hx with hx | hx
    · exact List.mem_append.mpr (Or.inl (List.mem_reverse.mp hx))
    · exact List.mem_append.mpr (Or.inr (List.mem_reverse.mp hx)))]
  rfl

private theorem compsText_append (a b : List S) : compsText (a ++ b) = compsText a ++ compsText b := by
  induction a with
  | nil => rfl
  | cons x a' ih => simp [compsText, ih]

/-- without the separator the string test is only NECESSARY: everything under `dest` passes it … (what else
passes: `Witness.C18.string_prefix_accepts_sibling`) -/
theorem under_imp_underText (dest p : Path) (h : under dest p = true) : underText dest p = true := by
  unfold under at h
  unfold underText pathText
  have hs : dest <:+ p := by simpa using h
  obtain ⟨t, ht⟩ := hs
  rw [← ht, List.reverse_append, compsText_append]
  simp

/-- the parametrised deployment step with the component test is the repaired code -/
theorem deployOneWith_under (target : Path) (st : St) (e : Entry) :
    deployOneWith under target st e = deployOne true target st e := by
  unfold deployOneWith deployOne
  simp only [Bool.true_and, Bool.true_eq_false, if_false]
  rfl

theorem deployAllWith_under (target : Path) (es : List Entry) :
    ∀ st, deployAllWith under target st es = deployAll true target st es := by
  induction es with
  | nil => intro st; rfl
  | cons e es ih =>
    intro st
    simp only [deployAllWith, deployAll, deployOneWith_under]
    cases deployOne true target st e with
    | mk st1 r =>
      cases r with
      | none => exact ih st1
      | some x => rfl

/-! ### the hypotheses are satisfiable and the statements are not vacuous -/

/-- sandbox used in the examples: `/i/w` is the working directory, `/o` is outside -/
def exFs : Fs := [([['w'], ['i']], Node.dir), ([['i']], Node.dir), ([['o']], Node.dir), ([['v'], ['o']], Node.file [['v'], ['o']])]
def exDest : Path := [['w'], ['i']]

example : Safe exDest exFs := by
  intro p n hp hget
  simp only [exFs, Fs.get] at hget
  split at hget
  · cases hget; trivial
  · split at hget
    · cases hget; trivial
    · split at hget
      · cases hget; trivial
      · split at hget
        · rename_i h; subst h; exact absurd hp (by decide)
        · cases hget

/-- an archive with a directory, a nested file, a descending symlink, a file written *through* that symlink
and a hard link is accepted by the repaired check and extracted (7 locations touched, no error) -/
example :
    let ms := [Member.dir ⟨false, [Seg.name ['d']]⟩, Member.file ⟨false, [Seg.name ['d'], Seg.name ['x']]⟩,
               Member.sym ⟨false, [Seg.name ['l']]⟩ ⟨false, [Seg.name ['d']]⟩,
               Member.file ⟨false, [Seg.name ['l'], Seg.name ['y']]⟩,
               Member.hard ⟨false, [Seg.name ['h']]⟩ ⟨false, [Seg.name ['d'], Seg.name ['x']]⟩,
               Member.file ⟨false, [Seg.name ['h']]⟩]
    checkFixed exDest ms = true ∧ (stageExtractFixed exDest ⟨exFs, []⟩ ms).2 = none ∧
    (stageExtractFixed exDest ⟨exFs, []⟩ ms).1.log.length = 7 ∧
    (stageExtractFixed exDest ⟨exFs, []⟩ ms).1.fs.get [['y'], ['d'], ['w'], ['i']] = some (Node.file [['y'], ['d'], ['w'], ['i']]) := by
  decide

/-- links placed through earlier links, a hard link to an earlier link: with descending targets such a chain
is accepted by both checks and extracted — `l -> d`, `l/m -> e` is created as `d/m`, `l/m/y` lands in `d/e/y`,
`h` becomes a second name of the link `d/m` -/
example :
    let ms := [Member.dir ⟨false, [Seg.name ['d'], Seg.name ['e']]⟩,
               Member.sym ⟨false, [Seg.name ['l']]⟩ ⟨false, [Seg.name ['d']]⟩,
               Member.sym ⟨false, [Seg.name ['l'], Seg.name ['m']]⟩ ⟨false, [Seg.name ['e']]⟩,
               Member.file ⟨false, [Seg.name ['l'], Seg.name ['m'], Seg.name ['y']]⟩,
               Member.hard ⟨false, [Seg.name ['h']]⟩ ⟨false, [Seg.name ['l'], Seg.name ['m']]⟩]
    checkFixed exDest ms = true ∧ checkNormpath exDest ms = true ∧ ms.all linkTargetDescending = true ∧
    (stageExtractNormpath exDest ⟨exFs, []⟩ ms).2 = none ∧
    (stageExtractNormpath exDest ⟨exFs, []⟩ ms).1.fs.get [['m'], ['d'], ['w'], ['i']] = some (Node.link false [Seg.name ['e']]) ∧
    (stageExtractNormpath exDest ⟨exFs, []⟩ ms).1.fs.get [['y'], ['e'], ['d'], ['w'], ['i']] =
      some (Node.file [['y'], ['e'], ['d'], ['w'], ['i']]) ∧
    (stageExtractNormpath exDest ⟨exFs, []⟩ ms).1.fs.get [['h'], ['w'], ['i']] = some (Node.link false [Seg.name ['e']]) := by
  decide

/-- the two checks really differ: `lib/x -> ../lib64/x` is textually confined and refused by the repaired check -/
example :
    let ms := [Member.sym ⟨false, [Seg.name ['l'], Seg.name ['x']]⟩ ⟨false, [Seg.up, Seg.name ['k'], Seg.name ['x']]⟩]
    checkNormpath exDest ms = true ∧ checkFixed exDest ms = false ∧ ms.all linkTargetDescending = false := by
  decide

/-- parsing of names as they appear in archives -/
example : parsePath ['.', '.', '/', 'e'] = ⟨false, [Seg.up, Seg.name ['e']]⟩ := by decide
example : parsePath ['/', 'a', '/', '/', '.', '/', 'b', '/'] = ⟨true, [Seg.name ['a'], Seg.name ['b']]⟩ := by decide

/-- the hypotheses of `manifest_confined` hold in the sandbox, and a manifest with a nested copy key and a
link key is deployed (with `conf/flowir_package.yaml`) -/
example : (∀ q, q <:+ exDest → q ≠ [] → exFs.get q ≠ none) := by
  intro q hq hne
  have : q = exDest ∨ q = [['i']] ∨ q = [] := by
    simp only [exDest] at hq ⊢
    rcases List.suffix_cons_iff.mp hq with h | h
    · exact Or.inl h
    · rcases List.suffix_cons_iff.mp h with h | h
      · exact Or.inr (Or.inl h)
      · exact Or.inr (Or.inr (List.suffix_nil.mp h))
  rcases this with rfl | rfl | rfl
  · decide
  · decide
  · exact absurd rfl hne

example :
    let es := [Entry.mk ⟨false, [Seg.name ['a'], Seg.name ['b']]⟩ [Seg.name ['o']] Method.copy,
               Entry.mk ⟨false, [Seg.name ['k']]⟩ [Seg.name ['o']] Method.link]
    (loadAndDeploy true exDest ⟨exFs, []⟩ es false).2 = none ∧
    (loadAndDeploy true exDest ⟨exFs, []⟩ es false).1.log.length = 6 := by
  decide

end St4sd.C18
