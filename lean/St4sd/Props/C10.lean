import St4sd.Model.ArgSubst
import St4sd.Lemmas.C10Spell
import St4sd.Lemmas.C10Order
import St4sd.Lemmas.C10History
/-!
# C10 — Command-line reference substitution is exact

Theorems about `St4sd.ArgSubst.resolve`, the model of the repaired
`ComponentSpecification.resolveArguments` (single pass, longest spelling first).  The algorithm before the
repair is `resolveOld`; it violates the statement (see `St4sd.Witness.C10`).
-/
namespace St4sd.C10
open St4sd.Str St4sd.ArgSubst

/-! ### helpers -/

private theorem parseAux_nil (es : List (S × S)) (n : Nat) : parseAux es n [] = [] := by
  cases n <;> simp [parseAux]

private theorem parseAux_skip (es : List (S × S)) (s : S) :
    ∀ n, parseAux es n s = parseAux es 0 (s.drop n) := by
  induction s with
  | nil => intro n; simp [parseAux_nil]
  | cons c t ih =>
    intro n
    cases n with
    | zero => simp
    | succ m => simp only [parseAux, List.drop_succ_cons]; exact ih m

private theorem prefix_eq_of_length_eq {a b r : S} (ha : a.isPrefixOf r = true) (hb : b.isPrefixOf r = true)
    (hl : a.length = b.length) : a = b := by
  rw [List.isPrefixOf_iff_prefix] at ha hb
  have h1 : a <+: b := List.prefix_of_prefix_length_le ha hb (by omega)
  exact h1.eq_of_length hl

private theorem isEmpty_false_iff (k : S) : (!k.isEmpty) = true ↔ k ≠ [] := by
  cases k <;> simp

/-- `best` finds nothing exactly when no (non-empty) spelling starts here -/
theorem best_none_iff (es : List (S × S)) (rest : S) :
    best es rest = none ↔ ∀ e ∈ es, e.1 ≠ [] → e.1.isPrefixOf rest = false := by
  induction es with
  | nil => simp [best]
  | cons e es ih =>
    obtain ⟨k, v⟩ := e
    simp only [best]
    by_cases hm : (!k.isEmpty && k.isPrefixOf rest) = true
    · rw [if_pos hm]
      have hm' := hm
      simp only [Bool.and_eq_true, isEmpty_false_iff] at hm'
      constructor
      · intro h
        cases hb : best es rest with
        | none => rw [hb] at h; simp at h
        | some p =>
          obtain ⟨k', v'⟩ := p
          rw [hb] at h
          simp only at h
          split at h <;> simp at h
      · intro h
        have := h (k, v) (by simp) hm'.1
        rw [hm'.2] at this
        simp at this
    · rw [if_neg hm, ih]
      constructor
      · intro h e he hne
        rcases List.mem_cons.mp he with rfl | he'
        · simp only [Bool.and_eq_true, isEmpty_false_iff, not_and, Bool.not_eq_true] at hm
          exact hm hne
        · exact h e he' hne
      · intro h e he hne
        exact h e (List.mem_cons_of_mem _ he) hne

/-- what `best` returns is a declared, non-empty spelling that starts here and no longer one does -/
theorem best_some_spec (es : List (S × S)) (rest k v : S) (h : best es rest = some (k, v)) :
    (k, v) ∈ es ∧ k ≠ [] ∧ k.isPrefixOf rest = true ∧
    (∀ e ∈ es, e.1 ≠ [] → e.1.isPrefixOf rest = true → e.1.length ≤ k.length) := by
  induction es generalizing k v with
  | nil => simp [best] at h
  | cons e es ih =>
    obtain ⟨k0, v0⟩ := e
    simp only [best] at h
    by_cases hm : (!k0.isEmpty && k0.isPrefixOf rest) = true
    · rw [if_pos hm] at h
      have hm' := hm
      simp only [Bool.and_eq_true, isEmpty_false_iff] at hm'
      cases hb : best es rest with
      | none =>
        rw [hb] at h
        simp only [Option.some.injEq, Prod.mk.injEq] at h
        obtain ⟨rfl, rfl⟩ := h
        refine ⟨by simp, hm'.1, hm'.2, ?_⟩
        intro e he hne hp
        rcases List.mem_cons.mp he with rfl | he'
        · exact Nat.le_refl _
        · have := (best_none_iff es rest).mp hb e he' hne
          rw [hp] at this; simp at this
      | some p =>
        obtain ⟨k', v'⟩ := p
        rw [hb] at h
        obtain ⟨hmem, hne', hp', hlong⟩ := ih k' v' hb
        simp only at h
        by_cases hlt : k0.length < k'.length
        · rw [if_pos hlt] at h
          simp only [Option.some.injEq, Prod.mk.injEq] at h
          obtain ⟨rfl, rfl⟩ := h
          refine ⟨List.mem_cons_of_mem _ hmem, hne', hp', ?_⟩
          intro e he hne hp
          rcases List.mem_cons.mp he with rfl | he'
          · exact Nat.le_of_lt hlt
          · exact hlong e he' hne hp
        · rw [if_neg hlt] at h
          simp only [Option.some.injEq, Prod.mk.injEq] at h
          obtain ⟨rfl, rfl⟩ := h
          refine ⟨by simp, hm'.1, hm'.2, ?_⟩
          intro e he hne hp
          rcases List.mem_cons.mp he with rfl | he'
          · exact Nat.le_refl _
          · have := hlong e he' hne hp
            omega
    · rw [if_neg hm] at h
      obtain ⟨hmem, hne', hp', hlong⟩ := ih k v h
      refine ⟨List.mem_cons_of_mem _ hmem, hne', hp', ?_⟩
      intro e he hne hp
      rcases List.mem_cons.mp he with rfl | he'
      · exfalso
        apply hm
        simp only [Bool.and_eq_true, isEmpty_false_iff]
        exact ⟨hne, hp⟩
      · exact hlong e he' hne hp

/-- the value `best` returns is the dictionary's value for that spelling -/
theorem best_some_dictGet (es : List (S × S)) (rest k v : S) (h : best es rest = some (k, v)) :
    dictGet es k = some v := by
  induction es generalizing k v with
  | nil => simp [best] at h
  | cons e es ih =>
    obtain ⟨k0, v0⟩ := e
    simp only [best] at h
    simp only [dictGet]
    by_cases hm : (!k0.isEmpty && k0.isPrefixOf rest) = true
    · rw [if_pos hm] at h
      have hm' := hm
      simp only [Bool.and_eq_true, isEmpty_false_iff] at hm'
      cases hb : best es rest with
      | none =>
        rw [hb] at h
        simp only [Option.some.injEq, Prod.mk.injEq] at h
        obtain ⟨rfl, rfl⟩ := h
        simp
      | some p =>
        obtain ⟨k', v'⟩ := p
        rw [hb] at h
        simp only at h
        by_cases hlt : k0.length < k'.length
        · rw [if_pos hlt] at h
          simp only [Option.some.injEq, Prod.mk.injEq] at h
          obtain ⟨rfl, rfl⟩ := h
          have hne : k' ≠ k0 := by
            intro heq; rw [heq] at hlt; omega
          rw [if_neg hne]
          exact ih k' v' hb
        · rw [if_neg hlt] at h
          simp only [Option.some.injEq, Prod.mk.injEq] at h
          obtain ⟨rfl, rfl⟩ := h
          simp
    · rw [if_neg hm] at h
      have hs := best_some_spec es rest k v h
      have hne : k ≠ k0 := by
        intro heq
        apply hm
        simp only [Bool.and_eq_true, isEmpty_false_iff]
        rw [← heq]
        exact ⟨hs.2.1, hs.2.2.1⟩
      rw [if_neg hne]
      exact ih k v h

/-- conversely: the longest declared spelling that starts here, with the dictionary's value, is what `best` returns -/
theorem best_of_spec (es : List (S × S)) (rest k v : S) (hne : k ≠ []) (hp : k.isPrefixOf rest = true)
    (hd : dictGet es k = some v)
    (hlong : ∀ e ∈ es, e.1.isPrefixOf rest = true → e.1.length ≤ k.length) :
    best es rest = some (k, v) := by
  induction es with
  | nil => simp [dictGet] at hd
  | cons e es ih =>
    obtain ⟨k0, v0⟩ := e
    simp only [dictGet] at hd
    simp only [best]
    have hlong' : ∀ e ∈ es, e.1.isPrefixOf rest = true → e.1.length ≤ k.length :=
      fun e he => hlong e (List.mem_cons_of_mem _ he)
    by_cases hm : (!k0.isEmpty && k0.isPrefixOf rest) = true
    · rw [if_pos hm]
      have hm' := hm
      simp only [Bool.and_eq_true, isEmpty_false_iff] at hm'
      by_cases hk : k = k0
      · subst hk
        rw [if_pos rfl] at hd
        simp only [Option.some.injEq] at hd
        subst hd
        cases hb : best es rest with
        | none => rfl
        | some p =>
          obtain ⟨k', v'⟩ := p
          have hs := best_some_spec es rest k' v' hb
          have := hlong' (k', v') hs.1 hs.2.2.1
          simp only at this
          simp only
          rw [if_neg (by omega)]
      · rw [if_neg hk] at hd
        rw [ih hd hlong']
        simp only
        have hle := hlong (k0, v0) (by simp) hm'.2
        simp only at hle
        have hlt : k0.length < k.length := by
          rcases Nat.lt_or_ge k0.length k.length with h | h
          · exact h
          · exfalso
            exact hk (prefix_eq_of_length_eq hp hm'.2 (by omega))
        rw [if_pos hlt]
    · rw [if_neg hm]
      have hk : k ≠ k0 := by
        intro heq
        apply hm
        simp only [Bool.and_eq_true, isEmpty_false_iff]
        rw [← heq]
        exact ⟨hne, hp⟩
      rw [if_neg hk] at hd
      exact ih hd hlong'

/-! ### the scan -/

private theorem parse_lit (es : List (S × S)) (c : Char) (s : S) (h : best es (c :: s) = none) :
    parse es (c :: s) = Seg.lit c :: parse es s := by
  simp [parse, parseAux, h]

private theorem parse_tok (es : List (S × S)) (k v rest : S) (hne : k ≠ [])
    (h : best es (k ++ rest) = some (k, v)) :
    parse es (k ++ rest) = Seg.tok k v :: parse es rest := by
  cases k with
  | nil => exact absurd rfl hne
  | cons c k' =>
    simp only [parse, List.cons_append] at h ⊢
    simp only [parseAux, h]
    rw [parseAux_skip]
    simp

/-- **A declared spelling is replaced as a whole, whatever shorter spellings it contains, and its value is
not scanned again**: if `k` is the longest declared spelling starting here, the result is its value followed
by the substitution of the rest. -/
theorem token_replaced_whole (es : List (S × S)) (k v rest : S) (hne : k ≠ [])
    (hd : dictGet es k = some v)
    (hlong : ∀ e ∈ es, e.1.isPrefixOf (k ++ rest) = true → e.1.length ≤ k.length) :
    subst es (k ++ rest) = v ++ subst es rest := by
  have hp : k.isPrefixOf (k ++ rest) = true := by
    rw [List.isPrefixOf_iff_prefix]; exact List.prefix_append k rest
  have hb := best_of_spec es (k ++ rest) k v hne hp hd hlong
  simp [subst, parse_tok es k v rest hne hb, renderV]

/-- **Other text is untouched**: a character at which no declared spelling starts is copied. -/
theorem literal_copied (es : List (S × S)) (c : Char) (s : S)
    (h : ∀ e ∈ es, e.1 ≠ [] → e.1.isPrefixOf (c :: s) = false) :
    subst es (c :: s) = c :: subst es s := by
  have hb := (best_none_iff es (c :: s)).mpr h
  simp [subst, parse_lit es c s hb, renderV]

/-- Uniqueness: a reading of the argument string that satisfies the declarative specification is the one
the single pass computes. -/
theorem parse_unique (es : List (S × S)) (segs : List Seg) (h : IsParse es segs) :
    parse es (renderK segs) = segs := by
  induction segs with
  | nil => simp [renderK, parse, parseAux]
  | cons sg segs ih =>
    cases sg with
    | lit c =>
      obtain ⟨h1, h2⟩ := h
      simp only [renderK]
      rw [parse_lit es c _ ((best_none_iff es _).mpr h1), ih h2]
    | tok k v =>
      obtain ⟨hne, hd, hlong, h2⟩ := h
      simp only [renderK]
      have hp : k.isPrefixOf (k ++ renderK segs) = true := by
        rw [List.isPrefixOf_iff_prefix]; exact List.prefix_append k _
      rw [parse_tok es k v _ hne (best_of_spec es _ k v hne hp hd hlong), ih h2]

/-- **Refinement to simultaneous substitution (full statement).**  Whenever the argument string reads as
literal text and reference tokens (`IsParse`), the resolved string is that reading with every token replaced by
the value of its reference and every other character kept — for every list of references (any names, any
order) and every such string. -/
theorem resolve_exact (refs : List Ref) (segs : List Seg) (h : IsParse (entries refs) segs) :
    (resolve refs (renderK segs)).out = renderV segs := by
  simp [resolve, parse_unique _ _ h]

private theorem renderK_parseAux (es : List (S × S)) (s : S) :
    ∀ n, renderK (parseAux es n s) = s.drop n := by
  induction s with
  | nil => intro n; simp [parseAux_nil, renderK]
  | cons c t ih =>
    intro n
    cases n with
    | succ m => simp only [parseAux, List.drop_succ_cons]; exact ih m
    | zero =>
      simp only [parseAux, List.drop_zero]
      cases hb : best es (c :: t) with
      | none => simp only [renderK, ih 0, List.drop_zero]
      | some p =>
        obtain ⟨k, v⟩ := p
        simp only [renderK, ih]
        obtain ⟨_, hne, hp, _⟩ := best_some_spec es _ k v hb
        rw [List.isPrefixOf_iff_prefix] at hp
        obtain ⟨r, hr⟩ := hp
        cases k with
        | nil => exact absurd rfl hne
        | cons c' k' =>
          simp only [List.cons_append, List.cons.injEq] at hr
          obtain ⟨rfl, rfl⟩ := hr
          simp

/-- **Untouched text.**  The single pass reads the whole argument string: writing the matched spellings back
gives exactly the original string, so the result differs from it only inside matched tokens. -/
theorem renderK_parse (es : List (S × S)) (s : S) : renderK (parse es s) = s := by
  simpa [parse] using renderK_parseAux es s 0

private theorem isParse_parseAux (es : List (S × S)) (s : S) :
    ∀ n, IsParse es (parseAux es n s) := by
  induction s with
  | nil => intro n; simp [parseAux_nil, IsParse]
  | cons c t ih =>
    intro n
    cases n with
    | succ m => simp only [parseAux]; exact ih m
    | zero =>
      simp only [parseAux]
      cases hb : best es (c :: t) with
      | none =>
        simp only [IsParse]
        refine ⟨?_, ih 0⟩
        have := (best_none_iff es (c :: t)).mp hb
        rw [renderK_parseAux, List.drop_zero]
        exact this
      | some p =>
        obtain ⟨k, v⟩ := p
        simp only [IsParse]
        obtain ⟨_, hne, hp, hlong⟩ := best_some_spec es _ k v hb
        have hk : k ++ renderK (parseAux es (k.length - 1) t) = c :: t := by
          rw [renderK_parseAux]
          rw [List.isPrefixOf_iff_prefix] at hp
          obtain ⟨r, hr⟩ := hp
          cases k with
          | nil => exact absurd rfl hne
          | cons c' k' =>
            simp only [List.cons_append, List.cons.injEq] at hr
            obtain ⟨rfl, rfl⟩ := hr
            simp
        refine ⟨hne, best_some_dictGet es _ k v hb, ?_, ih _⟩
        intro e he hpe
        rw [hk] at hpe
        by_cases hne' : e.1 = []
        · rw [hne']; simp
        · exact hlong e he hne' hpe

/-- Existence: the reading computed by the single pass satisfies the declarative specification (so the
hypothesis of `resolve_exact` is satisfiable for every argument string, and by `parse_unique` by exactly one
reading). -/
theorem parse_isParse (es : List (S × S)) (s : S) : IsParse es (parse es s) :=
  isParse_parseAux es s 0

/-- The full statement in one piece: for every reference list and argument string there is a reading of the
string (`renderK segs = args`) that satisfies the specification and whose value rendering is the result. -/
theorem resolve_is_simultaneous_substitution (refs : List Ref) (args : S) :
    ∃ segs, renderK segs = args ∧ IsParse (entries refs) segs ∧ (resolve refs args).out = renderV segs :=
  ⟨parse (entries refs) args, renderK_parse _ _, parse_isParse _ _, rfl⟩

/-! ### independence of the declaration order -/

theorem functional_of_functionalB (es : List (S × S)) (h : functionalB es = true) : Functional es := by
  intro e1 h1 e2 h2 hk
  simp only [functionalB, List.all_eq_true, Bool.or_eq_true, bne_iff_ne, ne_eq, beq_iff_eq] at h
  rcases h e1 h1 e2 h2 with h' | h'
  · exact absurd hk h'
  · exact h'

/-- the alternative taken at a position only depends on the *set* of dictionary entries -/
theorem best_congr (es es' : List (S × S)) (hmem : ∀ e, e ∈ es ↔ e ∈ es') (hf : Functional es) (rest : S) :
    best es rest = best es' rest := by
  cases h : best es rest with
  | none =>
    symm
    rw [best_none_iff] at h ⊢
    intro e he
    exact h e ((hmem e).mpr he)
  | some p =>
    obtain ⟨k, v⟩ := p
    obtain ⟨hm, hne, hp, hlong⟩ := best_some_spec es rest k v h
    cases h' : best es' rest with
    | none =>
      have := (best_none_iff es' rest).mp h' (k, v) ((hmem _).mp hm) hne
      rw [hp] at this; simp at this
    | some p' =>
      obtain ⟨k', v'⟩ := p'
      obtain ⟨hm', hne', hp', hlong'⟩ := best_some_spec es' rest k' v' h'
      have h1 := hlong (k', v') ((hmem _).mpr hm') hne' hp'
      have h2 := hlong' (k, v) ((hmem _).mp hm) hne hp
      simp only at h1 h2
      have hk : k = k' := prefix_eq_of_length_eq hp hp' (by omega)
      subst hk
      have hv : v = v' := hf (k, v) hm (k, v') ((hmem _).mpr hm') rfl
      subst hv
      rfl

private theorem parseAux_congr (es es' : List (S × S)) (hb : ∀ rest, best es rest = best es' rest) (s : S) :
    ∀ n, parseAux es n s = parseAux es' n s := by
  induction s with
  | nil => intro n; simp [parseAux_nil]
  | cons c t ih =>
    intro n
    cases n with
    | succ m => simp only [parseAux]; exact ih m
    | zero =>
      simp only [parseAux, hb (c :: t)]
      cases best es' (c :: t) with
      | none => simp only [ih 0]
      | some p => simp only [ih]

theorem mem_entries (refs : List Ref) (e : S × S) :
    e ∈ entries refs ↔ ∃ r ∈ refs, r.subst? = some e.2 ∧ e.1 ∈ r.spellings := by
  induction refs with
  | nil => simp [entries]
  | cons r rs ih =>
    simp only [entries]
    cases hs : r.subst? with
    | none =>
      rw [ih]
      constructor
      · rintro ⟨r', hr', h⟩
        exact ⟨r', List.mem_cons_of_mem _ hr', h⟩
      · rintro ⟨r', hr', h⟩
        rcases List.mem_cons.mp hr' with rfl | hr''
        · rw [hs] at h; simp at h
        · exact ⟨r', hr'', h⟩
    | some v =>
      simp only [List.mem_append, List.mem_map, ih]
      constructor
      · rintro (⟨k, hk, rfl⟩ | ⟨r', hr', h⟩)
        · exact ⟨r, by simp, by simpa using hs, hk⟩
        · exact ⟨r', List.mem_cons_of_mem _ hr', h⟩
      · rintro ⟨r', hr', h1, h2⟩
        rcases List.mem_cons.mp hr' with rfl | hr''
        · left
          refine ⟨e.1, h2, ?_⟩
          rw [hs] at h1
          simp only [Option.some.injEq] at h1
          rw [h1]
        · right
          exact ⟨r', hr'', h1, h2⟩

/-- **The result does not depend on the order in which the references are declared.**  For every
permutation of the reference list (any producer names: prefixes, suffixes, substrings of each other, equal
across stages) the resolved string and the unresolved flag are equal and the same references are reported
unused.  Hypothesis: equal spellings carry equal values (`functionalB`, decidable; it holds whenever distinct
declared references have distinct absolute spellings, which the loader enforces, because a relative spelling is
only recognised for the consumer's own stage). -/
theorem resolve_perm (refs refs' : List Ref) (args : S) (hp : refs.Perm refs')
    (hf : functionalB (entries refs) = true) :
    (resolve refs args).out = (resolve refs' args).out ∧
    (resolve refs args).unresolved = (resolve refs' args).unresolved ∧
    (resolve refs args).unused.Perm (resolve refs' args).unused := by
  have hmem : ∀ e, e ∈ entries refs ↔ e ∈ entries refs' := by
    intro e
    rw [mem_entries, mem_entries]
    constructor
    · rintro ⟨r, hr, h⟩; exact ⟨r, hp.mem_iff.mp hr, h⟩
    · rintro ⟨r, hr, h⟩; exact ⟨r, hp.mem_iff.mpr hr, h⟩
  have hparse : parse (entries refs) args = parse (entries refs') args :=
    parseAux_congr _ _ (best_congr _ _ hmem (functional_of_functionalB _ hf)) args 0
  simp only [resolve, hparse]
  exact ⟨trivial, trivial, (hp.filter _).map _⟩

/-! ### non-vacuity -/

/-- producers `A`, `BA` (stage 0, the consumer's stage) and `A` of stage 1 … -/
def exRefs : List Ref :=
  [ { abs := "stage0.A:ref".toList, rel := "A:ref".toList, relActive := true, kind := .ref, value := some "/i/s0/A".toList },
    { abs := "stage0.BA:ref".toList, rel := "BA:ref".toList, relActive := true, kind := .ref, value := some "/i/s0/BA".toList },
    { abs := "stage1.A/o:output".toList, rel := "A/o:output".toList, relActive := false, kind := .output,
      value := some "A:ref".toList } ]

/-- … the hypothesis of `resolve_perm` holds for them, -/
example : functionalB (entries exRefs) = true := by decide

/-- … the name-containing argument string is resolved exactly (and the inserted file contents `A:ref` are not rescanned), -/
example : (resolve exRefs "x=BA:ref y=A:ref stage0.A:ref stage1.A/o:output z".toList).out
    = "x=/i/s0/BA y=/i/s0/A /i/s0/A A:ref z".toList := by decide

/-- … in the other declaration order as well, -/
example : (resolve exRefs.reverse "x=BA:ref y=A:ref stage0.A:ref stage1.A/o:output z".toList).out
    = "x=/i/s0/BA y=/i/s0/A /i/s0/A A:ref z".toList := by decide

/-- … and a non-trivial reading satisfies `IsParse` (hypothesis of `resolve_exact`). -/
example : IsParse (entries exRefs)
    [.lit 'x', .lit '=', .tok "BA:ref".toList "/i/s0/BA".toList, .lit ' ', .tok "A:ref".toList "/i/s0/A".toList] := by
  have h : parse (entries exRefs) "x=BA:ref A:ref".toList =
      [.lit 'x', .lit '=', .tok "BA:ref".toList "/i/s0/BA".toList, .lit ' ', .tok "A:ref".toList "/i/s0/A".toList] := by
    decide
  rw [← h]
  exact parse_isParse _ _

/-! ### the value of a reference: `:output` contents reach the command line minus the final newlines only -/

private theorem dropTrailingNewlines_replicate (n : Nat) :
    dropTrailingNewlines (List.replicate n '\n') = [] := by
  induction n with
  | zero => rfl
  | succ n ih => simp [List.replicate_succ, dropTrailingNewlines, ih]

/-- the file's text is the substituted value followed by newline characters only … -/
theorem outputValue_decomp (c : S) : ∃ n, c = outputValue c ++ List.replicate n '\n' := by
  unfold outputValue
  induction c with
  | nil => exact ⟨0, rfl⟩
  | cons a s ih =>
    obtain ⟨n, hn⟩ := ih
    simp only [dropTrailingNewlines]
    cases h : dropTrailingNewlines s with
    | nil =>
      rw [h] at hn
      simp only [List.nil_append] at hn
      by_cases ha : a = '\n'
      · exact ⟨n + 1, by simp [ha, hn, List.replicate_succ]⟩
      · exact ⟨n, by simp [ha, ← hn]⟩
    | cons d r =>
      rw [h] at hn
      exact ⟨n, by simp [← hn]⟩

/-- … and the substituted value does not end in a newline: all final newlines are dropped. -/
theorem outputValue_no_final_newline (c : S) : (outputValue c).getLast? ≠ some '\n' := by
  unfold outputValue
  induction c with
  | nil => simp [dropTrailingNewlines]
  | cons a s ih =>
    simp only [dropTrailingNewlines]
    cases h : dropTrailingNewlines s with
    | nil =>
      by_cases ha : a = '\n'
      · simp [ha]
      · simp [ha]
    | cons d r =>
      rw [h] at ih
      simpa [List.getLast?_cons_cons] using ih

/-- **Nothing else is stripped.**  Whatever the text `v` is — leading blanks, tabs, blank lines, trailing blanks,
tabs or carriage returns, interior newlines, reference-like text — as long as it does not itself end in a
newline, a file holding `v` followed by any number of newlines is substituted as exactly `v`.  Together with
`outputValue_decomp`/`outputValue_no_final_newline` this characterises `outputValue` uniquely. -/
theorem outputValue_exact (v : S) (n : Nat) (hv : v.getLast? ≠ some '\n') :
    outputValue (v ++ List.replicate n '\n') = v := by
  unfold outputValue
  induction v with
  | nil => simpa using dropTrailingNewlines_replicate n
  | cons a w ih =>
    cases w with
    | nil =>
      have ha : a ≠ '\n' := by simpa using hv
      simp [dropTrailingNewlines, dropTrailingNewlines_replicate, ha]
    | cons b w' =>
      have hv' : (b :: w').getLast? ≠ some '\n' := by simpa [List.getLast?_cons_cons] using hv
      have := ih hv'
      simp only [List.cons_append] at this ⊢
      rw [dropTrailingNewlines, this]

/-- a file that does not end in a newline is substituted verbatim -/
theorem outputValue_verbatim (c : S) (hc : c.getLast? ≠ some '\n') : outputValue c = c := by
  simpa using outputValue_exact c 0 hc

/-- the text-mode read of the `:loopoutput` branch leaves a text without carriage returns unchanged … -/
theorem universalNewlines_id (s : S) (h : '\r' ∉ s) : universalNewlines s = s := by
  unfold universalNewlines
  induction s with
  | nil => rfl
  | cons c t ih =>
    have hc : c ≠ '\r' := fun e => h (by simp [e])
    have ht : '\r' ∉ t := fun e => h (List.mem_cons_of_mem _ e)
    simp [unlAux, hc, ih ht]

/-- … so for such files a loop instance contributes exactly what an `:output` reference would -/
theorem loopInstanceValue_eq_outputValue (c : S) (h : '\r' ∉ c) : loopInstanceValue c = outputValue c := by
  simp [loopInstanceValue, outputValue, universalNewlines_id c h]

/-- value of a `:loopoutput` reference all of whose instance files exist: the instance values joined by one blank -/
theorem loopoutput_value (cs : List S) :
    (Source.files (cs.map some)).value? = some (join [' '] (cs.map loopInstanceValue)) := by
  have hp : present (cs.map some) = cs := by
    induction cs with
    | nil => rfl
    | cons c cs ih => simpa [present] using ih
  have h0 : countMissing (cs.map some) = 0 := by
    clear hp
    induction cs with
    | nil => rfl
    | cons c cs ih => simpa [countMissing] using ih
  simp [Source.value?, h0, hp]

private theorem dictGet_of_mem (es : List (S × S)) (hf : Functional es) (k v : S) (hm : (k, v) ∈ es) :
    dictGet es k = some v := by
  induction es with
  | nil => cases hm
  | cons e es ih =>
    obtain ⟨k0, v0⟩ := e
    simp only [dictGet]
    by_cases hk : k = k0
    · subst hk
      have : v0 = v := hf (k, v0) (by simp) (k, v) hm rfl
      simp [this]
    · simp only [hk, if_false]
      have hm' : (k, v) ∈ es := by
        rcases List.mem_cons.mp hm with h | h
        · exact absurd (congrArg Prod.fst h) hk
        · exact h
      exact ih (fun e1 h1 e2 h2 => hf e1 (List.mem_cons_of_mem _ h1) e2 (List.mem_cons_of_mem _ h2)) hm'

/-- **An `:output` token is replaced by the contents of its file minus the final newlines, nothing else
stripped.**  For every list of declarations, every declared `:output` reference `d` whose file holds `c`, either
spelling `k` of it and every continuation `rest` of the argument string: when `k` is the longest declared spelling
starting here, the resolved text is `outputValue c` — by `outputValue_decomp`, `outputValue_no_final_newline` and
`outputValue_exact` exactly `c` without its final newline characters — followed by the resolution of `rest`. -/
theorem output_token_replaced_by_contents (decls : List Decl) (d : Decl) (c k rest : S)
    (hd : d ∈ decls) (hkind : d.kind = .output) (hsrc : d.source = .file (some c))
    (hk : k ∈ d.toRef.spellings) (hne : k ≠ [])
    (hf : Functional (entries (decls.map Decl.toRef)))
    (hlong : ∀ e ∈ entries (decls.map Decl.toRef), e.1.isPrefixOf (k ++ rest) = true → e.1.length ≤ k.length) :
    subst (entries (decls.map Decl.toRef)) (k ++ rest)
      = outputValue c ++ subst (entries (decls.map Decl.toRef)) rest := by
  have hm : (k, outputValue c) ∈ entries (decls.map Decl.toRef) := by
    rw [mem_entries]
    refine ⟨d.toRef, List.mem_map.mpr ⟨d, hd, rfl⟩, ?_, hk⟩
    simp [Ref.subst?, Decl.toRef, hkind, hsrc, Source.value?]
  exact token_replaced_whole _ k _ rest hne (dictGet_of_mem _ hf k _ hm) hlong

/-- an `:output` reference whose file does not exist yet is replaced by the empty string -/
theorem missing_output_is_empty (d : Decl) (hkind : d.kind = .output) (hsrc : d.source = .file none) :
    d.toRef.subst? = some [] := by
  simp [Ref.subst?, Decl.toRef, hkind, hsrc, Source.value?]

/-- the results about `resolve` apply to `resolveD` as they stand (it is `resolve` on the computed values);
in particular the result is independent of the declaration order -/
theorem resolveD_perm (decls decls' : List Decl) (args : S) (hp : decls.Perm decls')
    (hf : functionalB (entries (decls.map Decl.toRef)) = true) :
    (resolveD decls args).out = (resolveD decls' args).out ∧
    (resolveD decls args).unresolved = (resolveD decls' args).unresolved ∧
    (resolveD decls args).unused.Perm (resolveD decls' args).unused :=
  resolve_perm _ _ args (hp.map _) hf

/-- a fixed-column record with leading and trailing blanks and two final newlines … -/
def exDecls : List Decl :=
  [ { abs := "stage0.A/rec:output".toList, rel := "A/rec:output".toList, relActive := true, kind := .output,
      source := .file (some "  ATOM  1 \t\n\n".toList) },
    { abs := "stage0.BA:ref".toList, rel := "BA:ref".toList, relActive := true, kind := .ref,
      source := .path "/i/s0/BA".toList } ]

/-- … reaches the command line with every blank and tab, without the two newlines (hypotheses of
`output_token_replaced_by_contents` are satisfiable and the conclusion is not vacuous) -/
example : (resolveD exDecls "-r=[A/rec:output] BA:ref".toList).out = "-r=[  ATOM  1 \t] /i/s0/BA".toList := by decide

example : functionalB (entries (exDecls.map Decl.toRef)) = true := by decide

/-- a `:loopoutput` over two loop instances (CRLF file read in text mode) -/
example : (Source.files [some " a\r\n".toList, some "b \n\n".toList]).value? = some " a b ".toList := by decide

/-! ### the spellings of a declared reference are its text

`resolveArguments` looks for `absoluteReference` / `relativeReference` of every declared reference in the
argument string.  The theorems below say that these are exactly the text under which the reference was
declared (with the consumer's stage put in front / left out), for EVERY producer name, file part and method —
in particular for the file part that is present but empty (`Producer/:ref`): the spellings keep the `/`, so the
token written in the command line is found, and the value keeps it too (`<dir>/`). -/

open St4sd.C10.Spell in
/-- joining what `split('/', 1)` separated gives the text back — also when nothing follows the `/` -/
theorem withFile_splitPath (path : S) (h0 : path.head? ≠ some '/')
    (h1 : ∀ a b, splitFirst '/' path = some (a, b) → b.head? ≠ some '/') :
    withFile (splitPath path).1 (splitPath path).2 = path := by
  unfold splitPath
  cases hs : splitFirst '/' path with
  | none => rfl
  | some p =>
    obtain ⟨a, b⟩ := p
    obtain ⟨he, hn⟩ := splitFirst_some '/' path a b hs
    have ha : a ≠ [] := by
      intro e
      rw [e] at he
      rw [he] at h0
      simp at h0
    simp only [withFile]
    rw [pjoin_rel a b ha (getLast?_ne_of_not_mem hn) (h1 a b hs)]
    exact he.symm

open St4sd.C10.Spell in
/-- a base and a relative file part: the separator is there whenever the file part is — `none` and the empty
file part give different texts, and so do any two different file parts -/
theorem withFile_injective (base : S) (f1 f2 : Option S) (hb : base ≠ []) (hl : base.getLast? ≠ some '/')
    (h1 : ∀ f, f1 = some f → f.head? ≠ some '/') (h2 : ∀ f, f2 = some f → f.head? ≠ some '/')
    (h : withFile base f1 = withFile base f2) : f1 = f2 := by
  cases f1 with
  | none =>
    cases f2 with
    | none => rfl
    | some g =>
      simp only [withFile] at h
      rw [pjoin_rel base g hb hl (h2 g rfl)] at h
      have := congrArg List.length h
      simp at this
  | some f =>
    cases f2 with
    | none =>
      simp only [withFile] at h
      rw [pjoin_rel base f hb hl (h1 f rfl)] at h
      have := congrArg List.length h
      simp at this
    | some g =>
      simp only [withFile] at h
      rw [pjoin_rel base f hb hl (h1 f rfl), pjoin_rel base g hb hl (h2 g rfl)] at h
      have := List.append_cancel_left h
      simp only [List.cons.injEq, true_and] at this
      rw [this]

/-- **`Producer:ref` and `Producer/:ref` are different references**: no file part and the empty file part
have different spellings … -/
theorem spelling_none_ne_empty (p : Parts) (hn : p.name ≠ []) (hl : p.name.getLast? ≠ some '/') :
    ({ p with file := none } : Parts).relSpelling ≠ ({ p with file := some [] } : Parts).relSpelling := by
  intro h
  simp only [Parts.relSpelling] at h
  have h' := List.append_cancel_right h
  have := withFile_injective p.name none (some []) hn hl (by simp) (by intro f hf; cases hf; simp) h'
  cases this

open St4sd.C10.Spell in
/-- … and different values: the empty file part leaves the separator at the end of the path -/
theorem refPath_empty_file (loc : S) (hn : loc ≠ []) (hl : loc.getLast? ≠ some '/') :
    refPath loc (some []) = loc ++ ['/'] ∧ refPath loc none = loc := by
  constructor
  · simp only [refPath, withFile]
    exact pjoin_rel loc [] hn hl (by simp)
  · rfl

/-- side conditions on the pieces of a reference text: the producer is a non-empty name without `/ . :`,
the file part (when there is one, possibly empty) is relative and has no `:`, the method has no `:` -/
structure TextOk (producer : S) (file : Option S) (method : S) : Prop where
  name_ne : producer ≠ []
  name_slash : '/' ∉ producer
  name_dot : '.' ∉ producer
  name_colon : ':' ∉ producer
  file_rel : ∀ f, file = some f → f.head? ≠ some '/'
  file_colon : ∀ f, file = some f → ':' ∉ f
  method_colon : ':' ∉ method

private theorem contains_false_of_not_mem {c : Char} {s : S} (h : c ∉ s) : s.contains c = false := by
  simpa using h

open St4sd.C10.Spell in
private theorem splitColon (producer : S) (file : Option S) (method : S) (ok : TextOk producer file method)
    (pre : S) (hpre : ':' ∉ pre) :
    splitFirst ':' (pre ++ refText producer file method) =
      some (pre ++ pathText producer file, method) := by
  unfold refText
  rw [← List.append_assoc]
  apply splitFirst_append
  cases file with
  | none => simp [pathText, hpre, ok.name_colon]
  | some f => simp [pathText, hpre, ok.name_colon, ok.file_colon f rfl]

open St4sd.C10.Spell in
private theorem splitPath_text (producer : S) (file : Option S) (method : S) (ok : TextOk producer file method)
    (pre : S) (hpre : '/' ∉ pre) :
    splitPath (pre ++ pathText producer file) = (pre ++ producer, file) := by
  unfold splitPath
  cases file with
  | none =>
    have : '/' ∉ pre ++ producer := by simp [hpre, ok.name_slash]
    simp only [pathText]
    rw [(splitFirst_none_iff '/' _).mpr this]
  | some f =>
    simp only [pathText]
    rw [← List.append_assoc, splitFirst_append '/' (pre ++ producer) f (by simp [hpre, ok.name_slash])]

open St4sd.C10.Spell in
private theorem stageText_chars (n : Nat) : ∀ c, c ∈ stageText n → c ≠ ':' ∧ c ≠ '/' := by
  have hdig : ∀ c ∈ natToDigits n, isDigit c = true := by
    have := natToDigits_all n
    simpa [List.all_eq_true] using this
  intro c hc
  unfold stageText at hc
  rcases List.mem_append.mp hc with h | h
  · rcases List.mem_append.mp h with h | h
    · have h' : c ∈ ['s', 't', 'a', 'g', 'e'] := h
      simp only [List.mem_cons, List.not_mem_nil, or_false] at h'
      rcases h' with rfl | rfl | rfl | rfl | rfl <;> decide
    · have := hdig _ h
      constructor <;> (intro e; rw [e] at this; revert this; decide)
  · simp at h; rw [h]; decide

private theorem takeWhile_all (p : Char → Bool) : ∀ l : S, (∀ c ∈ l, p c = true) → l.takeWhile p = l
  | [], _ => rfl
  | c :: l, h => by
    have hc : p c = true := h c (by simp)
    simp only [List.takeWhile_cons, hc, if_true]
    rw [takeWhile_all p l (fun d hd => h d (by simp [hd]))]

open St4sd.C10.Spell in
/-- **A reference declared without a stage**: the code reads `producer[/file]:method` as a reference to
`producer` in the consumer's stage with exactly that file part (`none`, empty, or any relative path), its
relative spelling is the declared text, its absolute spelling is the text with `stage<k>.` in front, and the
relative spelling is active. -/
theorem relative_text_spellings (k : Nat) (producer : S) (file : Option S) (method : S)
    (ok : TextOk producer file method) :
    ∃ p, parseRef k false (refText producer file method) = some p ∧
      p = { stage := some k, name := producer, file := file, method := method } ∧
      p.relSpelling = refText producer file method ∧
      p.absSpelling = stageText k ++ refText producer file method ∧
      p.relActive k = true := by
  have h1 := splitColon producer file method ok [] (by simp)
  have h2 := splitPath_text producer file method ok [] (by simp)
  simp only [List.nil_append] at h1 h2
  have h3 : parseProducer k producer = (k, producer) := by
    unfold parseProducer
    rw [(splitFirst_none_iff '.' _).mpr ok.name_dot]
  refine ⟨_, ?_, rfl, ?_, ?_, ?_⟩
  · unfold parseRef
    rw [h1]
    simp only [contains_false_of_not_mem ok.method_colon, Bool.false_eq_true, if_false, h2, h3]
  · unfold Parts.relSpelling refText
    cases file with
    | none => rfl
    | some f =>
      simp only [withFile]
      rw [pjoin_rel producer f ok.name_ne (getLast?_ne_of_not_mem ok.name_slash) (ok.file_rel f rfl)]
      simp [pathText]
  · unfold Parts.absSpelling Parts.identifier refText
    have hne : stageText k ++ producer ≠ [] := by simp [stageText]
    have hl : (stageText k ++ producer).getLast? ≠ some '/' := by
      apply getLast?_ne_of_not_mem
      intro hm
      rcases List.mem_append.mp hm with h | h
      · exact (stageText_chars k _ h).2 rfl
      · exact ok.name_slash h
    cases file with
    | none => simp [withFile, pathText]
    | some f =>
      simp only [withFile]
      rw [pjoin_rel _ f hne hl (ok.file_rel f rfl)]
      simp [pathText]
  · simp [Parts.relActive]

open St4sd.C10.Spell in
private theorem parseProducer_staged (k n : Nat) (producer : S) :
    parseProducer k (stageText n ++ producer) = (n, producer) := by
  unfold parseProducer stageText
  have hdig : ∀ c ∈ natToDigits n, isDigit c = true := by
    have := natToDigits_all n
    simpa [List.all_eq_true] using this
  have hnd : '.' ∉ "stage".toList ++ natToDigits n := by
    intro hm
    rcases List.mem_append.mp hm with h | h
    · revert h; decide
    · have := hdig _ h
      revert this; decide
  have : "stage".toList ++ natToDigits n ++ ['.'] ++ producer = ("stage".toList ++ natToDigits n) ++ '.' :: producer := by
    simp
  rw [this, splitFirst_append '.' _ producer hnd]
  have hp : stagePrefix? ("stage".toList ++ natToDigits n) = some n := by
    unfold stagePrefix?
    have h1 : "stage".toList.isPrefixOf ("stage".toList ++ natToDigits n) = true := by
      rw [List.isPrefixOf_iff_prefix]; exact List.prefix_append _ _
    have h2 : ("stage".toList ++ natToDigits n).drop 5 = natToDigits n := by
      have : ("stage".toList).length = 5 := by decide
      rw [← this, List.drop_left]
    have h3 : (natToDigits n).takeWhile isDigit = natToDigits n := takeWhile_all _ _ hdig
    rw [if_pos h1, h2, h3]
    exact digitsToNat_natToDigits n
  simp only [hp]

open St4sd.C10.Spell in
/-- **A reference declared with its stage**: `stage<n>.producer[/file]:method` is read as the producer of stage
`n` with exactly that file part; its absolute spelling is the declared text, its relative spelling the text
without the stage, active exactly when `n` is the consumer's stage. -/
theorem staged_text_spellings (k n : Nat) (producer : S) (file : Option S) (method : S)
    (ok : TextOk producer file method) :
    ∃ p, parseRef k false (stageText n ++ refText producer file method) = some p ∧
      p = { stage := some n, name := producer, file := file, method := method } ∧
      p.absSpelling = stageText n ++ refText producer file method ∧
      p.relSpelling = refText producer file method ∧
      p.relActive k = (n == k) := by
  have hst := stageText_chars n
  have hc : ':' ∉ stageText n := fun h => (hst _ h).1 rfl
  have hs : '/' ∉ stageText n := fun h => (hst _ h).2 rfl
  have h1 := splitColon producer file method ok (stageText n) hc
  have h2 := splitPath_text producer file method ok (stageText n) hs
  have h3 := parseProducer_staged k n producer
  obtain ⟨p0, hp0, hp0e, hrel, habs, _⟩ := relative_text_spellings n producer file method ok
  refine ⟨_, ?_, rfl, ?_, ?_, ?_⟩
  · unfold parseRef
    rw [h1]
    simp only [contains_false_of_not_mem ok.method_colon, Bool.false_eq_true, if_false, h2, h3]
  · rw [hp0e] at habs; exact habs
  · rw [hp0e] at hrel
    simpa [Parts.relSpelling] using hrel
  · simp [Parts.relActive]

/-- **The declared text is a spelling of the declared reference** (so by `token_replaced_whole` a token written
exactly as declared is replaced by the reference's value): for a reference declared as `producer[/file]:method`
— whatever the file part, `none`, EMPTY or a path — the declaration the model (and the code) builds from the text
has the text among its spellings, and the text with the stage in front as well. -/
theorem declared_text_is_a_spelling (k : Nat) (producer : S) (file : Option S) (method : S) (src : Source)
    (ok : TextOk producer file method) :
    ∃ d, declOfText k false (refText producer file method) src = some d ∧
      refText producer file method ∈ d.toRef.spellings ∧
      stageText k ++ refText producer file method ∈ d.toRef.spellings := by
  obtain ⟨p, hp, _, hrel, habs, hact⟩ := relative_text_spellings k producer file method ok
  refine ⟨p.toDecl k src, by simp [declOfText, hp], ?_, ?_⟩ <;>
    simp [Decl.toRef, Parts.toDecl, Ref.spellings, hact, hrel, habs]

/-- the same for a reference declared with its stage: the declared text is the (always active) absolute spelling -/
theorem declared_staged_text_is_a_spelling (k n : Nat) (producer : S) (file : Option S) (method : S) (src : Source)
    (ok : TextOk producer file method) :
    ∃ d, declOfText k false (stageText n ++ refText producer file method) src = some d ∧
      stageText n ++ refText producer file method ∈ d.toRef.spellings := by
  obtain ⟨p, hp, _, habs, _, _⟩ := staged_text_spellings k n producer file method ok
  refine ⟨p.toDecl k src, by simp [declOfText, hp], ?_⟩
  simp only [Decl.toRef, Parts.toDecl, Ref.spellings, habs]
  split <;> simp

/-- the hypotheses are satisfiable by the degenerate shapes: no file part, the empty one, a nested one with a
trailing separator -/
example : TextOk "Gen".toList (some []) "ref".toList :=
  ⟨by decide, by decide, by decide, by decide, by intro f h; cases h; decide, by intro f h; cases h; decide, by decide⟩

example : (declOfText 1 false "Gen/:ref".toList (.path "/i/stages/stage1/Gen/".toList)).map (·.toRef.spellings)
    = some ["stage1.Gen/:ref".toList, "Gen/:ref".toList] := by decide

example : (declOfText 1 false "stage0.Gen/t/:ref".toList (.path "/i/stages/stage0/Gen/t/".toList)).map (·.toRef.spellings)
    = some ["stage0.Gen/t/:ref".toList] := by decide

/-- `-a stage0.Gen/:ref Gen/:ref Gen:ref` with `Gen/` and `Gen` both declared: each token gets its own value -/
example :
    (resolveD ((declOfText 1 false "stage0.Gen/:ref".toList (.path (refPath "/i/s0/Gen".toList (some [])))).toList ++
               (declOfText 1 false "Gen/:ref".toList (.path (refPath "/i/s1/Gen".toList (some [])))).toList ++
               (declOfText 1 false "Gen:ref".toList (.path (refPath "/i/s1/Gen".toList none))).toList)
      "-a stage0.Gen/:ref Gen/:ref Gen:ref".toList).out = "-a /i/s0/Gen/ /i/s1/Gen/ /i/s1/Gen".toList := by decide

/-! ### no bound on the length of a value

`outputValue`, `loopInstanceValue` and `Source.value?` are total functions of the whole contents: the theorems
above (`outputValue_decomp`, `outputValue_exact`, `output_token_replaced_by_contents`) quantify over contents of
every length, there is no limit after which a value may be cut. -/

/-- the value is never shorter than the contents minus its final newlines: nothing is cut, at any length -/
theorem outputValue_length (c : S) : ∃ n, (outputValue c).length + n = c.length ∧ c.drop (outputValue c).length = List.replicate n '\n' := by
  obtain ⟨n, hn⟩ := outputValue_decomp c
  refine ⟨n, ?_, ?_⟩
  · have := congrArg List.length hn
    simp at this
    omega
  · have h : c.drop (outputValue c).length = (outputValue c ++ List.replicate n '\n').drop (outputValue c).length := by
      rw [← hn]
    rw [h, List.drop_left]

/-! ## `:loopref` / `:loopoutput`: the loop instances in iteration order, for every number of instances

The instances of a placeholder reach `looped_reference_to_paths` as a list made from a set (`represents`): any order.
`orderInstances` is the model of the `sorted(..., key=int(<iteration>))` there. -/

section LoopOrder
open St4sd.C10.Order

/-- whatever the order of `represents`, the result lists the same instances, each once … -/
theorem loop_instances_perm {α : Type} (l : List (S × α)) : (orderInstances l).Perm l := orderInstances_perm l

/-- … in non-decreasing order of the iteration NUMBER (never of the id text) -/
theorem loop_instances_sorted {α : Type} (l : List (S × α)) :
    (orderInstances l).Pairwise (fun a b => iterOfId a.1 ≤ iterOfId b.1) := orderInstances_sorted l

/-- **loop_instances_in_iteration_order.**  For EVERY number `n` of loop instances (`n ≥ 11`, where the decimal texts
`10, 11, …` sort before `2`, and `n ≥ 101` alike) and every order `l` in which the instances `0 … n-1` of a looped
component arrive, they are listed as `0, 1, 2, …, n-1`, each with its own payload (working directory / file contents). -/
theorem loop_instances_in_iteration_order {α : Type} (s : Nat) (name : S) (f : Nat → α) (n : Nat) (l : List (S × α))
    (hp : l.Perm ((List.range n).map fun i => (instId s i name, f i))) :
    orderInstances l = (List.range n).map fun i => (instId s i name, f i) :=
  orderInstances_of_perm s name f n l hp

/-- the order of `represents` (a set) is not observable -/
theorem loop_instances_order_independent {α : Type} (s : Nat) (name : S) (f : Nat → α) (n : Nat) (l l' : List (S × α))
    (hp : l.Perm ((List.range n).map fun i => (instId s i name, f i))) (hpp : l'.Perm l) :
    orderInstances l' = orderInstances l := by
  rw [loop_instances_in_iteration_order s name f n l hp, loop_instances_in_iteration_order s name f n l' (hpp.trans hp)]

/-- **loopref_value_in_iteration_order.**  The value of a `:loopref` reference to a looped component with `n` instances
is the blank-joined list of the paths of instance `0`, instance `1`, …, instance `n-1` — for every `n`. -/
theorem loopref_value_in_iteration_order (s : Nat) (name : S) (loc : Nat → S) (file : Option S) (n : Nat)
    (l : List (S × S)) (hp : l.Perm ((List.range n).map fun i => (instId s i name, loc i))) :
    (loopRefSource l file).value? = some (join [' '] ((List.range n).map fun i => loopRefPath (loc i) file)) := by
  simp [loopRefSource, Source.value?, loop_instances_in_iteration_order s name loc n l hp, List.map_map,
    Function.comp_def]

/-- **loopoutput_value_in_iteration_order.**  The value of a `:loopoutput` reference (all instance files present) is the
blank-joined list of the contents values of instance `0`, `1`, …, `n-1` — for every `n`. -/
theorem loopoutput_value_in_iteration_order (s : Nat) (name : S) (c : Nat → S) (n : Nat)
    (l : List (S × Option S)) (hp : l.Perm ((List.range n).map fun i => (instId s i name, some (c i)))) :
    (loopOutputSource l).value? = some (join [' '] ((List.range n).map fun i => loopInstanceValue (c i))) := by
  have h := loopoutput_value ((List.range n).map c)
  simp only [List.map_map, Function.comp_def] at h
  simp only [loopOutputSource, loop_instances_in_iteration_order s name (fun i => some (c i)) n l hp, List.map_map,
    Function.comp_def]
  exact h

/-- 12 instances arriving in the order of their id TEXTS (`0, 1, 10, 11, 2, …`): listed `0 … 11` -/
example : ((orderInstances ([0, 1, 10, 11, 2, 3, 4, 5, 6, 7, 8, 9].map fun i => (instId 0 i "A".toList, i))).map (·.2))
    = List.range 12 := by decide
example : ([0, 1, 10, 11, 2, 3, 4, 5, 6, 7, 8, 9].map fun i => (instId 0 i "A".toList, i)).Perm
    ((List.range 12).map fun i => (instId 0 i "A".toList, i)) := by decide

end LoopOrder

/-! ### One live component resolved again and again while the referenced files change

`St4sd.Model.ArgSubstHistory`: the value of an `:output` / `:loopoutput` reference is read from the file system at the
moment the arguments are resolved.  Whatever happened before - earlier resolutions, how often the file was rewritten,
with which lengths and which modification times - the result is the one a fresh reader of the current contents gets. -/
section History
open St4sd.C10History

/-- after ANY batch of operations a path holds what the LAST operation naming it left there (written contents, or
nothing after a removal); paths no operation names keep what they held.  Modification times and lengths play no role. -/
theorem file_holds_last_write (ops : List FsOp) (fs : FS) (p : S) :
    FS.read (FS.applyAll fs ops) p = heldAfter ops p (FS.read fs p) := read_applyAll ops fs p

private theorem effect_append_write (ops : List FsOp) (p : S) (t : Nat) (c : S) :
    effect (ops ++ [.write p t c]) p = some (some c) := by
  induction ops with
  | nil => simp [effect]
  | cons op ops ih => simp [effect, ih]

/-- `heldAfter` spelled out: the last operation naming the path decides -/
theorem heldAfter_write_last (ops : List FsOp) (p : S) (t : Nat) (c : S) (before : Option S) :
    heldAfter (ops ++ [.write p t c]) p before = some c := by
  simp [heldAfter, effect_append_write]

/-- the `:output` reference to `p`, resolved after `p` was (re)written with contents `c`, has the value of `c` - for
EVERY modification time `t` the writer leaves (a new one, the one the file had before, an older one) and every
`c` (in particular one exactly as long as the previous contents), and whatever the file system held before -/
theorem output_value_after_rewrite (fs : FS) (d : HDecl) (p : S) (t : Nat) (c : S) (hd : d.psource = .fileAt p) :
    (HDecl.at (FS.apply fs (.write p t c)) d).toRef.value = some (outputValue c) := by
  simp [HDecl.at, Decl.toRef, hd, PSource.at, read_write_same, Source.value?]

/-- ... and `""` after the file was removed -/
theorem output_value_after_remove (fs : FS) (d : HDecl) (p : S) (hd : d.psource = .fileAt p) :
    (HDecl.at (FS.apply fs (.remove p)) d).toRef.value = some [] := by
  simp [HDecl.at, Decl.toRef, hd, PSource.at, read_remove_same, Source.value?]

/-- resolving the arguments looks at the CONTENTS the files hold and at nothing else: two file systems that agree on
every file's contents (and may differ in everything else: modification times, shadowed older versions, the order
in which the files came to be) give the same command line, the same unused and unresolved answers -/
theorem resolution_depends_on_current_contents_only (fs fs' : FS) (h : ∀ p, FS.read fs p = FS.read fs' p)
    (decls : List HDecl) (args : S) : resolveAt fs decls args = resolveAt fs' decls args :=
  resolveAt_congr fs fs' h decls args

/-- changing every file's modification time in any way changes nothing -/
theorem resolution_ignores_modification_times (f : S → Nat → Nat) (fs : FS) (decls : List HDecl) (args : S) :
    resolveAt (retime f fs) decls args = resolveAt fs decls args :=
  resolveAt_congr _ _ (read_retime f fs) decls args

/-- after any history the result is the one of a fresh reader: any file system `fs'` that holds, per path, what the last
operation naming the path left (else what `fs` held) resolves to the same result as the live one -/
theorem resolution_after_history_is_fresh (fs fs' : FS) (ops : List FsOp)
    (h : ∀ p, FS.read fs' p = heldAfter ops p (FS.read fs p))
    (decls : List HDecl) (args : S) :
    resolveAt (FS.applyAll fs ops) decls args = resolveAt fs' decls args :=
  resolveAt_congr _ _ (fun p => by rw [read_applyAll, h]) decls args

/-- the results of a history (resolve, batch of operations, resolve, …) are the fresh results at the file systems the
history goes through: no result depends on an earlier one -/
theorem history_results_are_the_fresh_results (fs : FS) (decls : List HDecl) (args : S) (rounds : List (List FsOp)) :
    resolveRounds fs decls args rounds = (states fs rounds).map fun st => resolveAt st decls args :=
  resolveRounds_eq_map decls args rounds fs

/-- non-vacuity: a fixed-width progress file rewritten with the same length and the same modification time -/
example :
    let d : HDecl := { abs := "stage0.S/p.txt:output".toList, rel := "S/p.txt:output".toList, relActive := true,
                       kind := .output, psource := .fileAt "S/p.txt".toList }
    (resolveRounds [("S/p.txt".toList, { mtime := 7, contents := "step=0010\n".toList })] [d] "-p S/p.txt:output".toList
        [[.write "S/p.txt".toList 7 "step=0020\n".toList], [.remove "S/p.txt".toList]]).map (·.out)
      = ["-p step=0010".toList, "-p step=0020".toList, "-p ".toList] := by decide

end History

end St4sd.C10
