import St4sd.Model.Dsl
/-!
# C06 — DSL 2.0 compilation preserves the dataflow and parameter bindings

Theorems about the model `St4sd.Dsl` (operational flattener `visit`/`flattenOp`, denotational
`specVisit`/`flattenSpec`, repaired naming `assignNames`, repaired producer lookup `split`).
-/
namespace St4sd.C06
open St4sd.Dsl St4sd.Str

/-! ### helpers -/

private theorem append_fuelOut (a b : Acc) : (a.append b).fuelOut = (a.fuelOut || b.fuelOut) := rfl
private theorem append_insts (a b : Acc) : (a.append b).insts = a.insts ++ b.insts := rfl
private theorem append_errsA (a b : Acc) : (a.append b).errsA = a.errsA ++ b.errsA := rfl

private theorem concat_fuelOut (l : List Acc) (h : ∀ a ∈ l, a.fuelOut = false) : (Acc.concat l).fuelOut = false := by
  induction l with
  | nil => rfl
  | cons a r ih =>
    show (a.append (Acc.concat r)).fuelOut = false
    rw [append_fuelOut, h a (List.mem_cons_self), ih (fun x hx => h x (List.mem_cons_of_mem _ hx))]
    rfl

private theorem concat_insts (l : List Acc) : (Acc.concat l).insts = l.flatMap (·.insts) := by
  induction l with
  | nil => rfl
  | cons a r ih =>
    show (a.append (Acc.concat r)).insts = _
    rw [append_insts, ih]; simp

private theorem checkExec_avail {ns : Namespace} {avail : List Name} {w : Template} {steps : List (Name × Name)}
    {e : Exec} {callee : Template} (h : checkExec ns avail w steps e = some callee) : callee.name ∈ avail := by
  unfold checkExec at h
  cases hs : steps.lookup e.target with
  | none => simp [hs] at h
  | some tn =>
    cases hf : ns.find tn with
    | none => simp [hs, hf] at h
    | some c =>
      simp only [hs, hf] at h
      have hn : (c.name == tn) = true := by
        unfold Namespace.find at hf
        exact List.find?_some (p := fun x : Template => x.name == tn) hf
      have hcn : c.name = tn := by simpa using hn
      split at h
      · cases h
      · rename_i h1
        split at h
        · cases h
        · split at h
          · cases h
          · cases h
            rw [hcn]
            simpa using h1

private theorem childrenOf_avail (ns : Namespace) (avail : List Name) (w : Template) (steps : List (Name × Name))
    (es : List Exec) : ∀ (j : Nat) (c : Child), c ∈ childrenOf ns avail w steps j es → c.callee.name ∈ avail := by
  induction es with
  | nil => intro j c h; simp [childrenOf] at h
  | cons e r ih =>
    intro j c h
    unfold childrenOf at h
    split at h
    · rename_i callee hc
      rcases List.mem_cons.mp h with h | h
      · subst h; exact checkExec_avail hc
      · exact ih _ _ h
    · exact ih _ _ h

private theorem mem_visitOrder {cs : List Child} {c : Child} (h : c ∈ visitOrder cs) : c ∈ cs := by
  unfold visitOrder at h
  rcases List.mem_append.mp h with h | h
  · exact (List.mem_filter.mp (List.mem_reverse.mp h)).1
  · exact (List.mem_filter.mp h).1

private theorem visitOrder_perm (cs : List Child) : (visitOrder cs).Perm cs := by
  unfold visitOrder
  have h1 := List.filter_append_perm (fun c : Child => c.callee.isWf) cs
  have h2 : (cs.filter (fun c => !c.callee.isWf)).reverse.Perm (cs.filter (fun c => !c.callee.isWf)) :=
    List.reverse_perm _
  exact ((h2.append (List.Perm.refl _)).trans List.perm_append_comm).trans h1

private theorem flatMap_perm_pointwise {α β : Type} (l : List α) (f g : α → List β)
    (h : ∀ a ∈ l, (f a).Perm (g a)) : (l.flatMap f).Perm (l.flatMap g) := by
  induction l with
  | nil => simp
  | cons a r ih =>
    simp only [List.flatMap_cons]
    exact (h a List.mem_cons_self).append (ih (fun x hx => h x (List.mem_cons_of_mem _ hx)))

private theorem lookup_map_snd (l : Env) (f : Val → Val) (p : Name) :
    (l.map fun a => (a.1, f a.2)).lookup p = (l.lookup p).map f := by
  induction l with
  | nil => rfl
  | cons a r ih =>
    obtain ⟨k, v⟩ := a
    simp only [List.map_cons, List.lookup_cons]
    cases h : (p == k) <;> first | rfl | simp [ih]

/-! ### termination -/

/-- The walk never runs out of fuel when the fuel exceeds the number of templates that are not yet on the
scope stack: every nesting step removes one template name from `avail` (cyclic template use is reported as an
error by `checkExec` instead of being followed) — for every namespace, location, template and environment. -/
theorem visit_terminates (ns : Namespace) : ∀ (fuel : Nat) (avail : List Name) (loc : Loc) (t : Template) (env : Env)
    (dsl : ErrLoc), avail.length < fuel → (visit ns fuel avail loc t env dsl).fuelOut = false := by
  intro fuel
  induction fuel with
  | zero => intro avail loc t env dsl h; omega
  | succ f ih =>
    intro avail loc t env dsl h
    unfold visit
    split
    · rfl
    · rename_i steps execute _
      simp only [append_fuelOut, Bool.false_or]
      apply concat_fuelOut
      intro a ha
      obtain ⟨c, hc, rfl⟩ := List.mem_map.mp ha
      apply ih
      have hmem := childrenOf_avail ns avail t steps execute 0 c (mem_visitOrder hc)
      have := List.length_pos_of_mem hmem
      rw [List.length_erase_of_mem hmem]
      omega

/-- `flatten_terminates`: with fuel = number of templates the compilation of *every* namespace terminates
without exhausting the fuel (the entry template is found, hence its name is removed from `avail`). -/
theorem flatten_terminates (ns : Namespace) (t : Template) (h : ns.find ns.entry = some t) :
    (rootVisit ns t).fuelOut = false := by
  unfold rootVisit
  apply visit_terminates
  have hm : t ∈ ns.templates := List.mem_of_find?_eq_some h
  have hn : t.name ∈ ns.templates.map (·.name) := List.mem_map.mpr ⟨t, hm, rfl⟩
  rw [List.length_erase_of_mem hn, List.length_map]
  have : 0 < ns.templates.length := List.length_pos_of_mem hm
  omega

/-! ### parameter propagation: eager substitution level by level = lazy lookup along the call chain -/

/-- One level of nesting composes: looking a parameter up in the materialised environment of a child scope is
the same as resolving the argument written by the caller (or the default) against the caller's environment. -/
theorem childEnv_lookup (loc : Loc) (env : Env) (c : Child) (p : Name) :
    (childEnv loc env c).lookup p = (c.raw.lookup p).map (resolve loc (fun q => env.lookup q)) := by
  unfold childEnv
  exact lookup_map_snd c.raw _ p

/-- `flattenOp_eq_flattenSpec` at the level of the walk: for every fuel, scope stack, location, template and
every environment that agrees with the call chain, the component instances produced by the code's walk
(components first in reverse order, then workflows; parameters substituted level by level) are a permutation
of the instances of the denotational specification (paths in `execute` order; parameter values looked up
along the call chain), with identical locations and identical resolved arguments. -/
theorem visit_perm_specVisit (ns : Namespace) : ∀ (fuel : Nat) (avail : List Name) (loc : Loc) (t : Template)
    (env : Env) (chain : List Frame) (dsl : ErrLoc), (∀ p, env.lookup p = valueOf chain p) →
    ((visit ns fuel avail loc t env dsl).insts.map Inst.toSpec).Perm (specVisit ns fuel avail loc t chain) := by
  intro fuel
  induction fuel with
  | zero => intro avail loc t env chain dsl h; simp [visit, specVisit]
  | succ f ih =>
    intro avail loc t env chain dsl h
    have hf : (fun p => env.lookup p) = valueOf chain := funext h
    unfold visit specVisit
    split
    · simp [Inst.toSpec, hf]
    · rename_i steps execute _
      simp only [append_insts, List.nil_append, concat_insts, List.flatMap_map, List.map_flatMap]
      refine (List.Perm.flatMap_right _ (visitOrder_perm _)).trans ?_
      apply flatMap_perm_pointwise
      intro c _
      apply ih
      intro p
      rw [childEnv_lookup, hf]
      rfl

/-- `flattenOp_eq_flattenSpec`: for every namespace whose entry template exists, the instances (location and
fully substituted arguments) computed by the operational flattener are a permutation of the denotational ones. -/
theorem flattenOp_eq_flattenSpec (ns : Namespace) (t : Template) (h : ns.find ns.entry = some t) :
    ((rootVisit ns t).insts.map Inst.toSpec).Perm (flattenSpec ns) := by
  unfold rootVisit flattenSpec
  rw [h]
  apply visit_perm_specVisit
  intro p
  simp only [valueOf]
  rw [lookup_map_snd]

/-! ### no parameter reference is left -/

private theorem paramRefs_append (a b : Val) : paramRefs (a ++ b) = paramRefs a ++ paramRefs b := by
  induction a with
  | nil => rfl
  | cons t r ih => cases t <;> simp [paramRefs, ih]

/-- what is embedded for a value has the parameter references of the value (a number becomes literal text) -/
theorem embed_paramRefs (w x : Val) (h : embed w = some x) : paramRefs x = paramRefs w := by
  unfold embed at h
  split at h
  · cases h
  · cases h; rfl
  · cases h; rfl

/-- Substitution inside a string removes every parameter reference when each referenced parameter has a value
that can be embedded (text or a number, not a dictionary) and the values themselves are free of parameter
references (which is what the resolved parent scope provides). -/
theorem substT_no_parameter_left (look : Name → Option Val) (v : Val)
    (hcov : ∀ p ∈ paramRefs v, ∃ w x, look p = some w ∧ embed w = some x ∧ paramRefs w = []) :
    paramRefs (substT look v) = [] := by
  induction v with
  | nil => rfl
  | cons t r ih =>
    cases t with
    | par p =>
      obtain ⟨w, x, hw, hx, hfree⟩ := hcov p (by simp [paramRefs])
      have := ih (fun q hq => hcov q (by simp [paramRefs, hq]))
      have hx' : paramRefs x = [] := by rw [embed_paramRefs w x hx]; exact hfree
      simp [substT, hw, hx, paramRefs_append, hx', this]
    | lit s => simpa [substT, paramRefs] using ih (fun q hq => hcov q (by simpa [paramRefs] using hq))
    | ref l m => simpa [substT, paramRefs] using ih (fun q hq => hcov q (by simpa [paramRefs] using hq))
    | suf l m => simpa [substT, paramRefs] using ih (fun q hq => hcov q (by simpa [paramRefs] using hq))
    | dict d => simpa [substT, paramRefs] using ih (fun q hq => hcov q (by simpa [paramRefs] using hq))
    | num n => simpa [substT, paramRefs] using ih (fun q hq => hcov q (by simpa [paramRefs] using hq))

private theorem substV_of_not_whole (look : Name → Option Val) (v : Val) (h : isWholePar v = false) :
    substV look v = substT look v := by
  unfold substV
  split
  · simp [isWholePar] at h
  · rfl

/-- `%(p)s` as the whole value forwards the value of `p` unchanged, with its type (dictionary, number, text). -/
theorem substV_whole_forwards_value (look : Name → Option Val) (p : Name) (w : Val) (h : look p = some w) :
    substV look [.par p] = w := by
  simp [substV, h]

/-- `substV` (whole-value forwarding, or embedding into a string) leaves no parameter reference when every
referenced parameter has a reference-free value which — unless it is forwarded as the whole value — can be
embedded (is not a dictionary). -/
theorem substV_no_parameter_left (look : Name → Option Val) (v : Val)
    (hcov : ∀ p ∈ paramRefs v, ∃ w, look p = some w ∧ paramRefs w = [] ∧
      (isWholePar v = true ∨ ∃ x, embed w = some x)) : paramRefs (substV look v) = [] := by
  cases hw : isWholePar v with
  | true =>
    unfold isWholePar at hw
    split at hw
    · rename_i p
      obtain ⟨w, hl, hfree, _⟩ := hcov p (by simp [paramRefs])
      rw [substV_whole_forwards_value look p w hl]; exact hfree
    · cases hw
  | false =>
    rw [substV_of_not_whole look v hw]
    apply substT_no_parameter_left
    intro p hp
    obtain ⟨w, hl, hfree, hor⟩ := hcov p hp
    rcases hor with h | ⟨x, hx⟩
    · rw [hw] at h; cases h
    · exact ⟨w, x, hl, hx, hfree⟩

private theorem ite_ok {ε α : Type} {b : Prop} [Decidable b] {x c : α} {e : ε}
    (h : (if b then Except.ok x else Except.error e) = Except.ok c) : x = c := by
  by_cases hb : b
  · rw [if_pos hb] at h; exact Except.ok.inj h
  · rw [if_neg hb] at h; cases h

/-- `no_parameter_left`: a component that `digest` accepts has arguments without any parameter reference, and
they are the template's arguments with the instance's parameter values substituted. -/
theorem no_parameter_left (names : List (Loc × Name)) (i : Inst) (c : Comp) (h : digest names i = .ok c) :
    hasPar (merge (substV (fun p => i.params.lookup p) i.arguments)) = false ∧
    c.args = (merge (substV (fun p => i.params.lookup p) i.arguments)).flatMap (convTok names) ∧ c.loc = i.loc := by
  unfold digest at h
  cases hp : hasPar (merge (substV (fun p => i.params.lookup p) i.arguments)) with
  | true =>
    exfalso
    simp only [hp, ↓reduceIte] at h
    by_cases h1 : (!(partialRefs (merge i.arguments)).isEmpty) = true
    · simp [h1] at h
    · simp [h1] at h
  | false =>
    simp only [hp, Bool.false_eq_true, ↓reduceIte, List.nil_append] at h
    by_cases h1 : (!(partialRefs (merge (substV (fun p => i.params.lookup p) i.arguments))).isEmpty) = true
    · simp [h1] at h
    · simp only [h1] at h
      have := ite_ok h
      subst this
      exact ⟨rfl, rfl, rfl⟩

/-! ### names -/

private theorem pickName_fresh (used : List Name) (s : Name) : ∀ (fuel k : Nat) (n : Name),
    pickName used s fuel k = some n → n ∉ used ∧ ∃ j, n = cand s j := by
  intro fuel
  induction fuel with
  | zero => intro k n h; simp [pickName] at h
  | succ f ih =>
    intro k n h
    unfold pickName at h
    split at h
    · exact ih _ _ h
    · rename_i hc
      cases h
      exact ⟨by simpa using hc, k, rfl⟩

/-- `names_unique` (repaired naming): whenever names are assigned, they are pairwise distinct, none of them is
already in use, there is one per component instance, and each derives from its step name (`s`, `s-I`, `s-II` …)
— for every list of step names, including steps literally called `foo-I`. -/
theorem names_unique : ∀ (steps used names : List Name), assignNames used steps = some names →
    names.Nodup ∧ (∀ n ∈ names, n ∉ used) ∧ names.length = steps.length ∧
    ∀ i (h1 : i < names.length) (h2 : i < steps.length), ∃ j, names[i] = cand steps[i] j := by
  intro steps
  induction steps with
  | nil => intro used names h; simp [assignNames] at h; subst h; simp
  | cons s r ih =>
    intro used names h
    unfold assignNames at h
    split at h
    · cases h
    · rename_i n hn
      split at h
      · cases h
      · rename_i ns' hns
        cases h
        obtain ⟨hnd, hfresh, hlen, hcand⟩ := ih (n :: used) ns' hns
        obtain ⟨hnu, j, hj⟩ := pickName_fresh used s _ _ n hn
        refine ⟨List.nodup_cons.mpr ⟨fun hm => hfresh n hm List.mem_cons_self, hnd⟩, ?_, by simp [hlen], ?_⟩
        · intro m hm
          rcases List.mem_cons.mp hm with rfl | hm
          · exact hnu
          · exact fun hu => hfresh m hm (List.mem_cons_of_mem _ hu)
        · intro i h1 h2
          cases i with
          | zero => exact ⟨j, hj⟩
          | succ i => simpa using hcand i (by simpa using h1) (by simpa using h2)

/-! ### producers of output references -/

private theorem longer_pos {best : Option (Loc × Loc)} {sc : Loc} (h : longer best sc = true) : 0 < sc.length := by
  unfold longer at h
  cases best with
  | none => simpa using h
  | some b => simp at h; omega

private theorem split_fold_sound (l : Loc) : ∀ (scopes : List Loc) (best : Option (Loc × Loc)),
    (∀ p f, best = some (p, f) → p ++ f = l ∧ p ≠ []) → ∀ p f,
    scopes.foldl (splitStep l) best = some (p, f) →
    (p ∈ scopes ∨ best = some (p, f)) ∧ p ++ f = l ∧ p ≠ [] := by
  intro scopes
  induction scopes with
  | nil => intro best hb p f h; exact ⟨Or.inr h, hb p f h⟩
  | cons sc r ih =>
    intro best hb p f h
    rw [List.foldl_cons] at h
    by_cases hc : (sc.isPrefixOf l && longer best sc) = true
    · have hs : splitStep l best sc = some (sc, l.drop sc.length) := by unfold splitStep; rw [if_pos hc]
      rw [hs] at h
      rw [Bool.and_eq_true] at hc
      have hpre : sc <+: l := List.isPrefixOf_iff_prefix.mp hc.1
      have hpos := longer_pos hc.2
      have hne : sc ≠ [] := by
        intro he; rw [he] at hpos; simp at hpos
      have := ih (some (sc, l.drop sc.length)) (by
        intro p' f' he; cases he; exact ⟨List.prefix_iff_eq_append.mp hpre, hne⟩) p f h
      rcases this with ⟨h1 | h1, h2⟩
      · exact ⟨Or.inl (List.mem_cons_of_mem _ h1), h2⟩
      · have h3 := Option.some.inj h1
        have h4 : p = sc := (congrArg Prod.fst h3).symm
        subst h4
        exact ⟨Or.inl List.mem_cons_self, h2⟩
    · have hs : splitStep l best sc = best := by unfold splitStep; rw [if_neg hc]
      rw [hs] at h
      have := ih best hb p f h
      rcases this with ⟨h1 | h1, h2⟩
      · exact ⟨Or.inl (List.mem_cons_of_mem _ h1), h2⟩
      · exact ⟨Or.inr h1, h2⟩

/-- `edges preserved` (repaired `OutputReference.split`): the producer found for a reference is one of the
component instances and its whole location is a prefix of the reference location (the rest is the file path). -/
theorem split_sound (scopes : List Loc) (l p f : Loc) (h : split scopes l = some (p, f)) :
    p ∈ scopes ∧ p ++ f = l ∧ p ≠ [] := by
  have := split_fold_sound l scopes none (by intro p f h; cases h) p f h
  rcases this with ⟨h1 | h1, h2⟩
  · exact ⟨h1, h2⟩
  · cases h1

/-! ### invalid namespaces are rejected with the offending location -/

/-- error kinds of one `execute` entry: unknown step, unknown template, cyclic template use, unknown argument
name, reference to an unknown parameter of the enclosing workflow, missing argument — each makes `checkExec`
refuse the entry. -/
theorem invalid_exec_refused (ns : Namespace) (avail : List Name) (w : Template) (steps : List (Name × Name)) (e : Exec)
    (h : steps.lookup e.target = none ∨
         (∃ tn, steps.lookup e.target = some tn ∧ (ns.find tn = none ∨ avail.contains tn = false ∨
           ∃ callee, ns.find tn = some callee ∧
             ((∃ a ∈ e.args, callee.hasParam a.1 = false) ∨
              (∃ a ∈ e.args, ∃ p ∈ paramRefs a.2, w.hasParam p = false) ∨
              (∃ p ∈ callee.params, e.args.lookup p.name = none ∧ p.default = none))))) :
    checkExec ns avail w steps e = none := by
  unfold checkExec
  rcases h with h | ⟨tn, htn, h⟩
  · simp [h]
  · simp only [htn]
    rcases h with h | h | ⟨callee, hc, h⟩
    · simp [h]
    · cases hf : ns.find tn with
      | none => rfl
      | some c =>
        have : (!avail.contains tn) = true := by rw [h]; rfl
        simp only [this, if_true]
    · simp only [hc]
      split
      · rfl
      · split
        · rfl
        · rename_i h2
          split
          · rfl
          · rename_i h3
            exfalso
            rcases h with ⟨a, ha, hp⟩ | ⟨a, ha, p, hp, hw⟩ | ⟨p, hp, hl, hd⟩
            · apply h2
              simp only [List.any_eq_true]
              exact ⟨a, ha, by simp [hp]⟩
            · apply h2
              simp only [List.any_eq_true]
              refine ⟨a, ha, ?_⟩
              simp only [Bool.or_eq_true, List.any_eq_true]
              exact Or.inl ⟨p, hp, by simp [hw]⟩
            · apply h3
              simp only [List.any_eq_true]
              exact ⟨p, hp, by simp [hl, hd]⟩

private theorem badExecs_mem (ns : Namespace) (avail : List Name) (w : Template) (steps : List (Name × Name)) :
    ∀ (es : List Exec) (k j : Nat) (e : Exec), es[j]? = some e → checkExec ns avail w steps e = none →
    k + j ∈ badExecs ns avail w steps k es := by
  intro es
  induction es with
  | nil => intro k j e h; simp at h
  | cons x r ih =>
    intro k j e h hc
    unfold badExecs
    cases j with
    | zero =>
      simp at h; subst h
      simp [hc]
    | succ j =>
      have := ih (k + 1) j e (by simpa using h) hc
      have hk : k + (j + 1) = k + 1 + j := by omega
      rw [hk]
      split
      · exact this
      · exact List.mem_cons_of_mem _ this

/-- `invalid_rejected_with_locations`: when the walk visits a workflow instance whose `execute[j]` is refused,
the location `workflows/<idx>/execute/<j>` is among the reported errors — for every scope of every namespace. -/
theorem invalid_rejected_with_locations (ns : Namespace) (fuel : Nat) (avail : List Name) (loc : Loc) (t : Template)
    (env : Env) (dsl : ErrLoc) (steps : List (Name × Name)) (execute : List Exec) (hb : t.body = .workflow steps execute)
    (j : Nat) (e : Exec) (he : execute[j]? = some e) (hc : checkExec ns avail t steps e = none) :
    ErrLoc.tmpl true t.idx (some j) ∈ (visit ns (fuel + 1) avail loc t env dsl).errsA := by
  unfold visit
  simp only [hb, append_errsA]
  apply List.mem_append_left
  apply List.mem_append_left
  apply List.mem_map.mpr
  refine ⟨j, ?_, rfl⟩
  have := badExecs_mem ns avail t steps execute 0 j e he hc
  simpa using this

/-- errors found inside nested scopes are not lost: `errsA` of the visit contains the errors of every child visit -/
theorem child_errors_propagate (ns : Namespace) (fuel : Nat) (avail : List Name) (loc : Loc) (t : Template)
    (env : Env) (dsl : ErrLoc) (steps : List (Name × Name)) (execute : List Exec) (hb : t.body = .workflow steps execute)
    (c : Child) (hc : c ∈ childrenOf ns avail t steps 0 execute) (x : ErrLoc)
    (hx : x ∈ (visit ns fuel (avail.erase c.callee.name) (loc ++ [c.target]) c.callee (childEnv loc env c)
      (.tmpl true t.idx (some c.j))).errsA) :
    x ∈ (visit ns (fuel + 1) avail loc t env dsl).errsA := by
  unfold visit
  simp only [hb, append_errsA]
  apply List.mem_append_right
  have hv : c ∈ visitOrder (childrenOf ns avail t steps 0 execute) := (visitOrder_perm _).mem_iff.mpr hc
  generalize visitOrder (childrenOf ns avail t steps 0 execute) = l at hv
  induction l with
  | nil => cases hv
  | cons a r ih =>
    show x ∈ (Acc.append _ (Acc.concat _)).errsA
    rw [append_errsA]
    rcases List.mem_cons.mp hv with rfl | hv
    · exact List.mem_append_left _ hx
    · exact List.mem_append_right _ (ih hv)

/-- a namespace is only accepted when no error was recorded in any phase -/
theorem accepted_only_without_errors (ns : Namespace) (cs : List Comp) (h : flattenOp ns = .ok cs) :
    ∃ t, ns.find ns.entry = some t ∧ (rootVisit ns t).errsA = [] ∧ (rootVisit ns t).errsB = [] ∧
      entryMissing t ns.effArgs = false ∧ entryUnknown t ns.effArgs = false ∧
      finish (rootVisit ns t).insts = .ok cs := by
  unfold flattenOp at h
  cases ht : ns.find ns.entry with
  | none => rw [ht] at h; cases h
  | some t =>
    rw [ht] at h
    refine ⟨t, rfl, ?_⟩
    simp only at h
    by_cases h1 : entryMissing t ns.effArgs = true
    · rw [if_pos h1] at h; cases h
    · rw [if_neg h1] at h
      by_cases h2 : entryUnknown t ns.effArgs = true
      · rw [if_pos h2] at h; cases h
      · rw [if_neg h2] at h
        by_cases h3 : (rootVisit ns t).fuelOut = true
        · rw [if_pos h3] at h; cases h
        · rw [if_neg h3] at h
          by_cases h4 : (!(entryErrsA t ns.effArgs ++ (rootVisit ns t).errsA).isEmpty) = true
          · rw [if_pos h4] at h; cases h
          · rw [if_neg h4] at h
            by_cases h5 : (!(entryErrsB t ns.effArgs ++ (rootVisit ns t).errsB).isEmpty) = true
            · rw [if_pos h5] at h; cases h
            · rw [if_neg h5] at h
              have e4 : entryErrsA t ns.effArgs ++ (rootVisit ns t).errsA = [] := by
                cases hx : entryErrsA t ns.effArgs ++ (rootVisit ns t).errsA with
                | nil => rfl
                | cons a r => rw [hx] at h4; simp at h4
              have e5 : entryErrsB t ns.effArgs ++ (rootVisit ns t).errsB = [] := by
                cases hx : entryErrsB t ns.effArgs ++ (rootVisit ns t).errsB with
                | nil => rfl
                | cons a r => rw [hx] at h5; simp at h5
              exact ⟨(List.append_eq_nil_iff.mp e4).2, (List.append_eq_nil_iff.mp e5).2,
                by simpa using h1, by simpa using h2, h⟩

/-! ### non-string parameter values: dictionaries and numbers -/

private theorem paramRefs_mergeCons (t : Tok) (acc : Val) : paramRefs (mergeCons t acc) = paramRefs (t :: acc) := by
  unfold mergeCons
  split <;> simp [paramRefs]

private theorem paramRefs_merge (v : Val) : paramRefs (merge v) = paramRefs v := by
  induction v with
  | nil => rfl
  | cons t r ih =>
    show paramRefs (mergeCons t (merge r)) = _
    rw [paramRefs_mergeCons]
    cases t <;> simp [paramRefs, ih]

private theorem paramRefs_absolutise (parent : Loc) (v : Val) : paramRefs (absolutise parent v) = paramRefs v := by
  induction v with
  | nil => rfl
  | cons t r ih =>
    cases t with
    | ref l m =>
      simp only [absolutise, List.map_cons, absTok] at ih ⊢
      split <;> simpa [paramRefs] using ih
    | par p => simpa [absolutise, absTok, paramRefs] using ih
    | lit x => simpa [absolutise, absTok, paramRefs] using ih
    | suf l m => simpa [absolutise, absTok, paramRefs] using ih
    | dict d => simpa [absolutise, absTok, paramRefs] using ih
    | num n => simpa [absolutise, absTok, paramRefs] using ih

private theorem merge_ne_nil (t : Tok) (r : Val) : merge (t :: r) ≠ [] := by
  show mergeCons t (merge r) ≠ []
  unfold mergeCons
  split <;> simp

private theorem isWholePar_merge (v : Val) : isWholePar (merge v) = isWholePar v := by
  cases v with
  | nil => rfl
  | cons t r =>
    cases r with
    | nil =>
      show isWholePar (mergeCons t []) = _
      unfold mergeCons
      split <;> first | rfl | (rename_i h; cases h)
    | cons t2 r2 =>
      have hr : isWholePar (t :: t2 :: r2) = false := by cases t <;> rfl
      rw [hr]
      show isWholePar (mergeCons t (merge (t2 :: r2))) = false
      cases hacc : merge (t2 :: r2) with
      | nil => exact absurd hacc (merge_ne_nil t2 r2)
      | cons x xs =>
        unfold mergeCons
        split <;> simp [isWholePar]

private theorem isWholePar_absolutise (parent : Loc) (v : Val) : isWholePar (absolutise parent v) = isWholePar v := by
  cases v with
  | nil => rfl
  | cons t r =>
    cases r with
    | nil =>
      cases t with
      | ref l m =>
        simp only [absolutise, List.map_cons, List.map_nil, absTok]
        split <;> rfl
      | par p => rfl
      | lit x => rfl
      | suf l m => rfl
      | dict d => rfl
      | num n => rfl
    | cons t2 r2 => simp [absolutise, isWholePar]

/-- a parameter whose value cannot be embedded (unknown, or a dictionary) keeps its reference when it occurs
inside a string: that is what the callers report as an error -/
theorem embedded_dictionary_keeps_reference (look : Name → Option Val) (p : Name) (v : Val)
    (hbad : (look p).bind embed = none) (hp : p ∈ paramRefs v) : p ∈ paramRefs (substT look v) := by
  induction v with
  | nil => simp [paramRefs] at hp
  | cons t r ih =>
    cases t with
    | par q =>
      simp only [paramRefs, List.mem_cons] at hp
      simp only [substT, paramRefs_append, List.mem_append]
      rcases hp with rfl | hp
      · left; rw [hbad]; simp [paramRefs]
      · right; exact ih hp
    | lit x => simpa [substT, paramRefs] using ih (by simpa [paramRefs] using hp)
    | ref l m => simpa [substT, paramRefs] using ih (by simpa [paramRefs] using hp)
    | suf l m => simpa [substT, paramRefs] using ih (by simpa [paramRefs] using hp)
    | dict d => simpa [substT, paramRefs] using ih (by simpa [paramRefs] using hp)
    | num n => simpa [substT, paramRefs] using ih (by simpa [paramRefs] using hp)

/-- forwarding a dictionary (or a number) as the whole value through one nesting level keeps it intact -/
theorem resolve_whole_forwards_dictionary (parent : Loc) (look : Name → Option Val) (p : Name) (d : S)
    (h : look p = some [.dict d]) : resolve parent look [.par p] = [.dict d] := by
  simp [resolve, merge, mergeCons, absolutise, absTok, substV, h]

theorem resolve_whole_forwards_number (parent : Loc) (look : Name → Option Val) (p : Name) (n : S)
    (h : look p = some [.num n]) : resolve parent look [.par p] = [.num n] := by
  simp [resolve, merge, mergeCons, absolutise, absTok, substV, h]

/-- a number inside a longer string is embedded as its text -/
theorem number_embedded_as_text (look : Name → Option Val) (p : Name) (n : S) (r : Val)
    (h : look p = some [.num n]) : substT look (.par p :: r) = .lit n :: substT look r := by
  simp [substT, h, embed]

/-- `resolve` of an argument that embeds a dictionary-valued parameter of the parent in a longer string leaves a
parameter reference — for every parent location, environment and value. -/
theorem resolve_embedded_dictionary_flagged (parent : Loc) (look : Name → Option Val) (p : Name) (d : S) (v : Val)
    (hd : look p = some [.dict d]) (hp : p ∈ paramRefs v) (hw : isWholePar v = false) :
    hasPar (resolve parent look v) = true := by
  have h1 : isWholePar (absolutise parent (merge v)) = false := by
    rw [isWholePar_absolutise, isWholePar_merge]; exact hw
  have h2 : p ∈ paramRefs (absolutise parent (merge v)) := by
    rw [paramRefs_absolutise, paramRefs_merge]; exact hp
  have h3 : p ∈ paramRefs (resolve parent look v) := by
    unfold resolve
    rw [paramRefs_merge, paramRefs_absolutise, substV_of_not_whole _ _ h1]
    exact embedded_dictionary_keeps_reference look p _ (by simp [hd, embed]) h2
  unfold hasPar
  cases hx : paramRefs (resolve parent look v) with
  | nil => rw [hx] at h3; cases h3
  | cons a r => rfl

private theorem append_errsB (a b : Acc) : (a.append b).errsB = a.errsB ++ b.errsB := rfl

/-- `dict_embedded_rejected_with_location`: when the walk visits a workflow instance in which the argument `a`
of the (otherwise fine) `execute[j]` embeds a dictionary-valued parameter of the workflow in a longer string, the
location `workflows/<idx>/execute/<j>` is among the errors of the resolution phase — for every scope of every
namespace (the code: `ValueError` of `_replace_many_parameter_references` turned into a `DSLInvalidFieldError` by
`Scope.resolve_parameter_references_of_instance`). -/
theorem dict_embedded_rejected_with_location (ns : Namespace) (fuel : Nat) (avail : List Name) (loc : Loc)
    (t : Template) (env : Env) (dsl : ErrLoc) (steps : List (Name × Name)) (execute : List Exec)
    (hb : t.body = .workflow steps execute) (c : Child) (hc : c ∈ childrenOf ns avail t steps 0 execute)
    (a : Name × Val) (ha : a ∈ c.raw) (p : Name) (d : S) (hd : env.lookup p = some [.dict d])
    (hp : p ∈ paramRefs a.2) (hw : isWholePar a.2 = false) :
    ErrLoc.tmpl true t.idx (some c.j) ∈ (visit ns (fuel + 1) avail loc t env dsl).errsB := by
  unfold visit
  simp only [hb, append_errsB]
  apply List.mem_append_left
  apply List.mem_flatMap.mpr
  refine ⟨c, hc, ?_⟩
  unfold childErrsB
  have hbad : (childEnv loc env c).all (fun a => !hasPar a.2) = false := by
    rw [Bool.eq_false_iff]
    intro hall
    rw [List.all_eq_true] at hall
    have hm : (a.1, resolve loc (fun q => env.lookup q) a.2) ∈ childEnv loc env c := by
      unfold childEnv
      exact List.mem_map.mpr ⟨a, ha, rfl⟩
    have := hall _ hm
    rw [resolve_embedded_dictionary_flagged loc (fun q => env.lookup q) p d a.2 hd hp hw] at this
    cases this
  simp [hbad]

/-- errors of the resolution phase found inside nested scopes are not lost either -/
theorem child_errorsB_propagate (ns : Namespace) (fuel : Nat) (avail : List Name) (loc : Loc) (t : Template)
    (env : Env) (dsl : ErrLoc) (steps : List (Name × Name)) (execute : List Exec) (hb : t.body = .workflow steps execute)
    (c : Child) (hc : c ∈ childrenOf ns avail t steps 0 execute) (x : ErrLoc)
    (hx : x ∈ (visit ns fuel (avail.erase c.callee.name) (loc ++ [c.target]) c.callee (childEnv loc env c)
      (.tmpl true t.idx (some c.j))).errsB) :
    x ∈ (visit ns (fuel + 1) avail loc t env dsl).errsB := by
  unfold visit
  simp only [hb, append_errsB]
  apply List.mem_append_right
  have hv : c ∈ visitOrder (childrenOf ns avail t steps 0 execute) := (visitOrder_perm _).mem_iff.mpr hc
  generalize visitOrder (childrenOf ns avail t steps 0 execute) = l at hv
  induction l with
  | nil => cases hv
  | cons a r ih =>
    show x ∈ (Acc.append _ (Acc.concat _)).errsB
    rw [append_errsB]
    rcases List.mem_cons.mp hv with rfl | hv
    · exact List.mem_append_left _ hx
    · exact List.mem_append_right _ (ih hv)

/-- an error of the resolution phase at the root makes the compilation end with the error list (never `.ok`) -/
theorem resolution_error_not_accepted (ns : Namespace) (t : Template) (h : ns.find ns.entry = some t) (x : ErrLoc)
    (hx : x ∈ (rootVisit ns t).errsB) : ∀ cs, flattenOp ns ≠ .ok cs := by
  intro cs hok
  obtain ⟨t', ht', _, hB, _⟩ := accepted_only_without_errors ns cs hok
  rw [h] at ht'
  cases ht'
  rw [hB] at hx
  cases hx

/-- `dict_embedded_in_component_rejected`: a component instance whose `command.arguments` embeds a
dictionary-valued parameter in a longer string is refused with the location of the component template
(`components/<idx>`) among the errors. -/
theorem dict_embedded_in_component_rejected (names : List (Loc × Name)) (i : Inst) (p : Name) (d : S)
    (hd : i.params.lookup p = some [.dict d]) (hp : p ∈ paramRefs i.arguments) (hw : isWholePar i.arguments = false) :
    ∃ es, digest names i = .error es ∧ ErrLoc.tmpl false i.tidx none ∈ es := by
  have hpar : hasPar (merge (substV (fun q => i.params.lookup q) i.arguments)) = true := by
    have h3 : p ∈ paramRefs (merge (substV (fun q => i.params.lookup q) i.arguments)) := by
      rw [paramRefs_merge, substV_of_not_whole _ _ hw]
      exact embedded_dictionary_keeps_reference _ p _ (by simp [hd, embed]) hp
    unfold hasPar
    cases hx : paramRefs (merge (substV (fun q => i.params.lookup q) i.arguments)) with
    | nil => rw [hx] at h3; cases h3
    | cons a r => rfl
  unfold digest
  simp only [hpar, ↓reduceIte]
  split
  · exact ⟨_, rfl, by simp⟩
  · split
    · exact ⟨[ErrLoc.tmpl false i.tidx none] ++ [], by simp, by simp⟩
    · exact ⟨[ErrLoc.tmpl false i.tidx none] ++ [i.dsl], by simp, by simp⟩

/-! ### the environment of a component -/

/-- a dictionary is accepted as environment exactly when the parameter named by `command.environment` has it
as its (whole) value -/
theorem envOf_dict (params : Env) (p : Name) (d : S) (h : params.lookup p = some [.dict d]) :
    envOf params (some p) = some (.dict d) := by
  simp [envOf, h]

/-- a parameter that does not exist, a number, or text other than `none` is refused as environment -/
theorem envOf_refuses (params : Env) (p : Name) :
    (params.lookup p = none → envOf params (some p) = none) ∧
    (∀ n, params.lookup p = some [.num n] → envOf params (some p) = none) ∧
    (∀ s, s ≠ "none".toList → params.lookup p = some [.lit s] → envOf params (some p) = none) := by
  refine ⟨?_, ?_, ?_⟩
  · intro h; simp [envOf, h]
  · intro n h; simp [envOf, h]
  · intro s hs h; simpa [envOf, h] using hs

/-- `env_error_rejected_with_location`: if the environment of some component instance is not acceptable, the
result of `finish` is the list of the `execute` entries that instantiate such components (never `.ok`). -/
theorem env_error_rejected_with_location (insts : List Inst) (i : Inst) (hi : i ∈ insts)
    (he : envOf i.params i.envParam = none) :
    finish insts = .invalid 5 (envErrs insts) ∧ i.dsl ∈ envErrs insts := by
  have hm : i.dsl ∈ envErrs insts := by
    unfold envErrs
    exact List.mem_filterMap.mpr ⟨i, hi, by simp [he]⟩
  refine ⟨?_, hm⟩
  unfold finish
  cases hx : envErrs insts with
  | nil => rw [hx] at hm; cases hm
  | cons a r => simp

/-- an accepted compilation gave every component an acceptable environment -/
theorem accepted_env_ok (insts : List Inst) (cs : List Comp) (h : finish insts = .ok cs) :
    ∀ i ∈ insts, ∃ e, envOf i.params i.envParam = some e := by
  intro i hi
  cases he : envOf i.params i.envParam with
  | some e => exact ⟨e, rfl⟩
  | none =>
    have := (env_error_rejected_with_location insts i hi he).1
    rw [this] at h
    cases h

/-! ### user variables: a layer above the arguments of the entrypoint -/

private theorem lookup_filter_none (u args : Env) (p : Name) (h : u.lookup p = none) :
    (args.filter fun a => (u.lookup a.1).isNone).lookup p = args.lookup p := by
  induction args with
  | nil => rfl
  | cons a r ih =>
    obtain ⟨k, v⟩ := a
    by_cases hk : (p == k) = true
    · have hkk : k = p := by simpa using (beq_iff_eq.mp hk).symm
      subst hkk
      simp [List.filter, h]
    · have hk' : (p == k) = false := by simpa using hk
      simp only [List.filter]
      split
      · simp [List.lookup_cons, hk', ih]
      · simp [List.lookup_cons, hk', ih]

/-- `overlay_lookup`: a user variable wins over the entrypoint argument of the same name; entrypoint arguments
that no user variable names are untouched. -/
theorem overlay_lookup (uvars args : Env) (p : Name) :
    (overlay uvars args).lookup p = match uvars.lookup p with
      | some v => some v
      | none => args.lookup p := by
  unfold overlay
  rw [List.lookup_append]
  cases h : uvars.lookup p with
  | some v => rfl
  | none => simp [lookup_filter_none uvars args p h]

/-- the declared default of parameter `p` (first declaration that has one) -/
def defaultOf (params : List Param) (p : Name) : Option Val :=
  (params.filterMap fun q => q.default.map fun d => (q.name, d)).lookup p

private theorem rawParams_default (params : List Param) (args : Env) (p : Name) (h : args.lookup p = none) :
    (params.filterMap fun q => match args.lookup q.name, q.default with
      | none, some d => some (q.name, d)
      | _, _ => none).lookup p = defaultOf params p := by
  unfold defaultOf
  induction params with
  | nil => rfl
  | cons q r ih =>
    simp only [List.filterMap_cons]
    cases hd : q.default with
    | none =>
      have : (match args.lookup q.name, (none : Option Val) with
          | none, some d => some (q.name, d)
          | _, _ => none) = none := by split <;> simp_all
      simp [ih]
    | some d =>
      by_cases hk : (p == q.name) = true
      · have : q.name = p := (beq_iff_eq.mp hk).symm
        simp [this, h]
      · have hk' : (p == q.name) = false := by simpa using hk
        cases ha : args.lookup q.name with
        | none => simp [List.lookup_cons, hk', ih]
        | some v => simp [List.lookup_cons, hk', ih]

/-- `entry_value_precedence`: the value the entry scope holds for parameter `p` is the user variable if one is
supplied, else the argument of `entrypoint.execute[0]`, else the declared default — for every entry template,
argument list and user-variable list. -/
theorem entry_value_precedence (t : Template) (args uvars : Env) (p : Name) :
    (entryRaw t (overlay uvars args)).lookup p = match uvars.lookup p with
      | some v => some v
      | none => match args.lookup p with
        | some v => some v
        | none => defaultOf t.params p := by
  unfold entryRaw rawParams
  rw [List.lookup_append, overlay_lookup]
  cases hu : uvars.lookup p with
  | some v => rfl
  | none =>
    cases ha : args.lookup p with
    | some v => rfl
    | none =>
      have hov : (overlay uvars args).lookup p = none := by rw [overlay_lookup, hu, ha]
      simp only [Option.or]
      exact rawParams_default t.params (overlay uvars args) p hov

/-- `user_variable_reaches_call_chain`: what the denotational specification (and hence, by
`flattenOp_eq_flattenSpec`, every compiled component below the entry) sees for an entry parameter is that value. -/
theorem user_variable_reaches_call_chain (ns : Namespace) (t : Template) (p : Name) :
    valueOf [⟨[], entryRaw t ns.effArgs⟩] p =
      (match ns.userVars.lookup p with
        | some v => some v
        | none => match ns.entryArgs.lookup p with
          | some v => some v
          | none => defaultOf t.params p).map (resolve [] (fun _ => none)) := by
  simp only [valueOf, Namespace.effArgs]
  rw [entry_value_precedence]

/-- a user variable that is not a parameter of the entry template is refused (`entrypoint`) -/
theorem user_variable_unknown_refused (ns : Namespace) (t : Template) (a : Name × Val) (ha : a ∈ ns.userVars)
    (hp : t.hasParam a.1 = false) : entryUnknown t ns.effArgs = true := by
  unfold entryUnknown Namespace.effArgs overlay
  rw [List.any_eq_true]
  exact ⟨a, List.mem_append_left _ ha, by simp [hp]⟩

/-! ### non-vacuity -/

private def lc (s : String) : S := s.toList
private def compT : Template := ⟨lc "comp", 0, [⟨lc "x", none⟩, ⟨lc "y", some [.lit (lc "dflt")]⟩],
  .component [.lit (lc "cat "), .par (lc "x"), .lit (lc " "), .par (lc "y")] none⟩
private def prodT : Template := ⟨lc "prod", 1, [], .component [.lit (lc "make")] none⟩
private def innerT : Template := ⟨lc "inner", 1, [⟨lc "src", none⟩],
  .workflow [(lc "foo", lc "comp")] [⟨lc "foo", [(lc "x", [.par (lc "src"), .suf [lc "out.txt"] (some (lc "ref"))])]⟩]⟩
private def mainT : Template := ⟨lc "main", 0, [],
  .workflow [(lc "foo", lc "prod"), (lc "foo-I", lc "prod"), (lc "w", lc "inner")]
    [⟨lc "foo", []⟩, ⟨lc "foo-I", []⟩, ⟨lc "w", [(lc "src", [.ref [lc "foo"] none])]⟩]⟩
private def nsEx : Namespace := ⟨[compT, prodT, mainT, innerT], lc "main", [], []⟩

/-- a nested namespace with a partial reference completed one level down, a default, and the step names
`foo`, `foo-I`, `foo` — compiles to three uniquely named components with the expected edge -/
example : (match flattenOp nsEx with
    | .ok cs => cs.map (fun c => (c.name, c.producers))
    | _ => []) =
  [(lc "foo-I", []), (lc "foo", []), (lc "foo-II", [[entryName, lc "foo"]])] := by decide

example : (flattenSpec nsEx).map (·.loc) =
    [[entryName, lc "foo"], [entryName, lc "foo-I"], [entryName, lc "w", lc "foo"]] := by decide

example : specEdges (flattenSpec nsEx) = [([entryName, lc "w", lc "foo"], [entryName, lc "foo"])] := by decide

example : assignNames [] [lc "foo-I", lc "foo", lc "foo"] = some [lc "foo-I", lc "foo", lc "foo-II"] := by decide

example : split [[lc "e", lc "c"], [lc "e", lc "a", lc "p"]] [lc "e", lc "a", lc "p", lc "out"] =
    some ([lc "e", lc "a", lc "p"], [lc "out"]) := by decide

/-- hypothesis of `invalid_exec_refused` is satisfiable: unknown template behind a step -/
example : checkExec nsEx [lc "prod"] mainT [(lc "foo", lc "nosuch")] ⟨lc "foo", []⟩ = none := by decide

/-! non-vacuity of the new theorems: a dictionary forwarded verbatim through two levels reaches the component as
its environment; the same dictionary embedded in a longer string is refused at `workflows/0/execute/0`; a user
variable overrides the entrypoint argument and a default -/
private def envCompT : Template := ⟨lc "sim", 0, [⟨lc "env", none⟩, ⟨lc "n", some [.num (lc "3")]⟩, ⟨lc "label", none⟩],
  .component [.lit (lc "run "), .par (lc "label"), .lit (lc " -n "), .par (lc "n")] (some (lc "env"))⟩
private def envInnerT (arg : Val) : Template := ⟨lc "main", 0, [⟨lc "env", none⟩, ⟨lc "who", some [.lit (lc "dflt")]⟩],
  .workflow [(lc "run", lc "sim")] [⟨lc "run", [(lc "env", [.par (lc "env")]), (lc "label", arg)]⟩]⟩
private def nsEnv (arg : Val) (uvars : Env) : Namespace :=
  ⟨[envCompT, envInnerT arg], lc "main", [(lc "env", [.dict (lc "{A:1}")]), (lc "who", [.lit (lc "entry")])], uvars⟩

example : (match flattenOp (nsEnv [.lit (lc "x="), .par (lc "who")] []) with
    | .ok cs => cs.map (fun c => (c.name, c.args, c.env))
    | _ => []) =
  [(lc "run", [.lit (lc "run "), .lit (lc "x="), .lit (lc "entry"), .lit (lc " -n "), .lit (lc "3")], .dict (lc "{A:1}"))] := by
  decide

example : (match flattenOp (nsEnv [.lit (lc "x="), .par (lc "who")] [(lc "who", [.num (lc "7")])]) with
    | .ok cs => cs.map (fun c => c.args)
    | _ => []) =
  [[.lit (lc "run "), .lit (lc "x="), .lit (lc "7"), .lit (lc " -n "), .lit (lc "3")]] := by decide

example : (match flattenOp (nsEnv [.lit (lc "settings="), .par (lc "env")] []) with
    | .invalid ph errs => (ph, errs)
    | _ => (0, [])) = (2, [.tmpl true 0 (some 0)]) := by decide

/-- hypotheses of `resolve_embedded_dictionary_flagged` / `dict_embedded_rejected_with_location` are satisfiable -/
example : ([(lc "env", [Tok.dict (lc "{A:1}")])] : Env).lookup (lc "env") = some [.dict (lc "{A:1}")] ∧
    lc "env" ∈ paramRefs [.lit (lc "settings="), .par (lc "env")] ∧
    isWholePar [.lit (lc "settings="), .par (lc "env")] = false := by decide

example : envOf [(lc "env", [.lit (lc "fast")])] (some (lc "env")) = none ∧
    envOf [] (some (lc "nosuch")) = none ∧
    envOf [(lc "env", [.lit (lc "none")])] (some (lc "env")) = some .empty := by decide

end St4sd.C06
