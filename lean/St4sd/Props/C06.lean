import St4sd.Model.Dsl
/-!
# C06 — DSL 2.0 compilation preserves the dataflow and parameter bindings

Theorems about the model `St4sd.Dsl` (operational flattener `visit`/`flattenOp`, denotational
`specVisit`/`flattenSpec`, repaired naming `assignNames`, repaired producer lookup `split`).
-/
namespace St4sd.C06
open St4sd.Dsl St4sd.Str

/-! ### helpers -/

private theorem append_fuelOut (a b : Acc) : (a.append b).fuelOut = (a.fuelOut || b.fuelOut) := rfl
private theorem append_insts (a b : Acc) : (a.append b).insts = a.insts ++ b.insts := rfl
private theorem append_errsA (a b : Acc) : (a.append b).errsA = a.errsA ++ b.errsA := rfl

private theorem concat_fuelOut (l : List Acc) (h : ∀ a ∈ l, a.fuelOut = false) : (Acc.concat l).fuelOut = false := by
  induction l with
  | nil => rfl
  | cons a r ih =>
    show (a.append (Acc.concat r)).fuelOut = false
    rw [append_fuelOut, h a (List.mem_cons_self), ih (fun x hx => h x (List.mem_cons_of_mem _ hx))]
    rfl

private theorem concat_insts (l : List Acc) : (Acc.concat l).insts = l.flatMap (·.insts) := by
  induction l with
  | nil => rfl
  | cons a r ih =>
    show (a.append (Acc.concat r)).insts = _
    rw [append_insts, ih]; simp

private theorem checkExec_avail {ns : Namespace} {avail : List Name} {w : Template} {steps : List (Name × Name)}
    {e : Exec} {callee : Template} (h : checkExec ns avail w steps e = some callee) : callee.name ∈ avail := by
  unfold checkExec at h
  cases hs : steps.lookup e.target with
  | none => simp [hs] at h
  | some tn =>
    cases hf : ns.find tn with
    | none => simp [hs, hf] at h
    | some c =>
      simp only [hs, hf] at h
      have hn : (c.name == tn) = true := by
        unfold Namespace.find at hf
        exact List.find?_some (p := fun x : Template => x.name == tn) hf
      have hcn : c.name = tn := by simpa using hn
      split at h
      · cases h
      · rename_i h1
        split at h
        · cases h
        · split at h
          · cases h
          · cases h
            rw [hcn]
            simpa using h1

private theorem childrenOf_avail (ns : Namespace) (avail : List Name) (w : Template) (steps : List (Name × Name))
    (es : List Exec) : ∀ (j : Nat) (c : Child), c ∈ childrenOf ns avail w steps j es → c.callee.name ∈ avail := by
  induction es with
  | nil => intro j c h; simp [childrenOf] at h
  | cons e r ih =>
    intro j c h
    unfold childrenOf at h
    split at h
    · rename_i callee hc
      rcases List.mem_cons.mp h with h | h
      · subst h; exact checkExec_avail hc
      · exact ih _ _ h
    · exact ih _ _ h

private theorem mem_visitOrder {cs : List Child} {c : Child} (h : c ∈ visitOrder cs) : c ∈ cs := by
  unfold visitOrder at h
  rcases List.mem_append.mp h with h | h
  · exact (List.mem_filter.mp (List.mem_reverse.mp h)).1
  · exact (List.mem_filter.mp h).1

private theorem visitOrder_perm (cs : List Child) : (visitOrder cs).Perm cs := by
  unfold visitOrder
  have h1 := List.filter_append_perm (fun c : Child => c.callee.isWf) cs
  have h2 : (cs.filter (fun c => !c.callee.isWf)).reverse.Perm (cs.filter (fun c => !c.callee.isWf)) :=
    List.reverse_perm _
  exact ((h2.append (List.Perm.refl _)).trans List.perm_append_comm).trans h1

private theorem flatMap_perm_pointwise {α β : Type} (l : List α) (f g : α → List β)
    (h : ∀ a ∈ l, (f a).Perm (g a)) : (l.flatMap f).Perm (l.flatMap g) := by
  induction l with
  | nil => simp
  | cons a r ih =>
    simp only [List.flatMap_cons]
    exact (h a List.mem_cons_self).append (ih (fun x hx => h x (List.mem_cons_of_mem _ hx)))

private theorem lookup_map_snd (l : Env) (f : Val → Val) (p : Name) :
    (l.map fun a => (a.1, f a.2)).lookup p = (l.lookup p).map f := by
  induction l with
  | nil => rfl
  | cons a r ih =>
    obtain ⟨k, v⟩ := a
    simp only [List.map_cons, List.lookup_cons]
    cases h : (p == k) <;> first | rfl | simp [ih]

/-! ### termination -/

/-- The walk never runs out of fuel when the fuel exceeds the number of templates that are not yet on the
scope stack: every nesting step removes one template name from `avail` (cyclic template use is reported as an
error by `checkExec` instead of being followed) — for every namespace, location, template and environment. -/
theorem visit_terminates (ns : Namespace) : ∀ (fuel : Nat) (avail : List Name) (loc : Loc) (t : Template) (env : Env)
    (dsl : ErrLoc), avail.length < fuel → (visit ns fuel avail loc t env dsl).fuelOut = false := by
  intro fuel
  induction fuel with
  | zero => intro avail loc t env dsl h; omega
  | succ f ih =>
    intro avail loc t env dsl h
    unfold visit
    split
    · rfl
    · rename_i steps execute _
      simp only [append_fuelOut, Bool.false_or]
      apply concat_fuelOut
      intro a ha
      obtain ⟨c, hc, rfl⟩ := List.mem_map.mp ha
      apply ih
      have hmem := childrenOf_avail ns avail t steps execute 0 c (mem_visitOrder hc)
      have := List.length_pos_of_mem hmem
      rw [List.length_erase_of_mem hmem]
      omega

/-- `flatten_terminates`: with fuel = number of templates the compilation of *every* namespace terminates
without exhausting the fuel (the entry template is found, hence its name is removed from `avail`). -/
theorem flatten_terminates (ns : Namespace) (t : Template) (h : ns.find ns.entry = some t) :
    (rootVisit ns t).fuelOut = false := by
  unfold rootVisit
  apply visit_terminates
  have hm : t ∈ ns.templates := List.mem_of_find?_eq_some h
  have hn : t.name ∈ ns.templates.map (·.name) := List.mem_map.mpr ⟨t, hm, rfl⟩
  rw [List.length_erase_of_mem hn, List.length_map]
  have : 0 < ns.templates.length := List.length_pos_of_mem hm
  omega

/-! ### parameter propagation: eager substitution level by level = lazy lookup along the call chain -/

/-- One level of nesting composes: looking a parameter up in the materialised environment of a child scope is
the same as resolving the argument written by the caller (or the default) against the caller's environment. -/
theorem childEnv_lookup (loc : Loc) (env : Env) (c : Child) (p : Name) :
    (childEnv loc env c).lookup p = (c.raw.lookup p).map (resolve loc (fun q => env.lookup q)) := by
  unfold childEnv
  exact lookup_map_snd c.raw _ p

/-- Looking a parameter up in the materialised parameters of the innermost frame is the lazy lookup along the call
chain — for every chain and parameter. -/
theorem chainEnv_lookup (chain : List Frame) (p : Name) : (chainEnv chain).lookup p = valueOf chain p := by
  cases chain with
  | nil => rfl
  | cons f up =>
    simp only [chainEnv, valueOf]
    exact lookup_map_snd f.raw _ p

/-- `flattenOp_eq_flattenSpec` at the level of the walk: for every fuel, scope stack, location, template and
every environment that is the one of the call chain, the component instances produced by the code's walk
(components first in reverse order, then workflows; parameters substituted level by level) are a permutation
of the instances of the denotational specification (paths in `execute` order; parameter values looked up
along the call chain), with identical locations, identical resolved arguments, identical environment value and
identical values of ALL parameters (also of those that the component never interpolates into its arguments). -/
theorem visit_perm_specVisit (ns : Namespace) : ∀ (fuel : Nat) (avail : List Name) (loc : Loc) (t : Template)
    (env : Env) (chain : List Frame) (dsl : ErrLoc), env = chainEnv chain →
    ((visit ns fuel avail loc t env dsl).insts.map Inst.toSpec).Perm (specVisit ns fuel avail loc t chain) := by
  intro fuel
  induction fuel with
  | zero => intro avail loc t env chain dsl h; simp [visit, specVisit]
  | succ f ih =>
    intro avail loc t env chain dsl h
    have hf : (fun p => env.lookup p) = valueOf chain := funext fun p => by rw [h]; exact chainEnv_lookup chain p
    unfold visit specVisit
    split
    · have hc : (fun p => List.lookup p (chainEnv chain)) = valueOf chain := funext (chainEnv_lookup chain)
      simp [Inst.toSpec, h, hc]
    · rename_i steps execute _
      simp only [append_insts, List.nil_append, concat_insts, List.flatMap_map, List.map_flatMap]
      refine (List.Perm.flatMap_right _ (visitOrder_perm _)).trans ?_
      apply flatMap_perm_pointwise
      intro c _
      apply ih
      simp only [childEnv, chainEnv, hf]

/-- `flattenOp_eq_flattenSpec`: for every namespace whose entry template exists, the instances (location and
fully substituted arguments) computed by the operational flattener are a permutation of the denotational ones. -/
theorem flattenOp_eq_flattenSpec (ns : Namespace) (t : Template) (h : ns.find ns.entry = some t) :
    ((rootVisit ns t).insts.map Inst.toSpec).Perm (flattenSpec ns) := by
  unfold rootVisit flattenSpec
  rw [h]
  apply visit_perm_specVisit
  have hv : (valueOf []) = fun _ => none := funext fun _ => rfl
  simp only [chainEnv, hv]

/-! ### no parameter reference is left -/

private theorem paramRefs_append (a b : Val) : paramRefs (a ++ b) = paramRefs a ++ paramRefs b := by
  induction a with
  | nil => rfl
  | cons t r ih => cases t <;> simp [paramRefs, ih]

/-- what is embedded for a value has the parameter references of the value (a number becomes literal text) -/
theorem embed_paramRefs (w x : Val) (h : embed w = some x) : paramRefs x = paramRefs w := by
  unfold embed at h
  split at h
  · cases h
  · cases h; rfl
  · cases h; rfl

/-- Substitution inside a string removes every parameter reference when each referenced parameter has a value
that can be embedded (text or a number, not a dictionary) and the values themselves are free of parameter
references (which is what the resolved parent scope provides). -/
theorem substT_no_parameter_left (look : Name → Option Val) (v : Val)
    (hcov : ∀ p ∈ paramRefs v, ∃ w x, look p = some w ∧ embed w = some x ∧ paramRefs w = []) :
    paramRefs (substT look v) = [] := by
  induction v with
  | nil => rfl
  | cons t r ih =>
    cases t with
    | par p =>
      obtain ⟨w, x, hw, hx, hfree⟩ := hcov p (by simp [paramRefs])
      have := ih (fun q hq => hcov q (by simp [paramRefs, hq]))
      have hx' : paramRefs x = [] := by rw [embed_paramRefs w x hx]; exact hfree
      simp [substT, hw, hx, paramRefs_append, hx', this]
    | lit s => simpa [substT, paramRefs] using ih (fun q hq => hcov q (by simpa [paramRefs] using hq))
    | ref l m => simpa [substT, paramRefs] using ih (fun q hq => hcov q (by simpa [paramRefs] using hq))
    | suf l m => simpa [substT, paramRefs] using ih (fun q hq => hcov q (by simpa [paramRefs] using hq))
    | dict d => simpa [substT, paramRefs] using ih (fun q hq => hcov q (by simpa [paramRefs] using hq))
    | num n => simpa [substT, paramRefs] using ih (fun q hq => hcov q (by simpa [paramRefs] using hq))

private theorem substV_of_not_whole (look : Name → Option Val) (v : Val) (h : isWholePar v = false) :
    substV look v = substT look v := by
  unfold substV
  split
  · simp [isWholePar] at h
  · rfl

/-- `%(p)s` as the whole value forwards the value of `p` unchanged, with its type (dictionary, number, text). -/
theorem substV_whole_forwards_value (look : Name → Option Val) (p : Name) (w : Val) (h : look p = some w) :
    substV look [.par p] = w := by
  simp [substV, h]

/-- `substV` (whole-value forwarding, or embedding into a string) leaves no parameter reference when every
referenced parameter has a reference-free value which — unless it is forwarded as the whole value — can be
embedded (is not a dictionary). -/
theorem substV_no_parameter_left (look : Name → Option Val) (v : Val)
    (hcov : ∀ p ∈ paramRefs v, ∃ w, look p = some w ∧ paramRefs w = [] ∧
      (isWholePar v = true ∨ ∃ x, embed w = some x)) : paramRefs (substV look v) = [] := by
  cases hw : isWholePar v with
  | true =>
    unfold isWholePar at hw
    split at hw
    · rename_i p
      obtain ⟨w, hl, hfree, _⟩ := hcov p (by simp [paramRefs])
      rw [substV_whole_forwards_value look p w hl]; exact hfree
    · cases hw
  | false =>
    rw [substV_of_not_whole look v hw]
    apply substT_no_parameter_left
    intro p hp
    obtain ⟨w, hl, hfree, hor⟩ := hcov p hp
    rcases hor with h | ⟨x, hx⟩
    · rw [hw] at h; cases h
    · exact ⟨w, x, hl, hx, hfree⟩

private theorem ite_ok {ε α : Type} {b : Prop} [Decidable b] {x c : α} {e : ε}
    (h : (if b then Except.ok x else Except.error e) = Except.ok c) : x = c := by
  by_cases hb : b
  · rw [if_pos hb] at h; exact Except.ok.inj h
  · rw [if_neg hb] at h; cases h

theorem strayPar_false (v : Val) : strayPar false v = hasPar v := by
  unfold strayPar hasPar
  cases paramRefs v <;> simp

/-- what `strayPar` not flagging means: every parameter reference that is left is `%(replica)s` of a replica -/
theorem strayPar_eq_false (rep : Bool) (v : Val) (h : strayPar rep v = false) :
    ∀ p ∈ paramRefs v, rep = true ∧ p = replicaName := by
  intro p hp
  unfold strayPar at h
  have := (List.any_eq_false.mp h) p hp
  simpa using this

/-- `no_parameter_left`: a component that `digest` accepts has arguments in which the only parameter references
left are `%(replica)s` of a replica (none at all for a component that is not a replica), and they are the template's
arguments with the instance's parameter values substituted. -/
theorem no_parameter_left (names : List (Loc × FName)) (rep : Bool) (i : Inst) (c : Comp) (h : digest names rep i = .ok c) :
    (∀ p ∈ paramRefs (merge (substV (maskReplica rep fun p => i.params.lookup p) i.arguments)),
      rep = true ∧ p = replicaName) ∧
    c.args = (merge (substV (maskReplica rep fun p => i.params.lookup p) i.arguments)).flatMap (convTok names) ∧
    c.loc = i.loc ∧ c.replica = rep := by
  unfold digest at h
  cases hp : strayPar rep (merge (substV (maskReplica rep fun p => i.params.lookup p) i.arguments)) with
  | true =>
    exfalso
    simp only [hp, ↓reduceIte] at h
    by_cases h1 : (!(partialRefs (merge i.arguments)).isEmpty) = true
    · simp [h1] at h
    · simp [h1] at h
  | false =>
    simp only [hp, Bool.false_eq_true, ↓reduceIte, List.nil_append] at h
    by_cases h1 : (!(partialRefs (merge (substV (maskReplica rep fun p => i.params.lookup p) i.arguments))).isEmpty) = true
    · simp [h1] at h
    · simp only [h1] at h
      have := ite_ok h
      subst this
      exact ⟨strayPar_eq_false rep _ hp, rfl, rfl, rfl⟩

/-- … in particular a component that is not a replica keeps no parameter reference at all -/
theorem no_parameter_left_not_replica (names : List (Loc × FName)) (i : Inst) (c : Comp)
    (h : digest names false i = .ok c) :
    hasPar (merge (substV (fun p => i.params.lookup p) i.arguments)) = false := by
  have h1 := (no_parameter_left names false i c h).1
  have hm : (maskReplica false fun p => i.params.lookup p) = fun p => i.params.lookup p := by
    funext p; simp [maskReplica]
  rw [hm] at h1
  unfold hasPar
  cases hx : paramRefs (merge (substV (fun p => i.params.lookup p) i.arguments)) with
  | nil => rfl
  | cons a r =>
    have := (h1 a (by rw [hx]; exact List.mem_cons_self)).1
    cases this

/-! ### names -/

private theorem pickName_fresh (used : List FName) (s : Name) : ∀ (fuel k : Nat) (n : FName),
    pickName used s fuel k = some n → n ∉ used ∧ ∃ j, parseName (cand s j) = some n := by
  intro fuel
  induction fuel with
  | zero => intro k n h; simp [pickName] at h
  | succ f ih =>
    intro k n h
    unfold pickName at h
    split at h
    · cases h
    · rename_i fn hfn
      split at h
      · exact ih _ _ h
      · rename_i hc
        cases h
        exact ⟨by simpa using hc, k, hfn⟩

/-- `names_unique` (repaired naming): whenever names are assigned, the `(stage, name)` pairs are pairwise distinct,
none of them is already in use, there is one per component instance, and each is what the name pattern reads out of
a candidate derived from the step name (`s`, `s-I`, `s-II` …) — for every list of step names, including steps
literally called `foo-I` and steps that spell the same pair differently (`foo`, `stage0.foo`, `stage00.foo`). -/
theorem names_unique : ∀ (steps : List Name) (used names : List FName), assignNames used steps = some names →
    names.Nodup ∧ (∀ n ∈ names, n ∉ used) ∧ names.length = steps.length ∧
    ∀ i (h1 : i < names.length) (h2 : i < steps.length), ∃ j, parseName (cand steps[i] j) = some names[i] := by
  intro steps
  induction steps with
  | nil => intro used names h; simp [assignNames] at h; subst h; simp
  | cons s r ih =>
    intro used names h
    unfold assignNames at h
    split at h
    · cases h
    · rename_i n hn
      split at h
      · cases h
      · rename_i ns' hns
        cases h
        obtain ⟨hnd, hfresh, hlen, hcand⟩ := ih (n :: used) ns' hns
        obtain ⟨hnu, j, hj⟩ := pickName_fresh used s _ _ n hn
        refine ⟨List.nodup_cons.mpr ⟨fun hm => hfresh n hm List.mem_cons_self, hnd⟩, ?_, by simp [hlen], ?_⟩
        · intro m hm
          rcases List.mem_cons.mp hm with rfl | hm
          · exact hnu
          · exact fun hu => hfresh m hm (List.mem_cons_of_mem _ hu)
        · intro i h1 h2
          cases i with
          | zero => exact ⟨j, hj⟩
          | succ i => simpa using hcand i (by simpa using h1) (by simpa using h2)

private theorem takeWhile_digits (ds r : S) (hd : ds.all isDigit = true) :
    (ds ++ '.' :: r).takeWhile isDigit = ds ∧ (ds ++ '.' :: r).dropWhile isDigit = '.' :: r := by
  induction ds with
  | nil => exact ⟨by simp [show isDigit '.' = false by decide],
                  by simp [show isDigit '.' = false by decide]⟩
  | cons d t ih =>
    have hd' : isDigit d = true ∧ t.all isDigit = true := by simpa using hd
    obtain ⟨i1, i2⟩ := ih hd'.2
    exact ⟨by simp [hd'.1, i1], by simp [hd'.1, i2]⟩

/-- `parseName_explicit_stage`: `stage<digits>.<name>` reads as the pair (value of the digits, name) — for every
non-empty run of digits and every valid component name; in particular `stage0.x`, `stage00.x` … read as `(0, x)` -/
theorem parseName_explicit_stage (ds nm : S) (hne : ds ≠ []) (hd : ds.all isDigit = true) (hv : validName nm = true) :
    parseName ("stage".toList ++ ds ++ '.' :: nm) = some (digitsVal ds, nm) := by
  obtain ⟨h1, h2⟩ := takeWhile_digits ds nm hd
  have he : ds.isEmpty = false := by cases ds <;> simp_all
  show parseName ('s' :: 't' :: 'a' :: 'g' :: 'e' :: (ds ++ '.' :: nm)) = _
  simp [parseName, stagePrefix, h1, h2, he, hv]

/-- a valid name that does not begin with `stage` reads as stage 0 -/
theorem parseName_plain (nm : S) (hv : validName nm = true) (hs : stagePrefix nm = none) :
    parseName nm = some (0, nm) := by
  simp [parseName, hs, hv]

/-- `spellings_of_one_name_kept_apart`: two steps that spell the same `(stage, name)` pair differently — the plain
`nm` and `stage<zeros>.nm` — are never given the same FlowIR name, in whatever order and among whatever other steps
they are named (consequence of `names_unique`; both *would* read as `(0, nm)`, by `parseName_plain` and
`parseName_explicit_stage`). -/
theorem spellings_of_one_name_kept_apart (steps : List Name) (names : List FName)
    (h : assignNames [] steps = some names) (a b : Nat) (ha : a < names.length) (hb : b < names.length)
    (hab : a ≠ b) : names[a] ≠ names[b] := by
  have hnd := (names_unique steps [] names h).1
  have hp := List.pairwise_iff_getElem.mp hnd
  intro he
  rcases Nat.lt_or_gt_of_ne hab with hlt | hgt
  · exact hp a b ha hb hlt he
  · exact hp b a hb ha hgt he.symm

/-! ### producers of output references -/

private theorem longer_pos {best : Option (Loc × Loc)} {sc : Loc} (h : longer best sc = true) : 0 < sc.length := by
  unfold longer at h
  cases best with
  | none => simpa using h
  | some b => simp at h; omega

private theorem split_fold_sound (l : Loc) : ∀ (scopes : List Loc) (best : Option (Loc × Loc)),
    (∀ p f, best = some (p, f) → p ++ f = l ∧ p ≠ []) → ∀ p f,
    scopes.foldl (splitStep l) best = some (p, f) →
    (p ∈ scopes ∨ best = some (p, f)) ∧ p ++ f = l ∧ p ≠ [] := by
  intro scopes
  induction scopes with
  | nil => intro best hb p f h; exact ⟨Or.inr h, hb p f h⟩
  | cons sc r ih =>
    intro best hb p f h
    rw [List.foldl_cons] at h
    by_cases hc : (sc.isPrefixOf l && longer best sc) = true
    · have hs : splitStep l best sc = some (sc, l.drop sc.length) := by unfold splitStep; rw [if_pos hc]
      rw [hs] at h
      rw [Bool.and_eq_true] at hc
      have hpre : sc <+: l := List.isPrefixOf_iff_prefix.mp hc.1
      have hpos := longer_pos hc.2
      have hne : sc ≠ [] := by
        intro he; rw [he] at hpos; simp at hpos
      have := ih (some (sc, l.drop sc.length)) (by
        intro p' f' he; cases he; exact ⟨List.prefix_iff_eq_append.mp hpre, hne⟩) p f h
      rcases this with ⟨h1 | h1, h2⟩
      · exact ⟨Or.inl (List.mem_cons_of_mem _ h1), h2⟩
      · have h3 := Option.some.inj h1
        have h4 : p = sc := (congrArg Prod.fst h3).symm
        subst h4
        exact ⟨Or.inl List.mem_cons_self, h2⟩
    · have hs : splitStep l best sc = best := by unfold splitStep; rw [if_neg hc]
      rw [hs] at h
      have := ih best hb p f h
      rcases this with ⟨h1 | h1, h2⟩
      · exact ⟨Or.inl (List.mem_cons_of_mem _ h1), h2⟩
      · exact ⟨Or.inr h1, h2⟩

/-- `edges preserved` (repaired `OutputReference.split`): the producer found for a reference is one of the
component instances and its whole location is a prefix of the reference location (the rest is the file path). -/
theorem split_sound (scopes : List Loc) (l p f : Loc) (h : split scopes l = some (p, f)) :
    p ∈ scopes ∧ p ++ f = l ∧ p ≠ [] := by
  have := split_fold_sound l scopes none (by intro p f h; cases h) p f h
  rcases this with ⟨h1 | h1, h2⟩
  · exact ⟨h1, h2⟩
  · cases h1

/-! ### invalid namespaces are rejected with the offending location -/

/-- error kinds of one `execute` entry: unknown step, unknown template, cyclic template use, unknown argument
name, reference to an unknown parameter of the enclosing workflow, missing argument — each makes `checkExec`
refuse the entry. -/
theorem invalid_exec_refused (ns : Namespace) (avail : List Name) (w : Template) (steps : List (Name × Name)) (e : Exec)
    (h : steps.lookup e.target = none ∨
         (∃ tn, steps.lookup e.target = some tn ∧ (ns.find tn = none ∨ avail.contains tn = false ∨
           ∃ callee, ns.find tn = some callee ∧
             ((∃ a ∈ e.args, callee.hasParam a.1 = false) ∨
              (∃ a ∈ e.args, ∃ p ∈ paramRefs a.2, w.hasParam p = false) ∨
              (∃ p ∈ callee.params, e.args.lookup p.name = none ∧ p.default = none))))) :
    checkExec ns avail w steps e = none := by
  unfold checkExec
  rcases h with h | ⟨tn, htn, h⟩
  · simp [h]
  · simp only [htn]
    rcases h with h | h | ⟨callee, hc, h⟩
    · simp [h]
    · cases hf : ns.find tn with
      | none => rfl
      | some c =>
        have : (!avail.contains tn) = true := by rw [h]; rfl
        simp only [this, if_true]
    · simp only [hc]
      split
      · rfl
      · split
        · rfl
        · rename_i h2
          split
          · rfl
          · rename_i h3
            exfalso
            rcases h with ⟨a, ha, hp⟩ | ⟨a, ha, p, hp, hw⟩ | ⟨p, hp, hl, hd⟩
            · apply h2
              simp only [List.any_eq_true]
              exact ⟨a, ha, by simp [hp]⟩
            · apply h2
              simp only [List.any_eq_true]
              refine ⟨a, ha, ?_⟩
              simp only [Bool.or_eq_true, List.any_eq_true]
              exact Or.inl ⟨p, hp, by simp [hw]⟩
            · apply h3
              simp only [List.any_eq_true]
              exact ⟨p, hp, by simp [hl, hd]⟩

private theorem badExecs_mem (ns : Namespace) (avail : List Name) (w : Template) (steps : List (Name × Name)) :
    ∀ (es : List Exec) (k j : Nat) (e : Exec), es[j]? = some e → checkExec ns avail w steps e = none →
    k + j ∈ badExecs ns avail w steps k es := by
  intro es
  induction es with
  | nil => intro k j e h; simp at h
  | cons x r ih =>
    intro k j e h hc
    unfold badExecs
    cases j with
    | zero =>
      simp at h; subst h
      simp [hc]
    | succ j =>
      have := ih (k + 1) j e (by simpa using h) hc
      have hk : k + (j + 1) = k + 1 + j := by omega
      rw [hk]
      split
      · exact this
      · exact List.mem_cons_of_mem _ this

/-- `invalid_rejected_with_locations`: when the walk visits a workflow instance whose `execute[j]` is refused,
the location `workflows/<idx>/execute/<j>` is among the reported errors — for every scope of every namespace. -/
theorem invalid_rejected_with_locations (ns : Namespace) (fuel : Nat) (avail : List Name) (loc : Loc) (t : Template)
    (env : Env) (dsl : ErrLoc) (steps : List (Name × Name)) (execute : List Exec) (hb : t.body = .workflow steps execute)
    (j : Nat) (e : Exec) (he : execute[j]? = some e) (hc : checkExec ns avail t steps e = none) :
    ErrLoc.tmpl true t.idx (some j) ∈ (visit ns (fuel + 1) avail loc t env dsl).errsA := by
  unfold visit
  simp only [hb, append_errsA]
  apply List.mem_append_left
  apply List.mem_append_left
  apply List.mem_map.mpr
  refine ⟨j, ?_, rfl⟩
  have := badExecs_mem ns avail t steps execute 0 j e he hc
  simpa using this

/-- errors found inside nested scopes are not lost: `errsA` of the visit contains the errors of every child visit -/
theorem child_errors_propagate (ns : Namespace) (fuel : Nat) (avail : List Name) (loc : Loc) (t : Template)
    (env : Env) (dsl : ErrLoc) (steps : List (Name × Name)) (execute : List Exec) (hb : t.body = .workflow steps execute)
    (c : Child) (hc : c ∈ childrenOf ns avail t steps 0 execute) (x : ErrLoc)
    (hx : x ∈ (visit ns fuel (avail.erase c.callee.name) (loc ++ [c.target]) c.callee (childEnv loc env c)
      (.tmpl true t.idx (some c.j))).errsA) :
    x ∈ (visit ns (fuel + 1) avail loc t env dsl).errsA := by
  unfold visit
  simp only [hb, append_errsA]
  apply List.mem_append_right
  have hv : c ∈ visitOrder (childrenOf ns avail t steps 0 execute) := (visitOrder_perm _).mem_iff.mpr hc
  generalize visitOrder (childrenOf ns avail t steps 0 execute) = l at hv
  induction l with
  | nil => cases hv
  | cons a r ih =>
    show x ∈ (Acc.append _ (Acc.concat _)).errsA
    rw [append_errsA]
    rcases List.mem_cons.mp hv with rfl | hv
    · exact List.mem_append_left _ hx
    · exact List.mem_append_right _ (ih hv)

/-- a namespace is only accepted when no error was recorded in any phase -/
theorem accepted_only_without_errors (ns : Namespace) (cs : List Comp) (h : flattenOp ns = .ok cs) :
    ∃ t, ns.find ns.entry = some t ∧ (rootVisit ns t).errsA = [] ∧ (rootVisit ns t).errsB = [] ∧
      entryMissing t ns.effArgs = false ∧ entryUnknown t ns.effArgs = false ∧
      finish (rootVisit ns t).insts = .ok cs := by
  unfold flattenOp at h
  cases ht : ns.find ns.entry with
  | none => rw [ht] at h; cases h
  | some t =>
    rw [ht] at h
    refine ⟨t, rfl, ?_⟩
    simp only at h
    by_cases h1 : entryMissing t ns.effArgs = true
    · rw [if_pos h1] at h; cases h
    · rw [if_neg h1] at h
      by_cases h2 : entryUnknown t ns.effArgs = true
      · rw [if_pos h2] at h; cases h
      · rw [if_neg h2] at h
        by_cases h3 : (rootVisit ns t).fuelOut = true
        · rw [if_pos h3] at h; cases h
        · rw [if_neg h3] at h
          by_cases h4 : (!(entryErrsA t ns.effArgs ++ (rootVisit ns t).errsA).isEmpty) = true
          · rw [if_pos h4] at h; cases h
          · rw [if_neg h4] at h
            by_cases h5 : (!(entryErrsB t ns.effArgs ++ (rootVisit ns t).errsB).isEmpty) = true
            · rw [if_pos h5] at h; cases h
            · rw [if_neg h5] at h
              have e4 : entryErrsA t ns.effArgs ++ (rootVisit ns t).errsA = [] := by
                cases hx : entryErrsA t ns.effArgs ++ (rootVisit ns t).errsA with
                | nil => rfl
                | cons a r => rw [hx] at h4; simp at h4
              have e5 : entryErrsB t ns.effArgs ++ (rootVisit ns t).errsB = [] := by
                cases hx : entryErrsB t ns.effArgs ++ (rootVisit ns t).errsB with
                | nil => rfl
                | cons a r => rw [hx] at h5; simp at h5
              exact ⟨(List.append_eq_nil_iff.mp e4).2, (List.append_eq_nil_iff.mp e5).2,
                by simpa using h1, by simpa using h2, h⟩

/-! ### non-string parameter values: dictionaries and numbers -/

private theorem paramRefs_mergeCons (t : Tok) (acc : Val) : paramRefs (mergeCons t acc) = paramRefs (t :: acc) := by
  unfold mergeCons
  split <;> simp [paramRefs]

private theorem paramRefs_merge (v : Val) : paramRefs (merge v) = paramRefs v := by
  induction v with
  | nil => rfl
  | cons t r ih =>
    show paramRefs (mergeCons t (merge r)) = _
    rw [paramRefs_mergeCons]
    cases t <;> simp [paramRefs, ih]

private theorem paramRefs_absolutise (parent : Loc) (v : Val) : paramRefs (absolutise parent v) = paramRefs v := by
  induction v with
  | nil => rfl
  | cons t r ih =>
    cases t with
    | ref l m =>
      simp only [absolutise, List.map_cons, absTok] at ih ⊢
      split <;> simpa [paramRefs] using ih
    | par p => simpa [absolutise, absTok, paramRefs] using ih
    | lit x => simpa [absolutise, absTok, paramRefs] using ih
    | suf l m => simpa [absolutise, absTok, paramRefs] using ih
    | dict d => simpa [absolutise, absTok, paramRefs] using ih
    | num n => simpa [absolutise, absTok, paramRefs] using ih

private theorem merge_ne_nil (t : Tok) (r : Val) : merge (t :: r) ≠ [] := by
  show mergeCons t (merge r) ≠ []
  unfold mergeCons
  split <;> simp

private theorem isWholePar_merge (v : Val) : isWholePar (merge v) = isWholePar v := by
  cases v with
  | nil => rfl
  | cons t r =>
    cases r with
    | nil =>
      show isWholePar (mergeCons t []) = _
      unfold mergeCons
      split <;> first | rfl | (rename_i h; cases h)
    | cons t2 r2 =>
      have hr : isWholePar (t :: t2 :: r2) = false := by cases t <;> rfl
      rw [hr]
      show isWholePar (mergeCons t (merge (t2 :: r2))) = false
      cases hacc : merge (t2 :: r2) with
      | nil => exact absurd hacc (merge_ne_nil t2 r2)
      | cons x xs =>
        unfold mergeCons
        split <;> simp [isWholePar]

private theorem isWholePar_absolutise (parent : Loc) (v : Val) : isWholePar (absolutise parent v) = isWholePar v := by
  cases v with
  | nil => rfl
  | cons t r =>
    cases r with
    | nil =>
      cases t with
      | ref l m =>
        simp only [absolutise, List.map_cons, List.map_nil, absTok]
        split <;> rfl
      | par p => rfl
      | lit x => rfl
      | suf l m => rfl
      | dict d => rfl
      | num n => rfl
    | cons t2 r2 => simp [absolutise, isWholePar]

/-- a parameter whose value cannot be embedded (unknown, or a dictionary) keeps its reference when it occurs
inside a string: that is what the callers report as an error -/
theorem embedded_dictionary_keeps_reference (look : Name → Option Val) (p : Name) (v : Val)
    (hbad : (look p).bind embed = none) (hp : p ∈ paramRefs v) : p ∈ paramRefs (substT look v) := by
  induction v with
  | nil => simp [paramRefs] at hp
  | cons t r ih =>
    cases t with
    | par q =>
      simp only [paramRefs, List.mem_cons] at hp
      simp only [substT, paramRefs_append, List.mem_append]
      rcases hp with rfl | hp
      · left; rw [hbad]; simp [paramRefs]
      · right; exact ih hp
    | lit x => simpa [substT, paramRefs] using ih (by simpa [paramRefs] using hp)
    | ref l m => simpa [substT, paramRefs] using ih (by simpa [paramRefs] using hp)
    | suf l m => simpa [substT, paramRefs] using ih (by simpa [paramRefs] using hp)
    | dict d => simpa [substT, paramRefs] using ih (by simpa [paramRefs] using hp)
    | num n => simpa [substT, paramRefs] using ih (by simpa [paramRefs] using hp)

/-- forwarding a dictionary (or a number) as the whole value through one nesting level keeps it intact -/
theorem resolve_whole_forwards_dictionary (parent : Loc) (look : Name → Option Val) (p : Name) (d : S)
    (h : look p = some [.dict d]) : resolve parent look [.par p] = [.dict d] := by
  simp [resolve, merge, mergeCons, absolutise, absTok, substV, h]

theorem resolve_whole_forwards_number (parent : Loc) (look : Name → Option Val) (p : Name) (n : S)
    (h : look p = some [.num n]) : resolve parent look [.par p] = [.num n] := by
  simp [resolve, merge, mergeCons, absolutise, absTok, substV, h]

/-- a number inside a longer string is embedded as its text -/
theorem number_embedded_as_text (look : Name → Option Val) (p : Name) (n : S) (r : Val)
    (h : look p = some [.num n]) : substT look (.par p :: r) = .lit n :: substT look r := by
  simp [substT, h, embed]

/-- `resolve` of an argument that embeds a dictionary-valued parameter of the parent in a longer string leaves a
parameter reference — for every parent location, environment and value. -/
theorem resolve_embedded_dictionary_flagged (parent : Loc) (look : Name → Option Val) (p : Name) (d : S) (v : Val)
    (hd : look p = some [.dict d]) (hp : p ∈ paramRefs v) (hw : isWholePar v = false) :
    hasPar (resolve parent look v) = true := by
  have h1 : isWholePar (absolutise parent (merge v)) = false := by
    rw [isWholePar_absolutise, isWholePar_merge]; exact hw
  have h2 : p ∈ paramRefs (absolutise parent (merge v)) := by
    rw [paramRefs_absolutise, paramRefs_merge]; exact hp
  have h3 : p ∈ paramRefs (resolve parent look v) := by
    unfold resolve
    rw [paramRefs_merge, paramRefs_absolutise, substV_of_not_whole _ _ h1]
    exact embedded_dictionary_keeps_reference look p _ (by simp [hd, embed]) h2
  unfold hasPar
  cases hx : paramRefs (resolve parent look v) with
  | nil => rw [hx] at h3; cases h3
  | cons a r => rfl

private theorem append_errsB (a b : Acc) : (a.append b).errsB = a.errsB ++ b.errsB := rfl

/-- `dict_embedded_rejected_with_location`: when the walk visits a workflow instance in which the argument `a`
of the (otherwise fine) `execute[j]` embeds a dictionary-valued parameter of the workflow in a longer string, the
location `workflows/<idx>/execute/<j>` is among the errors of the resolution phase — for every scope of every
namespace (the code: `ValueError` of `_replace_many_parameter_references` turned into a `DSLInvalidFieldError` by
`Scope.resolve_parameter_references_of_instance`). -/
theorem dict_embedded_rejected_with_location (ns : Namespace) (fuel : Nat) (avail : List Name) (loc : Loc)
    (t : Template) (env : Env) (dsl : ErrLoc) (steps : List (Name × Name)) (execute : List Exec)
    (hb : t.body = .workflow steps execute) (c : Child) (hc : c ∈ childrenOf ns avail t steps 0 execute)
    (a : Name × Val) (ha : a ∈ c.raw) (p : Name) (d : S) (hd : env.lookup p = some [.dict d])
    (hp : p ∈ paramRefs a.2) (hw : isWholePar a.2 = false) :
    ErrLoc.tmpl true t.idx (some c.j) ∈ (visit ns (fuel + 1) avail loc t env dsl).errsB := by
  unfold visit
  simp only [hb, append_errsB]
  apply List.mem_append_left
  apply List.mem_flatMap.mpr
  refine ⟨c, hc, ?_⟩
  unfold childErrsB
  have hbad : (childEnv loc env c).all (fun a => !hasPar a.2) = false := by
    rw [Bool.eq_false_iff]
    intro hall
    rw [List.all_eq_true] at hall
    have hm : (a.1, resolve loc (fun q => env.lookup q) a.2) ∈ childEnv loc env c := by
      unfold childEnv
      exact List.mem_map.mpr ⟨a, ha, rfl⟩
    have := hall _ hm
    rw [resolve_embedded_dictionary_flagged loc (fun q => env.lookup q) p d a.2 hd hp hw] at this
    cases this
  simp [hbad]

/-- errors of the resolution phase found inside nested scopes are not lost either -/
theorem child_errorsB_propagate (ns : Namespace) (fuel : Nat) (avail : List Name) (loc : Loc) (t : Template)
    (env : Env) (dsl : ErrLoc) (steps : List (Name × Name)) (execute : List Exec) (hb : t.body = .workflow steps execute)
    (c : Child) (hc : c ∈ childrenOf ns avail t steps 0 execute) (x : ErrLoc)
    (hx : x ∈ (visit ns fuel (avail.erase c.callee.name) (loc ++ [c.target]) c.callee (childEnv loc env c)
      (.tmpl true t.idx (some c.j))).errsB) :
    x ∈ (visit ns (fuel + 1) avail loc t env dsl).errsB := by
  unfold visit
  simp only [hb, append_errsB]
  apply List.mem_append_right
  have hv : c ∈ visitOrder (childrenOf ns avail t steps 0 execute) := (visitOrder_perm _).mem_iff.mpr hc
  generalize visitOrder (childrenOf ns avail t steps 0 execute) = l at hv
  induction l with
  | nil => cases hv
  | cons a r ih =>
    show x ∈ (Acc.append _ (Acc.concat _)).errsB
    rw [append_errsB]
    rcases List.mem_cons.mp hv with rfl | hv
    · exact List.mem_append_left _ hx
    · exact List.mem_append_right _ (ih hv)

/-- an error of the resolution phase at the root makes the compilation end with the error list (never `.ok`) -/
theorem resolution_error_not_accepted (ns : Namespace) (t : Template) (h : ns.find ns.entry = some t) (x : ErrLoc)
    (hx : x ∈ (rootVisit ns t).errsB) : ∀ cs, flattenOp ns ≠ .ok cs := by
  intro cs hok
  obtain ⟨t', ht', _, hB, _⟩ := accepted_only_without_errors ns cs hok
  rw [h] at ht'
  cases ht'
  rw [hB] at hx
  cases hx

private theorem maskReplica_off (rep : Bool) (look : Name → Option Val) (p : Name)
    (h : (rep && p == replicaName) = false) : maskReplica rep look p = look p := by
  simp only [maskReplica, h]; rfl

/-- a parameter reference whose parameter cannot be embedded survives `substV` (whole value or inside a string) -/
private theorem substV_keeps_reference (look : Name → Option Val) (p : Name) (v : Val)
    (hbad : (look p).bind embed = none) (hnone : isWholePar v = true → look p = none)
    (hp : p ∈ paramRefs v) : p ∈ paramRefs (substV look v) := by
  cases hw : isWholePar v with
  | false =>
    rw [substV_of_not_whole _ _ hw]
    exact embedded_dictionary_keeps_reference look p v hbad hp
  | true =>
    unfold isWholePar at hw
    split at hw
    · rename_i q
      have hq : p = q := by simpa [paramRefs] using hp
      subst hq
      have := hnone (by rfl)
      simp [substV, this, paramRefs]
    · cases hw

private theorem strayPar_of_mem (rep : Bool) (v : Val) (p : Name) (hp : p ∈ paramRefs v)
    (h : (rep && p == replicaName) = false) : strayPar rep v = true := by
  unfold strayPar
  exact List.any_eq_true.mpr ⟨p, hp, by simp [h]⟩

private theorem digest_flags (names : List (Loc × FName)) (rep : Bool) (i : Inst)
    (hpar : strayPar rep (merge (substV (maskReplica rep fun q => i.params.lookup q) i.arguments)) = true) :
    ∃ es, digest names rep i = .error es ∧ ErrLoc.tmpl false i.tidx none ∈ es := by
  unfold digest
  simp only [hpar, ↓reduceIte]
  split
  · exact ⟨_, rfl, by simp⟩
  · split
    · exact ⟨[ErrLoc.tmpl false i.tidx none] ++ [], by simp, by simp⟩
    · exact ⟨[ErrLoc.tmpl false i.tidx none] ++ [i.dsl], by simp, by simp⟩

/-- `dict_embedded_in_component_rejected`: a component instance whose `command.arguments` embeds a
dictionary-valued parameter in a longer string is refused with the location of the component template
(`components/<idx>`) among the errors. -/
theorem dict_embedded_in_component_rejected (names : List (Loc × FName)) (rep : Bool) (i : Inst) (p : Name) (d : S)
    (hd : i.params.lookup p = some [.dict d]) (hp : p ∈ paramRefs i.arguments) (hw : isWholePar i.arguments = false)
    (hr : (rep && p == replicaName) = false) :
    ∃ es, digest names rep i = .error es ∧ ErrLoc.tmpl false i.tidx none ∈ es := by
  apply digest_flags
  apply strayPar_of_mem rep _ p _ hr
  rw [paramRefs_merge, substV_of_not_whole _ _ hw]
  exact embedded_dictionary_keeps_reference _ p _ (by rw [maskReplica_off _ _ _ hr]; simp [hd, embed]) hp

/-- `replica_reference_outside_replica_rejected`: `%(replica)s` in the `command.arguments` of a component instance
that is not a replica and has no parameter called `replica` is an unknown parameter: the instance is refused with
`components/<idx>` among the errors — for every instance and naming table. -/
theorem replica_reference_outside_replica_rejected (names : List (Loc × FName)) (i : Inst)
    (hp : replicaName ∈ paramRefs i.arguments) (hn : i.params.lookup replicaName = none) :
    ∃ es, digest names false i = .error es ∧ ErrLoc.tmpl false i.tidx none ∈ es := by
  apply digest_flags
  apply strayPar_of_mem false _ replicaName _ (by rfl)
  rw [paramRefs_merge]
  apply substV_keeps_reference
  · rw [maskReplica_off _ _ _ (by rfl)]; simp [hn]
  · intro _; rw [maskReplica_off _ _ _ (by rfl)]; exact hn
  · exact hp

/-- `replica_reference_kept_for_replica`: for a replica, `%(replica)s` is left in place (it is a variable of the
runtime) and is not what makes `digest` flag the arguments: a value whose only parameter reference is `replica`
is not flagged. -/
theorem replica_reference_kept_for_replica (look : Name → Option Val) (v : Val)
    (h : ∀ p ∈ paramRefs v, p = replicaName) :
    replicaName ∈ paramRefs v → (replicaName ∈ paramRefs (merge (substV (maskReplica true look) v)) ∧
      strayPar true (merge (substV (maskReplica true look) v)) = false) := by
  intro hin
  have hmask : (maskReplica true look replicaName) = none := by simp [maskReplica]
  have hkeep : replicaName ∈ paramRefs (substV (maskReplica true look) v) :=
    substV_keeps_reference _ replicaName v (by rw [hmask]; rfl) (fun _ => hmask) hin
  refine ⟨by rw [paramRefs_merge]; exact hkeep, ?_⟩
  -- every reference of `v` is `replica`, its value is masked: nothing else can appear
  have hall : ∀ q ∈ paramRefs (substV (maskReplica true look) v), q = replicaName := by
    cases hw : isWholePar v with
    | true =>
      unfold isWholePar at hw
      split at hw
      · rename_i q
        have hq : q = replicaName := h q (by simp [paramRefs])
        subst hq
        intro x hx
        simpa [substV, hmask, paramRefs] using hx
      · cases hw
    | false =>
      rw [substV_of_not_whole _ _ hw]
      clear hw hkeep hin
      induction v with
      | nil => intro q hq; simp [substT, paramRefs] at hq
      | cons t r ih =>
        cases t with
        | par q =>
          have hq : q = replicaName := h q (by simp [paramRefs])
          subst hq
          have ih' := ih (fun x hx => h x (by simp [paramRefs, hx]))
          intro x hx
          simp only [substT, hmask, Option.bind_none, paramRefs_append, List.mem_append] at hx
          rcases hx with hx | hx
          · simpa [paramRefs] using hx
          · exact ih' x hx
        | lit s => simpa [substT, paramRefs] using ih (fun x hx => h x (by simpa [paramRefs] using hx))
        | ref l m => simpa [substT, paramRefs] using ih (fun x hx => h x (by simpa [paramRefs] using hx))
        | suf l m => simpa [substT, paramRefs] using ih (fun x hx => h x (by simpa [paramRefs] using hx))
        | dict d => simpa [substT, paramRefs] using ih (fun x hx => h x (by simpa [paramRefs] using hx))
        | num n => simpa [substT, paramRefs] using ih (fun x hx => h x (by simpa [paramRefs] using hx))
  unfold strayPar
  rw [paramRefs_merge]
  apply List.any_eq_false.mpr
  intro q hq
  simp [hall q hq]

/-! ### the environment of a component -/

/-- a dictionary is accepted as environment exactly when the parameter named by `command.environment` has it
as its (whole) value -/
theorem envOf_dict (params : Env) (p : Name) (d : S) (h : params.lookup p = some [.dict d]) :
    envOf params (some p) = some (.dict d) := by
  simp [envOf, h]

/-- a parameter that does not exist, a number, or text other than `none` is refused as environment -/
theorem envOf_refuses (params : Env) (p : Name) :
    (params.lookup p = none → envOf params (some p) = none) ∧
    (∀ n, params.lookup p = some [.num n] → envOf params (some p) = none) ∧
    (∀ s, s ≠ "none".toList → params.lookup p = some [.lit s] → envOf params (some p) = none) := by
  refine ⟨?_, ?_, ?_⟩
  · intro h; simp [envOf, h]
  · intro n h; simp [envOf, h]
  · intro s hs h; simpa [envOf, h] using hs

/-- `env_error_rejected_with_location`: if the environment of some component instance is not acceptable, the
result of `finish` is the list of the `execute` entries that instantiate such components (never `.ok`). -/
theorem env_error_rejected_with_location (insts : List Inst) (i : Inst) (hi : i ∈ insts)
    (he : envOf i.params i.envParam = none) :
    finish insts = .invalid 5 (envErrs insts ++ replicaErrs insts) ∧ i.dsl ∈ envErrs insts := by
  have hm : i.dsl ∈ envErrs insts := by
    unfold envErrs
    exact List.mem_filterMap.mpr ⟨i, hi, by simp [he]⟩
  refine ⟨?_, hm⟩
  unfold finish
  cases hx : envErrs insts with
  | nil => rw [hx] at hm; cases hm
  | cons a r => simp

/-- an accepted compilation gave every component an acceptable environment -/
theorem accepted_env_ok (insts : List Inst) (cs : List Comp) (h : finish insts = .ok cs) :
    ∀ i ∈ insts, ∃ e, envOf i.params i.envParam = some e := by
  intro i hi
  cases he : envOf i.params i.envParam with
  | some e => exact ⟨e, rfl⟩
  | none =>
    have := (env_error_rejected_with_location insts i hi he).1
    rw [this] at h
    cases h

/-! ### replication: the memo dictionaries of `can_template_replicate` do not change its answers

`RepTrue insts l`: the memo-free walk finds, with some fuel, a replicating ancestor of the component at `l`.
`Memo.Sound`: every memoised fact is true *of this namespace* (what a fresh `ScopeStack` guarantees: it starts with
empty dictionaries and only records what its own walks found).  `Witness.stale_memo_changes_the_answer` shows that
the hypothesis is needed: entries left over from another compilation flip the answer both ways. -/

def RepTrue (insts : List Inst) (l : Loc) : Prop := ∃ f, repWalk insts f l = true

/-- the specification of `is_replica` for a component instance -/
def IsReplicaSpec (insts : List Inst) (i : Inst) : Prop :=
  i.replicate = true ∨ (i.aggregate = false ∧ RepTrue insts i.loc)

def Memo.Sound (insts : List Inst) (m : Memo) : Prop :=
  (∀ l ∈ m.rep, ∃ i, findInst insts l = some i ∧ (i.replicate = true ∨ (i.aggregate = false ∧ RepTrue insts l))) ∧
  (∀ l ∈ m.agg, ∃ i, findInst insts l = some i ∧ i.aggregate = true)

theorem memo_empty_sound (insts : List Inst) : Memo.Sound insts {} := by
  constructor
  · intro l h; exact absurd h List.not_mem_nil
  · intro l h; exact absurd h List.not_mem_nil

/-- one edge: a producer that replicates, or does not aggregate and has a replicating ancestor, makes the consumer's
walk succeed -/
theorem repTrue_of_producer (insts : List Inst) (l p : Loc) (i q : Inst) (hi : findInst insts l = some i)
    (hp : p ∈ producersOf insts i) (hq : findInst insts p = some q)
    (h : q.replicate = true ∨ (q.aggregate = false ∧ RepTrue insts p)) : RepTrue insts l := by
  rcases h with h | ⟨ha, f, hf⟩
  · refine ⟨1, ?_⟩
    simp only [repWalk, hi, Bool.or_eq_true, List.any_eq_true]
    exact Or.inr ⟨p, hp, by simp [hq, h]⟩
  · refine ⟨f + 1, ?_⟩
    simp only [repWalk, hi, Bool.or_eq_true, List.any_eq_true]
    exact Or.inr ⟨p, hp, by simp [hq, ha, hf]⟩

theorem repTrue_of_replicate (insts : List Inst) (l : Loc) (i : Inst) (hi : findInst insts l = some i)
    (h : i.replicate = true) : RepTrue insts l :=
  ⟨1, by simp [repWalk, hi, h]⟩

/-- the scan of one popped node `s` (not aggregating), over any part `r` of its producers -/
theorem scan_sound (insts : List Inst) (s : Loc) (i : Inst) (hi : findInst insts s = some i)
    (hagg : i.aggregate = false) : ∀ (r : List Loc) (m : Memo) (push : List Loc),
    (∀ p ∈ r, p ∈ producersOf insts i) → Memo.Sound insts m →
    (∀ p ∈ push, p ∈ producersOf insts i ∧ ∃ q, findInst insts p = some q ∧ q.aggregate = false) →
    match scan insts s m r push with
    | .found m' => Memo.Sound insts m' ∧ RepTrue insts s
    | .more m' push' => Memo.Sound insts m' ∧
        ∀ p ∈ push', p ∈ producersOf insts i ∧ ∃ q, findInst insts p = some q ∧ q.aggregate = false := by
  intro r
  induction r with
  | nil => intro m push _ hm hpush; simp only [scan]; exact ⟨hm, hpush⟩
  | cons p r ih =>
    intro m push hr hm hpush
    have hpi : p ∈ producersOf insts i := hr p List.mem_cons_self
    have hr' : ∀ x ∈ r, x ∈ producersOf insts i := fun x hx => hr x (List.mem_cons_of_mem _ hx)
    unfold scan
    cases hq : findInst insts p with
    | none => simpa using ih m push hr' hm hpush
    | some q =>
      simp only
      by_cases h1 : (m.rep.contains p || q.replicate) = true
      · rw [if_pos h1]
        have hrep : RepTrue insts s := by
          rcases Bool.or_eq_true_iff.mp h1 with hc | hc
          · obtain ⟨q', hq', hfact⟩ := hm.1 p (by simpa using hc)
            rw [hq] at hq'; cases hq'
            exact repTrue_of_producer insts s p i q hi hpi hq hfact
          · exact repTrue_of_producer insts s p i q hi hpi hq (Or.inl hc)
        refine ⟨⟨?_, hm.2⟩, hrep⟩
        intro l hl
        rcases List.mem_cons.mp hl with rfl | hl
        · exact ⟨i, hi, Or.inr ⟨hagg, hrep⟩⟩
        · exact hm.1 l hl
      · rw [if_neg h1]
        by_cases h2 : (m.agg.contains p || q.aggregate) = true
        · rw [if_pos h2]
          apply ih _ push hr' _ hpush
          refine ⟨hm.1, ?_⟩
          intro l hl
          rcases List.mem_cons.mp hl with rfl | hl
          · rcases Bool.or_eq_true_iff.mp h2 with hc | hc
            · exact hm.2 l (by simpa using hc)
            · exact ⟨q, hq, hc⟩
          · exact hm.2 l hl
        · rw [if_neg h2]
          apply ih m (p :: push) hr' hm
          intro x hx
          rcases List.mem_cons.mp hx with rfl | hx
          · refine ⟨hpi, q, hq, ?_⟩
            have : (m.agg.contains x || q.aggregate) = false := by simpa using h2
            exact (Bool.or_eq_false_iff.mp this).2
          · exact hpush x hx

/-- the walk: if every location on the stack is not aggregating and a replicating ancestor of any of them implies
`Q`, then a positive answer implies `Q`, and the memo stays sound — for every fuel, memo and stack -/
theorem walkM_sound (insts : List Inst) (Q : Prop) : ∀ (fuel : Nat) (m : Memo) (stack : List Loc) (b : Bool) (m' : Memo),
    Memo.Sound insts m → (∀ s ∈ stack, ∀ i, findInst insts s = some i → i.aggregate = false) →
    (∀ s ∈ stack, RepTrue insts s → Q) → walkM insts fuel m stack = (b, m') →
    Memo.Sound insts m' ∧ (b = true → Q) := by
  intro fuel
  induction fuel with
  | zero =>
    intro m stack b m' hm _ _ h
    simp only [walkM] at h
    cases h
    exact ⟨hm, fun hb => by cases hb⟩
  | succ f ih =>
    intro m stack b m' hm hgood hq h
    cases stack with
    | nil =>
      simp only [walkM] at h
      cases h
      exact ⟨hm, fun hb => by cases hb⟩
    | cons s stack =>
      have hgood' : ∀ x ∈ stack, ∀ i, findInst insts x = some i → i.aggregate = false :=
        fun x hx => hgood x (List.mem_cons_of_mem _ hx)
      have hq' : ∀ x ∈ stack, RepTrue insts x → Q := fun x hx => hq x (List.mem_cons_of_mem _ hx)
      unfold walkM at h
      cases hi : findInst insts s with
      | none =>
        rw [hi] at h
        exact ih m stack b m' hm hgood' hq' h
      | some i =>
        rw [hi] at h
        simp only at h
        by_cases hr : i.replicate = true
        · rw [if_pos hr] at h
          cases h
          exact ⟨hm, fun _ => hq s List.mem_cons_self (repTrue_of_replicate insts s i hi hr)⟩
        · rw [if_neg hr] at h
          have hagg : i.aggregate = false := hgood s List.mem_cons_self i hi
          have hs := scan_sound insts s i hi hagg (producersOf insts i) m [] (fun p hp => hp) hm
            (fun p hp => by cases hp)
          cases hsc : scan insts s m (producersOf insts i) [] with
          | found m1 =>
            rw [hsc] at h hs
            cases h
            exact ⟨hs.1, fun _ => hq s List.mem_cons_self hs.2⟩
          | more m1 push =>
            rw [hsc] at h hs
            simp only at h
            apply ih m1 (push ++ stack) b m' hs.1 _ _ h
            · intro x hx j hj
              rcases List.mem_append.mp hx with hx | hx
              · obtain ⟨_, q, hq1, hq2⟩ := hs.2 x hx
                rw [hq1] at hj; cases hj; exact hq2
              · exact hgood' x hx j hj
            · intro x hx hrx
              rcases List.mem_append.mp hx with hx | hx
              · obtain ⟨hp, q, hq1, hq2⟩ := hs.2 x hx
                exact hq s List.mem_cons_self (repTrue_of_producer insts s x i q hi hp hq1 (Or.inr ⟨hq2, hrx⟩))
              · exact hq' x hx hrx

/-- `memo_answer_sound`: starting from a memo that only holds true facts about this namespace, a positive answer of
`can_template_replicate` (with the memo dictionaries) is correct according to the memo-free specification, and the
memo it leaves behind again only holds true facts — for every list of component instances, every instance of it,
every such memo (in particular the memo left by any sequence of earlier calls on the same namespace, in any order). -/
theorem memo_answer_sound (insts : List Inst) (m : Memo) (i : Inst) (hi : findInst insts i.loc = some i)
    (hm : Memo.Sound insts m) (b : Bool) (m' : Memo) (h : canReplicateM insts m i = (b, m')) :
    Memo.Sound insts m' ∧ (b = true → IsReplicaSpec insts i) := by
  unfold canReplicateM at h
  by_cases hr : i.replicate = true
  · rw [if_pos hr] at h
    cases h
    exact ⟨hm, fun _ => Or.inl hr⟩
  · rw [if_neg hr] at h
    by_cases ha : i.aggregate = true
    · rw [if_pos ha] at h
      cases h
      refine ⟨⟨hm.1, ?_⟩, fun hb => by cases hb⟩
      intro l hl
      rcases List.mem_cons.mp hl with rfl | hl
      · exact ⟨i, hi, ha⟩
      · exact hm.2 l hl
    · rw [if_neg ha] at h
      have hagg : i.aggregate = false := by simpa using ha
      have := walkM_sound insts (RepTrue insts i.loc) (walkFuel insts) m [i.loc] b m' hm
        (by
          intro s hs j hj
          have : s = i.loc := by simpa using hs
          subst this
          rw [hi] at hj; cases hj; exact hagg)
        (by
          intro s hs hrs
          have : s = i.loc := by simpa using hs
          subst this
          exact hrs) h
      exact ⟨this.1, fun hb => Or.inr ⟨hagg, this.2 hb⟩⟩

/-- the memo-free answer used by `flattenOp` is correct according to the same specification -/
theorem isReplica_sound (insts : List Inst) (i : Inst) (h : isReplica insts i = true) : IsReplicaSpec insts i := by
  unfold isReplica at h
  rcases Bool.or_eq_true_iff.mp h with h | h
  · exact Or.inl h
  · have := Bool.and_eq_true_iff.mp h
    exact Or.inr ⟨by simpa using this.1, ⟨_, this.2⟩⟩

/-- `replicasM_sound`: the answers of a whole series of calls sharing one memo (the loop over the components in
`namespace_to_flowir`), started from a sound memo — e.g. the empty one of a fresh `ScopeStack` — never report a
component as a replica that is not one according to the specification. -/
theorem replicasM_sound (insts : List Inst) : ∀ (todo : List Inst) (m : Memo), Memo.Sound insts m →
    (∀ i ∈ todo, findInst insts i.loc = some i) →
    ∀ k (h1 : k < (replicasM insts m todo).length) (h2 : k < todo.length),
      (replicasM insts m todo)[k] = true → IsReplicaSpec insts todo[k] := by
  intro todo
  induction todo with
  | nil => intro m _ _ k h1 h2; simp at h2
  | cons i r ih =>
    intro m hm hfind k h1 h2 hk
    have hstep := memo_answer_sound insts m i (hfind i List.mem_cons_self) hm
      (canReplicateM insts m i).1 (canReplicateM insts m i).2 rfl
    cases k with
    | zero =>
      simp only [replicasM, List.getElem_cons_zero] at hk ⊢
      exact hstep.2 hk
    | succ k =>
      simp only [replicasM, List.getElem_cons_succ] at hk ⊢
      exact ih _ hstep.1 (fun j hj => hfind j (List.mem_cons_of_mem _ hj)) k
        (by simpa [replicasM] using h1) (by simpa using h2) hk

/-- a replica that declares a parameter called `replica` is refused with `components/<idx>` (never `.ok`) -/
theorem replica_declaring_replica_rejected (insts : List Inst) (i : Inst) (hi : i ∈ insts)
    (hr : isReplica insts i = true) (hd : i.declaresReplica = true) :
    finish insts = .invalid 5 (envErrs insts ++ replicaErrs insts) ∧
    ErrLoc.tmpl false i.tidx none ∈ replicaErrs insts := by
  have hm : ErrLoc.tmpl false i.tidx none ∈ replicaErrs insts := by
    unfold replicaErrs
    exact List.mem_filterMap.mpr ⟨i, hi, by simp [hr, hd]⟩
  refine ⟨?_, hm⟩
  unfold finish
  cases hx : envErrs insts ++ replicaErrs insts with
  | nil =>
    have : ErrLoc.tmpl false i.tidx none ∈ envErrs insts ++ replicaErrs insts := List.mem_append_right _ hm
    rw [hx] at this; cases this
  | cons a r => simp

/-! ### user variables: a layer above the arguments of the entrypoint -/

private theorem lookup_filter_none (u args : Env) (p : Name) (h : u.lookup p = none) :
    (args.filter fun a => (u.lookup a.1).isNone).lookup p = args.lookup p := by
  induction args with
  | nil => rfl
  | cons a r ih =>
    obtain ⟨k, v⟩ := a
    by_cases hk : (p == k) = true
    · have hkk : k = p := by simpa using (beq_iff_eq.mp hk).symm
      subst hkk
      simp [List.filter, h]
    · have hk' : (p == k) = false := by simpa using hk
      simp only [List.filter]
      split
      · simp [List.lookup_cons, hk', ih]
      · simp [List.lookup_cons, hk', ih]

/-- `overlay_lookup`: a user variable wins over the entrypoint argument of the same name; entrypoint arguments
that no user variable names are untouched. -/
theorem overlay_lookup (uvars args : Env) (p : Name) :
    (overlay uvars args).lookup p = match uvars.lookup p with
      | some v => some v
      | none => args.lookup p := by
  unfold overlay
  rw [List.lookup_append]
  cases h : uvars.lookup p with
  | some v => rfl
  | none => simp [lookup_filter_none uvars args p h]

/-- the declared default of parameter `p` (first declaration that has one) -/
def defaultOf (params : List Param) (p : Name) : Option Val :=
  (params.filterMap fun q => q.default.map fun d => (q.name, d)).lookup p

private theorem rawParams_default (params : List Param) (args : Env) (p : Name) (h : args.lookup p = none) :
    (params.filterMap fun q => match args.lookup q.name, q.default with
      | none, some d => some (q.name, d)
      | _, _ => none).lookup p = defaultOf params p := by
  unfold defaultOf
  induction params with
  | nil => rfl
  | cons q r ih =>
    simp only [List.filterMap_cons]
    cases hd : q.default with
    | none =>
      have : (match args.lookup q.name, (none : Option Val) with
          | none, some d => some (q.name, d)
          | _, _ => none) = none := by split <;> simp_all
      simp [ih]
    | some d =>
      by_cases hk : (p == q.name) = true
      · have : q.name = p := (beq_iff_eq.mp hk).symm
        simp [this, h]
      · have hk' : (p == q.name) = false := by simpa using hk
        cases ha : args.lookup q.name with
        | none => simp [List.lookup_cons, hk', ih]
        | some v => simp [List.lookup_cons, hk', ih]

/-- `entry_value_precedence`: the value the entry scope holds for parameter `p` is the user variable if one is
supplied, else the argument of `entrypoint.execute[0]`, else the declared default — for every entry template,
argument list and user-variable list. -/
theorem entry_value_precedence (t : Template) (args uvars : Env) (p : Name) :
    (entryRaw t (overlay uvars args)).lookup p = match uvars.lookup p with
      | some v => some v
      | none => match args.lookup p with
        | some v => some v
        | none => defaultOf t.params p := by
  unfold entryRaw rawParams
  rw [List.lookup_append, overlay_lookup]
  cases hu : uvars.lookup p with
  | some v => rfl
  | none =>
    cases ha : args.lookup p with
    | some v => rfl
    | none =>
      have hov : (overlay uvars args).lookup p = none := by rw [overlay_lookup, hu, ha]
      simp only [Option.or]
      exact rawParams_default t.params (overlay uvars args) p hov

/-- `user_variable_reaches_call_chain`: what the denotational specification (and hence, by
`flattenOp_eq_flattenSpec`, every compiled component below the entry) sees for an entry parameter is that value. -/
theorem user_variable_reaches_call_chain (ns : Namespace) (t : Template) (p : Name) :
    valueOf [⟨[], entryRaw t ns.effArgs⟩] p =
      (match ns.userVars.lookup p with
        | some v => some v
        | none => match ns.entryArgs.lookup p with
          | some v => some v
          | none => defaultOf t.params p).map (resolve [] (fun _ => none)) := by
  simp only [valueOf, Namespace.effArgs]
  rw [entry_value_precedence]

/-- a user variable that is not a parameter of the entry template is refused (`entrypoint`) -/
theorem user_variable_unknown_refused (ns : Namespace) (t : Template) (a : Name × Val) (ha : a ∈ ns.userVars)
    (hp : t.hasParam a.1 = false) : entryUnknown t ns.effArgs = true := by
  unfold entryUnknown Namespace.effArgs overlay
  rw [List.any_eq_true]
  exact ⟨a, List.mem_append_left _ ha, by simp [hp]⟩

/-! ### non-vacuity -/

private def lc (s : String) : S := s.toList
private def compT : Template := ⟨lc "comp", 0, [⟨lc "x", none⟩, ⟨lc "y", some [.lit (lc "dflt")]⟩],
  .component [.lit (lc "cat "), .par (lc "x"), .lit (lc " "), .par (lc "y")] none none false⟩
private def prodT : Template := ⟨lc "prod", 1, [], .component [.lit (lc "make")] none none false⟩
private def innerT : Template := ⟨lc "inner", 1, [⟨lc "src", none⟩],
  .workflow [(lc "foo", lc "comp")] [⟨lc "foo", [(lc "x", [.par (lc "src"), .suf [lc "out.txt"] (some (lc "ref"))])]⟩]⟩
private def mainT : Template := ⟨lc "main", 0, [],
  .workflow [(lc "foo", lc "prod"), (lc "foo-I", lc "prod"), (lc "w", lc "inner")]
    [⟨lc "foo", []⟩, ⟨lc "foo-I", []⟩, ⟨lc "w", [(lc "src", [.ref [lc "foo"] none])]⟩]⟩
private def nsEx : Namespace := ⟨[compT, prodT, mainT, innerT], lc "main", [], []⟩

/-- a nested namespace with a partial reference completed one level down, a default, and the step names
`foo`, `foo-I`, `foo` — compiles to three uniquely named components with the expected edge -/
example : (match flattenOp nsEx with
    | .ok cs => cs.map (fun c => (c.name, c.producers))
    | _ => []) =
  [(lc "foo-I", []), (lc "foo", []), (lc "foo-II", [[entryName, lc "foo"]])] := by decide

example : (flattenSpec nsEx).map (·.loc) =
    [[entryName, lc "foo"], [entryName, lc "foo-I"], [entryName, lc "w", lc "foo"]] := by decide

example : specEdges (flattenSpec nsEx) = [([entryName, lc "w", lc "foo"], [entryName, lc "foo"])] := by decide

example : assignNames [] [lc "foo-I", lc "foo", lc "foo"] = some [(0, lc "foo-I"), (0, lc "foo"), (0, lc "foo-II")] := by
  decide

/-- two spellings of one name, in two stages: `generate`, `stage0.generate`, `stage00.generate`, `stage1.generate` -/
example : assignNames [] [lc "generate", lc "stage0.generate", lc "stage00.generate", lc "stage1.generate"] =
    some [(0, lc "generate"), (0, lc "generate-I"), (0, lc "generate-II"), (1, lc "generate")] := by decide

example : parseName (lc "stage1.") = none ∧ parseName (lc "stage1.2") = none ∧
    parseName (lc "stagex.y") = some (0, lc "stagex.y") ∧ parseName (lc "stage05.a-I") = some (5, lc "a-I") := by decide

example : split [[lc "e", lc "c"], [lc "e", lc "a", lc "p"]] [lc "e", lc "a", lc "p", lc "out"] =
    some ([lc "e", lc "a", lc "p"], [lc "out"]) := by decide

/-- hypothesis of `invalid_exec_refused` is satisfiable: unknown template behind a step -/
example : checkExec nsEx [lc "prod"] mainT [(lc "foo", lc "nosuch")] ⟨lc "foo", []⟩ = none := by decide

/-! non-vacuity of the new theorems: a dictionary forwarded verbatim through two levels reaches the component as
its environment; the same dictionary embedded in a longer string is refused at `workflows/0/execute/0`; a user
variable overrides the entrypoint argument and a default -/
private def envCompT : Template := ⟨lc "sim", 0, [⟨lc "env", none⟩, ⟨lc "n", some [.num (lc "3")]⟩, ⟨lc "label", none⟩],
  .component [.lit (lc "run "), .par (lc "label"), .lit (lc " -n "), .par (lc "n")] (some (lc "env")) none false⟩
private def envInnerT (arg : Val) : Template := ⟨lc "main", 0, [⟨lc "env", none⟩, ⟨lc "who", some [.lit (lc "dflt")]⟩],
  .workflow [(lc "run", lc "sim")] [⟨lc "run", [(lc "env", [.par (lc "env")]), (lc "label", arg)]⟩]⟩
private def nsEnv (arg : Val) (uvars : Env) : Namespace :=
  ⟨[envCompT, envInnerT arg], lc "main", [(lc "env", [.dict (lc "{A:1}")]), (lc "who", [.lit (lc "entry")])], uvars⟩

example : (match flattenOp (nsEnv [.lit (lc "x="), .par (lc "who")] []) with
    | .ok cs => cs.map (fun c => (c.name, c.args, c.env))
    | _ => []) =
  [(lc "run", [.lit (lc "run "), .lit (lc "x="), .lit (lc "entry"), .lit (lc " -n "), .lit (lc "3")], .dict (lc "{A:1}"))] := by
  decide

example : (match flattenOp (nsEnv [.lit (lc "x="), .par (lc "who")] [(lc "who", [.num (lc "7")])]) with
    | .ok cs => cs.map (fun c => c.args)
    | _ => []) =
  [[.lit (lc "run "), .lit (lc "x="), .lit (lc "7"), .lit (lc " -n "), .lit (lc "3")]] := by decide

example : (match flattenOp (nsEnv [.lit (lc "settings="), .par (lc "env")] []) with
    | .invalid ph errs => (ph, errs)
    | _ => (0, [])) = (2, [.tmpl true 0 (some 0)]) := by decide

/-- hypotheses of `resolve_embedded_dictionary_flagged` / `dict_embedded_rejected_with_location` are satisfiable -/
example : ([(lc "env", [Tok.dict (lc "{A:1}")])] : Env).lookup (lc "env") = some [.dict (lc "{A:1}")] ∧
    lc "env" ∈ paramRefs [.lit (lc "settings="), .par (lc "env")] ∧
    isWholePar [.lit (lc "settings="), .par (lc "env")] = false := by decide

example : envOf [(lc "env", [.lit (lc "fast")])] (some (lc "env")) = none ∧
    envOf [] (some (lc "nosuch")) = none ∧
    envOf [(lc "env", [.lit (lc "none")])] (some (lc "env")) = some .empty := by decide

/-! ### references that reach a component only through its parameters -/

/-- all complete references of a component instance: of the parameter values, then of the resolved arguments -/
def allRefs (rep : Bool) (i : Inst) : List (Loc × S) :=
  ((i.params.flatMap fun a => fullRefs a.2) ++
    fullRefs (merge (substV (maskReplica rep fun p => i.params.lookup p) i.arguments))).eraseDups

theorem digest_ok_shape (names : List (Loc × FName)) (rep : Bool) (i : Inst) (c : Comp)
    (h : digest names rep i = .ok c) :
    (allRefs rep i).all (fun r => (split (names.map (·.1)) r.1).isSome) = true ∧
    c.refs = (allRefs rep i).flatMap (fun r => convTok names (.ref r.1 (some r.2))) ∧
    c.producers = ((allRefs rep i).filterMap (fun r => (split (names.map (·.1)) r.1).map (·.1))).eraseDups := by
  unfold digest at h
  cases hp : strayPar rep (merge (substV (maskReplica rep fun p => i.params.lookup p) i.arguments)) with
  | true =>
    exfalso
    simp only [hp, ↓reduceIte] at h
    by_cases h1 : (!(partialRefs (merge i.arguments)).isEmpty) = true
    · simp [h1] at h
    · simp [h1] at h
  | false =>
    simp only [hp, Bool.false_eq_true, ↓reduceIte, List.nil_append] at h
    by_cases h1 : (!(partialRefs (merge (substV (maskReplica rep fun p => i.params.lookup p) i.arguments))).isEmpty) = true
    · simp [h1] at h
    · simp only [h1] at h
      simp only [Bool.false_eq_true, ↓reduceIte] at h
      by_cases h2 : (((List.flatMap (fun a => partialRefs a.snd) i.params).all fun l =>
                        (fullRefs (merge (substV (maskReplica rep fun p => List.lookup p i.params) i.arguments))).any
                          fun r => r.fst == l) &&
                      (allRefs rep i).all
                        fun r => (split (List.map (fun x => x.fst) names) r.fst).isSome) = true
      · unfold allRefs at h2
        simp only [h2, ↓reduceIte, List.isEmpty_nil] at h
        have hc := Except.ok.inj h
        subst hc
        simp only [Bool.and_eq_true] at h2
        exact ⟨h2.2, rfl, rfl⟩
      · unfold allRefs at h2
        have h2' := Bool.eq_false_iff.mpr h2
        simp only [h2', Bool.false_eq_true, ↓reduceIte] at h
        simp at h

/-- A complete output reference that reaches a component as (part of) the value of one of its parameters is a
reference of the compiled component and its producer is one of the component's producers — whether or not the
parameter is interpolated into `command.arguments` (the idiom `param: <producer>/file:copy` for staging a file) —
for every naming table, instance and accepted component. -/
theorem parameter_reference_kept (names : List (Loc × FName)) (rep : Bool) (i : Inst) (c : Comp)
    (h : digest names rep i = .ok c) (a : Name × Val) (ha : a ∈ i.params) (l : Loc) (m : S)
    (hr : (l, m) ∈ fullRefs a.2) :
    ∃ pr f, split (names.map (·.1)) l = some (pr, f) ∧ pr ∈ c.producers ∧
      OTok.dref ((names.lookup pr).getD (0, [])).1 ((names.lookup pr).getD (0, [])).2 f m ∈ c.refs := by
  obtain ⟨hall, hrefs, hprod⟩ := digest_ok_shape names rep i c h
  have hmem : (l, m) ∈ allRefs rep i := by
    unfold allRefs
    rw [List.mem_eraseDups]
    exact List.mem_append_left _ (List.mem_flatMap.mpr ⟨a, ha, hr⟩)
  have hs := (List.all_eq_true.mp hall) (l, m) hmem
  cases hsp : split (names.map (·.1)) l with
  | none => simp [hsp] at hs
  | some pf =>
    obtain ⟨pr, f⟩ := pf
    refine ⟨pr, f, rfl, ?_, ?_⟩
    · rw [hprod, List.mem_eraseDups]
      exact List.mem_filterMap.mpr ⟨(l, m), hmem, by simp [hsp]⟩
    · rw [hrefs]
      exact List.mem_flatMap.mpr ⟨(l, m), hmem, by simp [convTok, hsp]⟩

/-- … and likewise for the complete references of the resolved arguments: nothing else is a reference -/
theorem references_are_parameter_or_argument_references (names : List (Loc × FName)) (rep : Bool) (i : Inst) (c : Comp)
    (h : digest names rep i = .ok c) (x : OTok) (hx : x ∈ c.refs) :
    ∃ l m, ((∃ a ∈ i.params, (l, m) ∈ fullRefs a.2) ∨
        (l, m) ∈ fullRefs (merge (substV (maskReplica rep fun p => i.params.lookup p) i.arguments))) ∧
      x ∈ convTok names (.ref l (some m)) := by
  obtain ⟨_, hrefs, _⟩ := digest_ok_shape names rep i c h
  rw [hrefs] at hx
  obtain ⟨r, hr, hxr⟩ := List.mem_flatMap.mp hx
  unfold allRefs at hr
  rw [List.mem_eraseDups, List.mem_append] at hr
  refine ⟨r.1, r.2, ?_, hxr⟩
  cases hr with
  | inl hl =>
    obtain ⟨a, ha, hra⟩ := List.mem_flatMap.mp hl
    exact Or.inl ⟨a, ha, hra⟩
  | inr hr' => exact Or.inr hr'

private def stagedInst : Inst :=
  ⟨[entryName, lc "c"], .tmpl true 0 (some 1), 1,
    [(lc "staged", [.ref [entryName, lc "p", lc "molecule.inp"] (some (lc "copy"))])], [.lit (lc "molecule.inp")],
    none, false, false, false⟩

/-- the hypotheses of `parameter_reference_kept` are satisfiable: a `:copy` reference that is only a parameter value -/
example : (match digest [([entryName, lc "p"], (0, lc "p")), ([entryName, lc "c"], (0, lc "c"))] false stagedInst with
    | .ok c => decide (c.refs = [.dref 0 (lc "p") [lc "molecule.inp"] (lc "copy")] ∧
        c.producers = [[entryName, lc "p"]] ∧ c.args = [.lit (lc "molecule.inp")])
    | _ => false) = true := by decide

/-! ### the `environments` section: a component is bound to its own environment -/

section envtab
variable {H : Type} [DecidableEq H]

theorem findSlot_some (hv : H) : ∀ (tab : List (H × S)) (k : Nat), findSlot hv tab = some k →
    ∃ d, tab[k]? = some (hv, d) := by
  intro tab
  induction tab with
  | nil => intro k h; simp [findSlot] at h
  | cons e r ih =>
    intro k h
    unfold findSlot at h
    by_cases he : e.1 = hv
    · simp only [he, ↓reduceIte, Option.some.injEq] at h
      subst h
      exact ⟨e.2, by simp [← he]⟩
    · simp only [he, ↓reduceIte] at h
      cases hr : findSlot hv r with
      | none => simp [hr] at h
      | some j =>
        simp only [hr, Option.map_some, Option.some.injEq] at h
        subst h
        obtain ⟨d, hd⟩ := ih j hr
        exact ⟨d, by simpa using hd⟩

/-- every entry of the table is registered under the hash of its own dictionary -/
def TabOk (h : S → H) (tab : List (H × S)) : Prop := ∀ e ∈ tab, e.1 = h e.2

private theorem prefix_get {α : Type} {a b : List α} (hp : a <+: b) {k : Nat} {x : α} (hk : a[k]? = some x) :
    b[k]? = some x := by
  obtain ⟨t, rfl⟩ := hp
  have hlt : k < a.length := by
    rcases Nat.lt_or_ge k a.length with hl | hl
    · exact hl
    · rw [List.getElem?_eq_none hl] at hk; cases hk
  rw [List.getElem?_append_left hlt]; exact hk

theorem bindEnv_spec (h : S → H) (tab : List (H × S)) (d : S) (hok : TabOk h tab) :
    TabOk h (bindEnv h tab d).2 ∧ tab <+: (bindEnv h tab d).2 ∧
    ∃ d', (bindEnv h tab d).2[(bindEnv h tab d).1]? = some (h d, d') ∧ h d' = h d := by
  unfold bindEnv
  cases hs : findSlot (h d) tab with
  | some k =>
    obtain ⟨d', hd'⟩ := findSlot_some (h d) tab k hs
    refine ⟨hok, List.prefix_refl _, d', hd', ?_⟩
    exact (hok _ (List.mem_of_getElem? hd')).symm
  | none =>
    refine ⟨?_, List.prefix_append _ _, d, by simp, rfl⟩
    intro e he
    rcases List.mem_append.mp he with h1 | h1
    · exact hok e h1
    · simp at h1; subst h1; rfl

theorem bindAll_spec (h : S → H) : ∀ (ds : List S) (tab : List (H × S)), TabOk h tab →
    tab <+: (bindAll h tab ds).2 ∧ (bindAll h tab ds).1.length = ds.length ∧
    ∀ p ∈ ds.zip (bindAll h tab ds).1, ∃ d', (bindAll h tab ds).2[p.2]? = some (h p.1, d') ∧ h d' = h p.1 := by
  intro ds
  induction ds with
  | nil => intro tab _; simp [bindAll]
  | cons d r ih =>
    intro tab hok
    obtain ⟨hok1, hpre1, d', hget, hd'⟩ := bindEnv_spec h tab d hok
    obtain ⟨hpre2, hlen, hall⟩ := ih (bindEnv h tab d).2 hok1
    simp only [bindAll]
    refine ⟨hpre1.trans hpre2, by simp [hlen], ?_⟩
    intro p hp
    simp only [List.zip_cons_cons, List.mem_cons] at hp
    rcases hp with rfl | hp
    · exact ⟨d', prefix_get hpre2 hget, hd'⟩
    · exact hall p hp

/-- `environment_binding_faithful`: when the hash tells different dictionaries apart, then — for every sequence of
components with dictionary environments — every component gets a name, and the entry registered under the name of a
component is that component's OWN dictionary (it is never bound to the environment of another instance). -/
theorem environment_binding_faithful (h : S → H) (hinj : ∀ a b, h a = h b → a = b) (ds : List S) :
    (bindAll h [] ds).1.length = ds.length ∧
    ∀ p ∈ ds.zip (bindAll h [] ds).1, ((bindAll h [] ds).2[p.2]?).map (·.2) = some p.1 := by
  obtain ⟨_, hlen, hall⟩ := bindAll_spec h ds [] (by intro e he; cases he)
  refine ⟨hlen, ?_⟩
  intro p hp
  obtain ⟨d', hget, hd'⟩ := hall p hp
  rw [hget, hinj _ _ hd']
  rfl

/-- whatever the hash: the entry a component is bound to has the same hash as the component's dictionary -/
theorem environment_binding_same_hash (h : S → H) (ds : List S) :
    ∀ p ∈ ds.zip (bindAll h [] ds).1, ((bindAll h [] ds).2[p.2]?).map (·.1) = some (h p.1) := by
  obtain ⟨_, _, hall⟩ := bindAll_spec h ds [] (by intro e he; cases he)
  intro p hp
  obtain ⟨d', hget, _⟩ := hall p hp
  rw [hget]; rfl

end envtab

example : (bindAll (fun d => d) [] [lc "a", lc "b", lc "a"]).1 = [0, 1, 0] ∧
    (bindAll (fun d => d) [] [lc "a", lc "b", lc "a"]).2 = [(lc "a", lc "a"), (lc "b", lc "b")] := by decide

end St4sd.C06
