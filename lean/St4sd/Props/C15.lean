import St4sd.Model.Layer
import St4sd.Lemmas.C15Assoc
import St4sd.Lemmas.C15Sort
/-!
# C15 — Loading a package is deterministic

The order sensitive algorithms of package loading (`Model/Layer.lean`) are proved independent of
enumeration orders that the process does not control, and the layering of user variable files is proved to
be "in the order given, the last one winning".  Independence of CPython's hash randomisation itself cannot
be a theorem about this model; it is established by the cross-process comparison of `harness/c15.py`.

The model of `loadVars` is the *repaired* conf.py (fixes/C15-variable-files-order.diff); the code before the
repair is `loadVarsOld` (see `Witness/C15.lean`).
-/
namespace St4sd.C15
open St4sd.Str St4sd.Assoc St4sd.Layer

/-- value of `k` in the last file that defines it -/
def lastDef : List Vars → VKey → Option S
  | [], _ => none
  | f :: r, k =>
    match lastDef r k with
    | some v => some v
    | none => dget f k

private theorem dget_overrideOrd (order : List VKey) (old new : Vars) (k : VKey) :
    dget (overrideOrd order old new) k =
      if order.contains k then (match dget new k with
        | some v => some v
        | none => dget old k) else dget old k := by
  unfold overrideOrd
  induction order generalizing old with
  | nil => simp
  | cons a r ih =>
    simp only [List.foldl_cons, ih, List.contains_cons]
    by_cases hk : a = k
    · subst hk
      cases hn : dget new a with
      | none => simp
      | some v => simp [dget_dset]
    · have hk2 : ¬ k = a := fun h => hk h.symm
      have hk' : (k == a) = false := by simp [hk2]
      cases hn : dget new a with
      | none => simp [hk']
      | some v => simp [dget_dset, hk, hk']

/-- **override_key_order_irrelevant.**  `override_object` enumerates `keys_novel`/`keys_common` as Python
sets; whatever the enumeration order (any two lists with the same members), the resulting mapping is the
same: every key reads the same value. -/
theorem override_key_order_irrelevant (o₁ o₂ : List VKey) (old new : Vars)
    (h : ∀ k, k ∈ o₁ ↔ k ∈ o₂) (k : VKey) :
    dget (overrideOrd o₁ old new) k = dget (overrideOrd o₂ old new) k := by
  rw [dget_overrideOrd, dget_overrideOrd]
  have : o₁.contains k = o₂.contains k := by
    cases h1 : o₁.contains k <;> cases h2 : o₂.contains k <;> simp_all
  rw [this]

/-- in particular every permutation of the keys gives the same mapping -/
theorem override_perm_irrelevant (o₁ o₂ : List VKey) (old new : Vars) (h : o₁.Perm o₂) (k : VKey) :
    dget (overrideOrd o₁ old new) k = dget (overrideOrd o₂ old new) k :=
  override_key_order_irrelevant o₁ o₂ old new (fun _ => h.mem_iff) k

/-- one layer: the new file wins, otherwise the old value stays -/
theorem dget_override (old new : Vars) (k : VKey) :
    dget (override old new) k = match dget new k with
      | some v => some v
      | none => dget old k := by
  unfold override
  rw [dget_overrideOrd]
  cases hn : dget new k with
  | none => simp
  | some v =>
    have : k ∈ keys new := (dget_isSome_iff_mem_keys new k).mp (by simp [hn])
    simp [this]

private theorem dget_foldl_override (fs : List Vars) (acc : Vars) (k : VKey) :
    dget (fs.foldl override acc) k = match lastDef fs k with
      | some v => some v
      | none => dget acc k := by
  induction fs generalizing acc with
  | nil => simp [lastDef]
  | cons f r ih =>
    simp only [List.foldl_cons, ih, lastDef]
    cases h : lastDef r k with
    | some v => simp
    | none => simp [dget_override]

/-- layering reads, for every key, the value of the last file that defines it -/
theorem dget_layerMany (fs : List Vars) (k : VKey) : dget (layerMany fs) k = lastDef fs k := by
  unfold layerMany
  rw [dget_foldl_override]
  cases lastDef fs k <;> simp [dget]

private theorem lastDef_none_iff (fs : List Vars) (k : VKey) :
    lastDef fs k = none ↔ ∀ f ∈ fs, dget f k = none := by
  induction fs with
  | nil => simp [lastDef]
  | cons f r ih =>
    simp only [lastDef, List.mem_cons, forall_eq_or_imp]
    cases h : lastDef r k with
    | some v =>
      simp only [reduceCtorEq, false_iff, not_and]
      intro _ hall
      have := ih.mpr hall
      simp [h] at this
    | none =>
      have := ih.mp h
      constructor
      · intro hf; exact ⟨hf, this⟩
      · intro hf; exact hf.1

private theorem lastDef_append_cons (pre post : List Vars) (f : Vars) (k : VKey) (v : S)
    (hf : dget f k = some v) (hpost : ∀ g ∈ post, dget g k = none) :
    lastDef (pre ++ f :: post) k = some v := by
  induction pre with
  | nil => simp [lastDef, (lastDef_none_iff post k).mpr hpost, hf]
  | cons p r ih => simp [lastDef, ih]

/-- **last_file_wins.**  When several user variable files are supplied they are layered in the order given:
the value of a variable is the one of the last file (in the given order) that defines it — whatever the
files before it say, for every number of files. -/
theorem last_file_wins (pre post : List Vars) (f : Vars) (k : VKey) (v : S)
    (hf : dget f k = some v) (hpost : ∀ g ∈ post, dget g k = none) :
    dget (layerMany (pre ++ f :: post)) k = some v := by
  rw [dget_layerMany, lastDef_append_cons pre post f k v hf hpost]

/-- … and a variable that no file defines is not defined by the layering. -/
theorem undefined_stays_undefined (fs : List Vars) (k : VKey) (h : ∀ f ∈ fs, dget f k = none) :
    dget (layerMany fs) k = none := by
  rw [dget_layerMany, (lastDef_none_iff fs k).mpr h]

/-- **dedup_transparent.**  The de-duplication of the repaired loader (keep the last occurrence of a path,
preserve the order otherwise) is invisible: the variables are exactly those obtained by layering *every* given
path in the order given, also when a path is given several times. -/
theorem dedup_transparent (content : Nat → Vars) (paths : List Nat) (k : VKey) :
    dget (loadVars content paths) k = dget (layerMany (paths.map content)) k := by
  unfold loadVars
  rw [dget_layerMany, dget_layerMany]
  induction paths with
  | nil => simp [dedupKeepLast]
  | cons p r ih =>
    simp only [dedupKeepLast, List.map_cons, lastDef]
    by_cases hp : r.contains p = true
    · simp only [hp, if_true, ih]
      cases h : lastDef (r.map content) k with
      | some v => rfl
      | none =>
        have := (lastDef_none_iff _ k).mp h (content p)
          (List.mem_map.mpr ⟨p, by simpa using hp, rfl⟩)
        simp [this]
    · have hp' : r.contains p = false := by simpa using hp
      simp only [hp', Bool.false_eq_true, if_false, List.map_cons, lastDef, ih]

/-- the full statement for the repaired loader: the last given path that defines `k` wins -/
theorem load_last_path_wins (content : Nat → Vars) (pre post : List Nat) (p : Nat) (k : VKey) (v : S)
    (hf : dget (content p) k = some v) (hpost : ∀ q ∈ post, dget (content q) k = none) :
    dget (loadVars content (pre ++ p :: post)) k = some v := by
  rw [dedup_transparent, List.map_append, List.map_cons]
  apply last_file_wins _ _ _ _ _ hf
  intro g hg
  obtain ⟨q, hq, rfl⟩ := List.mem_map.mp hg
  exact hpost q hq

/-- the value injected into a stage: the stage section of the layered variables wins over the global one -/
theorem effective_stage_over_global (vars : Vars) (i : Nat) (n : S) (v : S)
    (h : dget vars (some i, n) = some v) : effective vars i n = some v := by
  simp [effective, h]

theorem effective_global (vars : Vars) (i : Nat) (n : S)
    (h : dget vars (some i, n) = none) : effective vars i n = dget vars (none, n) := by
  simp [effective, h]

/-! ### memoization serialisation: independent of dictionary and list order -/

/-- equal as Python values up to the order of dictionary entries and list items -/
inductive Reordered : Tree → Tree → Prop
  | prim (s : S) : Reordered (.prim s) (.prim s)
  | dnil : Reordered .dnil .dnil
  | lnil : Reordered .lnil .lnil
  | dcons (k : S) {v v' r r' : Tree} : Reordered v v' → Reordered r r' → Reordered (.dcons k v r) (.dcons k v' r')
  | dswap (k₁ k₂ : S) (v₁ v₂ r : Tree) :
      Reordered (.dcons k₁ v₁ (.dcons k₂ v₂ r)) (.dcons k₂ v₂ (.dcons k₁ v₁ r))
  | lcons (x : S) {r r' : Tree} : Reordered r r' → Reordered (.lcons x r) (.lcons x r')
  | lswap (x y : S) (r : Tree) : Reordered (.lcons x (.lcons y r)) (.lcons y (.lcons x r))
  | trans {a b c : Tree} : Reordered a b → Reordered b c → Reordered a c

/-- keys of the top-level dictionary -/
def dkeys : Tree → List S
  | .dcons k _ r => k :: dkeys r
  | _ => []

/-- dictionaries have no repeated key (true of every Python `dict`), at every level -/
def WF : Tree → Prop
  | .prim _ => True
  | .dnil => True
  | .lnil => True
  | .lcons _ r => WF r
  | .dcons k v r => k ∉ dkeys r ∧ WF v ∧ WF r

private theorem ser_entries_keys (t : Tree) : ((ser t).2.1).map Prod.fst = dkeys t := by
  cases t <;> simp [ser, dkeys]
  rename_i k v r
  exact ser_entries_keys r

private theorem reordered_main {a b : Tree} (h : Reordered a b) :
    WF a → (WF b ∧ (ser a).1 = (ser b).1 ∧ ((ser a).2.1).Perm (ser b).2.1 ∧ ((ser a).2.2).Perm (ser b).2.2) := by
  induction h with
  | prim s => intro _; simp [WF]
  | dnil => intro _; simp [WF]
  | lnil => intro _; simp [WF]
  | @dcons k v v' r r' _ _ ihv ihr =>
    intro hwf
    obtain ⟨hk, hv, hr⟩ := hwf
    obtain ⟨wv, sv, _, _⟩ := ihv hv
    obtain ⟨wr, _, pr, _⟩ := ihr hr
    have hkeys : dkeys r' = ((ser r').2.1).map Prod.fst := (ser_entries_keys r').symm
    have hk' : k ∉ dkeys r' := by
      rw [hkeys]
      intro hm
      apply hk
      rw [← ser_entries_keys r]
      exact (pr.map Prod.fst).mem_iff.mpr hm
    refine ⟨⟨hk', wv, wr⟩, ?_, ?_, ?_⟩
    · simp only [ser, sv]
      have hp : ((k, (ser v').1) :: (ser r).2.1).Perm ((k, (ser v').1) :: (ser r').2.1) := pr.cons _
      have hnd : (((k, (ser v').1) :: (ser r).2.1).map Prod.fst).Nodup := by
        simp only [List.map_cons, List.nodup_cons, ser_entries_keys]
        exact ⟨hk, nodup_dkeys r hr⟩
      rw [Sort.sortByKey_perm _ _ hp hnd]
    · simp only [ser, sv]; exact pr.cons _
    · simp [ser]
  | dswap k₁ k₂ v₁ v₂ r =>
    intro hwf
    obtain ⟨hk1, hv1, hk2, hv2, hr⟩ := hwf
    simp only [dkeys, List.mem_cons, not_or] at hk1
    refine ⟨⟨by simp [dkeys, hk2, Ne.symm hk1.1], hv2, hk1.2, hv1, hr⟩, ?_, ?_, ?_⟩
    · simp only [ser]
      have hp := List.Perm.swap (k₂, (ser v₂).1) (k₁, (ser v₁).1) (ser r).2.1
      have hnd : (((k₁, (ser v₁).1) :: (k₂, (ser v₂).1) :: (ser r).2.1).map Prod.fst).Nodup := by
        simp only [List.map_cons, List.nodup_cons, ser_entries_keys, List.mem_cons, not_or]
        exact ⟨⟨hk1.1, hk1.2⟩, hk2, nodup_dkeys r hr⟩
      rw [Sort.sortByKey_perm _ _ hp hnd]
    · simp only [ser]; exact List.Perm.swap _ _ _
    · simp [ser]
  | @lcons x r r' _ ihr =>
    intro hwf
    obtain ⟨wr, _, _, pl⟩ := ihr hwf
    refine ⟨wr, ?_, by simp [ser], ?_⟩
    · simp only [ser]
      rw [Sort.sortS_perm _ _ (pl.cons x)]
    · simp only [ser]; exact pl.cons x
  | lswap x y r =>
    intro hwf
    refine ⟨hwf, ?_, by simp [ser], ?_⟩
    · simp only [ser]
      rw [Sort.sortS_perm _ _ (List.Perm.swap y x _)]
    · simp only [ser]; exact List.Perm.swap _ _ _
  | trans _ _ ih1 ih2 =>
    intro hwf
    obtain ⟨w1, s1, p1, q1⟩ := ih1 hwf
    obtain ⟨w2, s2, p2, q2⟩ := ih2 w1
    exact ⟨w2, s1.trans s2, p1.trans p2, q1.trans q2⟩
where
  nodup_dkeys (t : Tree) (h : WF t) : (dkeys t).Nodup := by
    induction t with
    | dcons k v r _ ihr => exact List.nodup_cons.mpr ⟨h.1, ihr h.2.2⟩
    | _ => simp [dkeys]

/-- **serialize_perm_invariant.**  The buffer hashed by `_memoization_info_to_hash` does not depend on the
order of the entries of any dictionary nor on the order of the items of any list of the memoization info
(at every nesting level): two infos that are equal as Python values up to such orders get the same hash. -/
theorem serialize_perm_invariant (a b : Tree) (h : Reordered a b) (hwf : WF a) : serialize a = serialize b :=
  (reordered_main h hwf).2.1

/-! ### non-vacuity -/

private def fA : Vars := [((none, "v".toList), "from-a".toList), ((some 1, "s".toList), "a1".toList)]
private def fB : Vars := [((none, "v".toList), "from-b".toList)]

example : dget (layerMany ([fA] ++ fB :: [])) (none, "v".toList) = some "from-b".toList :=
  last_file_wins [fA] [] fB _ _ (by decide) (by simp)
example : dget (layerMany [fA, fB]) (some 1, "s".toList) = some "a1".toList := by decide
example : loadVars (fun i => if i = 0 then fA else fB) [0, 1, 0] = layerMany [fB, fA] := by decide
example : WF (.dcons "b".toList (.prim "1".toList) (.dcons "a".toList (.lcons "y".toList (.lcons "x".toList .lnil)) .dnil)) := by
  simp [WF, dkeys]
example : serialize (.dcons "b".toList (.prim "1".toList) (.dcons "a".toList (.prim "2".toList) .dnil))
    = serialize (.dcons "a".toList (.prim "2".toList) (.dcons "b".toList (.prim "1".toList) .dnil)) := by decide

end St4sd.C15
