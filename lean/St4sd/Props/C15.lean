import St4sd.Model.Layer
import St4sd.Lemmas.C15Assoc
import St4sd.Lemmas.C15Sort
import St4sd.Lemmas.C15Dsl
import St4sd.Props.C03
import St4sd.Lemmas.C15Stages
/-!
# C15 — Loading a package is deterministic

The order sensitive algorithms of package loading (`Model/Layer.lean`) are proved independent of
enumeration orders that the process does not control, and the layering of user variable files is proved to
be "in the order given, the last one winning".  Independence of CPython's hash randomisation itself cannot
be a theorem about this model; it is established by the cross-process comparison of `harness/c15.py`.

DSL 2.0 packages (`Model/DslLoad.lean`): the de-duplication of component environments into `env0, env1, …` is
proved to be a function of every environment *as a mapping* (`env_dedup_perm_invariant`,
`env_dedup_mapping_only`, `env_same_name_iff`, `env_identity_determines_entries`), and the `-I, -II, …` numbering
of duplicate step names a function of the visiting order only (`dup_naming_visit_order_only`,
`dup_naming_prefix_stable`, `dup_naming_first_free`, `dup_names_distinct`).

Replication (`Model/ReplVars.lean`, shared with C03): `FlowIRConcrete.replicate` hands the components to
`FlowIR.apply_replicate` in the iteration order of a *set* of `(stage, name)` tuples, an order that changes with
the hash seed of the process.  `replicate_resolution_visit_order_irrelevant`: the replica counts and aggregate
flags the resolution loop records (those given through `%(var)s` included) are the same set for every such
order, and whether the loop fails does not depend on the order either (`Witness/C15.lean`: a loop that carried
the variables of one component over to the next would not have this property).

The model of `loadVars` is the *repaired* conf.py (fixes/C15-variable-files-order.diff); the code before the
repair is `loadVarsOld` (see `Witness/C15.lean`).
-/
namespace St4sd.C15
open St4sd.Str St4sd.Assoc St4sd.Layer

/-- value of `k` in the last file that defines it -/
def lastDef : List Vars → VKey → Option S
  | [], _ => none
  | f :: r, k =>
    match lastDef r k with
    | some v => some v
    | none => dget f k

private theorem dget_overrideOrd (order : List VKey) (old new : Vars) (k : VKey) :
    dget (overrideOrd order old new) k =
      if order.contains k then (match dget new k with
        | some v => some v
        | none => dget old k) else dget old k := by
  unfold overrideOrd
  induction order generalizing old with
  | nil => simp
  | cons a r ih =>
    simp only [List.foldl_cons, ih, List.contains_cons]
    by_cases hk : a = k
    · subst hk
      cases hn : dget new a with
      | none => simp
      | some v => simp [dget_dset]
    · have hk2 : ¬ k = a := fun h => hk h.symm
      have hk' : (k == a) = false := by simp [hk2]
      cases hn : dget new a with
      | none => simp [hk']
      | some v => simp [dget_dset, hk, hk']

/-- **override_key_order_irrelevant.**  `override_object` enumerates `keys_novel`/`keys_common` as Python
sets; whatever the enumeration order (any two lists with the same members), the resulting mapping is the
same: every key reads the same value. -/
theorem override_key_order_irrelevant (o₁ o₂ : List VKey) (old new : Vars)
    (h : ∀ k, k ∈ o₁ ↔ k ∈ o₂) (k : VKey) :
    dget (overrideOrd o₁ old new) k = dget (overrideOrd o₂ old new) k := by
  rw [dget_overrideOrd, dget_overrideOrd]
  have : o₁.contains k = o₂.contains k := by
    cases h1 : o₁.contains k <;> cases h2 : o₂.contains k <;> simp_all
  rw [this]

/-- in particular every permutation of the keys gives the same mapping -/
theorem override_perm_irrelevant (o₁ o₂ : List VKey) (old new : Vars) (h : o₁.Perm o₂) (k : VKey) :
    dget (overrideOrd o₁ old new) k = dget (overrideOrd o₂ old new) k :=
  override_key_order_irrelevant o₁ o₂ old new (fun _ => h.mem_iff) k

/-- one layer: the new file wins, otherwise the old value stays -/
theorem dget_override (old new : Vars) (k : VKey) :
    dget (override old new) k = match dget new k with
      | some v => some v
      | none => dget old k := by
  unfold override
  rw [dget_overrideOrd]
  cases hn : dget new k with
  | none => simp
  | some v =>
    have : k ∈ keys new := (dget_isSome_iff_mem_keys new k).mp (by simp [hn])
    simp [this]

private theorem dget_foldl_override (fs : List Vars) (acc : Vars) (k : VKey) :
    dget (fs.foldl override acc) k = match lastDef fs k with
      | some v => some v
      | none => dget acc k := by
  induction fs generalizing acc with
  | nil => simp [lastDef]
  | cons f r ih =>
    simp only [List.foldl_cons, ih, lastDef]
    cases h : lastDef r k with
    | some v => simp
    | none => simp [dget_override]

/-- layering reads, for every key, the value of the last file that defines it -/
theorem dget_layerMany (fs : List Vars) (k : VKey) : dget (layerMany fs) k = lastDef fs k := by
  unfold layerMany
  rw [dget_foldl_override]
  cases lastDef fs k <;> simp [dget]

private theorem lastDef_none_iff (fs : List Vars) (k : VKey) :
    lastDef fs k = none ↔ ∀ f ∈ fs, dget f k = none := by
  induction fs with
  | nil => simp [lastDef]
  | cons f r ih =>
    simp only [lastDef, List.mem_cons, forall_eq_or_imp]
    cases h : lastDef r k with
    | some v =>
      simp only [reduceCtorEq, false_iff, not_and]
      intro _ hall
      have := ih.mpr hall
      simp [h] at this
    | none =>
      have := ih.mp h
      constructor
      · intro hf; exact ⟨hf, this⟩
      · intro hf; exact hf.1

private theorem lastDef_append_cons (pre post : List Vars) (f : Vars) (k : VKey) (v : S)
    (hf : dget f k = some v) (hpost : ∀ g ∈ post, dget g k = none) :
    lastDef (pre ++ f :: post) k = some v := by
  induction pre with
  | nil => simp [lastDef, (lastDef_none_iff post k).mpr hpost, hf]
  | cons p r ih => simp [lastDef, ih]

/-- **last_file_wins.**  When several user variable files are supplied they are layered in the order given:
the value of a variable is the one of the last file (in the given order) that defines it — whatever the
files before it say, for every number of files. -/
theorem last_file_wins (pre post : List Vars) (f : Vars) (k : VKey) (v : S)
    (hf : dget f k = some v) (hpost : ∀ g ∈ post, dget g k = none) :
    dget (layerMany (pre ++ f :: post)) k = some v := by
  rw [dget_layerMany, lastDef_append_cons pre post f k v hf hpost]

/-- … and a variable that no file defines is not defined by the layering. -/
theorem undefined_stays_undefined (fs : List Vars) (k : VKey) (h : ∀ f ∈ fs, dget f k = none) :
    dget (layerMany fs) k = none := by
  rw [dget_layerMany, (lastDef_none_iff fs k).mpr h]

/-- **dedup_transparent.**  The de-duplication of the repaired loader (keep the last occurrence of a path,
preserve the order otherwise) is invisible: the variables are exactly those obtained by layering *every* given
path in the order given, also when a path is given several times. -/
theorem dedup_transparent (content : Nat → Vars) (paths : List Nat) (k : VKey) :
    dget (loadVars content paths) k = dget (layerMany (paths.map content)) k := by
  unfold loadVars
  rw [dget_layerMany, dget_layerMany]
  induction paths with
  | nil => simp [dedupKeepLast]
  | cons p r ih =>
    simp only [dedupKeepLast, List.map_cons, lastDef]
    by_cases hp : r.contains p = true
    · simp only [hp, if_true, ih]
      cases h : lastDef (r.map content) k with
      | some v => rfl
      | none =>
        have := (lastDef_none_iff _ k).mp h (content p)
          (List.mem_map.mpr ⟨p, by simpa using hp, rfl⟩)
        simp [this]
    · have hp' : r.contains p = false := by simpa using hp
      simp only [hp', Bool.false_eq_true, if_false, List.map_cons, lastDef, ih]

/-- the full statement for the repaired loader: the last given path that defines `k` wins -/
theorem load_last_path_wins (content : Nat → Vars) (pre post : List Nat) (p : Nat) (k : VKey) (v : S)
    (hf : dget (content p) k = some v) (hpost : ∀ q ∈ post, dget (content q) k = none) :
    dget (loadVars content (pre ++ p :: post)) k = some v := by
  rw [dedup_transparent, List.map_append, List.map_cons]
  apply last_file_wins _ _ _ _ _ hf
  intro g hg
  obtain ⟨q, hq, rfl⟩ := List.mem_map.mp hg
  exact hpost q hq

/-- the value injected into a stage: the stage section of the layered variables wins over the global one -/
theorem effective_stage_over_global (vars : Vars) (i : Nat) (n : S) (v : S)
    (h : dget vars (some i, n) = some v) : effective vars i n = some v := by
  simp [effective, h]

theorem effective_global (vars : Vars) (i : Nat) (n : S)
    (h : dget vars (some i, n) = none) : effective vars i n = dget vars (none, n) := by
  simp [effective, h]

/-! ### memoization serialisation: independent of dictionary and list order -/

/-- equal as Python values up to the order of dictionary entries and list items -/
inductive Reordered : Tree → Tree → Prop
  | prim (s : S) : Reordered (.prim s) (.prim s)
  | dnil : Reordered .dnil .dnil
  | lnil : Reordered .lnil .lnil
  | dcons (k : S) {v v' r r' : Tree} : Reordered v v' → Reordered r r' → Reordered (.dcons k v r) (.dcons k v' r')
  | dswap (k₁ k₂ : S) (v₁ v₂ r : Tree) :
      Reordered (.dcons k₁ v₁ (.dcons k₂ v₂ r)) (.dcons k₂ v₂ (.dcons k₁ v₁ r))
  | lcons (x : S) {r r' : Tree} : Reordered r r' → Reordered (.lcons x r) (.lcons x r')
  | lswap (x y : S) (r : Tree) : Reordered (.lcons x (.lcons y r)) (.lcons y (.lcons x r))
  | trans {a b c : Tree} : Reordered a b → Reordered b c → Reordered a c

/-- keys of the top-level dictionary -/
def dkeys : Tree → List S
  | .dcons k _ r => k :: dkeys r
  | _ => []

/-- dictionaries have no repeated key (true of every Python `dict`), at every level -/
def WF : Tree → Prop
  | .prim _ => True
  | .dnil => True
  | .lnil => True
  | .lcons _ r => WF r
  | .dcons k v r => k ∉ dkeys r ∧ WF v ∧ WF r

private theorem ser_entries_keys (t : Tree) : ((ser t).2.1).map Prod.fst = dkeys t := by
  cases t <;> simp [ser, dkeys]
  rename_i k v r
  exact ser_entries_keys r

private theorem reordered_main {a b : Tree} (h : Reordered a b) :
    WF a → (WF b ∧ (ser a).1 = (ser b).1 ∧ ((ser a).2.1).Perm (ser b).2.1 ∧ ((ser a).2.2).Perm (ser b).2.2) := by
  induction h with
  | prim s => intro _; simp [WF]
  | dnil => intro _; simp [WF]
  | lnil => intro _; simp [WF]
  | @dcons k v v' r r' _ _ ihv ihr =>
    intro hwf
    obtain ⟨hk, hv, hr⟩ := hwf
    obtain ⟨wv, sv, _, _⟩ := ihv hv
    obtain ⟨wr, _, pr, _⟩ := ihr hr
    have hkeys : dkeys r' = ((ser r').2.1).map Prod.fst := (ser_entries_keys r').symm
    have hk' : k ∉ dkeys r' := by
      rw [hkeys]
      intro hm
      apply hk
      rw [← ser_entries_keys r]
      exact (pr.map Prod.fst).mem_iff.mpr hm
    refine ⟨⟨hk', wv, wr⟩, ?_, ?_, ?_⟩
    · simp only [ser, sv]
      have hp : ((k, (ser v').1) :: (ser r).2.1).Perm ((k, (ser v').1) :: (ser r').2.1) := pr.cons _
      have hnd : (((k, (ser v').1) :: (ser r).2.1).map Prod.fst).Nodup := by
        simp only [List.map_cons, List.nodup_cons, ser_entries_keys]
        exact ⟨hk, nodup_dkeys r hr⟩
      rw [Sort.sortByKey_perm _ _ hp hnd]
    · simp only [ser, sv]; exact pr.cons _
    · simp [ser]
  | dswap k₁ k₂ v₁ v₂ r =>
    intro hwf
    obtain ⟨hk1, hv1, hk2, hv2, hr⟩ := hwf
    simp only [dkeys, List.mem_cons, not_or] at hk1
    refine ⟨⟨by simp [dkeys, hk2, Ne.symm hk1.1], hv2, hk1.2, hv1, hr⟩, ?_, ?_, ?_⟩
    · simp only [ser]
      have hp := List.Perm.swap (k₂, (ser v₂).1) (k₁, (ser v₁).1) (ser r).2.1
      have hnd : (((k₁, (ser v₁).1) :: (k₂, (ser v₂).1) :: (ser r).2.1).map Prod.fst).Nodup := by
        simp only [List.map_cons, List.nodup_cons, ser_entries_keys, List.mem_cons, not_or]
        exact ⟨⟨hk1.1, hk1.2⟩, hk2, nodup_dkeys r hr⟩
      rw [Sort.sortByKey_perm _ _ hp hnd]
    · simp only [ser]; exact List.Perm.swap _ _ _
    · simp [ser]
  | @lcons x r r' _ ihr =>
    intro hwf
    obtain ⟨wr, _, _, pl⟩ := ihr hwf
    refine ⟨wr, ?_, by simp [ser], ?_⟩
    · simp only [ser]
      rw [Sort.sortS_perm _ _ (pl.cons x)]
    · simp only [ser]; exact pl.cons x
  | lswap x y r =>
    intro hwf
    refine ⟨hwf, ?_, by simp [ser], ?_⟩
    · simp only [ser]
      rw [Sort.sortS_perm _ _ (List.Perm.swap y x _)]
    · simp only [ser]; exact List.Perm.swap _ _ _
  | trans _ _ ih1 ih2 =>
    intro hwf
    obtain ⟨w1, s1, p1, q1⟩ := ih1 hwf
    obtain ⟨w2, s2, p2, q2⟩ := ih2 w1
    exact ⟨w2, s1.trans s2, p1.trans p2, q1.trans q2⟩
where
  nodup_dkeys (t : Tree) (h : WF t) : (dkeys t).Nodup := by
    induction t with
    | dcons k v r _ ihr => exact List.nodup_cons.mpr ⟨h.1, ihr h.2.2⟩
    | _ => simp [dkeys]

/-- **serialize_perm_invariant.**  The buffer hashed by `_memoization_info_to_hash` does not depend on the
order of the entries of any dictionary nor on the order of the items of any list of the memoization info
(at every nesting level): two infos that are equal as Python values up to such orders get the same hash. -/
theorem serialize_perm_invariant (a b : Tree) (h : Reordered a b) (hwf : WF a) : serialize a = serialize b :=
  (reordered_main h hwf).2.1


/-! ### DSL 2.0: environments are de-duplicated as mappings, duplicate names follow the visiting order -/

section Dsl
open St4sd.DslLoad

/-- two lists of the same length whose items are pairwise related -/
inductive ListRel {α β : Type} (R : α → β → Prop) : List α → List β → Prop
  | nil : ListRel R [] []
  | cons {a : α} {b : β} {l : List α} {l' : List β} : R a b → ListRel R l l' → ListRel R (a :: l) (b :: l')

/-- the same environment written with its entries in another order (a Python `dict` has no repeated key) -/
inductive EnvReordered : CEnv → CEnv → Prop
  | unset : EnvReordered .unset .unset
  | dict {e e' : Env} : e.Perm e' → (e.map Prod.fst).Nodup → EnvReordered (.dict e) (.dict e')

/-- the same environment as a mapping: every key reads the same value (`None` included) -/
inductive EnvSameMapping : CEnv → CEnv → Prop
  | unset : EnvSameMapping .unset .unset
  | dict {e e' : Env} : (e.map Prod.fst).Nodup → (e'.map Prod.fst).Nodup → (∀ k, e.lookup k = e'.lookup k) →
      EnvSameMapping (.dict e) (.dict e')

/-- registered environments: same names, same mappings -/
def SameRegistered (a b : List (Nat × Env)) : Prop :=
  ListRel (fun x y => x.1 = y.1 ∧ x.2.Perm y.2) a b

/-- **env_dedup_perm_invariant.**  Given the order of the components, permuting the entries of any of their
environments changes neither the partition of the components into environments nor the names assigned
(`command.environment` of every component is the same), nor the table `known_environments`, nor — as
mappings — the environments registered under the names `env0, env1, …`. -/
theorem env_dedup_perm_invariant (cs cs' : List CEnv) (hr : ListRel EnvReordered cs cs') (known : Known) :
    assignEnvs known cs = assignEnvs known cs' ∧ knownAfter known cs = knownAfter known cs' ∧
      SameRegistered (registered known cs) (registered known cs') := by
  unfold assignEnvs knownAfter registered SameRegistered
  induction hr generalizing known with
  | nil => exact ⟨rfl, rfl, .nil⟩
  | @cons c c' r r' hc _ ih =>
    cases hc with
    | unset =>
      simp only [assignEnvsWith, knownAfterWith, registeredWith]
      obtain ⟨h1, h2, h3⟩ := ih known
      exact ⟨by rw [h1], h2, h3⟩
    | @dict e e' hp hnd =>
      have hh : hashEnv e = hashEnv e' := hashEnv_perm e e' hp hnd
      have hemp : e.isEmpty = e'.isEmpty := by
        cases e <;> cases e' <;> simp_all
      simp only [assignEnvsWith, knownAfterWith, registeredWith, ← hh, ← hemp]
      by_cases he : e.isEmpty = true
      · simp only [he, if_true]
        obtain ⟨h1, h2, h3⟩ := ih known
        exact ⟨by rw [h1], h2, h3⟩
      · simp only [he, Bool.false_eq_true, if_false]
        cases hl : known.lookup (hashEnv e) with
        | some i =>
          obtain ⟨h1, h2, h3⟩ := ih known
          exact ⟨by rw [h1], h2, h3⟩
        | none =>
          obtain ⟨h1, h2, h3⟩ := ih ((hashEnv e, known.length) :: known)
          exact ⟨by rw [h1], h2, ListRel.cons ⟨rfl, hp⟩ h3⟩

/-- **env_dedup_mapping_only.**  The de-duplication reads every environment as a mapping: two sequences of
components whose environments are pairwise the same mapping (whatever the order in which each was written)
get the same environment names. -/
theorem env_dedup_mapping_only (cs cs' : List CEnv) (hm : ListRel EnvSameMapping cs cs') :
    assignEnvs [] cs = assignEnvs [] cs' ∧ SameRegistered (registered [] cs) (registered [] cs') := by
  have hr : ListRel EnvReordered cs cs' := by
    induction hm with
    | nil => exact .nil
    | cons hc _ ih =>
      refine .cons ?_ ih
      cases hc with
      | unset => exact .unset
      | dict h1 h2 hk => exact .dict (perm_of_same_mapping _ _ h1 h2 hk) h1
  exact ⟨(env_dedup_perm_invariant cs cs' hr []).1, (env_dedup_perm_invariant cs cs' hr []).2.2⟩

/-- **env_same_name_iff.**  The partition: two components with non-empty environments share an environment
name exactly when their environments have the same identity (`hash_environment`) … -/
theorem env_same_name_iff (cs : List CEnv) (e e' : Env) (n n' : EnvName)
    (h1 : (CEnv.dict e, n) ∈ cs.zip (assignEnvs [] cs)) (h2 : (CEnv.dict e', n') ∈ cs.zip (assignEnvs [] cs))
    (he : e ≠ []) (he' : e' ≠ []) : n = n' ↔ hashEnv e = hashEnv e' := by
  obtain ⟨i, rfl, hi⟩ := name_is_index hashEnv [] cs e n h1 he
  obtain ⟨i', rfl, hi'⟩ := name_is_index hashEnv [] cs e' n' h2 he'
  have ok := knownOK_after hashEnv [] cs knownOK_nil
  constructor
  · intro hn
    simp only [EnvName.env.injEq] at hn
    subst hn
    exact ok.2 _ _ _ hi hi'
  · intro hh
    rw [hh] at hi
    rw [hi] at hi'
    simp only [Option.some.injEq] at hi'
    rw [hi']

/-- … and that identity is exactly the set of entries whose value is not `None`: environments that share a name
set the same variables to the same values. -/
theorem env_identity_determines_entries (e e' : Env) (hh : hashEnv e = hashEnv e') (k v : S) :
    (k, some v) ∈ e ↔ (k, some v) ∈ e' := by
  rw [← mem_hashEnv, ← mem_hashEnv, hh]

/-- **dup_naming_visit_order_only.**  The `-I, -II, …` numbering of duplicate step names and the naming of
the environments read, of every visited component instance, its step name and its environment only, in the
order of the visit: two visits that agree on these give the same names, whatever the locations and the templates
of the instances. -/
theorem dup_naming_visit_order_only (cs cs' : List Inst)
    (hs : cs.map Inst.stepName = cs'.map Inst.stepName) : loadNames cs = loadNames cs' := by
  unfold loadNames; rw [hs]

theorem env_naming_visit_order_only (cs cs' : List Inst)
    (hs : cs.map Inst.env = cs'.map Inst.env) : loadEnvs cs = loadEnvs cs' ∧ loadRegistered cs = loadRegistered cs' := by
  unfold loadEnvs loadRegistered; rw [hs]; exact ⟨rfl, rfl⟩

/-- **dup_naming_prefix_stable.**  The name of an instance depends only on the instances visited before it:
the names of a prefix of the visit are the names that the prefix gets on its own. -/
theorem dup_naming_prefix_stable (l r : List S) :
    (assignNames [] (l ++ r)).take l.length = assignNames [] l := by
  rw [assignNames_append, List.take_left' (assignNames_length [] l)]

/-- **dup_naming_first_free.**  An instance is given the first of the candidates `s, s-I, s-II, …` whose full name
`(stage, name)` is not yet in use. -/
theorem dup_naming_first_free (used : List FullName) (s : S) (fuel : Nat) (st : Nat) (n : S)
    (hp : pick used s fuel 0 = .named st n) :
    (st, n) ∉ used ∧ ∃ j, parseName (cand s j) = some (st, n) ∧
      ∀ i, i < j → ∃ fn, parseName (cand s i) = some fn ∧ fn ∈ used := by
  obtain ⟨h1, j, _, h2, h3⟩ := pick_named used s fuel 0 st n hp
  exact ⟨h1, j, h2, fun i hi => h3 i (Nat.zero_le _) hi⟩

/-- **dup_names_distinct.**  No two instances get the same full name. -/
theorem dup_names_distinct (steps : List S) : (namedOnly (assignNames [] steps)).Nodup :=
  (namedOnly_fresh [] steps).1

end Dsl

/-! ### non-vacuity -/

private def fA : Vars := [((none, "v".toList), "from-a".toList), ((some 1, "s".toList), "a1".toList)]
private def fB : Vars := [((none, "v".toList), "from-b".toList)]

example : dget (layerMany ([fA] ++ fB :: [])) (none, "v".toList) = some "from-b".toList :=
  last_file_wins [fA] [] fB _ _ (by decide) (by simp)
example : dget (layerMany [fA, fB]) (some 1, "s".toList) = some "a1".toList := by decide
example : loadVars (fun i => if i = 0 then fA else fB) [0, 1, 0] = layerMany [fB, fA] := by decide
example : WF (.dcons "b".toList (.prim "1".toList) (.dcons "a".toList (.lcons "y".toList (.lcons "x".toList .lnil)) .dnil)) := by
  simp [WF, dkeys]
example : serialize (.dcons "b".toList (.prim "1".toList) (.dcons "a".toList (.prim "2".toList) .dnil))
    = serialize (.dcons "a".toList (.prim "2".toList) (.dcons "b".toList (.prim "1".toList) .dnil)) := by decide

section DslExamples
open St4sd.DslLoad
private def envAB : Env := [("ALPHA".toList, some "1".toList), ("BETA".toList, some "/opt/bin".toList)]
private def envBA : Env := [("BETA".toList, some "/opt/bin".toList), ("ALPHA".toList, some "1".toList)]
private def envZ : Env := [("Z".toList, some "9".toList), ("U".toList, none)]

example : ListRel EnvReordered [.dict envAB, .unset, .dict envZ, .dict envAB] [.dict envBA, .unset, .dict envZ, .dict envAB] :=
  .cons (.dict (List.Perm.swap _ _ _) (by decide)) (.cons .unset (.cons (.dict (List.Perm.refl _) (by decide))
    (.cons (.dict (List.Perm.refl _) (by decide)) .nil)))
example : assignEnvs [] [.dict envAB, .unset, .dict envZ, .dict envBA, .dict []] = [.env 0, .null, .env 1, .env 0, .noneLit] := by
  decide
example : registered [] [.dict envAB, .unset, .dict envZ, .dict envBA, .dict []] = [(0, envAB), (1, envZ)] := by decide
example : loadNames [⟨["entry-instance".toList, "work".toList], "c-a".toList, .unset⟩,
      ⟨["entry-instance".toList, "inner".toList, "work".toList], "c-b".toList, .dict envAB⟩,
      ⟨["entry-instance".toList, "work-I".toList], "c-a".toList, .unset⟩,
      ⟨["entry-instance".toList, "other".toList, "stage1.work".toList], "c-a".toList, .unset⟩,
      ⟨["entry-instance".toList, "step2".toList], "c-a".toList, .unset⟩]
    = [.named 0 "work".toList, .named 0 "work-I".toList, .named 0 "work-I-I".toList, .named 1 "work".toList, .invalid] := by
  decide
example : pick [(0, "work".toList), (0, "work-I".toList)] "work".toList 3 0 = .named 0 "work-II".toList := by decide
end DslExamples

/-! ## replication: the order in which a set hands over the components -/

section ReplOrder
open St4sd.Repl in
/-- **The resolved replica counts / aggregate flags do not depend on the visiting order.**  For any two
orders `wf`, `wf'` of the same components (the iteration order of the set of component identifiers in two
processes): if the resolution loop of `apply_replicate` succeeds on one it succeeds on the other and records
the same resolved components; if it fails on one it fails on the other. -/
theorem replicate_resolution_visit_order_irrelevant (g : St4sd.Repl.Vars) (st : Nat → St4sd.Repl.Vars)
    {wf wf' : List St4sd.Repl.Raw} (hp : wf.Perm wf') :
    (∀ out, resolveAll g st wf = .ok out →
      ∃ out', resolveAll g st wf' = .ok out' ∧ ∀ c, c ∈ out ↔ c ∈ out') ∧
    ((∃ e, resolveAll g st wf = .error e) → ∃ e', resolveAll g st wf' = .error e') := by
  constructor
  · intro out h
    obtain ⟨out', h', hperm⟩ := St4sd.C03.resolveAll_perm g st hp out h
    exact ⟨out', h', fun c => hperm.mem_iff⟩
  · rintro ⟨e, he⟩
    cases h' : resolveAll g st wf' with
    | error e' => exact ⟨e', rfl⟩
    | ok out' =>
      obtain ⟨out, h, _⟩ := St4sd.C03.resolveAll_perm g st hp.symm out' h'
      rw [h] at he
      cases he

open St4sd.Repl in
/-- the value recorded for one component is a function of the scopes it can see — wherever it stands in
either order (C03 `count_independent_of_siblings`, restated for two enumeration orders of one set) -/
theorem replicate_count_position_irrelevant (g : St4sd.Repl.Vars) (st : Nat → St4sd.Repl.Vars) (r : St4sd.Repl.Raw)
    (pre post pre' post' : List St4sd.Repl.Raw) (out out' : List Comp)
    (h : resolveAll g st (pre ++ r :: post) = .ok out) (h' : resolveAll g st (pre' ++ r :: post') = .ok out') :
    out[pre.length]? = out'[pre'.length]? := by
  obtain ⟨c, _, h1, h2⟩ := St4sd.C03.count_independent_of_siblings g st r pre post pre' post' out out' h h'
  rw [h1, h2]

/-- `sweep` asks for `%(N)s` replicas (N = 2 globally), its sibling `tune` sets N = 3 for itself: 2 in both orders -/
example : ((St4sd.Repl.resolveAll [("N".toList, "2".toList)] (fun _ => [])
      [{ stage := 0, name := "tune".toList, refs := [], vars := [("N".toList, "3".toList)], replicate := .absent,
         aggregate := .absent },
       { stage := 0, name := "sweep".toList, refs := [], vars := [], replicate := .var "N".toList,
         aggregate := .absent }]).toOption.map (·.map (·.repl)),
    (St4sd.Repl.resolveAll [("N".toList, "2".toList)] (fun _ => [])
      [{ stage := 0, name := "sweep".toList, refs := [], vars := [], replicate := .var "N".toList,
         aggregate := .absent },
       { stage := 0, name := "tune".toList, refs := [], vars := [("N".toList, "3".toList)], replicate := .absent,
         aggregate := .absent }]).toOption.map (·.map (·.repl))) =
    (some [none, some 2], some [some 2, none]) := by decide
end ReplOrder

/-! ## DOSINI packages: discovery of the stage files (`Model/C15Stages.lean`, dosini.py `_discover_stages`) -/
section StageDiscovery
open St4sd.C15Stages

/-- The stage files `Dosini._discover_stages` selects do not depend on the order in which the file system lists
`conf/stages.d`: for every listing `l` whose files are told apart by (stage index, flavour) — a directory holding
`stage<N>.conf` and `stage<N>.instance.conf` files — every other order `l'` of the same listing selects the same
file for every stage index, for the package flavour and for the instance flavour. -/
theorem stage_discovery_listing_order_irrelevant (isInst : Bool) (l l' : List Entry) (hp : l'.Perm l)
    (hd : ∀ a ∈ l, ∀ b ∈ l, a.idx = b.idx → a.inst = b.inst → a = b) (i : Nat) :
    discover isInst l' i = discover isInst l i :=
  discover_perm isInst l l' hp hd i

/-- What an earlier launch left in the directory is invisible: files of the OTHER flavour, wherever the file
system lists them, change nothing of what a load of one flavour selects. -/
theorem stage_discovery_ignores_other_flavour (isInst : Bool) (l extra : List Entry)
    (he : ∀ e ∈ extra, e.inst = !isInst) (i : Nat) :
    discover isInst (l ++ extra) i = discover isInst l i ∧ discover isInst (extra ++ l) i = discover isInst l i :=
  discover_append_other isInst l extra he i

/-- the hypothesis of `stage_discovery_listing_order_irrelevant` holds for a launched one-stage package, and both
listing orders select the package flavour -/
example : discover false [⟨0, false, "stage0.conf"⟩, ⟨0, true, "stage0.instance.conf"⟩] 0 = some "stage0.conf" ∧
    discover false [⟨0, true, "stage0.instance.conf"⟩, ⟨0, false, "stage0.conf"⟩] 0 = some "stage0.conf" ∧
    discover true [⟨0, false, "stage0.conf"⟩, ⟨0, true, "stage0.instance.conf"⟩] 0 = some "stage0.instance.conf" := by
  decide
end StageDiscovery

end St4sd.C15
