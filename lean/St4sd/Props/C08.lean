import St4sd.Model.CacheViews
import St4sd.Model.CacheAmbient
/-!
# C08 — Configuration queries always reflect the latest updates

Model: `Model/Cache.lean` (state = description + cache, `step`, `run`), resolver = C04's `resolve` /
`resolveF`.  Operations: the 11 mutators, the fully resolved `query`, `queryF` (any combination of the keyword
arguments), `read` (copying accessors whose answer is not modelled: `instance()`, `replicate()`, `raw()`,
getters), `touchComp` / `touchVars` (reference getters without a write).
The invalidation modelled is the repaired one (component name taken literally,
`fixes/C08-cache-regex-escape.diff`); the unrepaired interpretation of the name as a regular expression
is refuted in `Witness/C08.lean`.

Second layer (`Model/CacheViews.lean`): the views of a component on an experiment graph
(`ComponentSpecification`, the node accessors, `WorkflowGraph.*ForNode`, `FlowIRExperimentConfiguration.*ForNode`,
`data.Job`, `FlowIRConcrete`) are projections of the one query, updates through any of them are the same update
of the one description: `view_fresh_step`, `all_views_agree`, `section_view_is_part_of_configuration`,
`update_via_any_entry`, `entry_point_irrelevant`, `grun_state`, `grun_coherent`, `views_depend_on_updates_only`.

The clause "a returned configuration is a private copy" is about aliasing of Python objects, which a pure
model cannot express: it is decided by the correspondence only (harness/c08.py mutates every returned
dictionary in place and re-queries).
-/
namespace St4sd.C08
open St4sd.Str St4sd.Tree

/-- every cached entry is what resolving the *current* description gives -/
def Inv (fuel : Nat) (s : St) : Prop :=
  ∀ l v, (l, v) ∈ s.cache → resolve s.desc l.platform l.stage l.name false fuel = .ok v

/-- `d'` differs from `d` at most in the component registered under `(i, n)` -/
def SameExcept (d d' : Desc) (i : Nat) (n : S) : Prop :=
  d'.platforms = d.platforms ∧ d'.blueprint = d.blueprint ∧ d'.variables = d.variables ∧
  ∀ i' n', ¬(i' = i ∧ n' = n) → findComp d'.comps i' n' = findComp d.comps i' n'

private theorem resolveCompF_congr (d d' : Desc) (h1 : d'.platforms = d.platforms) (h2 : d'.blueprint = d.blueprint)
    (h3 : d'.variables = d.variables) (P : S) (c : Comp) (f : Flags) (fuel : Nat) :
    resolveCompF d' P c f fuel = resolveCompF d P c f fuel := by
  simp only [resolveCompF, layersF, varsOfF, varsOf, layers, bpGlobal, bpStage, globalVars, stageVars, platVars,
    h1, h2, h3]

private theorem resolveComp_congr (d d' : Desc) (h1 : d'.platforms = d.platforms) (h2 : d'.blueprint = d.blueprint)
    (h3 : d'.variables = d.variables) (P : S) (c : Comp) (prim : Bool) (fuel : Nat) :
    resolveComp d' P c prim fuel = resolveComp d P c prim fuel :=
  resolveCompF_congr d d' h1 h2 h3 P c (Flags.std prim) fuel

private theorem resolve_frame (d d' : Desc) (i : Nat) (n : S) (h : SameExcept d d' i n) (P : S) (i' : Nat) (n' : S)
    (hne : ¬(i' = i ∧ n' = n)) (prim : Bool) (fuel : Nat) :
    resolve d' P i' n' prim fuel = resolve d P i' n' prim fuel := by
  obtain ⟨h1, h2, h3, h4⟩ := h
  simp only [resolve, h4 i' n' hne]
  cases findComp d.comps i' n' with
  | none => rfl
  | some c => exact resolveComp_congr d d' h1 h2 h3 P c prim fuel

private theorem isInfix_self_append (p : S) : ∀ a : S, isInfix p (a ++ p) = true := by
  intro a
  induction a with
  | nil =>
    cases p with
    | nil => rfl
    | cons c t => simp [isInfix]
  | cons c t ih => simp [isInfix, ih]

/-- the repaired pattern always matches the labels of the component itself, on every platform -/
theorem invalidates_self (i : Nat) (n P : S) : invalidates i n ⟨P, i, n⟩ = true := by
  simp only [invalidates, labelTail]
  exact isInfix_self_append _ _

private theorem mem_invalidate (i : Nat) (n : S) (cache : List (Label × Val)) (e : Label × Val)
    (h : e ∈ invalidate i n cache) : e ∈ cache ∧ ¬(e.1.stage = i ∧ e.1.name = n) := by
  simp only [invalidate, List.mem_filter] at h
  refine ⟨h.1, ?_⟩
  rintro ⟨h1, h2⟩
  obtain ⟨⟨P, i', n'⟩, v⟩ := e
  simp only at h1 h2
  subst h1; subst h2
  have := invalidates_self i' n' P
  simp [this] at h

private theorem inv_of_frame (fuel : Nat) (s : St) (d' : Desc) (cache' : List (Label × Val)) (i : Nat) (n : S)
    (hinv : Inv fuel s) (hd : SameExcept s.desc d' i n)
    (hc : ∀ e ∈ cache', e ∈ s.cache ∧ ¬(e.1.stage = i ∧ e.1.name = n)) : Inv fuel ⟨d', cache'⟩ := by
  intro l v hm
  obtain ⟨h1, h2⟩ := hc (l, v) hm
  have := resolve_frame s.desc d' i n hd l.platform l.stage l.name h2 false fuel
  simp only at this ⊢
  rw [this]
  exact hinv l v h1

private theorem sameExcept_refl (d : Desc) (i : Nat) (n : S) : SameExcept d d i n :=
  ⟨rfl, rfl, rfl, fun _ _ _ => rfl⟩

private theorem findComp_modComp (f : Fields → Fields) (i : Nat) (n : S) (i' : Nat) (n' : S)
    (hne : ¬(i' = i ∧ n' = n)) : ∀ cs, findComp (modComp f i n cs) i' n' = findComp cs i' n' := by
  intro cs
  induction cs with
  | nil => rfl
  | cons c r ih =>
    simp only [modComp]
    by_cases hc : c.stage = i ∧ c.name = n
    · simp only [hc, and_self, if_true, findComp]
      have : ¬(i = i' ∧ n = n') := fun h => hne ⟨h.1.symm, h.2.symm⟩
      simp [this, ih]
    · simp only [hc, if_false, findComp, ih]

private theorem findComp_delComp (i : Nat) (n : S) (i' : Nat) (n' : S)
    (hne : ¬(i' = i ∧ n' = n)) : ∀ cs, findComp (delComp i n cs) i' n' = findComp cs i' n' := by
  intro cs
  induction cs with
  | nil => rfl
  | cons c r ih =>
    unfold delComp at ih ⊢
    by_cases hc : c.stage = i ∧ c.name = n
    · have h1 : ¬(c.stage = i' ∧ c.name = n') := fun h => hne ⟨h.1.symm.trans hc.1, h.2.symm.trans hc.2⟩
      have hf : (!decide (c.stage = i ∧ c.name = n)) = false := by simp [hc]
      rw [List.filter_cons_of_neg (by simp; exact hc), ih]
      simp only [findComp, h1, if_false]
    · have hf : (!decide (c.stage = i ∧ c.name = n)) = true := by simp [hc]
      rw [List.filter_cons_of_pos (by simp; exact Classical.not_and_iff_not_or_not.mp hc)]
      simp only [findComp, ih]

private theorem findComp_append (c : Comp) (i' : Nat) (n' : S) (hne : ¬(i' = c.stage ∧ n' = c.name)) :
    ∀ cs, findComp (cs ++ [c]) i' n' = findComp cs i' n' := by
  intro cs
  induction cs with
  | nil =>
    have : ¬(c.stage = i' ∧ c.name = n') := fun h => hne ⟨h.1.symm, h.2.symm⟩
    simp [findComp, this]
  | cons x r ih => simp only [List.cons_append, findComp, ih]

private theorem same_mod (d : Desc) (f : Fields → Fields) (i : Nat) (n : S) :
    SameExcept d (setComps d (modComp f i n d.comps)) i n :=
  ⟨rfl, rfl, rfl, fun i' n' hne => findComp_modComp f i n i' n' hne d.comps⟩

private theorem same_del (d : Desc) (i : Nat) (n : S) :
    SameExcept d (setComps d (delComp i n d.comps)) i n :=
  ⟨rfl, rfl, rfl, fun i' n' hne => findComp_delComp i n i' n' hne d.comps⟩

private theorem same_add (d : Desc) (i : Nat) (n : S) (b : Fields) :
    SameExcept d (setComps d (d.comps ++ [⟨i, n, b⟩])) i n :=
  ⟨rfl, rfl, rfl, fun i' n' hne => findComp_append ⟨i, n, b⟩ i' n' hne d.comps⟩

private theorem inv_nil (fuel : Nat) (d : Desc) : Inv fuel ⟨d, []⟩ := by
  intro l v h; cases h

private theorem cacheGet_mem : ∀ (cache : List (Label × Val)) (x : Label) (v : Val),
    cacheGet cache x = some v → ∃ l, (l, v) ∈ cache ∧ l.platform = x.platform ∧ l.stage = x.stage ∧ l.name = x.name := by
  intro cache x v
  induction cache with
  | nil => intro h; cases h
  | cons e r ih =>
    obtain ⟨l, w⟩ := e
    intro h
    simp only [cacheGet] at h
    by_cases hs : sameLabel l x = true
    · simp only [hs, if_true, Option.some.injEq] at h
      subst h
      refine ⟨l, by simp, ?_⟩
      simpa [sameLabel] using hs
    · simp only [hs] at h
      obtain ⟨l', hm, hl⟩ := ih h
      exact ⟨l', by simp [hm], hl⟩

private theorem queryStep_preserves (fuel : Nat) (s : St) (hinv : Inv fuel s) (i : Nat) (n P : S) :
    Inv fuel (queryStep fuel s i n P).1 := by
  simp only [queryStep]
  split
  · exact hinv
  · split
    · rename_i v hres
      intro l w hm
      simp only [List.mem_cons, Prod.mk.injEq] at hm
      rcases hm with ⟨rfl, rfl⟩ | hm
      · exact hres
      · exact hinv l w hm
    · exact hinv

private theorem queryStep_fresh (fuel : Nat) (s : St) (hinv : Inv fuel s) (i : Nat) (n P : S) :
    (queryStep fuel s i n P).2 = resolve s.desc P i n false fuel := by
  simp only [queryStep]
  split
  · rename_i v hget
    obtain ⟨l, hm, h1, h2, h3⟩ := cacheGet_mem _ _ _ hget
    have := hinv l v hm
    simp only at h1 h2 h3
    rw [h1, h2, h3] at this
    exact this.symm
  · split
    · rename_i v hres; exact hres.symm
    · rename_i e hres; exact hres.symm

private theorem queryStep_desc (fuel : Nat) (s : St) (i : Nat) (n P : S) :
    (queryStep fuel s i n P).1.desc = s.desc := by
  simp only [queryStep]
  split
  · rfl
  · split <;> rfl

/-- the cache starts coherent -/
theorem inv_init (fuel : Nat) (d : Desc) : Inv fuel (init d) := inv_nil fuel d

/-- **cache_coherent** (step): every operation of the interface preserves "each cached entry equals the
resolution of the current description". -/
theorem step_preserves (fuel : Nat) (s : St) (op : Op) (hinv : Inv fuel s) : Inv fuel (step fuel s op).1 := by
  have hsub : ∀ i n, ∀ e ∈ invalidate i n s.cache, e ∈ s.cache ∧ ¬(e.1.stage = i ∧ e.1.name = n) :=
    fun i n e he => mem_invalidate i n s.cache e he
  cases op with
  | setVar i n x v =>
    simp only [step]
    split
    · exact hinv
    · split
      · exact inv_of_frame fuel s _ _ i n hinv (same_mod _ _ i n) (hsub i n)
      · exact inv_of_frame fuel s _ _ i n hinv (sameExcept_refl _ i n) (hsub i n)
  | delVar i n x =>
    simp only [step]
    split
    · exact hinv
    · split
      · split
        · exact inv_of_frame fuel s _ _ i n hinv (sameExcept_refl _ i n) (hsub i n)
        · exact inv_of_frame fuel s _ _ i n hinv (same_mod _ _ i n) (hsub i n)
      · exact inv_of_frame fuel s _ _ i n hinv (sameExcept_refl _ i n) (hsub i n)
  | setOption i n route v =>
    simp only [step]
    split
    · exact hinv
    · split
      · split
        · exact inv_of_frame fuel s _ _ i n hinv (same_mod _ _ i n) (hsub i n)
        · exact inv_of_frame fuel s _ _ i n hinv (sameExcept_refl _ i n) (hsub i n)
      · split
        · exact inv_of_frame fuel s _ _ i n hinv (same_mod _ _ i n) (hsub i n)
        · exact inv_of_frame fuel s _ _ i n hinv (sameExcept_refl _ i n) (hsub i n)
  | removeOption i n route =>
    simp only [step]
    split
    · exact hinv
    · split
      · split
        · split
          · exact inv_of_frame fuel s _ _ i n hinv (sameExcept_refl _ i n) (hsub i n)
          · exact inv_of_frame fuel s _ _ i n hinv (same_mod _ _ i n) (hsub i n)
        · exact inv_of_frame fuel s _ _ i n hinv (sameExcept_refl _ i n) (hsub i n)
      · split
        · exact inv_of_frame fuel s _ _ i n hinv (same_mod _ _ i n) (hsub i n)
        · exact inv_of_frame fuel s _ _ i n hinv (sameExcept_refl _ i n) (hsub i n)
  | setGlobalVar x v => exact inv_nil fuel _
  | setStageVar i x v =>
    simp only [step]
    split
    · exact hinv
    · exact inv_nil fuel _
  | setPlatGlobalVar P x v =>
    simp only [step]
    split
    · exact hinv
    · exact inv_nil fuel _
  | setPlatStageVar P i x v =>
    simp only [step]
    split
    · exact hinv
    · exact inv_nil fuel _
  | addComp i n body =>
    simp only [step]
    split
    · exact hinv
    · rename_i hnone
      refine inv_of_frame fuel s _ _ i n hinv (same_add _ i n body) ?_
      intro e he
      refine ⟨he, ?_⟩
      rintro ⟨h1, h2⟩
      obtain ⟨l, v⟩ := e
      have := hinv l v he
      simp only at h1 h2
      simp [resolve, h1, h2, hnone] at this
  | updateComp i n body =>
    simp only [step]
    split
    · exact hinv
    · exact inv_of_frame fuel s _ _ i n hinv (same_mod _ _ i n) (hsub i n)
  | deleteComp i n =>
    simp only [step]
    split
    · exact hinv
    · exact inv_of_frame fuel s _ _ i n hinv (same_del _ i n) (hsub i n)
  | query i n P => exact queryStep_preserves fuel s hinv i n P
  | queryF i n P f =>
    simp only [step]
    split
    · exact queryStep_preserves fuel s hinv i n P
    · exact hinv
  | read => exact hinv
  | touchComp i n =>
    simp only [step]
    split
    · exact hinv
    · exact inv_of_frame fuel s _ _ i n hinv (sameExcept_refl _ i n) (hsub i n)
  | touchVars => exact inv_nil fuel _

/-- **cache_coherent**: after ANY finite history of mutator and query calls the cache is coherent. -/
theorem cache_coherent (fuel : Nat) : ∀ (ops : List Op) (s : St), Inv fuel s → Inv fuel (run fuel s ops).1 := by
  intro ops
  induction ops with
  | nil => intro s h; exact h
  | cons op r ih =>
    intro s h
    simp only [run]
    exact ih _ (step_preserves fuel s op h)

/-- **query_fresh**: in a coherent state a query answers exactly what resolving the current description
from scratch gives (hit or miss), … -/
theorem query_fresh_step (fuel : Nat) (s : St) (hinv : Inv fuel s) (i : Nat) (n P : S) :
    (step fuel s (.query i n P)).2 = resolve s.desc P i n false fuel :=
  queryStep_fresh fuel s hinv i n P

/-- … hence after any history that starts from an empty cache. -/
theorem query_fresh (fuel : Nat) (d : Desc) (ops : List Op) (i : Nat) (n P : S) :
    let s := (run fuel (init d) ops).1
    (step fuel s (.query i n P)).2 = resolve s.desc P i n false fuel :=
  query_fresh_step fuel _ (cache_coherent fuel ops _ (inv_init fuel d)) i n P

/-- a query never changes the description -/
theorem query_keeps_description (fuel : Nat) (s : St) (i : Nat) (n P : S) :
    (step fuel s (.query i n P)).1.desc = s.desc :=
  queryStep_desc fuel s i n P

/-! ### read-only operations -/

private theorem full_eq_std (f : Flags) (h : f.full = true) : f = Flags.std false := by
  obtain ⟨r, i, p, j⟩ := f
  cases r <;> cases i <;> cases p <;> cases j <;> simp [Flags.full] at h <;> rfl

/-- **queryF_fresh**: a query with ANY combination of `raw`, `include_default`, `is_primitive`,
`inject_missing_fields` answers what that variant computes from scratch from the current description
(only the fully resolved one can be a cache hit). -/
theorem queryF_fresh_step (fuel : Nat) (s : St) (hinv : Inv fuel s) (i : Nat) (n P : S) (f : Flags) :
    (step fuel s (.queryF i n P f)).2 = resolveF s.desc P i n f fuel := by
  simp only [step]
  split
  · rename_i hfull
    rw [queryStep_fresh fuel s hinv i n P, full_eq_std f hfull]
    rfl
  · rfl

/-- **readonly_keeps_description**: queries of every variant, the copying accessors (`instance()`,
`replicate()`, `raw()`, getters) and the reference getters without a write never change the description. -/
theorem readonly_keeps_description (fuel : Nat) (s : St) (op : Op) (h : op.readOnly = true) :
    (step fuel s op).1.desc = s.desc := by
  cases op <;> simp [Op.readOnly] at h
  · exact queryStep_desc fuel s _ _ _
  · simp only [step]
    split
    · exact queryStep_desc fuel s _ _ _
    · rfl
  · rfl
  · simp only [step]
    split <;> rfl
  · rfl

/-- what an update does to the description, and what it answers, depends on the description only - never
on what was queried (cached) before -/
theorem update_ignores_cache (fuel : Nat) (s s' : St) (op : Op) (h : op.readOnly = false) (hd : s.desc = s'.desc) :
    (step fuel s op).1.desc = (step fuel s' op).1.desc ∧ (step fuel s op).2 = (step fuel s' op).2 := by
  obtain ⟨d, c⟩ := s
  obtain ⟨d', c'⟩ := s'
  simp only at hd
  subst hd
  cases op <;> simp [Op.readOnly] at h <;> simp only [step] <;>
    (repeat' split) <;> first | exact ⟨rfl, rfl⟩ | simp_all

/-- the description after a history is the one after the history without its read-only operations -/
theorem run_desc_erase_readonly (fuel : Nat) : ∀ (ops : List Op) (s s' : St), s.desc = s'.desc →
    (run fuel s ops).1.desc = (run fuel s' (ops.filter (fun o => !o.readOnly))).1.desc := by
  intro ops
  induction ops with
  | nil => intro s s' h; exact h
  | cons op r ih =>
    intro s s' h
    cases hro : op.readOnly with
    | true =>
      simp only [run, List.filter, hro, Bool.not_true]
      exact ih _ _ ((readonly_keeps_description fuel s op hro).trans h)
    | false =>
      simp only [run, List.filter, hro, Bool.not_false]
      exact ih _ _ (update_ignores_cache fuel s s' op hro h).1

/-- **readonly_ops_preserve**: read-only operations never change a later answer.  After ANY history, a
query of any variant answers exactly what it answers after the same history with every read-only operation
(queries of every variant, `instance()`, `replicate()`, `raw()`, copying and reference getters) erased -
i.e. the answers depend on the updates only, not on what was looked at, flattened or cached in between. -/
theorem readonly_ops_preserve (fuel : Nat) (d : Desc) (ops : List Op) (i : Nat) (n P : S) (f : Flags) :
    (step fuel (run fuel (init d) ops).1 (.queryF i n P f)).2 =
    (step fuel (run fuel (init d) (ops.filter (fun o => !o.readOnly))).1 (.queryF i n P f)).2 := by
  rw [queryF_fresh_step fuel _ (cache_coherent fuel ops _ (inv_init fuel d)),
      queryF_fresh_step fuel _ (cache_coherent fuel _ _ (inv_init fuel d)),
      run_desc_erase_readonly fuel ops (init d) (init d) rfl]

/-- in particular a history that consists of read-only operations only leaves the description as it was:
every query then answers what a fresh object built from the original description answers -/
theorem readonly_history_is_invisible (fuel : Nat) (d : Desc) (ops : List Op) (h : ∀ o ∈ ops, o.readOnly = true)
    (i : Nat) (n P : S) (f : Flags) :
    (step fuel (run fuel (init d) ops).1 (.queryF i n P f)).2 = resolveF d P i n f fuel := by
  rw [readonly_ops_preserve]
  have : ops.filter (fun o => !o.readOnly) = [] := by
    simp only [List.filter_eq_nil_iff]
    intro o ho
    simp [h o ho]
  rw [this]
  exact queryF_fresh_step fuel (init d) (inv_init fuel d) i n P f


/-! ### setters store exactly what they are given -/

private theorem get_erase_self (k : S) : ∀ d : Fields, Tree.get (Tree.erase d k) k = none := by
  intro d
  induction d with
  | nil => rfl
  | cons e r ih =>
    obtain ⟨k', w⟩ := e
    by_cases h : k' = k
    · simp only [Tree.erase, h, if_true, ih]
    · simp only [Tree.erase, h, if_false, Tree.get, ih]

private theorem get_append_none (k : S) (w : Val) : ∀ a : Fields, Tree.get a k = none →
    Tree.get (a ++ [(k, w)]) k = some w := by
  intro a
  induction a with
  | nil => intro _; simp [Tree.get]
  | cons e r ih =>
    obtain ⟨k', w'⟩ := e
    intro h
    by_cases hk : k' = k
    · simp [Tree.get, hk] at h
    · simp only [Tree.get, hk, if_false] at h
      simp only [List.cons_append, Tree.get, hk, if_false]
      exact ih h

/-- `d[k] = v` then `d[k]` is `v` -/
theorem get_set_self (d : Fields) (k : S) (v : Val) : Tree.get (Tree.set d k v) k = some v :=
  get_append_none k v _ (get_erase_self k d)

private theorem findComp_modComp_self (f : Fields → Fields) (i : Nat) (n : S) : ∀ cs c,
    findComp cs i n = some c → findComp (modComp f i n cs) i n = some { c with body := f c.body } := by
  intro cs
  induction cs with
  | nil => intro c h; cases h
  | cons x r ih =>
    intro c h
    by_cases hx : x.stage = i ∧ x.name = n
    · simp only [findComp, hx, and_self, if_true, Option.some.injEq] at h
      subst h
      simp only [modComp, hx, and_self, if_true, findComp]
    · simp only [findComp, hx, if_false] at h
      simp only [modComp, hx, if_false, findComp]
      exact ih c h

private theorem cacheGet_invalidate (i : Nat) (n P : S) : ∀ cache, cacheGet (invalidate i n cache) ⟨P, i, n⟩ = none := by
  intro cache
  induction cache with
  | nil => rfl
  | cons e r ih =>
    obtain ⟨l, w⟩ := e
    unfold invalidate at ih ⊢
    by_cases hinv : invalidates i n l = true
    · rw [List.filter_cons_of_neg (by simp [hinv])]
      exact ih
    · rw [List.filter_cons_of_pos (by simp [hinv])]
      have hne : sameLabel l ⟨P, i, n⟩ = false := by
        cases hs : sameLabel l ⟨P, i, n⟩ with
        | false => rfl
        | true =>
          exfalso
          apply hinv
          obtain ⟨lp, li, ln⟩ := l
          simp only [sameLabel, decide_eq_true_eq] at hs
          obtain ⟨h1, h2, h3⟩ := hs
          subst h1; subst h2; subst h3
          exact invalidates_self _ _ _
      simp only [cacheGet, hne]
      exact ih

/-- **setVar_stores_exactly**: a successful `set_component_variable(comp, x, v)` leaves exactly `v` under `x` in the
component - whatever was there before, be it the same value, one that compares equal in some weaker sense (`1`,
`1.0`, `True` are three different `Val`s) or nothing - and no cached configuration of the component survives on any
platform; so the next query resolves the description that holds `v` -/
theorem setVar_stores_exactly (fuel : Nat) (s : St) (i : Nat) (n x : S) (v : Val) (c : Comp) (vs : Fields)
    (hc : findComp s.desc.comps i n = some c) (hv : get c.body "variables".toList = some (.dict vs)) :
    let s' := (step fuel s (.setVar i n x v)).1
    (∃ c' vs', findComp s'.desc.comps i n = some c' ∧ get c'.body "variables".toList = some (.dict vs') ∧
      get vs' x = some v) ∧ ∀ P, cacheGet s'.cache ⟨P, i, n⟩ = none := by
  intro s'
  have hs' : s' = ⟨setComps s.desc (modComp (fun b => set b "variables".toList (.dict (set vs x v))) i n s.desc.comps),
                   invalidate i n s.cache⟩ := by
    simp only [s', step, hc, hv]
  rw [hs']
  refine ⟨⟨_, set vs x v, findComp_modComp_self _ i n _ c hc, get_set_self _ _ _, get_set_self _ _ _⟩, ?_⟩
  intro P
  exact cacheGet_invalidate i n P s.cache

/-- … and the query that follows answers the resolution of that description (on every platform) -/
theorem query_after_setVar_is_fresh (fuel : Nat) (d : Desc) (ops : List Op) (i : Nat) (n x P : S) (v : Val) :
    let s' := (step fuel (run fuel (init d) ops).1 (.setVar i n x v)).1
    (step fuel s' (.query i n P)).2 = resolve s'.desc P i n false fuel :=
  query_fresh_step fuel _ (step_preserves fuel _ _ (cache_coherent fuel ops _ (inv_init fuel d))) i n P

/-! ### every platform name: the invalidation pattern puts no condition on the platform part of a label

FlowIR accepts any string as a platform name (`openshift-kubeflux`, `lsf.cluster`, `docker/local`, names made of
regular-expression metacharacters, blanks, colons, …).  `Label.platform`, the `P` of `Op.query` and every `P` below
range over ALL strings `S = List Char`: nothing here is restricted to "word" names. -/

private theorem isPrefixOf_iff (p t : S) : p.isPrefixOf t = true ↔ ∃ b, t = p ++ b := by
  rw [List.isPrefixOf_iff_prefix]
  constructor
  · rintro ⟨b, h⟩; exact ⟨b, h.symm⟩
  · rintro ⟨b, h⟩; exact ⟨b, h.symm⟩

private theorem isInfix_iff (p : S) : ∀ t : S, isInfix p t = true ↔ ∃ a b, t = a ++ p ++ b := by
  intro t
  induction t with
  | nil =>
    simp only [isInfix]
    constructor
    · intro h
      have hp : p = [] := by simpa using h
      exact ⟨[], [], by simp [hp]⟩
    · rintro ⟨a, b, h⟩
      have hl := congrArg List.length h
      simp only [List.length_nil, List.length_append] at hl
      have hp : p = [] := List.eq_nil_of_length_eq_zero (by omega)
      simp [hp]
  | cons c s ih =>
    simp only [isInfix, Bool.or_eq_true, ih, isPrefixOf_iff]
    constructor
    · rintro (⟨b, h⟩ | ⟨a, b, h⟩)
      · exact ⟨[], b, by simpa using h⟩
      · exact ⟨c :: a, b, by simp [h]⟩
    · rintro ⟨a, b, h⟩
      cases a with
      | nil => exact Or.inl ⟨b, by simpa using h⟩
      | cons x a' =>
        simp only [List.cons_append, List.cons.injEq] at h
        exact Or.inr ⟨a', b, h.2⟩

/-- **invalidates_iff_label_matches**: what the pattern `component:.*:stage<i>:<name>` (name literal, `match` = anchored
at the start only) accepts, spelled out on the text of the label after `component:`: ANY characters, then
`:stage<i>:<name>`, then any characters.  The platform part is unconstrained - dashes, dots, blanks, colons,
metacharacters, non-ASCII are all "any characters". -/
theorem invalidates_iff_label_matches (i : Nat) (n : S) (l : Label) :
    invalidates i n l = true ↔ ∃ a b : S, labelTail l = a ++ stageTag i n ++ b := by
  simp only [invalidates]
  exact isInfix_iff _ _

/-- the component-level mutators (and the reference getter of a component): each one invalidates the component it
addresses -/
def editTarget : Op → Option (Nat × S)
  | .setVar i n _ _ => some (i, n)
  | .delVar i n _ => some (i, n)
  | .setOption i n _ _ => some (i, n)
  | .removeOption i n _ => some (i, n)
  | .updateComp i n _ => some (i, n)
  | .deleteComp i n => some (i, n)
  | .touchComp i n => some (i, n)
  | _ => none

/-- **component_update_drops_every_platform**: whichever component-level call is made on an existing component
(set / delete a variable, set / remove an option, replace, delete, hand out a reference) - successful or raising after
the invalidation - no cached configuration of that component survives under ANY platform name `P` -/
theorem component_update_drops_every_platform (fuel : Nat) (s : St) (op : Op) (i : Nat) (n : S) (c : Comp)
    (ht : editTarget op = some (i, n)) (hc : findComp s.desc.comps i n = some c) (P : S) :
    cacheGet (step fuel s op).1.cache ⟨P, i, n⟩ = none := by
  have key : (step fuel s op).1.cache = invalidate i n s.cache := by
    cases op <;> simp only [editTarget, Option.some.injEq, Prod.mk.injEq, reduceCtorEq] at ht <;>
      obtain ⟨rfl, rfl⟩ := ht <;> simp only [step, hc] <;> (repeat' split) <;> rfl
  rw [key]
  exact cacheGet_invalidate i n P s.cache

/-- in a coherent state nothing is cached for a component that does not exist, under any platform name: so
`add_component` (which does not invalidate) can never be followed by a hit on an entry of a deleted namesake -/
theorem absent_component_has_no_cached_entry (fuel : Nat) (s : St) (hinv : Inv fuel s) (i : Nat) (n : S)
    (h : findComp s.desc.comps i n = none) (P : S) : cacheGet s.cache ⟨P, i, n⟩ = none := by
  cases hg : cacheGet s.cache ⟨P, i, n⟩ with
  | none => rfl
  | some v =>
    obtain ⟨l, hm, h1, h2, h3⟩ := cacheGet_mem _ _ _ hg
    have := hinv l v hm
    simp only at h1 h2 h3
    rw [h1, h2, h3] at this
    simp [resolve, h] at this

/-- **component_update_then_query_any_platform**: after ANY history, a component-level call on an existing component
leaves no entry of it under any platform name, and the query that follows - on any platform `P`, whatever its name -
answers the from-scratch resolution of the description as it is after the call -/
theorem component_update_then_query_any_platform (fuel : Nat) (d : Desc) (ops : List Op) (op : Op) (i : Nat) (n : S)
    (c : Comp) (ht : editTarget op = some (i, n))
    (hc : findComp (run fuel (init d) ops).1.desc.comps i n = some c) (P : S) :
    let s' := (step fuel (run fuel (init d) ops).1 op).1
    cacheGet s'.cache ⟨P, i, n⟩ = none ∧ (step fuel s' (.query i n P)).2 = resolve s'.desc P i n false fuel :=
  ⟨component_update_drops_every_platform fuel _ op i n c ht hc P,
   query_fresh_step fuel _ (step_preserves fuel _ _ (cache_coherent fuel ops _ (inv_init fuel d))) i n P⟩

/-! ### components are stored by value: an update of one component never reaches another -/

/-- the component an operation addresses (`none`: the variable setters and the opaque reads) -/
def opTarget : Op → Option (Nat × S)
  | .setVar i n _ _ => some (i, n)
  | .delVar i n _ => some (i, n)
  | .setOption i n _ _ => some (i, n)
  | .removeOption i n _ => some (i, n)
  | .addComp i n _ => some (i, n)
  | .updateComp i n _ => some (i, n)
  | .deleteComp i n => some (i, n)
  | .query i n _ => some (i, n)
  | .queryF i n _ _ => some (i, n)
  | .touchComp i n => some (i, n)
  | _ => none

/-- **update_is_local**: whatever one call of the interface does, the stored description of every component it
does not address is exactly what it was - a component is held by value, so components that were added (or
replaced) with equal bodies, e.g. stamped out of one template dictionary of the caller, share nothing: setting
or deleting a variable / an option of one of them, replacing or deleting it, cannot rewrite another one. -/
theorem update_is_local (fuel : Nat) (s : St) (op : Op) (i' : Nat) (n' : S)
    (h : ∀ i n, opTarget op = some (i, n) → ¬(i' = i ∧ n' = n)) :
    findComp (step fuel s op).1.desc.comps i' n' = findComp s.desc.comps i' n' := by
  cases op with
  | setVar i n x v =>
    have hne := h i n rfl
    simp only [step]
    split
    · rfl
    · split
      · exact findComp_modComp _ i n i' n' hne _
      · rfl
  | delVar i n x =>
    have hne := h i n rfl
    simp only [step]
    split
    · rfl
    · split
      · split
        · rfl
        · exact findComp_modComp _ i n i' n' hne _
      · rfl
  | setOption i n route v =>
    have hne := h i n rfl
    simp only [step]
    split
    · rfl
    · split
      · split
        · exact findComp_modComp _ i n i' n' hne _
        · rfl
      · split
        · exact findComp_modComp _ i n i' n' hne _
        · rfl
  | removeOption i n route =>
    have hne := h i n rfl
    simp only [step]
    split
    · rfl
    · split
      · split
        · split
          · rfl
          · exact findComp_modComp _ i n i' n' hne _
        · rfl
      · split
        · exact findComp_modComp _ i n i' n' hne _
        · rfl
  | setGlobalVar x v => rfl
  | setStageVar i x v =>
    simp only [step]
    split <;> rfl
  | setPlatGlobalVar P x v =>
    simp only [step]
    split <;> rfl
  | setPlatStageVar P i x v =>
    simp only [step]
    split <;> rfl
  | addComp i n body =>
    have hne := h i n rfl
    simp only [step]
    split
    · rfl
    · exact findComp_append ⟨i, n, body⟩ i' n' hne _
  | updateComp i n body =>
    have hne := h i n rfl
    simp only [step]
    split
    · rfl
    · exact findComp_modComp _ i n i' n' hne _
  | deleteComp i n =>
    have hne := h i n rfl
    simp only [step]
    split
    · rfl
    · exact findComp_delComp i n i' n' hne _
  | query i n P => rw [show (step fuel s (.query i n P)).1.desc = s.desc from queryStep_desc fuel s i n P]
  | queryF i n P f =>
    simp only [step]
    split
    · rw [queryStep_desc fuel s i n P]
    · rfl
  | read => rfl
  | touchComp i n =>
    simp only [step]
    split <;> rfl
  | touchVars => rfl

private theorem findComp_append_self (i : Nat) (n : S) (b : Fields) : ∀ cs, findComp cs i n = none →
    findComp (cs ++ [⟨i, n, b⟩]) i n = some ⟨i, n, b⟩ := by
  intro cs
  induction cs with
  | nil => intro _; simp [findComp]
  | cons c r ih =>
    intro h
    simp only [findComp] at h
    split at h
    · cases h
    · rename_i hc
      simp only [List.cons_append, findComp, hc, if_false]
      exact ih h

/-- **addComp_stores_exactly**: a successful `add_component(description)` stores exactly the description it was
given (a copy: nothing the caller does with its dictionary afterwards is an update of the configuration) -/
theorem addComp_stores_exactly (fuel : Nat) (s : St) (i : Nat) (n : S) (body : Fields)
    (h : findComp s.desc.comps i n = none) :
    findComp (step fuel s (.addComp i n body)).1.desc.comps i n = some ⟨i, n, body⟩ := by
  simp only [step, h]
  exact findComp_append_self i n body _ h

/-- **component_survives_foreign_history**: after ANY history none of whose calls addresses the component `(i', n')`
- edits, replacements, deletions of its siblings, of components with an equal body, any variable setter, any query -
its stored description is still exactly what it was -/
theorem component_survives_foreign_history (fuel : Nat) (i' : Nat) (n' : S) : ∀ (ops : List Op) (s : St),
    (∀ op ∈ ops, ∀ i n, opTarget op = some (i, n) → ¬(i' = i ∧ n' = n)) →
    findComp (run fuel s ops).1.desc.comps i' n' = findComp s.desc.comps i' n' := by
  intro ops
  induction ops with
  | nil => intro s _; rfl
  | cons op r ih =>
    intro s h
    simp only [run]
    rw [ih _ (fun o ho => h o (by simp [ho]))]
    exact update_is_local fuel s op i' n' (h op (by simp))

/-! ### the graph layer: many views, many entry points, one description -/

/-- an update arriving through any object (`ComponentSpecification.setOption`, the node's `setOption`,
`WorkflowGraph.setOptionForNode`, `FlowIRExperimentConfiguration.setOptionForNode`, `Job.setOption`, the
`FlowIRConcrete` mutators) is the same step of the one description + cache -/
theorem update_via_any_entry (fuel : Nat) (P : S) (s : St) (e : Entry) (u : Op) :
    gstep fuel P s (.via e u) = step fuel s u := rfl

/-- the state after a history on the graph layer is the state after the history of `FlowIRConcrete` calls it
boils down to - so everything proved about `run` (coherence, freshness, read-only operations) carries over -/
theorem grun_state (fuel : Nat) (P : S) : ∀ (gops : List GOp) (s : St),
    (grun fuel P s gops).1 = (run fuel s (gops.map (lowerOp P))).1 := by
  intro gops
  induction gops with
  | nil => intro s; rfl
  | cons g r ih =>
    intro s
    simp only [grun, run, List.map, gstep]
    exact ih _

/-- after ANY history on the graph layer the cache is coherent -/
theorem grun_coherent (fuel : Nat) (P : S) (gops : List GOp) (s : St) (h : Inv fuel s) :
    Inv fuel (grun fuel P s gops).1 := by
  rw [grun_state]
  exact cache_coherent fuel _ s h

/-- **view_fresh**: in a coherent state a read of any view through any object answers that part of what
resolving the CURRENT description from scratch gives -/
theorem view_fresh_step (fuel : Nat) (P : S) (s : St) (hinv : Inv fuel s) (e : Entry) (v : View) (i : Nat) (n : S)
    (f : Flags) : (gstep fuel P s (.view e v i n f)).2 = project v (resolveF s.desc P i n f fuel) := by
  simp only [gstep, lowerOp, present]
  rw [queryF_fresh_step fuel s hinv]

/-- **all_views_agree**: after ANY history of reads and updates through any mix of objects, the same question
asked through two different objects gets the same answer, namely the from-scratch resolution of the current
description seen through the view (no object keeps an answer of its own) -/
theorem all_views_agree (fuel : Nat) (P : S) (d : Desc) (gops : List GOp) (e e' : Entry) (v : View) (i : Nat) (n : S)
    (f : Flags) :
    let s := (grun fuel P (init d) gops).1
    (gstep fuel P s (.view e v i n f)).2 = (gstep fuel P s (.view e' v i n f)).2 ∧
    (gstep fuel P s (.view e v i n f)).2 = project v (resolveF s.desc P i n f fuel) := by
  intro s
  have hinv : Inv fuel s := grun_coherent fuel P gops _ (inv_init fuel d)
  exact ⟨by rw [view_fresh_step fuel P s hinv, view_fresh_step fuel P s hinv], view_fresh_step fuel P s hinv e v i n f⟩

/-- the properties built on the configuration (`commandDetails`, `resourceManager`, `workflowAttributes`,
`customAttributes`, `Job.type`, …) hand out the corresponding part of what the configuration view - asked through
any other object - hands out at that moment -/
theorem section_view_is_part_of_configuration (fuel : Nat) (P : S) (d : Desc) (gops : List GOp) (e e' : Entry)
    (ks : List S) (i : Nat) (n : S) (f : Flags) :
    let s := (grun fuel P (init d) gops).1
    (gstep fuel P s (.view e (.path ks) i n f)).2 =
      project (.path ks) (gstep fuel P s (.view e' .configuration i n f)).2 := by
  intro s
  have hinv : Inv fuel s := grun_coherent fuel P gops _ (inv_init fuel d)
  rw [view_fresh_step fuel P s hinv, view_fresh_step fuel P s hinv]
  cases resolveF s.desc P i n f fuel <;> rfl

/-- **entry_point_irrelevant**: a whole history (final state and every answer) is the same when every call is
made through one fixed object instead -/
theorem entry_point_irrelevant (fuel : Nat) (P : S) (e : Entry) : ∀ (gops : List GOp) (s : St),
    grun fuel P s (gops.map (GOp.withEntry e)) = grun fuel P s gops := by
  intro gops
  induction gops with
  | nil => intro s; rfl
  | cons g r ih =>
    intro s
    have hg : gstep fuel P s (g.withEntry e) = gstep fuel P s g := by cases g <;> rfl
    simp only [List.map, grun, hg, ih]

private theorem lowerOp_readOnly (P : S) (g : GOp) : (lowerOp P g).readOnly = g.readOnly := by
  cases g <;> rfl

private theorem filter_lowerOp (P : S) : ∀ gops : List GOp,
    (gops.map (lowerOp P)).filter (fun o => !o.readOnly) = (gops.filter (fun g => !g.readOnly)).map (lowerOp P) := by
  intro gops
  induction gops with
  | nil => rfl
  | cons g r ih =>
    simp only [List.map, List.filter, lowerOp_readOnly]
    cases g.readOnly <;> simp [ih]

/-- **views_depend_on_updates_only**: what a view answers after a history is what it answers after the same
history with every read (through whatever object) erased -/
theorem views_depend_on_updates_only (fuel : Nat) (P : S) (d : Desc) (gops : List GOp) (e : Entry) (v : View)
    (i : Nat) (n : S) (f : Flags) :
    (gstep fuel P (grun fuel P (init d) gops).1 (.view e v i n f)).2 =
    (gstep fuel P (grun fuel P (init d) (gops.filter (fun g => !g.readOnly))).1 (.view e v i n f)).2 := by
  rw [view_fresh_step fuel P _ (grun_coherent fuel P gops _ (inv_init fuel d)),
      view_fresh_step fuel P _ (grun_coherent fuel P _ _ (inv_init fuel d)),
      grun_state, grun_state, ← filter_lowerOp,
      run_desc_erase_readonly fuel (gops.map (lowerOp P)) (init d) (init d) rfl]

/-! ### ambient settings: a verbosely configured process (Model/CacheAmbient.lean) -/

/-- in coherent states what ANY call answers and what it does to the description depends on the description only -
never on what happens to be cached -/
theorem step_depends_on_description (fuel : Nat) (s s' : St) (op : Op) (h : Inv fuel s) (h' : Inv fuel s')
    (hd : s.desc = s'.desc) :
    (step fuel s op).2 = (step fuel s' op).2 ∧ (step fuel s op).1.desc = (step fuel s' op).1.desc := by
  cases hro : op.readOnly with
  | false => exact ⟨(update_ignores_cache fuel s s' op hro hd).2, (update_ignores_cache fuel s s' op hro hd).1⟩
  | true =>
    refine ⟨?_, by rw [readonly_keeps_description fuel s op hro, readonly_keeps_description fuel s' op hro, hd]⟩
    cases op <;> simp [Op.readOnly] at hro
    · rw [query_fresh_step fuel s h, query_fresh_step fuel s' h', hd]
    · rw [queryF_fresh_step fuel s h, queryF_fresh_step fuel s' h', hd]
    · rfl
    · simp only [step, hd]
      split <;> rfl
    · rfl

/-- what a logger does (read-only calls) leaves the description alone and the cache coherent -/
theorem looks_keep_description (fuel : Nat) : ∀ (l : List Op) (s : St),
    (run fuel s (looks l)).1.desc = s.desc := by
  intro l
  induction l with
  | nil => intro s; rfl
  | cons op r ih =>
    intro s
    cases hro : op.readOnly with
    | false =>
      have : looks (op :: r) = looks r := by simp [looks, List.filter, hro]
      rw [this]; exact ih s
    | true =>
      have : looks (op :: r) = op :: looks r := by simp [looks, List.filter, hro]
      rw [this]
      simp only [run]
      exact (ih _).trans (readonly_keeps_description fuel s op hro)

/-- one call of a process of ANY verbosity: the answer and the description are those of the quiet call, the cache
stays coherent -/
theorem logged_step_as_quiet (V : Verbosity) (fuel : Nat) (s s' : St) (op : Op) (h : Inv fuel s) (h' : Inv fuel s')
    (hd : s.desc = s'.desc) :
    (stepLogged V fuel s op).2 = (step fuel s' op).2 ∧ (stepLogged V fuel s op).1.desc = (step fuel s' op).1.desc ∧
    Inv fuel (stepLogged V fuel s op).1 := by
  have h0 : Inv fuel (run fuel s (looks (V.before op))).1 := cache_coherent fuel _ s h
  have hd0 : (run fuel s (looks (V.before op))).1.desc = s'.desc := (looks_keep_description fuel _ s).trans hd
  have hs := step_depends_on_description fuel _ s' op h0 h' hd0
  refine ⟨hs.1, ?_, ?_⟩
  · simp only [stepLogged]
    exact (looks_keep_description fuel _ _).trans hs.2
  · simp only [stepLogged]
    exact cache_coherent fuel _ _ (step_preserves fuel _ op h0)

/-- **logging_is_invisible**: for EVERY verbosity (any read-only calls before and after every call of the interface,
chosen per call) and every history, a verbose process gets the answers of the quiet one, holds the same description
afterwards, and its cache is coherent. -/
theorem logging_is_invisible (V : Verbosity) (fuel : Nat) : ∀ (ops : List Op) (s s' : St), Inv fuel s → Inv fuel s' →
    s.desc = s'.desc →
    (runLogged V fuel s ops).2 = (run fuel s' ops).2 ∧ (runLogged V fuel s ops).1.desc = (run fuel s' ops).1.desc ∧
    Inv fuel (runLogged V fuel s ops).1 := by
  intro ops
  induction ops with
  | nil => intro s s' h _ hd; exact ⟨rfl, hd, h⟩
  | cons op r ih =>
    intro s s' h h' hd
    have h1 := logged_step_as_quiet V fuel s s' op h h' hd
    have h2 := ih _ _ h1.2.2 (step_preserves fuel s' op h') h1.2.1
    simp only [runLogged, run]
    exact ⟨by rw [h1.1, h2.1], h2.2.1, h2.2.2⟩

/-- hence, whatever the verbosity, after any history a query of any variant answers the from-scratch resolution of
the current description, which is the description the quiet process holds -/
theorem logged_query_fresh (V : Verbosity) (fuel : Nat) (d : Desc) (ops : List Op) (i : Nat) (n P : S) (f : Flags) :
    (stepLogged V fuel (runLogged V fuel (init d) ops).1 (.queryF i n P f)).2 =
      resolveF (run fuel (init d) ops).1.desc P i n f fuel := by
  have h := logging_is_invisible V fuel ops (init d) (init d) (inv_init fuel d) (inv_init fuel d) rfl
  have h1 := logged_step_as_quiet V fuel _ _ (.queryF i n P f) h.2.2 (cache_coherent fuel ops _ (inv_init fuel d)) h.2.1
  rw [h1.1]
  exact queryF_fresh_step fuel _ (cache_coherent fuel ops _ (inv_init fuel d)) i n P f

/-- a quiet process is the plain history -/
theorem quiet_is_plain (fuel : Nat) : ∀ (ops : List Op) (s : St), runLogged Verbosity.quiet fuel s ops = run fuel s ops := by
  intro ops
  induction ops with
  | nil => intro s; rfl
  | cons op r ih =>
    intro s
    have hb : looks (Verbosity.quiet.before op) = [] := rfl
    have ha : looks (Verbosity.quiet.after op) = [] := rfl
    simp only [runLogged, run, stepLogged, hb, ha]
    rw [ih]

/-! ### non-vacuity: a history whose two identical queries must (and do) answer differently -/

private def d1 : Desc :=
  { platforms := [defaultName], blueprint := [],
    variables := [(defaultName, { global := [(['g'], .str ['1'])], stages := [] })],
    comps := [⟨0, ['c'], [("stage".toList, .int 0), ("name".toList, .str ['c']),
                          ("command".toList, .dict [("arguments".toList, .str "%(g)s".toList)]),
                          ("variables".toList, .dict [])]⟩] }

private def args (a : Except Err Val) : Option Val :=
  match a with
  | .ok v => lookupPath ["command".toList, "arguments".toList] v
  | .error _ => none

example : (run 50 (init d1) [.query 0 ['c'] defaultName, .setGlobalVar ['g'] (.str ['2']),
                            .query 0 ['c'] defaultName, .query 0 ['c'] defaultName]).2.map args
    = [some (.str ['1']), none, some (.str ['2']), some (.str ['2'])] := by rfl

/-- read-only operations in between (a raw no-defaults query = what `instance()` asks, an opaque read, a
reference getter) do not change the answers -/
example : (run 50 (init d1) [.queryF 0 ['c'] defaultName ⟨true, false, true, false⟩, .read, .touchComp 0 ['c'],
                            .touchVars]).2.map args
    = [some (.str "%(g)s".toList), none, none, none] := by rfl

/-- … and the second query of the pair is a cache hit (the cache is non-empty after the history) -/
example : (run 50 (init d1) [.query 0 ['c'] defaultName]).1.cache.length = 1 := by rfl

/-- re-setting a variable to a value that Python calls equal (`1` -> `1.0`) is an update like any other: the second
query of the pair answers `1.0` -/
example : (run 50 (init d1) [.setVar 0 ['c'] ['g'] (.int 1), .query 0 ['c'] defaultName,
                            .setVar 0 ['c'] ['g'] (.flt "1.0".toList), .query 0 ['c'] defaultName]).2.map args
    = [none, some (.str ['1']), none, some (.str "1.0".toList)] := by rfl

/-- graph layer: read `command.arguments` through the `ComponentSpecification`, update the global variable
through `FlowIRConcrete` and the component's own variable through `WorkflowGraph.setOptionForNode`, read through the
`ComponentSpecification` and through a `Job`: both see every update -/
example : (grun 50 defaultName (init d1)
      [.view .spec (.path ["command".toList, "arguments".toList]) 0 ['c'] (Flags.std false),
       .via .concrete (.setGlobalVar ['g'] (.str ['2'])),
       .view .spec (.path ["command".toList, "arguments".toList]) 0 ['c'] (Flags.std false),
       .via .graph (.setOption 0 ['c'] ['g'] (.flt "1.0".toList)),
       .view .job (.path ["command".toList, "arguments".toList]) 0 ['c'] (Flags.std false),
       .view .spec (.path ["variables".toList, ['g']]) 0 ['c'] (Flags.std false),
       .view .node (.path ["nowhere".toList]) 0 ['c'] (Flags.std false)]).2.map
        (fun a => match a with | .ok v => some v | .error _ => none)
    = [some (.str ['1']), some .null, some (.str ['2']), some .null, some (.str "1.0".toList),
       some (.flt "1.0".toList), none] := by rfl

/-- a description with a platform whose name is not a "word": `openshift-kubeflux` -/
private def okf : S := "openshift-kubeflux".toList

private def d2 : Desc :=
  { platforms := [defaultName, okf], blueprint := [],
    variables := [(defaultName, { global := [(['g'], .str ['1'])], stages := [] }),
                  (okf, { global := [(['g'], .str "on-okf".toList)], stages := [] })],
    comps := [⟨0, ['c'], [("stage".toList, .int 0), ("name".toList, .str ['c']),
                          ("command".toList, .dict [("arguments".toList, .str "%(g)s %(x)s".toList)]),
                          ("variables".toList, .dict [(['x'], .str ['0'])])]⟩] }

private def argText (a : Except Err Val) : Option S :=
  match args a with
  | some (.str t) => some t
  | _ => none

/-- query on `openshift-kubeflux` (fills the cache), component-level update, query again: the update is visible -/
example : (run 50 (init d2) [.query 0 ['c'] okf, .setVar 0 ['c'] ['x'] (.str ['1']), .query 0 ['c'] okf,
                            .query 0 ['c'] okf]).2.map argText
    = [some "on-okf 0".toList, none, some "on-okf 1".toList, some "on-okf 1".toList] := by decide +kernel

/-- the hypotheses of `component_update_drops_every_platform` are satisfiable with a non-empty cache: the entry of
`openshift-kubeflux` is there before the call and gone after it -/
example : (cacheGet (run 50 (init d2) [.query 0 ['c'] okf]).1.cache ⟨okf, 0, ['c']⟩).isSome = true ∧
    cacheGet (run 50 (init d2) [.query 0 ['c'] okf, .setOption 0 ['c'] "#command.arguments".toList (.str ['z'])]).1.cache
      ⟨okf, 0, ['c']⟩ = none := by decide +kernel

/-- labels of platforms named `lsf.cluster`, `p q`, `a+b`, `x:y` all match the pattern of their component; the label
of another component of the same platform does not -/
example : invalidates 0 ['c'] ⟨"lsf.cluster".toList, 0, ['c']⟩ = true ∧ invalidates 0 ['c'] ⟨"p q".toList, 0, ['c']⟩ = true ∧
    invalidates 0 ['c'] ⟨"a+b".toList, 0, ['c']⟩ = true ∧ invalidates 0 ['c'] ⟨"x:y".toList, 0, ['c']⟩ = true ∧
    invalidates 0 ['c'] ⟨"lsf.cluster".toList, 0, ['d']⟩ = false ∧
    invalidates 1 ['c'] ⟨"lsf.cluster".toList, 10, ['c']⟩ = false := by decide

/-- one body, two names: what a caller that stamps components out of one template dictionary hands in -/
private def tplBody : Fields :=
  [("stage".toList, .int 0), ("name".toList, .str ['w']),
   ("command".toList, .dict [("arguments".toList, .str "%(who)s".toList)]),
   ("variables".toList, .dict [("who".toList, .str "nobody".toList)])]

/-- two components stamped out of ONE body, then one of them is edited: the other one answers as before -/
example : (run 50 (init d1) [.addComp 0 "w0".toList tplBody, .addComp 0 "w1".toList tplBody,
                            .setVar 0 "w0".toList "who".toList (.str "world".toList),
                            .query 0 "w0".toList defaultName, .query 0 "w1".toList defaultName]).2.map args
    = [none, none, none, some (.str "world".toList), some (.str "nobody".toList)] := by rfl

/-- a verbose process that asks for the resolved configuration before and after every update (what a "changes from X
to Y" report does) and dumps on every query: the answers of the history are those of the quiet process -/
example : (runLogged ⟨fun o => if o.readOnly then [.read] else [.query 0 ['c'] defaultName, .setGlobalVar ['g'] (.str ['9'])],
                      fun _ => [.query 0 ['c'] defaultName, .touchComp 0 ['c']]⟩ 50 (init d1)
      [.query 0 ['c'] defaultName, .setOption 0 ['c'] "#command.arguments".toList (.str "%(g)s!".toList),
       .query 0 ['c'] defaultName, .setGlobalVar ['g'] (.str ['2']), .query 0 ['c'] defaultName]).2.map argText
    = [some ['1'], none, some "1!".toList, none, some "2!".toList] := by decide +kernel

end St4sd.C08
