import St4sd.Lemmas.C07
import St4sd.Lemmas.C07Dir
/-!
# C07 — An instance reloaded from its own files is the same experiment

Model: `St4sd/Model/Instance.lean`.  `flatten N L P` is what `store_unreplicated_flowir_to_disk` writes for the
unreplicated description `L` and the selected platform `P`; loading the file gives the same description back
(YAML trusted as identity), so the reloaded experiment's `_unreplicated` is `flatten N L P` and everything it does
next (store again, replicate, answer `configurationForNode`) starts with `flatten N (flatten N L P) P`.

Hypothesis of the round-trip theorems: `resolves N L P = true` (decidable; the fuel `N` was enough to resolve every
reference to a defined variable, i.e. the variables are not cyclic).  The driver evaluates it on every
generated case.
-/
namespace St4sd.C07
open St4sd.Instance

/-! ### private helpers: projections of `flatten` -/

private theorem layerOf_single_zero (ly : Layer) : layerOf [(0, ly)] 0 = ly := by
  simp [layerOf, List.find?]

private theorem layerOf_single_ne (ly : Layer) (P : Name) (h : P ≠ 0) : layerOf [(0, ly)] P = Layer.empty := by
  have : ((0 : Nat) == P) = false := by simpa using (Ne.symm h)
  simp [layerOf, List.find?, this]

private theorem stage_map (g : Dict) (f : Nat → Dict) (ss : List Nat) (s : Nat) (h : s ∈ ss) :
    Layer.stage ⟨g, ss.map fun s => (s, f s)⟩ s = f s := by
  unfold Layer.stage
  simp only
  induction ss with
  | nil => cases h
  | cons a r ih =>
    rw [List.map_cons, List.find?_cons]
    by_cases ha : a = s
    · subst ha; simp
    · have : (a == s) = false := by simpa using ha
      simp only [this]
      rcases List.mem_cons.mp h with h | h
      · exact absurd h.symm ha
      · exact ih h

private theorem find?_filter_self {α : Type} (p : α → Bool) (l : List α) : (l.filter p).find? p = l.find? p := by
  induction l with
  | nil => rfl
  | cons a r ih =>
    by_cases h : p a = true
    · simp [List.filter_cons, h]
    · simp [List.filter_cons, h, ih]

private theorem map_filter_map_congr {α β γ : Type} (f : α → β) (g : β → β) (p : β → Bool) (r0 rP : β → γ)
    (l : List α) (hp : ∀ x, p (g (f x)) = p (f x)) (hr : ∀ x ∈ l, p (f x) = true → r0 (g (f x)) = rP (f x)) :
    ((((l.map f).map g).filter p).map r0) = (((l.map f).filter p).map rP) := by
  induction l with
  | nil => rfl
  | cons a r ih =>
    have ihr := ih (fun x hx => hr x (List.mem_cons_of_mem _ hx))
    simp only [List.map_cons, List.filter_cons, hp a]
    by_cases hpa : p (f a) = true
    · simp only [hpa, if_true, List.map_cons]
      rw [hr a List.mem_cons_self hpa, ihr]
    · simp only [hpa, Bool.false_eq_true, if_false]
      exact ihr

private theorem flatComp_stage (N : Nat) (L : Doc) (P : Name) (c : Comp) : (flatComp N L P c).stage = c.stage := by
  unfold flatComp; split <;> rfl

private theorem flatComp_isDoc (N : Nat) (L : Doc) (P : Name) (c : Comp) : (flatComp N L P c).isDoc = c.isDoc := by
  unfold flatComp; split <;> rfl

private theorem flatComp_name (N : Nat) (L : Doc) (P : Name) (c : Comp) : (flatComp N L P c).name = c.name := by
  unfold flatComp; split <;> rfl

private theorem flatComp_nondoc (N : Nat) (L : Doc) (P : Name) (c : Comp) (hd : c.isDoc = false) :
    flatComp N L P c = { c with opts := layeredOpts L P c, vars := mapVals (interp N (cctx N L P c)) (cv0 c P),
                                ovr := c.ovr.filter (fun o => o.plat == P) } := by
  unfold flatComp
  rw [if_neg (by simp [hd])]

private theorem flatComp_ovr (N : Nat) (L : Doc) (P : Name) (c : Comp) (hd : c.isDoc = false) :
    (flatComp N L P c).ovr = c.ovr.filter (fun o => o.plat == P) := by
  rw [flatComp_nondoc N L P c hd]

private theorem stages_flatten (N : Nat) (L : Doc) (P : Name) :
    (flatten N L P).comps.map (·.stage) = L.comps.map (·.stage) := by
  simp [flatten, List.map_map, Function.comp_def, flatComp_stage]

private theorem vars_flatten_zero (N : Nat) (L : Doc) (P : Name) :
    layerOf (flatten N L P).vars 0 = ⟨gvars N L P, (L.comps.map (·.stage)).map fun s => (s, svars N L P s)⟩ :=
  layerOf_single_zero _

private theorem bps_flatten_zero (N : Nat) (L : Doc) (P : Name) :
    layerOf (flatten N L P).bps 0 = ⟨bpg N L P, (L.comps.map (·.stage)).map fun s => (s, bpsv N L P s)⟩ :=
  layerOf_single_zero _

private theorem vars_flatten_ne (N : Nat) (L : Doc) (P : Name) (h : P ≠ 0) :
    layerOf (flatten N L P).vars P = Layer.empty := layerOf_single_ne _ P h

private theorem bps_flatten_ne (N : Nat) (L : Doc) (P : Name) (h : P ≠ 0) :
    layerOf (flatten N L P).bps P = Layer.empty := layerOf_single_ne _ P h

private theorem empty_stage (s : Nat) : Layer.empty.stage s = [] := rfl

/-! ### the stage blueprint base (fix 1b655bb) -/

private theorem bpsBase_flatten (N : Nat) (L : Doc) (P : Name) (s : Nat) :
    bpsBase (flatten N L P) P s = (layerOf (flatten N L P).bps 0).stage s := by
  unfold bpsBase
  by_cases hP : P = 0
  · subst hP; simp
  · rw [bps_flatten_ne N L P hP]; simp [Layer.empty]

private theorem bpsBase_zero (M : Doc) (s : Nat) : bpsBase M 0 s = (layerOf M.bps 0).stage s := by
  simp [bpsBase]

private theorem keysSub_bpsBase (L : Doc) (P : Name) (c : Comp) :
    keysSub (bpsBase L P c.stage) (update (update (update (update (layerOf L.bps 0).glob
      ((layerOf L.bps 0).stage c.stage)) (layerOf L.bps P).glob) ((layerOf L.bps P).stage c.stage)) c.opts) := by
  have hS : keysSub ((layerOf L.bps 0).stage c.stage) (update (update (update (update (layerOf L.bps 0).glob
      ((layerOf L.bps 0).stage c.stage)) (layerOf L.bps P).glob) ((layerOf L.bps P).stage c.stage)) c.opts) :=
    keysSub_trans (keysSub_update_right _ _) (keysSub_trans (keysSub_update_left _ _)
        (keysSub_trans (keysSub_update_left _ _) (keysSub_update_left _ _)))
  have hG : keysSub (layerOf L.bps P).glob (update (update (update (update (layerOf L.bps 0).glob
      ((layerOf L.bps 0).stage c.stage)) (layerOf L.bps P).glob) ((layerOf L.bps P).stage c.stage)) c.opts) :=
    keysSub_trans (keysSub_update_right _ _) (keysSub_trans (keysSub_update_left _ _) (keysSub_update_left _ _))
  unfold bpsBase
  simp only
  split
  · exact hS
  · exact keysSub_update hS hG

/-! ### what `resolves` gives -/

private theorem resolves_parts {N : Nat} {L : Doc} {P : Name} (h : resolves N L P = true) :
    (∀ e ∈ gvars N L P, closedIn (gv0 L P) e.2 = true) ∧
    (∀ c ∈ L.comps, (∀ e ∈ svars N L P c.stage, closedIn (sctx N L P c.stage) e.2 = true) ∧
        (∀ e ∈ bpsv N L P c.stage, closedIn (bpsCtx N L P c.stage) e.2 = true) ∧
        (c.isDoc = true ∨ ∀ e ∈ mapVals (interp N (cctx N L P c)) (cv0 c P), closedIn (cctx N L P c) e.2 = true)) ∧
    (∀ e ∈ bpg N L P, closedIn (gvars N L P) e.2 = true) := by
  unfold resolves at h
  simp only [Bool.and_eq_true, List.all_eq_true, Bool.or_eq_true] at h
  obtain ⟨⟨h1, h2⟩, h3⟩ := h
  refine ⟨(dictClosed_iff _ _).mp h1, ?_, (dictClosed_iff _ _).mp h3⟩
  intro c hc
  obtain ⟨⟨a, b⟩, d⟩ := h2 c hc
  refine ⟨(dictClosed_iff _ _).mp a, (dictClosed_iff _ _).mp b, ?_⟩
  rcases d with d | d
  · exact Or.inl d
  · exact Or.inr ((dictClosed_iff _ _).mp d)

/-! ### second flattening, piece by piece -/

section second
variable {N : Nat} {L : Doc} {P : Name}

private theorem gv0_second : gv0 (flatten N L P) P = gvars N L P := by
  unfold gv0
  by_cases hP : P = 0
  · subst hP; rw [vars_flatten_zero]; simp
  · have : (P == 0) = false := by simpa using hP
    rw [vars_flatten_zero, vars_flatten_ne N L P hP]; simp [this, Layer.empty]

private theorem gvars_second (h : resolves N L P = true) : gvars N (flatten N L P) P = gvars N L P := by
  unfold gvars
  rw [gv0_second]
  exact mapVals_interp_closed N (gv0 L P) _ _ (fun k => by simp [gvars]) (resolves_parts h).1

private theorem sv0_second (s : Nat) (hs : s ∈ L.comps.map (·.stage)) : sv0 (flatten N L P) P s = svars N L P s := by
  unfold sv0
  by_cases hP : P = 0
  · subst hP
    simp only [vars_flatten_zero, stage_map _ _ _ s hs]
    simp [update_self]
  · have : (P == 0) = false := by simpa using hP
    simp only [vars_flatten_zero, vars_flatten_ne N L P hP, stage_map _ _ _ s hs, this, empty_stage]
    simp [Layer.empty]

private theorem svars_second (h : resolves N L P = true) (c : Comp) (hc : c ∈ L.comps) :
    svars N (flatten N L P) P c.stage = svars N L P c.stage := by
  have hs : c.stage ∈ L.comps.map (·.stage) := List.mem_map.mpr ⟨c, hc, rfl⟩
  unfold svars sctx
  rw [sv0_second c.stage hs, gvars_second h]
  refine mapVals_interp_closed N (sctx N L P c.stage) _ _ (fun k => ?_) ((resolves_parts h).2.1 c hc).1
  simp [sctx, hasKey_update, svars]

private theorem bpg_second (h : resolves N L P = true) : bpg N (flatten N L P) P = bpg N L P := by
  unfold bpg bpg0
  rw [gvars_second h]
  have : update (layerOf (flatten N L P).bps 0).glob (layerOf (flatten N L P).bps P).glob = bpg N L P := by
    by_cases hP : P = 0
    · subst hP; rw [bps_flatten_zero]; exact update_self _
    · rw [bps_flatten_zero, bps_flatten_ne N L P hP]; simp [Layer.empty, bpg, bpg0]
  rw [this]
  exact mapVals_interp_closed N (gvars N L P) _ _ (fun _ => rfl) (resolves_parts h).2.2

private theorem bpsv_second (h : resolves N L P = true) (c : Comp) (hc : c ∈ L.comps) :
    bpsv N (flatten N L P) P c.stage = bpsv N L P c.stage := by
  have hs : c.stage ∈ L.comps.map (·.stage) := List.mem_map.mpr ⟨c, hc, rfl⟩
  unfold bpsv bpsCtx bps0
  rw [gvars_second h, svars_second h c hc, bpsBase_flatten]
  have : update ((layerOf (flatten N L P).bps 0).stage c.stage) ((layerOf (flatten N L P).bps P).stage c.stage)
      = bpsv N L P c.stage := by
    by_cases hP : P = 0
    · subst hP; rw [bps_flatten_zero, stage_map _ _ _ _ hs]; exact update_self _
    · rw [bps_flatten_zero, bps_flatten_ne N L P hP, stage_map _ _ _ _ hs]; simp [empty_stage]
  rw [this]
  exact mapVals_interp_closed N (bpsCtx N L P c.stage) _ _ (fun _ => rfl) ((resolves_parts h).2.1 c hc).2.1

/-- the layered options of an already flattened component are its options -/
private theorem layeredOpts_second (c : Comp) (hc : c ∈ L.comps) (hd : c.isDoc = false) :
    layeredOpts (flatten N L P) P (flatComp N L P c) = layeredOpts L P c := by
  have hs : c.stage ∈ L.comps.map (·.stage) := List.mem_map.mpr ⟨c, hc, rfl⟩
  have hopts : (flatComp N L P c).opts = layeredOpts L P c := by simp [flatComp, hd]
  have hovr : ovrOpts (flatComp N L P c) P = ovrOpts c P := by
    unfold ovrOpts; rw [flatComp_ovr N L P c hd, find?_filter_self]
  have hL : layeredOpts (flatten N L P) P (flatComp N L P c) =
      update (update (update (update (update (bpg N L P) (bpsv N L P c.stage)) (layerOf (flatten N L P).bps P).glob)
        ((layerOf (flatten N L P).bps P).stage c.stage)) (layeredOpts L P c)) (ovrOpts c P) := by
    conv => lhs; unfold layeredOpts
    rw [hopts, hovr, flatComp_stage, bps_flatten_zero, stage_map _ _ _ _ hs]
  rw [hL]
  -- every blueprint key already is a key of the layered options
  have kO : ∀ d, keysSub d (update (update (update (update (layerOf L.bps 0).glob ((layerOf L.bps 0).stage c.stage))
      (layerOf L.bps P).glob) ((layerOf L.bps P).stage c.stage)) c.opts) →
      keysSub d (layeredOpts L P c) := fun d hd' => keysSub_trans hd' (keysSub_update_left _ _)
  have k1 : keysSub (bpg N L P) (layeredOpts L P c) := by
    apply kO
    apply keysSub_mapVals_left
    apply keysSub_update
    · exact keysSub_trans (keysSub_update_left _ _) (keysSub_trans (keysSub_update_left _ _)
        (keysSub_trans (keysSub_update_left _ _) (keysSub_update_left _ _)))
    · exact keysSub_trans (keysSub_update_right _ _) (keysSub_trans (keysSub_update_left _ _) (keysSub_update_left _ _))
  have k2 : keysSub (bpsv N L P c.stage) (layeredOpts L P c) := by
    apply kO
    apply keysSub_mapVals_left
    apply keysSub_update
    · exact keysSub_bpsBase L P c
    · exact keysSub_trans (keysSub_update_right _ _) (keysSub_update_left _ _)
  have habs : ∀ a b : Dict, keysSub a (layeredOpts L P c) → keysSub b (layeredOpts L P c) →
      keysSub (update a b) (layeredOpts L P c) := fun a b => keysSub_update
  have hfin : update (layeredOpts L P c) (ovrOpts c P) = layeredOpts L P c := by
    unfold layeredOpts; exact update_update_same _ _
  by_cases hP : P = 0
  · subst hP
    rw [bps_flatten_zero, stage_map _ _ _ _ hs]
    show update (update (update (update (update (bpg N L 0) (bpsv N L 0 c.stage)) (bpg N L 0)) (bpsv N L 0 c.stage))
      (layeredOpts L 0 c)) (ovrOpts c 0) = layeredOpts L 0 c
    rw [update_absorb (habs _ _ (habs _ _ (habs _ _ k1 k2) k1) k2), hfin]
  · rw [bps_flatten_ne N L P hP]
    show update (update (update (update (update (bpg N L P) (bpsv N L P c.stage)) []) [])
      (layeredOpts L P c)) (ovrOpts c P) = layeredOpts L P c
    rw [update_nil_right, update_nil_right, update_absorb (habs _ _ k1 k2), hfin]

/-- the variables of an already flattened component are reproduced (override variables are interpolated again,
from their raw form, in a context in which the other variables are already closed: Lemma C) -/
private theorem compVars_second (h : resolves N L P = true) (c : Comp) (hc : c ∈ L.comps) (hd : c.isDoc = false) :
    mapVals (interp N (cctx N (flatten N L P) P (flatComp N L P c))) (cv0 (flatComp N L P c) P)
      = mapVals (interp N (cctx N L P c)) (cv0 c P) := by
  have hcl : ∀ e ∈ mapVals (interp N (cctx N L P c)) (cv0 c P), closedIn (cctx N L P c) e.2 = true := by
    rcases ((resolves_parts h).2.1 c hc).2.2 with h1 | h1
    · rw [hd] at h1; cases h1
    · exact h1
  have hvars : (flatComp N L P c).vars = mapVals (interp N (cctx N L P c)) (cv0 c P) := by simp [flatComp, hd]
  have hovr : ovrVars (flatComp N L P c) P = ovrVars c P := by
    unfold ovrVars; rw [flatComp_ovr N L P c hd, find?_filter_self]
  -- abbreviations
  generalize hctx : cctx N L P c = ctx at hcl hvars
  have hcv' : cv0 (flatComp N L P c) P
      = mapVals (interp N ctx) (c.vars.filter (fun e => !hasKey (ovrVars c P) e.1)) ++ ovrVars c P := by
    unfold cv0
    rw [hvars, hovr]
    unfold cv0
    exact update_mapVals_update _ _ _
  have hcv : cv0 c P = c.vars.filter (fun e => !hasKey (ovrVars c P) e.1) ++ ovrVars c P := rfl
  generalize hA : c.vars.filter (fun e => !hasKey (ovrVars c P) e.1) = A at hcv hcv'
  generalize hO : ovrVars c P = O at hcv hcv'
  have hctx' : cctx N (flatten N L P) P (flatComp N L P c)
      = update (update (gvars N L P) (svars N L P c.stage)) (mapVals (interp N ctx) A ++ O) := by
    unfold cctx
    rw [flatComp_stage, gvars_second h, svars_second h c hc, hcv']
  have hctx0 : ctx = update (update (gvars N L P) (svars N L P c.stage)) (A ++ O) := by
    rw [← hctx]; unfold cctx; rw [hcv]
  rw [hctx', hcv', hcv]
  generalize update (gvars N L P) (svars N L P c.stage) = base at hctx0
  -- keys agree
  have hk : ∀ k, hasKey (update base (mapVals (interp N ctx) A ++ O)) k = hasKey ctx k := by
    intro k; rw [hctx0]; simp [hasKey_update, hasKey_append]
  rw [hcv] at hcl
  rw [mapVals_append] at hcl
  -- relation between the two contexts
  have hr : ∀ v r, get? ctx v = some r →
      get? (update base (mapVals (interp N ctx) A ++ O)) v = some r ∨
      (get? (update base (mapVals (interp N ctx) A ++ O)) v = some (interp N ctx r)
        ∧ closedIn ctx (interp N ctx r) = true) := by
    intro v r hv
    rw [hctx0, get?_update, get?_append] at hv
    rw [get?_update, get?_append, get?_mapVals]
    cases hA' : get? A v with
    | some a =>
      rw [hA'] at hv
      have : a = r := by simpa using hv
      subst this
      right
      refine ⟨by simp, ?_⟩
      have hm : (v, a) ∈ A := get?_some_mem hA'
      have := hcl (v, interp N ctx a) (List.mem_append_left _ (mem_mapVals (f := interp N ctx) hm))
      exact this
    | none =>
      rw [hA'] at hv
      left
      simpa using hv
  rw [mapVals_append, mapVals_append]
  congr 1
  · -- already interpolated part: closed values
    apply mapVals_interp_closed N ctx _ _ hk
    intro e he
    exact hcl e (List.mem_append_left _ he)
  · -- override variables: raw again, same result by Lemma C
    apply mapVals_congr
    intro e he
    apply interp_refine N ctx _ hk hr N e.2
    exact hcl (e.1, interp N ctx e.2) (List.mem_append_right _ (mem_mapVals (f := interp N ctx) he))

private theorem flatComp_second (h : resolves N L P = true) (c : Comp) (hc : c ∈ L.comps) :
    flatComp N (flatten N L P) P (flatComp N L P c) = flatComp N L P c := by
  cases hd : c.isDoc with
  | true => simp [flatComp, hd]
  | false =>
    have e1 := layeredOpts_second (N := N) (L := L) (P := P) c hc hd
    have e2 := compVars_second h c hc hd
    have hdoc : (flatComp N L P c).isDoc = false := by rw [flatComp_isDoc, hd]
    have hf : (flatComp N L P c).ovr.filter (fun o => o.plat == P) = (flatComp N L P c).ovr := by
      rw [flatComp_ovr N L P c hd, List.filter_filter]; simp
    rw [flatComp_nondoc N (flatten N L P) P (flatComp N L P c) hdoc, e1, e2, hf]
    rw [flatComp_nondoc N L P c hd]

end second

/-! ### the stored description flattened for `default` (reload that does not name the platform) -/

section atDefault
variable {N : Nat} {L : Doc} {P : Name}

private theorem gv0_at0 : gv0 (flatten N L P) 0 = gvars N L P := by
  unfold gv0
  rw [vars_flatten_zero]; simp

private theorem gvars_at0 (h : resolves N L P = true) : gvars N (flatten N L P) 0 = gvars N L P := by
  unfold gvars
  rw [gv0_at0]
  exact mapVals_interp_closed N (gv0 L P) _ _ (fun k => by simp [gvars]) (resolves_parts h).1

private theorem sv0_at0 (s : Nat) (hs : s ∈ L.comps.map (·.stage)) : sv0 (flatten N L P) 0 s = svars N L P s := by
  unfold sv0
  simp only [vars_flatten_zero, stage_map _ _ _ s hs]
  simp [update_self]

private theorem svars_at0 (h : resolves N L P = true) (c : Comp) (hc : c ∈ L.comps) :
    svars N (flatten N L P) 0 c.stage = svars N L P c.stage := by
  have hs : c.stage ∈ L.comps.map (·.stage) := List.mem_map.mpr ⟨c, hc, rfl⟩
  unfold svars sctx
  rw [sv0_at0 c.stage hs, gvars_at0 h]
  refine mapVals_interp_closed N (sctx N L P c.stage) _ _ (fun k => ?_) ((resolves_parts h).2.1 c hc).1
  simp [sctx, hasKey_update, svars]

private theorem bpg_at0 (h : resolves N L P = true) : bpg N (flatten N L P) 0 = bpg N L P := by
  unfold bpg bpg0
  rw [gvars_at0 h]
  have : update (layerOf (flatten N L P).bps 0).glob (layerOf (flatten N L P).bps 0).glob = bpg N L P := by
    rw [bps_flatten_zero]; exact update_self _
  rw [this]
  exact mapVals_interp_closed N (gvars N L P) _ _ (fun _ => rfl) (resolves_parts h).2.2

private theorem bpsv_at0 (h : resolves N L P = true) (c : Comp) (hc : c ∈ L.comps) :
    bpsv N (flatten N L P) 0 c.stage = bpsv N L P c.stage := by
  have hs : c.stage ∈ L.comps.map (·.stage) := List.mem_map.mpr ⟨c, hc, rfl⟩
  unfold bpsv bpsCtx bps0
  rw [gvars_at0 h, svars_at0 h c hc, bpsBase_zero]
  have : update ((layerOf (flatten N L P).bps 0).stage c.stage) ((layerOf (flatten N L P).bps 0).stage c.stage)
      = bpsv N L P c.stage := by
    rw [bps_flatten_zero, stage_map _ _ _ _ hs]; exact update_self _
  rw [this]
  exact mapVals_interp_closed N (bpsCtx N L P c.stage) _ _ (fun _ => rfl) ((resolves_parts h).2.1 c hc).2.1

/-- a flattened component keeps override blocks for `P` only: none is about `default` when `P ≠ default` -/
private theorem find_ovr_at0 (hP : P ≠ 0) (c : Comp) :
    (c.ovr.filter (fun o => o.plat == P)).find? (fun o => o.plat == 0) = none := by
  rw [List.find?_eq_none]
  intro o ho
  have : o.plat = P := by simpa using (List.mem_filter.mp ho).2
  simp [this, hP]

private theorem layeredOpts_at0 (hP : P ≠ 0) (c : Comp) (hc : c ∈ L.comps) (hd : c.isDoc = false) :
    layeredOpts (flatten N L P) 0 (flatComp N L P c) = layeredOpts L P c := by
  have hs : c.stage ∈ L.comps.map (·.stage) := List.mem_map.mpr ⟨c, hc, rfl⟩
  have hopts : (flatComp N L P c).opts = layeredOpts L P c := by simp [flatComp, hd]
  have hovr : ovrOpts (flatComp N L P c) 0 = [] := by
    unfold ovrOpts; rw [flatComp_ovr N L P c hd, find_ovr_at0 hP]
  have hL : layeredOpts (flatten N L P) 0 (flatComp N L P c) =
      update (update (update (update (update (bpg N L P) (bpsv N L P c.stage)) (bpg N L P))
        (bpsv N L P c.stage)) (layeredOpts L P c)) [] := by
    conv => lhs; unfold layeredOpts
    rw [hopts, hovr, flatComp_stage, bps_flatten_zero, stage_map _ _ _ _ hs]
  rw [hL, update_nil_right]
  have kO : ∀ d, keysSub d (update (update (update (update (layerOf L.bps 0).glob ((layerOf L.bps 0).stage c.stage))
      (layerOf L.bps P).glob) ((layerOf L.bps P).stage c.stage)) c.opts) →
      keysSub d (layeredOpts L P c) := fun d hd' => keysSub_trans hd' (keysSub_update_left _ _)
  have k1 : keysSub (bpg N L P) (layeredOpts L P c) := by
    apply kO
    apply keysSub_mapVals_left
    apply keysSub_update
    · exact keysSub_trans (keysSub_update_left _ _) (keysSub_trans (keysSub_update_left _ _)
        (keysSub_trans (keysSub_update_left _ _) (keysSub_update_left _ _)))
    · exact keysSub_trans (keysSub_update_right _ _) (keysSub_trans (keysSub_update_left _ _) (keysSub_update_left _ _))
  have k2 : keysSub (bpsv N L P c.stage) (layeredOpts L P c) := by
    apply kO
    apply keysSub_mapVals_left
    apply keysSub_update
    · exact keysSub_bpsBase L P c
    · exact keysSub_trans (keysSub_update_right _ _) (keysSub_update_left _ _)
  have habs : ∀ a b : Dict, keysSub a (layeredOpts L P c) → keysSub b (layeredOpts L P c) →
      keysSub (update a b) (layeredOpts L P c) := fun a b => keysSub_update
  exact update_absorb (habs _ _ (habs _ _ (habs _ _ k1 k2) k1) k2)

private theorem cv0_at0 (hP : P ≠ 0) (c : Comp) (hd : c.isDoc = false) :
    cv0 (flatComp N L P c) 0 = (flatComp N L P c).vars := by
  unfold cv0 ovrVars
  rw [flatComp_ovr N L P c hd, find_ovr_at0 hP]
  exact update_nil_right _

private theorem flatComp_vars (c : Comp) (hd : c.isDoc = false) :
    (flatComp N L P c).vars = mapVals (interp N (cctx N L P c)) (cv0 c P) := by simp [flatComp, hd]

private theorem cctx_at0 (h : resolves N L P = true) (hP : P ≠ 0) (c : Comp) (hc : c ∈ L.comps) (hd : c.isDoc = false) :
    cctx N (flatten N L P) 0 (flatComp N L P c)
      = update (update (gvars N L P) (svars N L P c.stage)) (mapVals (interp N (cctx N L P c)) (cv0 c P)) := by
  conv => lhs; unfold cctx
  rw [flatComp_stage, gvars_at0 h, svars_at0 h c hc, cv0_at0 hP c hd, flatComp_vars c hd]

private theorem compVars_at0 (h : resolves N L P = true) (hP : P ≠ 0) (c : Comp) (hc : c ∈ L.comps)
    (hd : c.isDoc = false) :
    mapVals (interp N (cctx N (flatten N L P) 0 (flatComp N L P c))) (cv0 (flatComp N L P c) 0)
      = mapVals (interp N (cctx N L P c)) (cv0 c P) := by
  have hcl : ∀ e ∈ mapVals (interp N (cctx N L P c)) (cv0 c P), closedIn (cctx N L P c) e.2 = true := by
    rcases ((resolves_parts h).2.1 c hc).2.2 with h1 | h1
    · rw [hd] at h1; cases h1
    · exact h1
  rw [cctx_at0 h hP c hc hd, cv0_at0 hP c hd, flatComp_vars c hd]
  refine mapVals_interp_closed N (cctx N L P c) _ _ (fun k => ?_) hcl
  simp [cctx, hasKey_update]

private theorem flatComp_at0 (h : resolves N L P = true) (hP : P ≠ 0) (c : Comp) (hc : c ∈ L.comps) :
    flatComp N (flatten N L P) 0 (flatComp N L P c)
      = (if (flatComp N L P c).isDoc then flatComp N L P c else { flatComp N L P c with ovr := [] }) := by
  cases hd : c.isDoc with
  | true => simp [flatComp, hd]
  | false =>
    have e1 := layeredOpts_at0 (N := N) (L := L) hP c hc hd
    have e2 := compVars_at0 h hP c hc hd
    have hdoc : (flatComp N L P c).isDoc = false := by rw [flatComp_isDoc, hd]
    have hf : (flatComp N L P c).ovr.filter (fun o => o.plat == 0) = [] := by
      rw [flatComp_ovr N L P c hd, List.filter_eq_nil_iff]
      intro o ho
      have : o.plat = P := by simpa using (List.mem_filter.mp ho).2
      simp [this, hP]
    rw [flatComp_nondoc N (flatten N L P) 0 (flatComp N L P c) hdoc, e1, e2, hf, hdoc]
    rw [flatComp_nondoc N L P c hd]
    simp [hd]

private theorem resolvesFully_parts (hf : resolvesFully N L P = true) (c : Comp) (hc : c ∈ L.comps)
    (hd : c.isDoc = false) :
    (∀ e ∈ update (gvars N L P) (svars N L P c.stage), closedIn (cctx N L P c) (interp N (cctx N L P c) e.2) = true) ∧
    (∀ e ∈ layeredOpts L P c, closedIn (cctx N L P c) (interp N (cctx N L P c) e.2) = true) := by
  unfold resolvesFully at hf
  rw [List.all_eq_true] at hf
  have := hf c hc
  rw [hd, Bool.false_or, Bool.and_eq_true, dictClosed_iff, dictClosed_iff] at this
  exact ⟨fun e he => this.1 _ (mem_mapVals (f := interp N (cctx N L P c)) he),
         fun e he => this.2 _ (mem_mapVals (f := interp N (cctx N L P c)) he)⟩

/-- the component as the platform-less reload sees it resolves to what the stored component resolves to for `P` -/
private theorem resolveComp_at0 (h : resolves N L P = true) (hf : resolvesFully N L P = true) (hP : P ≠ 0)
    (c : Comp) (hc : c ∈ L.comps) (hd : c.isDoc = false) :
    resolveComp N (dropOvr (flatten N L P)) 0 { flatComp N L P c with ovr := [] }
      = resolveComp N (flatten N L P) P (flatComp N L P c) := by
  have hs : c.stage ∈ L.comps.map (·.stage) := List.mem_map.mpr ⟨c, hc, rfl⟩
  have hcl : ∀ e ∈ cv0 c P, closedIn (cctx N L P c) (interp N (cctx N L P c) e.2) = true := by
    rcases ((resolves_parts h).2.1 c hc).2.2 with h1 | h1
    · rw [hd] at h1; cases h1
    · intro e he; exact h1 _ (mem_mapVals (f := interp N (cctx N L P c)) he)
  obtain ⟨hbase, hopts⟩ := resolvesFully_parts hf c hc hd
  have hPne : (P == 0) = false := by simpa using hP
  -- the two contexts
  have hctx0 : allVars (dropOvr (flatten N L P)) 0 { flatComp N L P c with ovr := [] }
      = update (update (gvars N L P) (svars N L P c.stage)) (mapVals (interp N (cctx N L P c)) (cv0 c P)) := by
    unfold allVars
    have e1 : layerOf (dropOvr (flatten N L P)).vars 0
        = ⟨gvars N L P, (L.comps.map (·.stage)).map fun s => (s, svars N L P s)⟩ := vars_flatten_zero N L P
    simp only [e1, flatComp_stage, stage_map _ _ _ _ hs, flatComp_vars c hd]
    simp [cv0, ovrVars]
  have hcvP : cv0 (flatComp N L P c) P
      = mapVals (interp N (cctx N L P c)) (c.vars.filter (fun e => !hasKey (ovrVars c P) e.1)) ++ ovrVars c P := by
    have hovr : ovrVars (flatComp N L P c) P = ovrVars c P := by
      unfold ovrVars; rw [flatComp_ovr N L P c hd, find?_filter_self]
    unfold cv0
    rw [flatComp_vars c hd, hovr]
    unfold cv0
    exact update_mapVals_update _ _ _
  have hctxP : allVars (flatten N L P) P (flatComp N L P c)
      = update (update (gvars N L P) (svars N L P c.stage))
          (mapVals (interp N (cctx N L P c)) (c.vars.filter (fun e => !hasKey (ovrVars c P) e.1)) ++ ovrVars c P) := by
    unfold allVars
    simp only [vars_flatten_zero, vars_flatten_ne N L P hP, flatComp_stage, stage_map _ _ _ _ hs, hPne, hcvP]
    simp [Layer.empty, Layer.stage]
  -- the layered options
  have hovr0 : ovrOpts (flatComp N L P c) 0 = [] := by
    unfold ovrOpts; rw [flatComp_ovr N L P c hd, find_ovr_at0 hP]
  have hLO0 : layeredOpts (dropOvr (flatten N L P)) 0 { flatComp N L P c with ovr := [] } = layeredOpts L P c := by
    rw [← layeredOpts_at0 (N := N) hP c hc hd]
    unfold layeredOpts
    rw [hovr0]
    rfl
  have hLOP := layeredOpts_second (N := N) (L := L) (P := P) c hc hd
  -- abbreviations
  have hC : cctx N L P c = update (update (gvars N L P) (svars N L P c.stage))
      (c.vars.filter (fun e => !hasKey (ovrVars c P) e.1) ++ ovrVars c P) := rfl
  have hcv : cv0 c P = c.vars.filter (fun e => !hasKey (ovrVars c P) e.1) ++ ovrVars c P := rfl
  unfold resolveComp
  simp only [hctx0, hctxP, hLO0, hLOP, hcv]
  rw [hcv] at hcl
  generalize c.vars.filter (fun e => !hasKey (ovrVars c P) e.1) = A at hC hcl
  generalize ovrVars c P = O at hC hcl
  generalize update (gvars N L P) (svars N L P c.stage) = base at hC hbase
  generalize layeredOpts L P c = LO at hopts
  rw [hC] at hbase hopts hcl ⊢
  have r0 := refine_all N base (A ++ O) hcl
  have rP := refine_left N base A O (fun e he => hcl e (List.mem_append_left _ he))
  have k0 : ∀ k, hasKey (update base (mapVals (interp N (update base (A ++ O))) (A ++ O))) k
      = hasKey (update base (A ++ O)) k := by intro k; simp [hasKey_update]
  have kP : ∀ k, hasKey (update base (mapVals (interp N (update base (A ++ O))) A ++ O)) k
      = hasKey (update base (A ++ O)) k := by intro k; simp [hasKey_update, hasKey_append]
  congr 1
  · -- options
    apply mapVals_congr
    intro e he
    rw [r0 N e.2 (hopts e he), rP N e.2 (hopts e he)]
  · -- variables
    have hkc0 := closedIn_congr k0
    have hkcP := closedIn_congr kP
    exact mapVals_ctx_eq (interp N (update base (A ++ O))) _ _ (update base (A ++ O)) base A O
      (fun t ht => r0 N t ht) (fun t ht => rP N t ht)
      (fun t ht => interp_closed N _ t (by rw [hkc0]; exact ht))
      (fun t ht => interp_closed N _ t (by rw [hkcP]; exact ht))
      hcl hbase

/-- the stored description is itself a description whose variables resolve, now for platform `default` -/
private theorem resolves_at0 (h : resolves N L P = true) (hP : P ≠ 0) : resolves N (flatten N L P) 0 = true := by
  obtain ⟨p1, p2, p3⟩ := resolves_parts h
  unfold resolves
  simp only [Bool.and_eq_true, List.all_eq_true, Bool.or_eq_true]
  refine ⟨⟨?_, ?_⟩, ?_⟩
  · rw [gv0_at0, gvars_at0 h, dictClosed_iff]
    intro e he
    rw [closedIn_congr (c2 := gv0 L P) (fun k => by simp [gvars])]
    exact p1 e he
  · intro c' hc'
    have hc'' : c' ∈ L.comps.map (flatComp N L P) := hc'
    obtain ⟨c, hc, rfl⟩ := List.mem_map.mp hc''
    have hs : c.stage ∈ L.comps.map (·.stage) := List.mem_map.mpr ⟨c, hc, rfl⟩
    rw [flatComp_stage, flatComp_isDoc]
    refine ⟨⟨?_, ?_⟩, ?_⟩
    · rw [svars_at0 h c hc, dictClosed_iff]
      intro e he
      rw [closedIn_congr (c2 := sctx N L P c.stage) (fun k => by
        simp [sctx, hasKey_update, gvars_at0 h, sv0_at0 c.stage hs, svars])]
      exact (p2 c hc).1 e he
    · have : bpsCtx N (flatten N L P) 0 c.stage = bpsCtx N L P c.stage := by
        unfold bpsCtx; rw [gvars_at0 h, svars_at0 h c hc]
      rw [this, bpsv_at0 h c hc, dictClosed_iff]
      exact (p2 c hc).2.1
    · cases hd : c.isDoc with
      | true => exact Or.inl rfl
      | false =>
        right
        rw [compVars_at0 h hP c hc hd, cctx_at0 h hP c hc hd, dictClosed_iff]
        intro e he
        rw [closedIn_congr (c2 := cctx N L P c) (fun k => by simp [cctx, hasKey_update])]
        rcases (p2 c hc).2.2 with h1 | h1
        · rw [hd] at h1; cases h1
        · exact h1 e he
  · rw [gvars_at0 h, bpg_at0 h, dictClosed_iff]
    exact p3

end atDefault

/-! ### the property theorems -/

/-- **store ∘ load ∘ store = store**: flattening the reloaded description again gives the same description —
same global and stage variables, same merged blueprints, same components with the same layered options,
variables and platform override — for every description, platform and fuel satisfying `resolves`. -/
theorem flatten_idempotent (N : Nat) (L : Doc) (P : Name) (h : resolves N L P = true) :
    flatten N (flatten N L P) P = flatten N L P := by
  have hcomps : (flatten N L P).comps.map (flatComp N (flatten N L P) P) = (flatten N L P).comps := by
    show (L.comps.map (flatComp N L P)).map (flatComp N (flatten N L P) P) = L.comps.map (flatComp N L P)
    rw [List.map_map]
    apply List.map_congr_left
    intro c hc
    exact flatComp_second h c hc
  have hsv : ((flatten N L P).comps.map (·.stage)).map (fun s => (s, svars N (flatten N L P) P s))
      = (L.comps.map (·.stage)).map (fun s => (s, svars N L P s)) := by
    rw [stages_flatten, List.map_map, List.map_map]
    apply List.map_congr_left
    intro c hc
    simp only [Function.comp]
    rw [svars_second h c hc]
  have hbs : ((flatten N L P).comps.map (·.stage)).map (fun s => (s, bpsv N (flatten N L P) P s))
      = (L.comps.map (·.stage)).map (fun s => (s, bpsv N L P s)) := by
    rw [stages_flatten, List.map_map, List.map_map]
    apply List.map_congr_left
    intro c hc
    simp only [Function.comp]
    rw [bpsv_second h c hc]
  have e : flatten N (flatten N L P) P =
      { vars := [(0, ⟨gvars N (flatten N L P) P,
          ((flatten N L P).comps.map (·.stage)).map fun s => (s, svars N (flatten N L P) P s)⟩)]
        bps := [(0, ⟨bpg N (flatten N L P) P,
          ((flatten N L P).comps.map (·.stage)).map fun s => (s, bpsv N (flatten N L P) P s)⟩)]
        comps := (flatten N L P).comps.map (flatComp N (flatten N L P) P) } := rfl
  rw [e, hcomps, hsv, hbs, gvars_second h, bpg_second h]
  rfl

/-- Any number of load+store cycles leaves the stored description unchanged. -/
theorem store_load_cycles (N : Nat) (E : Exp) (h : resolves N E.doc E.plat = true) :
    ∀ k : Nat, storeAfterCycles N E k = store N E := by
  intro k
  induction k with
  | zero => rfl
  | succ k ih =>
    show flatten N (storeAfterCycles N E k) E.plat = store N E
    rw [ih]
    exact flatten_idempotent N E.doc E.plat h

/-- The reloaded experiment stores the same description as the one that wrote the instance directory. -/
theorem store_reload (N : Nat) (E : Exp) (h : resolves N E.doc E.plat = true) :
    store N (reload N E) = store N E := flatten_idempotent N E.doc E.plat h

/-- **Store after a reload that does not name the platform** (`experimentFromInstance(dir)`, what the tools do):
the description is stored again for `default`; everything the selected platform `P` contributed is already folded
into the `default` sections, so the result is the stored description *minus the raw override blocks* (which are
about `P`, not about `default`) — variables, blueprints, layered options and folded variables of every component
are unchanged. -/
theorem store_platformless_reload (N : Nat) (L : Doc) (P : Name) (h : resolves N L P = true) (hP : P ≠ 0) :
    flatten N (flatten N L P) 0 = dropOvr (flatten N L P) := by
  have hcomps : (flatten N L P).comps.map (flatComp N (flatten N L P) 0) = (dropOvr (flatten N L P)).comps := by
    show (L.comps.map (flatComp N L P)).map (flatComp N (flatten N L P) 0)
      = (L.comps.map (flatComp N L P)).map (fun c => if c.isDoc then c else { c with ovr := [] })
    rw [List.map_map, List.map_map]
    apply List.map_congr_left
    intro c hc
    exact flatComp_at0 h hP c hc
  have hsv : ((flatten N L P).comps.map (·.stage)).map (fun s => (s, svars N (flatten N L P) 0 s))
      = (L.comps.map (·.stage)).map (fun s => (s, svars N L P s)) := by
    rw [stages_flatten, List.map_map, List.map_map]
    apply List.map_congr_left
    intro c hc
    simp only [Function.comp]
    rw [svars_at0 h c hc]
  have hbs : ((flatten N L P).comps.map (·.stage)).map (fun s => (s, bpsv N (flatten N L P) 0 s))
      = (L.comps.map (·.stage)).map (fun s => (s, bpsv N L P s)) := by
    rw [stages_flatten, List.map_map, List.map_map]
    apply List.map_congr_left
    intro c hc
    simp only [Function.comp]
    rw [bpsv_at0 h c hc]
  have e : flatten N (flatten N L P) 0 =
      { vars := [(0, ⟨gvars N (flatten N L P) 0,
          ((flatten N L P).comps.map (·.stage)).map fun s => (s, svars N (flatten N L P) 0 s)⟩)]
        bps := [(0, ⟨bpg N (flatten N L P) 0,
          ((flatten N L P).comps.map (·.stage)).map fun s => (s, bpsv N (flatten N L P) 0 s)⟩)]
        comps := (flatten N L P).comps.map (flatComp N (flatten N L P) 0) } := rfl
  rw [e, hcomps, hsv, hbs, gvars_at0 h, bpg_at0 h]
  rfl

/-- … and any number of further platform-less load+store cycles (after any number of cycles that named the
platform) leaves that description unchanged: the only change such a cycle ever makes is dropping the raw override
blocks, once. -/
theorem platformless_cycles (N : Nat) (E : Exp) (h : resolves N E.doc E.plat = true) (hP : E.plat ≠ 0) :
    ∀ k m : Nat, storeAfterMixed N E k (m + 1) = dropOvr (store N E) := by
  intro k m
  induction m with
  | zero =>
    show flatten N (storeAfterCycles N E k) 0 = _
    rw [store_load_cycles N E h k]
    exact store_platformless_reload N E.doc E.plat h hP
  | succ m ih =>
    show flatten N (storeAfterMixed N E k (m + 1)) 0 = _
    rw [ih]
    have h0 := resolves_at0 h hP
    have e1 := flatten_idempotent N (flatten N E.doc E.plat) 0 h0
    rw [store_platformless_reload N E.doc E.plat h hP] at e1
    exact e1

/-- **Same resolved configuration after a reload that does not name the platform**: an instance created for
platform `P ≠ default` and loaded by `experimentFromInstance(dir)` (platform `default`) answers, for every
component, the configuration (layered options and variables, interpolated) it had in the experiment that wrote the
directory — the selected platform is carried by the stored description, not by the caller.  Hypotheses: `resolves`
and `resolvesFully` (decidable; evaluated by the driver on every case), no `setOptionForNode` patch (as in
`reload_preserves_resolution_partial`). -/
theorem platformless_reload_preserves_resolution (N : Nat) (E : Exp) (h : resolves N E.doc E.plat = true)
    (hf : resolvesFully N E.doc E.plat = true) (hP : E.plat ≠ 0) (hp : E.patches = []) :
    runningConfig N (reloadAs N E 0) = runningConfig N E := by
  have h1 : running N (reloadAs N E 0) = flatten N (flatten N E.doc E.plat) 0 := rfl
  have h2 : running N E = flatten N E.doc E.plat := by
    unfold running; rw [hp]; rfl
  unfold runningConfig
  rw [h1, h2, store_platformless_reload N E.doc E.plat h hP]
  show resolveAll N (dropOvr (flatten N E.doc E.plat)) 0 = resolveAll N (flatten N E.doc E.plat) E.plat
  unfold resolveAll
  show ((((E.doc.comps.map (flatComp N E.doc E.plat)).map
      (fun c => if c.isDoc then c else { c with ovr := [] })).filter (fun c => !c.isDoc)).map
        (resolveComp N (dropOvr (flatten N E.doc E.plat)) 0))
    = (((E.doc.comps.map (flatComp N E.doc E.plat)).filter (fun c => !c.isDoc)).map
        (resolveComp N (flatten N E.doc E.plat) E.plat))
  refine map_filter_map_congr (flatComp N E.doc E.plat) (fun c => if c.isDoc then c else { c with ovr := [] })
    (fun c => !c.isDoc) (resolveComp N (dropOvr (flatten N E.doc E.plat)) 0)
    (resolveComp N (flatten N E.doc E.plat) E.plat) E.doc.comps ?_ ?_
  · intro x
    cases hx : (flatComp N E.doc E.plat x).isDoc <;> simp [hx]
  · intro x hx hpx
    have hdoc : (flatComp N E.doc E.plat x).isDoc = false := by simpa using hpx
    have hd : x.isDoc = false := by rwa [flatComp_isDoc] at hdoc
    simp only [hdoc, Bool.false_eq_true, if_false]
    exact resolveComp_at0 h hf hP x hx hd

/-- the selected platform is part of the stored description (`platforms: [default, P]`): it can be loaded for `P`
and for `default`, as often as one likes while the platform is named -/
theorem stored_platform_loadable (P : Name) :
    loadable (storedPlatforms P) P = true ∧ loadable (storedPlatforms P) 0 = true := by
  unfold loadable storedPlatforms
  by_cases h : P = 0
  · subst h; simp
  · have : (P == 0) = false := by simpa using h
    simp [this]

/-- **Same resolved configuration after the reload** (`_partial`): every component of the reloaded experiment has
the configuration (`configurationForNode`: layered options and variables, interpolated) it had in the experiment
that wrote the instance directory — *provided no option was patched through `setOptionForNode` after loading*.
The patches live in the replicated `_concrete` only and `store_unreplicated_flowir_to_disk` dumps `_unreplicated`
(see `Witness.C07`); that is what is missing from the full statement. -/
theorem reload_preserves_resolution_partial (N : Nat) (E : Exp) (h : resolves N E.doc E.plat = true)
    (hp : E.patches = []) : runningConfig N (reload N E) = runningConfig N E := by
  have h1 : running N (reload N E) = flatten N (flatten N E.doc E.plat) E.plat := rfl
  have h2 : running N E = flatten N E.doc E.plat := by
    unfold running; rw [hp]; rfl
  unfold runningConfig
  rw [h1, h2, flatten_idempotent N E.doc E.plat h]
  rfl

/-- The reloaded description has exactly the components of the stored one, the already instantiated loop
iterations `i#name` (ordinary components of the description) and the `$import` entry included; nothing is
re-created or dropped. -/
theorem components_survive (N : Nat) (L : Doc) (P : Name) : compIds (flatten N L P) = compIds L := by
  simp [compIds, flatten, List.map_map, Function.comp_def, flatComp_stage, flatComp_name, flatComp_isDoc]

/-- … for every number of loop iterations instantiated before the store: the components added by
`instantiate_dowhile_next_iteration` are stored, and they are still there after reload + store. -/
theorem loop_instances_survive (N : Nat) (E : Exp) (iters : List (List Comp)) :
    compIds (store N (reload N (iters.foldl addIteration E)))
      = compIds E.doc ++ (iters.flatMap id).map (fun c => (c.stage, c.name, c.isDoc)) := by
  have hfold : ∀ (E : Exp), (iters.foldl addIteration E).doc.comps = E.doc.comps ++ iters.flatMap id := by
    induction iters with
    | nil => intro E; simp
    | cons a r ih => intro E; rw [List.foldl_cons, ih]; simp [addIteration, List.append_assoc]
  show compIds (flatten N (flatten N (iters.foldl addIteration E).doc (iters.foldl addIteration E).plat)
      (iters.foldl addIteration E).plat) = _
  rw [components_survive, components_survive]
  simp [compIds, hfold E]

/-- **User-supplied variables survive**: `_patch_in_variable_files` writes the user's variables into the
platform-stage scope of every stage and platform; whatever that scope defines for the selected platform is what
the stored description defines (as a stage variable under `default`, interpolated) … -/
theorem user_variables_survive (N : Nat) (L : Doc) (P : Name) (s : Nat) (u : Name) (v : Tmpl)
    (hs : s ∈ L.comps.map (·.stage)) (hu : get? ((layerOf L.vars P).stage s) u = some v) :
    get? ((layerOf (flatten N L P).vars 0).stage s) u = some (interp N (sctx N L P s) v) := by
  rw [vars_flatten_zero, stage_map _ _ _ s hs]
  unfold svars
  rw [get?_mapVals]
  have : get? (sv0 L P s) u = some v := by
    unfold sv0
    simp only [get?_update, hu]
  rw [this]; rfl

/-- … and it is still what the description defines after reload and store (any number of times). -/
theorem user_variables_survive_reload (N : Nat) (L : Doc) (P : Name) (s : Nat) (u : Name) (v : Tmpl)
    (h : resolves N L P = true)
    (hs : s ∈ L.comps.map (·.stage)) (hu : get? ((layerOf L.vars P).stage s) u = some v) :
    get? ((layerOf (flatten N (flatten N L P) P).vars 0).stage s) u = some (interp N (sctx N L P s) v) := by
  rw [flatten_idempotent N L P h]
  exact user_variables_survive N L P s u v hs hu

/-- a user variable without references is stored verbatim -/
theorem user_literal_survives (N : Nat) (L : Doc) (P : Name) (s : Nat) (u : Name) (v : Tmpl)
    (hs : s ∈ L.comps.map (·.stage)) (hu : get? ((layerOf L.vars P).stage s) u = some v)
    (hv : closedIn (sctx N L P s) v = true) :
    get? ((layerOf (flatten N L P).vars 0).stage s) u = some v := by
  rw [user_variables_survive N L P s u v hs hu, interp_closed N _ v hv]

/-- The selected platform is folded into `default`: the stored description has no other variable layer, so it
resolves the same whether it is loaded for `P` again or for `default`. -/
theorem platform_folded (N : Nat) (L : Doc) (P : Name) :
    (flatten N L P).vars.map (·.1) = [0] ∧ (flatten N L P).bps.map (·.1) = [0] ∧
    ∀ c ∈ (flatten N L P).comps, c.isDoc = false → ∀ o ∈ c.ovr, o.plat = P := by
  refine ⟨rfl, rfl, ?_⟩
  intro c hc hd o ho
  obtain ⟨c0, _, rfl⟩ := List.mem_map.mp hc
  rw [flatComp_isDoc] at hd
  rw [flatComp_ovr N L P c0 hd] at ho
  simpa using (List.mem_filter.mp ho).2

/-! ### non-vacuity -/

/-! ### explicit values — the empty list included — reach the stored description and survive the reload -/

/-- the platform's override block wins over everything -/
theorem override_option_wins (L : Doc) (P : Name) (c : Comp) (k : Name) (v : Tmpl)
    (h : get? (ovrOpts c P) k = some v) : get? (layeredOpts L P c) k = some v := by
  unfold layeredOpts
  rw [get?_update, h]

/-- **An option the component sets itself shadows every blueprint**, whatever its value: also when the value is
the empty list and the blueprints give a non-empty one for the same path. -/
theorem component_option_shadows_blueprints (L : Doc) (P : Name) (c : Comp) (k : Name) (v : Tmpl)
    (h : get? c.opts k = some v) (ho : hasKey (ovrOpts c P) k = false) :
    get? (layeredOpts L P c) k = some v := by
  unfold layeredOpts
  rw [get?_update, (get?_eq_none_iff _ k).mpr ho]
  simp only
  rw [get?_update, h]

/-- **The stored description carries the explicit value verbatim** (`absent` and `present and empty` stay
different on disk): the component written by `store_unreplicated_flowir_to_disk` has the entry `k ↦ v`. -/
theorem explicit_option_is_stored (N : Nat) (L : Doc) (P : Name) (c : Comp) (k : Name) (v : Tmpl)
    (hd : c.isDoc = false) (h : get? c.opts k = some v) (ho : hasKey (ovrOpts c P) k = false) :
    get? (flatComp N L P c).opts k = some v := by
  unfold flatComp
  simp only [hd, Bool.false_eq_true, if_false]
  exact component_option_shadows_blueprints L P c k v h ho

private theorem find?_filter_same {α : Type} (p : α → Bool) : ∀ l : List α, (l.filter p).find? p = l.find? p
  | [] => rfl
  | a :: l => by
    by_cases h : p a = true
    · simp [List.filter_cons, h]
    · have h' : p a = false := by simpa using h
      simp [List.filter_cons, h', find?_filter_same p l]

/-- the layered (pre-interpolation) option of the stored component, read back from the stored description for the
same platform, is the explicit value again -/
theorem explicit_option_read_back (N : Nat) (L : Doc) (P : Name) (c : Comp) (k : Name) (v : Tmpl)
    (hd : c.isDoc = false) (h : get? c.opts k = some v) (ho : hasKey (ovrOpts c P) k = false) :
    get? (layeredOpts (flatten N L P) P (flatComp N L P c)) k = some v := by
  have hs := explicit_option_is_stored N L P c k v hd h ho
  by_cases hov : hasKey (ovrOpts (flatComp N L P c) P) k = true
  · -- the stored component keeps the override block of P; it does not mention k
    have : ovrOpts (flatComp N L P c) P = ovrOpts c P := by
      unfold flatComp ovrOpts
      simp only [hd, Bool.false_eq_true, if_false]
      rw [find?_filter_same]
    rw [this, ho] at hov
    cases hov
  · have hov' : hasKey (ovrOpts (flatComp N L P c) P) k = false := by simpa using hov
    exact component_option_shadows_blueprints (flatten N L P) P (flatComp N L P c) k v hs hov'

/-- **… after any number of load+store cycles**: the description on disk after `n` further cycles still answers
`k ↦ v` for the stored component (not the blueprint's value) -/
theorem explicit_option_survives_cycles (N : Nat) (E : Exp) (hres : resolves N E.doc E.plat = true)
    (c : Comp) (k : Name) (v : Tmpl)
    (hd : c.isDoc = false) (h : get? c.opts k = some v) (ho : hasKey (ovrOpts c E.plat) k = false) (n : Nat) :
    get? (layeredOpts (storeAfterCycles N E n) E.plat (flatComp N E.doc E.plat c)) k = some v := by
  rw [store_load_cycles N E hres n]
  exact explicit_option_read_back N E.doc E.plat c k v hd h ho

/-- non-vacuity: a blueprint gives the list `[K]` for path 2, the component sets it to the EMPTY list `[]`
(characters 91 `[`, 75 `K`, 93 `]`); stored and read back the component still says `[]` -/
def exEmptyList : Doc :=
  { vars := [(0, ⟨[], []⟩)], bps := [(0, ⟨[(2, [.ch 91, .ch 75, .ch 93])], []⟩)],
    comps := [{ stage := 0, name := 1, isDoc := false, opts := [(2, [.ch 91, .ch 93])], vars := [], ovr := [] },
              { stage := 0, name := 3, isDoc := false, opts := [], vars := [], ovr := [] }] }

example : resolves 4 exEmptyList 0 = true := by decide
example : (resolveAll 4 (flatten 4 exEmptyList 0) 0).map (fun r => get? r.opts 2)
    = [some [.ch 91, .ch 93], some [.ch 91, .ch 75, .ch 93]] := by decide

/-- platform 1 with a platform-global variable shadowing a default-stage one, chained references, a blueprint,
a component with an override that redefines a variable from its raw form, and a `$import` entry -/
def exDoc : Doc :=
  { vars := [(0, ⟨[(10, [.ch 97, .ref 11]), (11, [.ch 49])], [(0, [(12, [.ref 10, .ch 45]), (13, [.ch 100])])]⟩),
             (1, ⟨[(13, [.ch 112]), (11, [.ch 50])], [(0, [(14, [.ref 12, .ref 13])])]⟩)]
    bps := [(0, ⟨[(20, [.ch 110])], [(0, [(21, [.ref 10])])]⟩), (1, ⟨[(22, [.ch 51])], []⟩)]
    comps := [ { stage := 0, name := 30, isDoc := false, opts := [(23, [.ch 120, .ref 14, .ref 15])],
                 vars := [(15, [.ref 11, .ch 33])],
                 ovr := [⟨1, [(20, [.ch 111])], [(15, [.ref 14, .ch 63])]⟩, ⟨2, [], [(15, [.ch 0])]⟩] },
               { stage := 1, name := 31, isDoc := true, opts := [(24, [.ch 100])], vars := [], ovr := [] } ] }

example : resolves 6 exDoc 1 = true := by decide
example : resolves 6 exDoc 0 = true := by decide
example : flatten 6 exDoc 1 ≠ exDoc := by decide
example : flatten 6 (flatten 6 exDoc 1) 1 = flatten 6 exDoc 1 := flatten_idempotent 6 exDoc 1 (by decide)
/-- the hypothesis is not vacuous the other way either: a cyclic description is rejected -/
example : resolves 6 { exDoc with vars := [(0, ⟨[(10, [.ref 11]), (11, [.ref 10])], []⟩)] } 0 = false := by decide
example : get? ((layerOf (flatten 6 exDoc 1).vars 0).stage 0) 14 = some [.ch 97, .ch 50, .ch 45, .ch 112] := by decide
example : resolvesFully 6 exDoc 1 = true := by decide
/-- the platform-less store really drops something (the raw override block of component 30) and nothing else -/
example : flatten 6 (flatten 6 exDoc 1) 0 = dropOvr (flatten 6 exDoc 1) :=
  store_platformless_reload 6 exDoc 1 (by decide) (by decide)
example : dropOvr (flatten 6 exDoc 1) ≠ flatten 6 exDoc 1 := by decide
example : runningConfig 6 (reloadAs 6 ⟨exDoc, 1, []⟩ 0) = runningConfig 6 ⟨exDoc, 1, []⟩ :=
  platformless_reload_preserves_resolution 6 ⟨exDoc, 1, []⟩ (by decide) (by decide) (by decide) rfl

/-! ### sessions: iterations and loads interleaved, loads that update the files and loads that do not -/

/-- the stored description of a description that resolves is itself a description that resolves for the same
platform (what a restart loads can be stored, iterated and loaded again) -/
theorem resolves_stored (N : Nat) (L : Doc) (P : Name) (h : resolves N L P = true) :
    resolves N (flatten N L P) P = true := by
  obtain ⟨p1, p2, p3⟩ := resolves_parts h
  unfold resolves
  simp only [Bool.and_eq_true, List.all_eq_true, Bool.or_eq_true]
  refine ⟨⟨?_, ?_⟩, ?_⟩
  · rw [gv0_second, gvars_second h, dictClosed_iff]
    intro e he
    rw [closedIn_congr (c2 := gv0 L P) (fun k => by simp [gvars])]
    exact p1 e he
  · intro c' hc'
    have hc'' : c' ∈ L.comps.map (flatComp N L P) := hc'
    obtain ⟨c, hc, rfl⟩ := List.mem_map.mp hc''
    have hs : c.stage ∈ L.comps.map (·.stage) := List.mem_map.mpr ⟨c, hc, rfl⟩
    rw [flatComp_stage, flatComp_isDoc]
    refine ⟨⟨?_, ?_⟩, ?_⟩
    · rw [svars_second h c hc, dictClosed_iff]
      intro e he
      rw [closedIn_congr (c2 := sctx N L P c.stage) (fun k => by
        simp [sctx, hasKey_update, gvars_second h, sv0_second c.stage hs, svars])]
      exact (p2 c hc).1 e he
    · have : bpsCtx N (flatten N L P) P c.stage = bpsCtx N L P c.stage := by
        unfold bpsCtx; rw [gvars_second h, svars_second h c hc]
      rw [this, bpsv_second h c hc, dictClosed_iff]
      exact (p2 c hc).2.1
    · cases hd : c.isDoc with
      | true => exact Or.inl rfl
      | false =>
        right
        have hovr : ovrVars (flatComp N L P c) P = ovrVars c P := by
          unfold ovrVars; rw [flatComp_ovr N L P c hd, find?_filter_self]
        have hvars : (flatComp N L P c).vars = mapVals (interp N (cctx N L P c)) (cv0 c P) := by
          simp [flatComp, hd]
        rw [compVars_second h c hc hd, dictClosed_iff]
        intro e he
        rw [closedIn_congr (c2 := cctx N L P c) (fun k => by
          simp only [cctx, hasKey_update, flatComp_stage, gvars_second h, svars_second h c hc]
          simp only [cv0, hovr, hvars, hasKey_update, hasKey_mapVals]
          cases hasKey (gvars N L P) k <;> cases hasKey (svars N L P c.stage) k <;>
            cases hasKey c.vars k <;> cases hasKey (ovrVars c P) k <;> rfl)]
        rcases (p2 c hc).2.2 with h1 | h1
        · rw [hd] at h1; cases h1
        · exact h1 e he
  · rw [gvars_second h, bpg_second h, dictClosed_iff]
    exact p3

private theorem runSteps_cons (N : Nat) (S : Session) (st : Step) (r : List Step) :
    runSteps N S (st :: r) = runSteps N (step N S st) r := rfl

/-- **Every loop iteration instantiated so far is in the stored description — for every history**: whatever the
interleaving of iterations, explicit stores and loads, whichever platform each load names and whether or not it is
allowed to update the instance files (a restart is not), the description on disk lists the components the session
started with followed by the components of every iteration instantiated since, and so does the experiment object
that currently drives the instance. -/
theorem session_components (N : Nat) (steps : List Step) :
    ∀ S : Session, compIds S.disk = compIds S.exp.doc →
      compIds (runSteps N S steps).disk = compIds S.disk ++ iterIds steps
      ∧ compIds (runSteps N S steps).exp.doc = compIds S.disk ++ iterIds steps := by
  induction steps with
  | nil => intro S h; simp [runSteps, iterIds, h]
  | cons st r ih =>
    intro S h
    rw [runSteps_cons]
    cases st with
    | iterate cs =>
      have hd : compIds (step N S (.iterate cs)).disk = compIds S.disk ++ cs.map (fun c => (c.stage, c.name, c.isDoc)) := by
        show compIds (flatten N (addIteration S.exp cs).doc (addIteration S.exp cs).plat) = _
        rw [components_survive, h]; simp [compIds, addIteration]
      have he : compIds (step N S (.iterate cs)).exp.doc = compIds (step N S (.iterate cs)).disk := by
        rw [hd, h]; simp [step, compIds, addIteration]
      obtain ⟨a, b⟩ := ih (step N S (.iterate cs)) he.symm
      rw [a, b, hd]; simp [iterIds, List.append_assoc]
    | store =>
      have hd : compIds (step N S .store).disk = compIds S.disk := by
        show compIds (flatten N S.exp.doc S.exp.plat) = _
        rw [components_survive, h]
      have he : compIds (step N S .store).disk = compIds (step N S .store).exp.doc := by rw [hd, h]; rfl
      obtain ⟨a, b⟩ := ih (step N S .store) he
      rw [a, b, hd]; simp [iterIds]
    | load Q upd =>
      have hd : compIds (step N S (.load Q upd)).disk = compIds S.disk
          ∧ compIds (step N S (.load Q upd)).exp.doc = compIds S.disk := by
        unfold step
        by_cases hl : loadable S.plats Q = true
        · cases upd with
          | true => simp only [hl, if_true]; exact ⟨components_survive N S.disk Q, trivial⟩
          | false => simp [hl]
        · simp only [hl]; exact ⟨rfl, h.symm⟩
      obtain ⟨a, b⟩ := ih (step N S (.load Q upd)) (by rw [hd.1, hd.2])
      rw [a, b, hd.1]; simp [iterIds]

/-- … in particular for the session of the experiment that created the instance -/
theorem session_components_from_creation (N : Nat) (E : Exp) (steps : List Step) :
    compIds (runSteps N (Session.create N E) steps).disk = compIds E.doc ++ iterIds steps
    ∧ compIds (runSteps N (Session.create N E) steps).exp.doc = compIds E.doc ++ iterIds steps := by
  have h0 : compIds (Session.create N E).disk = compIds E.doc := components_survive N E.doc E.plat
  have := session_components N steps (Session.create N E) h0
  rw [h0] at this
  exact this

/-- **The description on disk is always the one the current experiment object stores** — for every history whose
loads name the platform of the instance (updating loads and read-only restarts alike) and whose iterations produce
descriptions that resolve: loading and storing again at any point of the session does not change the stored
description, and the object obtained by a load at any point stores what the object it replaces stored. -/
theorem session_disk_is_store (N : Nat) (P : Name) (steps : List Step) :
    ∀ S : Session, S.exp.plat = P → resolves N S.exp.doc P = true → S.disk = store N S.exp →
      S.plats = storedPlatforms P → loadsName P steps = true → stepsResolve N S steps = true →
      (runSteps N S steps).disk = store N (runSteps N S steps).exp
      ∧ (runSteps N S steps).exp.plat = P
      ∧ resolves N (runSteps N S steps).exp.doc P = true := by
  induction steps with
  | nil => intro S hP hr hd _ _ _; exact ⟨hd, hP, hr⟩
  | cons st r ih =>
    intro S hP hr hd hpl hn hs
    rw [runSteps_cons]
    cases st with
    | iterate cs =>
      simp only [stepsResolve, Bool.and_eq_true] at hs
      have hn' : loadsName P r = true := hn
      refine ih (step N S (.iterate cs)) hP (by rw [← hP]; exact hs.1) rfl ?_ hn' hs.2
      show storedPlatforms (addIteration S.exp cs).plat = _
      rw [← hP]; rfl
    | store =>
      have hn' : loadsName P r = true := hn
      refine ih (step N S .store) hP hr rfl ?_ hn' hs
      show storedPlatforms S.exp.plat = _
      rw [hP]
    | load Q upd =>
      simp only [loadsName, Bool.and_eq_true, beq_iff_eq] at hn
      obtain ⟨hQ, hn'⟩ := hn
      subst hQ
      have hl : loadable S.plats Q = true := by rw [hpl]; exact (stored_platform_loadable Q).1
      have hdisk : S.disk = flatten N S.exp.doc Q := by rw [hd, ← hP]; rfl
      have hres : resolves N S.disk Q = true := by rw [hdisk]; exact resolves_stored N _ _ hr
      have hidem : flatten N S.disk Q = S.disk := by
        rw [hdisk]; exact flatten_idempotent N S.exp.doc Q hr
      cases upd with
      | true =>
        have e : step N S (.load Q true)
            = { exp := ⟨S.disk, Q, []⟩, writable := true, disk := store N ⟨S.disk, Q, []⟩, plats := storedPlatforms Q } := by
          simp [step, hl]
        rw [e]
        exact ih { exp := ⟨S.disk, Q, []⟩, writable := true, disk := store N ⟨S.disk, Q, []⟩, plats := storedPlatforms Q }
          rfl hres rfl rfl hn' (by rw [← e]; exact hs)
      | false =>
        have e : step N S (.load Q false)
            = { exp := ⟨S.disk, Q, []⟩, writable := false, disk := S.disk, plats := S.plats } := by
          simp [step, hl]
        rw [e]
        exact ih { exp := ⟨S.disk, Q, []⟩, writable := false, disk := S.disk, plats := S.plats }
          rfl hres hidem.symm hpl hn' (by rw [← e]; exact hs)

/-- … from the creation of the instance -/
theorem session_disk_is_store_from_creation (N : Nat) (E : Exp) (steps : List Step)
    (h : resolves N E.doc E.plat = true) (hn : loadsName E.plat steps = true)
    (hs : stepsResolve N (Session.create N E) steps = true) :
    (runSteps N (Session.create N E) steps).disk = store N (runSteps N (Session.create N E) steps).exp :=
  (session_disk_is_store N E.plat steps (Session.create N E) rfl h rfl rfl hn hs).1

/-- non-vacuity: platform 1; iterate, restart (read-only load), iterate, load+update, store -/
def exSteps : List Step :=
  [.iterate [{ stage := 1, name := 40, isDoc := false, opts := [(2, [.ref 10])], vars := [(12, [.ch 120])], ovr := [] }],
   .load 1 false,
   .iterate [{ stage := 1, name := 41, isDoc := false, opts := [(2, [.ref 12])], vars := [(12, [.ch 121])], ovr := [] }],
   .load 1 true, .store]
example : loadsName 1 exSteps = true ∧ stepsResolve 6 (Session.create 6 ⟨exDoc, 1, []⟩) exSteps = true := by decide
example : iterIds exSteps = [(1, 40, false), (1, 41, false)] := by decide
example : (runSteps 6 (Session.create 6 ⟨exDoc, 1, []⟩) exSteps).writable = true
    ∧ (runSteps 6 (Session.create 6 ⟨exDoc, 1, []⟩) (exSteps.take 3)).writable = false := by decide

/-! ## components instantiated after a reload: the restarted experiment continues the loop like the one that never
stopped -/

section afterReload
variable {N : Nat} {L : Doc} {P : Name}

/-- `flatComp` reads the variables and the blueprints of a description, not its component list -/
private theorem flatComp_congr (L1 L2 : Doc) (hv : L1.vars = L2.vars) (hb : L1.bps = L2.bps) (c : Comp) :
    flatComp N L1 P c = flatComp N L2 P c := by
  unfold flatComp layeredOpts cctx gvars gv0 svars sctx sv0 gvars gv0
  rw [hv, hb]

private theorem svars_second_stage (h : resolves N L P = true) (s : Nat) (hs : s ∈ L.comps.map (·.stage)) :
    svars N (flatten N L P) P s = svars N L P s := by
  obtain ⟨c', hc', rfl⟩ := List.mem_map.mp hs
  exact svars_second h c' hc'

private theorem bpg_closed (hcl : dictClosed (gvars N L P) (bpg0 L P) = true) : bpg N L P = bpg0 L P :=
  mapVals_interp_closed N (gvars N L P) _ _ (fun _ => rfl) ((dictClosed_iff _ _).mp hcl)

private theorem bpsv_closed (s : Nat) (hcl : dictClosed (bpsCtx N L P s) (bps0 L P s) = true) :
    bpsv N L P s = bps0 L P s :=
  mapVals_interp_closed N (bpsCtx N L P s) _ _ (fun _ => rfl) ((dictClosed_iff _ _).mp hcl)

/-- the layered options of a NEW component on the stored description answer every lookup like its layered options
on the package description -/
private theorem layeredOpts_new (c : Comp) (hs : c.stage ∈ L.comps.map (·.stage))
    (hcl : bpClosed N L P c.stage = true) (k : Name) :
    get? (layeredOpts (flatten N L P) P c) k = get? (layeredOpts L P c) k := by
  unfold bpClosed at hcl
  rw [Bool.and_eq_true] at hcl
  unfold layeredOpts
  rw [bps_flatten_zero, stage_map _ _ _ _ hs, bpg_closed hcl.1, bpsv_closed _ hcl.2]
  by_cases hP : P = 0
  · subst hP
    rw [bps_flatten_zero, stage_map _ _ _ _ hs, bpg_closed hcl.1, bpsv_closed _ hcl.2]
    unfold bps0
    rw [bpsBase_zero]
    simp only [get?_update, bpg0]
    cases get? (ovrOpts c 0) k <;> cases get? c.opts k <;> cases get? ((layerOf L.bps 0).stage c.stage) k <;>
      cases get? (layerOf L.bps 0).glob k <;> rfl
  · rw [bps_flatten_ne N L P hP]
    have hP' : (P == 0) = false := by simpa using hP
    have hE : Layer.empty.glob = [] := rfl
    rw [empty_stage, hE, update_nil_right, update_nil_right]
    unfold bps0 bpsBase bpg0
    simp only [hP', Bool.or_false]
    cases hA : (layerOf L.bps 0).stage c.stage with
    | nil =>
      simp only [List.isEmpty_nil, if_true, get?_update]
      cases get? (ovrOpts c P) k <;> cases get? c.opts k <;> cases get? ((layerOf L.bps P).stage c.stage) k <;>
        cases get? (layerOf L.bps P).glob k <;> cases get? (layerOf L.bps 0).glob k <;> rfl
    | cons e r =>
      simp only [List.isEmpty_cons, Bool.false_eq_true, if_false, get?_update]
      cases get? (e :: r) k <;> cases get? (ovrOpts c P) k <;> cases get? c.opts k <;>
        cases get? ((layerOf L.bps P).stage c.stage) k <;>
        cases get? (layerOf L.bps P).glob k <;> cases get? (layerOf L.bps 0).glob k <;> rfl

end afterReload

/-- **A component instantiated after a reload is stored like the one the never-reloaded experiment instantiates**
(`_partial`): for every description `L` that resolves, every NEW (non-document) component `c` of a stage the
description knows (the stage of the `$import` entry of the loop), the component that an experiment loaded from the
stored description stores for `c` (`flatComp` on `flatten N L P`: what `instantiate_dowhile_next_iteration` of a
restarted experiment writes and what `configurationForNode` is computed from) is the component the experiment that
still holds the package description stores: same variables (interpolated), same override blocks, and every option
lookup — blueprint-inherited settings (environment, resource request, resource manager options …) included, also for
paths that several of the four blueprint layers set (the stored stage blueprint repeats the platform-global blueprint
above a non-empty default-stage blueprint, fix 1b655bb; the folding before the fix: `Witness.C07`) — answers alike.
Hypothesis (decidable, evaluated by the driver on every case; what is missing from the full statement): `bpClosed` —
the inherited blueprint values mention no variable defined in the scope in which the store interpolates them (the
stored description keeps blueprints interpolated in the global / stage scope). -/
theorem new_component_after_reload_partial (N : Nat) (L : Doc) (P : Name) (c : Comp)
    (h : resolves N L P = true) (hd : c.isDoc = false) (hs : c.stage ∈ L.comps.map (·.stage))
    (hcl : bpClosed N L P c.stage = true) :
    sameComp (flatComp N (flatten N L P) P c) (flatComp N L P c) = true := by
  have hvars : (flatComp N (flatten N L P) P c).vars = (flatComp N L P c).vars := by
    rw [flatComp_vars c hd, flatComp_vars c hd]
    unfold cctx
    rw [gvars_second h, svars_second_stage h c.stage hs]
  have hovr : (flatComp N (flatten N L P) P c).ovr = (flatComp N L P c).ovr := by
    rw [flatComp_ovr _ _ _ c hd, flatComp_ovr _ _ _ c hd]
  have hopts : ∀ k, get? (flatComp N (flatten N L P) P c).opts k = get? (flatComp N L P c).opts k := by
    intro k
    have e1 : (flatComp N (flatten N L P) P c).opts = layeredOpts (flatten N L P) P c := by simp [flatComp, hd]
    have e2 : (flatComp N L P c).opts = layeredOpts L P c := by simp [flatComp, hd]
    rw [e1, e2]
    exact layeredOpts_new c hs hcl k
  unfold sameComp sameLookups
  simp only [flatComp_stage, flatComp_name, flatComp_isDoc, hvars, hovr, beq_self_eq_true, Bool.true_and,
    List.all_eq_true, beq_iff_eq]
  intro e _
  exact hopts e.1

/-- **The restarted experiment continues the loop like the experiment that was never reloaded** (`_partial`, same
hypothesis as `new_component_after_reload_partial`, collected in `newCompsOk`): when the experiment `reload N E` loaded
from the instance directory and the experiment `E` that wrote it instantiate the same next iteration `cs`
(`addIteration`), the descriptions they store list, for every new component, the same component (`sameComp`); the
components that existed before are those of `store N E` in both (`session_disk_is_store`). -/
theorem iteration_after_reload_like_control_partial (N : Nat) (E : Exp) (cs : List Comp)
    (h : resolves N E.doc E.plat = true) (hok : newCompsOk N E.doc E.plat cs = true) :
    ∀ c ∈ cs, sameComp (flatComp N (addIteration (reload N E) cs).doc E.plat c)
      (flatComp N (addIteration E cs).doc E.plat c) = true := by
  intro c hc
  unfold newCompsOk at hok
  rw [List.all_eq_true] at hok
  have hc' := hok c hc
  simp only [Bool.and_eq_true, Bool.not_eq_true', List.contains_iff_mem] at hc'
  obtain ⟨⟨hd, hs⟩, hcl⟩ := hc'
  have e1 : flatComp N (addIteration (reload N E) cs).doc E.plat c = flatComp N (flatten N E.doc E.plat) E.plat c :=
    flatComp_congr _ _ rfl rfl c
  have e2 : flatComp N (addIteration E cs).doc E.plat c = flatComp N E.doc E.plat c :=
    flatComp_congr _ _ rfl rfl c
  rw [e1, e2]
  exact new_component_after_reload_partial N E.doc E.plat c h hd hs hcl

/-- the hypotheses are satisfiable by a non-trivial input: `exDoc` on platform 1 has blueprints in both layers -/
example : newCompsOk 6 exDoc 1 [⟨1, 40, false, [(30, [.ch 120])], [], []⟩] = true := by decide

/-- … and by one in which the default blueprint of the stage and the global blueprint of the platform set the same
option path (50): the shape the folding before fix 1b655bb got wrong (`Witness.C07`) is inside the theorem -/
def exConflict : Doc :=
  { vars := [(0, ⟨[(10, [.ch 49])], []⟩)]
    bps := [(0, ⟨[], [(1, [(50, [.ch 50])])]⟩), (1, ⟨[(50, [.ch 52]), (51, [.ch 101])], []⟩)]
    comps := [ { stage := 0, name := 30, isDoc := false, opts := [(23, [.ch 120])], vars := [], ovr := [] },
               { stage := 1, name := 31, isDoc := true, opts := [], vars := [], ovr := [] } ] }
example : resolves 4 exConflict 1 = true ∧ bpOrderFree exConflict 1 1 = false ∧
    newCompsOk 4 exConflict 1 [⟨1, 40, false, [(23, [.ch 121])], [], []⟩] = true := by decide

/-! ## components are identified by (stage, name): names shared between stages

The stored description is read back by looking components up by stage AND name.  For every description — also one in
which several stages use the same component name — every such lookup in the stored description answers the stored
form of what the same lookup answers in the description of the experiment that wrote it: no component is shadowed,
merged with or replaced by a namesake of another stage, after any number of load + store cycles. -/

private theorem find?_map_ids (f : Comp → Comp) (hs : ∀ c, (f c).stage = c.stage) (hn : ∀ c, (f c).name = c.name)
    (s : Nat) (n : Name) : ∀ cs : List Comp,
    (cs.map f).find? (fun c => c.stage == s && c.name == n)
      = (cs.find? (fun c => c.stage == s && c.name == n)).map f
  | [] => rfl
  | c :: r => by
    simp only [List.map_cons, List.find?_cons, hs, hn]
    cases (c.stage == s && c.name == n) with
    | true => rfl
    | false => exact find?_map_ids f hs hn s n r

/-- **Lookup by (stage, name) commutes with the store**: what the stored description answers for `(s, n)` is the
stored form of the component the writer's description answers for `(s, n)` (and nothing if the writer has none). -/
theorem stored_lookup (N : Nat) (L : Doc) (P : Name) (s : Nat) (n : Name) :
    findComp (flatten N L P) s n = (findComp L s n).map (flatComp N L P) :=
  find?_map_ids (flatComp N L P) (flatComp_stage N L P) (flatComp_name N L P) s n L.comps

/-- … after any number of load + store cycles. -/
theorem stored_lookup_survives_cycles (N : Nat) (E : Exp) (h : resolves N E.doc E.plat = true) (k : Nat)
    (s : Nat) (n : Name) :
    findComp (storeAfterCycles N E k) s n = (findComp E.doc s n).map (flatComp N E.doc E.plat) := by
  rw [store_load_cycles N E h k]
  exact stored_lookup N E.doc E.plat s n

/-- **Namesakes of different stages stay apart**: two components that share a name and differ in the stage are both
found in the stored description, each under its own stage, each as its own stored form, and the two stored forms
differ. -/
theorem namesakes_stay_apart (N : Nat) (L : Doc) (P : Name) (a b : Comp)
    (ha : findComp L a.stage a.name = some a) (hb : findComp L b.stage b.name = some b)
    (_hn : a.name = b.name) (hst : a.stage ≠ b.stage) :
    findComp (flatten N L P) a.stage a.name = some (flatComp N L P a)
      ∧ findComp (flatten N L P) b.stage b.name = some (flatComp N L P b)
      ∧ flatComp N L P a ≠ flatComp N L P b := by
  refine ⟨by rw [stored_lookup, ha]; rfl, by rw [stored_lookup, hb]; rfl, ?_⟩
  intro heq
  apply hst
  have := congrArg Comp.stage heq
  rwa [flatComp_stage, flatComp_stage] at this

/-- a description without two components of the same (stage, name, kind) is stored as one -/
theorem distinct_components_stored_distinct (N : Nat) (L : Doc) (P : Name) (h : (compIds L).Nodup) :
    (compIds (flatten N L P)).Nodup := by
  rw [components_survive]; exact h

/-- the stored description resolves exactly one configuration per non-document component of the writer, in the
writer's order, under the writer's (stage, name) -/
theorem resolved_ids_survive (N : Nat) (L : Doc) (P Q : Name) :
    (resolveAll N (flatten N L P) Q).map (fun r => (r.stage, r.name))
      = (resolveAll N L P).map (fun r => (r.stage, r.name)) := by
  simp only [resolveAll, flatten, List.map_map, List.filter_map]
  simp [Function.comp_def, resolveComp, flatComp_stage, flatComp_name, flatComp_isDoc]

/-! ### a writer keyed by the name alone (NOT the code that exists; `Instance.keepLastByName`)

Why no test with stage-unique names tells such a writer from the real one, and why every description with a shared name
does: -/

private theorem keepLastByName_length_le : ∀ cs : List Comp, (keepLastByName cs).length ≤ cs.length
  | [] => Nat.le_refl _
  | c :: r => by
    have ih := keepLastByName_length_le r
    unfold keepLastByName
    split
    · exact Nat.le_succ_of_le ih
    · simpa using ih

/-- with names that are unique across the whole description the name-keyed writer writes every component -/
theorem name_keyed_writer_exact_on_unique_names : ∀ cs : List Comp, (cs.map (·.name)).Nodup → keepLastByName cs = cs
  | [], _ => rfl
  | c :: r, h => by
    rw [List.map_cons, List.nodup_cons] at h
    have hno : r.any (fun d => d.name == c.name) = false := by
      cases hx : r.any (fun d => d.name == c.name) with
      | false => rfl
      | true =>
        obtain ⟨d, hd, he⟩ := List.any_eq_true.mp hx
        exact absurd (List.mem_map.mpr ⟨d, hd, by simpa using he⟩) h.1
    unfold keepLastByName
    rw [hno, name_keyed_writer_exact_on_unique_names r h.2]
    rfl

/-- as soon as two components share a name (in different stages or not) the name-keyed writer writes fewer components
than the experiment has -/
theorem name_keyed_writer_loses_a_namesake : ∀ cs : List Comp, ¬ (cs.map (·.name)).Nodup →
    (keepLastByName cs).length < cs.length
  | [], h => absurd List.nodup_nil h
  | c :: r, h => by
    have hle := keepLastByName_length_le r
    unfold keepLastByName
    split
    · exact Nat.lt_succ_of_le hle
    · rename_i hany
      have hnot : c.name ∉ r.map (·.name) := by
        intro hm
        obtain ⟨d, hd, he⟩ := List.mem_map.mp hm
        exact hany (List.any_eq_true.mpr ⟨d, hd, by simpa using he⟩)
      have hr : ¬ (r.map (·.name)).Nodup := fun hn => h (by rw [List.map_cons, List.nodup_cons]; exact ⟨hnot, hn⟩)
      have := name_keyed_writer_loses_a_namesake r hr
      simpa using this

/-- stage 0 and stage 1 both have a component named 30, with different options; stage 1 has a second component -/
def exNamesakes : Doc :=
  { vars := [(0, ⟨[(10, [.ch 49])], [(0, [(11, [.ch 97])]), (1, [(11, [.ch 98])])]⟩)]
    bps := []
    comps := [ { stage := 0, name := 30, isDoc := false, opts := [(23, [.ch 120, .ref 11])], vars := [], ovr := [] },
               { stage := 1, name := 30, isDoc := false, opts := [(23, [.ch 121, .ref 11])], vars := [], ovr := [] },
               { stage := 1, name := 31, isDoc := false, opts := [(23, [.ref 10])], vars := [], ovr := [] } ] }
example : resolves 4 exNamesakes 0 = true ∧ (compIds exNamesakes).Nodup
    ∧ ¬ ((exNamesakes.comps.map (·.name)).Nodup) := by decide
example : (findComp (flatten 4 exNamesakes 0) 0 30).map (·.opts) = some [(23, [.ch 120, .ref 11])]
    ∧ (findComp (flatten 4 exNamesakes 0) 1 30).map (·.opts) = some [(23, [.ch 121, .ref 11])] := by decide

end St4sd.C07

/-! ## the instance directory: top-level folders and the references into them

Model: `St4sd/Model/InstanceDir.lean`.  The experiment that creates an instance knows the keys of the package
manifest and the folders of the directory as it is then; the experiment that reloads the directory re-derives its
folders from the listing alone (`Manifest.fromDirectory`, links to directories followed).  The theorems say that
for **every** manifest (copied, linked and nested entries), every directory that only grows afterwards and any
number of reloads, a reference that the creating experiment read as a reference into a folder (not to a
component) is read the same way by the reloaded experiment — hence same data references, same dataflow. -/
namespace St4sd.C07.Dir
open St4sd.InstanceDir

/-- every key of a manifest that deployed successfully is a folder of the resulting directory listing, whatever
its method (`:copy` gives a directory, `:link` a link to a directory) and however deeply it is nested -/
theorem manifest_folders_listed (m : List Entry) (l0 l1 : Listing) (hf : allFolders l0)
    (hd : deploy l0 m = some l1) : ∀ e ∈ m, e.top ∈ implied l1 := by
  intro e he
  obtain ⟨_, f1, n1⟩ := deploy_spec m hd hf
  obtain ⟨k, hk⟩ := (hasName_iff l1 e.top).mp (n1 e he)
  exact (mem_implied l1 e.top).mpr ⟨k, hk, f1 _ hk⟩

theorem grows_trans {a b c : Listing} (h1 : grows a b) (h2 : grows b c) : grows a c := fun x hx => h2 x (h1 x hx)

/-- every folder known to the creating experiment (manifest keys, folders of the directory at that time,
application dependencies and special folders) is known to an experiment that reloads the directory later -/
theorem creation_folders_survive_reload (m : List Entry) (l0 l1 l2 l3 : Listing) (extra : List Name)
    (hf : allFolders l0) (hd : deploy l0 m = some l1) (h12 : grows l1 l2) (h23 : grows l2 l3) :
    ∀ n, n ∈ foldersAtCreation m l2 extra → n ∈ foldersAtReload l3 extra := by
  intro n hn
  unfold foldersAtCreation at hn
  unfold foldersAtReload
  rcases List.mem_append.mp hn with hn | hn
  · rcases List.mem_append.mp hn with hn | hn
    · obtain ⟨e, he, rfl⟩ := List.mem_map.mp hn
      have := manifest_folders_listed m l0 l1 hf hd e he
      exact List.mem_append_left _ (implied_mono (grows_trans h12 h23) _ this)
    · exact List.mem_append_left _ (implied_mono h23 _ hn)
  · exact List.mem_append_right _ hn

/-- a reference that the creating experiment reads as a path (into a linked, copied or nested manifest folder, a
folder of the package, data/, input/, an application dependency …) is read as a path after the reload -/
theorem folder_references_stay_direct (m : List Entry) (l0 l1 l2 l3 : Listing) (extra : List Name)
    (hf : allFolders l0) (hd : deploy l0 m = some l1) (h12 : grows l1 l2) (h23 : grows l2 l3) (r : Ref)
    (h : isDirect (foldersAtCreation m l2 extra) r = true) : isDirect (foldersAtReload l3 extra) r = true := by
  unfold isDirect at h ⊢
  rw [Bool.or_eq_true] at h ⊢
  rcases h with h | h
  · left
    rw [Bool.and_eq_true] at h ⊢
    refine ⟨h.1, ?_⟩
    have h2 := (contains_iff _ _).mp h.2
    exact (contains_iff _ _).mpr (creation_folders_survive_reload m l0 l1 l2 l3 extra hf hd h12 h23 _ h2)
  · exact Or.inr h

/-- the decision is a function of the folder *set* restricted to the producer: it cannot change unless a folder
with the producer's name appears or disappears -/
theorem classification_stable (f f' : List Name) (r : Ref) (h1 : r.producer ∈ f → r.producer ∈ f')
    (h2 : r.producer ∈ f' → r.producer ∈ f) : isDirect f r = isDirect f' r := by
  unfold isDirect
  have : f.contains r.producer = f'.contains r.producer := by
    cases ha : f.contains r.producer <;> cases hb : f'.contains r.producer <;> try rfl
    · exact absurd (h2 ((contains_iff _ _).mp hb)) (by simpa using ha)
    · exact absurd (h1 ((contains_iff _ _).mp ha)) (by simpa using hb)
  rw [this]

/-- **same reading of every reference after the reload**: references to components stay references to
components too, unless a new top-level folder with the name of the producer appeared in the directory -/
theorem references_classified_same (m : List Entry) (l0 l1 l2 l3 : Listing) (extra : List Name)
    (hf : allFolders l0) (hd : deploy l0 m = some l1) (h12 : grows l1 l2) (h23 : grows l2 l3) (r : Ref)
    (hnew : r.producer ∈ implied l3 → r.producer ∈ foldersAtCreation m l2 extra) :
    isDirect (foldersAtReload l3 extra) r = isDirect (foldersAtCreation m l2 extra) r := by
  apply classification_stable
  · intro h
    unfold foldersAtReload at h
    rcases List.mem_append.mp h with h | h
    · exact hnew h
    · exact List.mem_append_right _ h
  · exact creation_folders_survive_reload m l0 l1 l2 l3 extra hf hd h12 h23 _

/-- the directory listings seen by successive reloads -/
def growsAll : Listing → List Listing → Prop
  | _, [] => True
  | l, l' :: r => grows l l' ∧ growsAll l' r

/-- … for any number of reloads: whatever the creating experiment read as a path, every later reload does -/
theorem folder_references_stay_direct_every_reload (m : List Entry) (l0 l1 l2 : Listing) (extra : List Name)
    (hf : allFolders l0) (hd : deploy l0 m = some l1) (h12 : grows l1 l2) (r : Ref)
    (h : isDirect (foldersAtCreation m l2 extra) r = true) :
    ∀ (ls : List Listing), growsAll l2 ls → ∀ l ∈ ls, isDirect (foldersAtReload l extra) r = true := by
  suffices H : ∀ (ls : List Listing) (l' : Listing), grows l2 l' → growsAll l' ls →
      ∀ l ∈ ls, isDirect (foldersAtReload l extra) r = true from
    fun ls hg => H ls l2 (fun x hx => hx) hg
  intro ls
  induction ls with
  | nil => intro _ _ _ l hl; cases hl
  | cons a rest ih =>
    intro l' hl' hg l hl
    have ha : grows l2 a := grows_trans hl' hg.1
    rcases List.mem_cons.mp hl with rfl | hl
    · exact folder_references_stay_direct m l0 l1 l2 l extra hf hd h12 ha r h
    · exact ih a ha hg.2 l hl

/-! ### non-vacuity -/

/-- folder 1 linked, folder 2 copied, `2/…` nested and linked, `3/…` nested and copied (parents created) -/
def exManifest : List Entry := [⟨1, false, .link⟩, ⟨2, false, .copy⟩, ⟨2, true, .link⟩, ⟨3, true, .copy⟩]

example : deploy [] exManifest = some [(1, .linkDir), (2, .dir), (3, .dir)] := by decide
example : allFolders ([] : Listing) := fun _ h => by cases h
/-- a nested link below a missing parent and a second entry for an existing target are refused -/
example : deploy [] [⟨4, true, .link⟩] = none := by decide
example : deploy [] [⟨1, false, .copy⟩, ⟨1, false, .link⟩] = none := by decide
/-- `1:ref` and `1/file:ref` are paths for the creating experiment and after a reload of the grown directory;
`5:ref` (no such folder) is a reference to a component in both; a link to a file or a broken link is no folder -/
example : isDirect (foldersAtCreation exManifest [(1, .linkDir), (2, .dir), (3, .dir), (7, .dir)] [9]) ⟨none, 1, false⟩ = true := by decide
example : isDirect (foldersAtReload [(1, .linkDir), (2, .dir), (3, .dir), (7, .dir), (8, .file)] [9]) ⟨none, 1, false⟩ = true := by decide
example : isDirect (foldersAtReload [(1, .linkDir), (2, .dir), (3, .dir), (7, .dir), (8, .file)] [9]) ⟨none, 5, false⟩ = false := by decide
example : isDirect (foldersAtReload [(1, .linkDir)] []) ⟨some 0, 1, false⟩ = false := by decide
example : implied [(1, .linkFile), (2, .linkBroken), (3, .file), (4, .linkDir)] = [4] := by decide

end St4sd.C07.Dir
