import St4sd.Model.Ini
import St4sd.Model.IniProc
import St4sd.Model.IniDir
import St4sd.Gen.C19
import St4sd.Lemmas.C19
import St4sd.Lemmas.C19Names
import St4sd.Lemmas.C19Float
/-!
# C19 — The legacy configuration format round-trips an instance

`Gen.C19.dumpTable / parseTable / knownKeys / optionPaths` are regenerated from
`dosini.py` / `flowir.py` on every run; the pin theorems below are re-checked against them.
-/
namespace St4sd.C19
open St4sd.Str St4sd.Ini St4sd.Gen.C19

/-- Pin theorem on the generated tables: every key the writer uses is a known (non-variable) key of the
reader, the reader's branch for that key stores the value under the *same* option path, through a
converter that inverts the writer's printer, and anything else the branch stores is a constant. -/
theorem tables_agree : dumpTable.all (agrees parseTable knownKeys) = true := by decide +kernel

/-- The writer never uses one key for two option paths. -/
theorem dump_keys_injective :
    dumpTable.all (fun e => dumpTable.all fun f => e.key != f.key || e.path == f.path) = true := by decide +kernel

/-- Options of a component (leaves of `FlowIR.default_component_structure`) that have NO key in the
legacy format: these are outside "expressible in the legacy format".  `isRepeat` is derived by the
reader from `repeat-interval`; `command.interpreter` has a key but no builtin default leaf other than None. -/
theorem options_without_legacy_key :
    optionPaths.filter (fun p => !(dumpTable.any fun e => e.path == p)) =
      [ [['w','o','r','k','f','l','o','w','A','t','t','r','i','b','u','t','e','s'], ['i','s','M','i','g','r','a','t','e','d']],
        [['w','o','r','k','f','l','o','w','A','t','t','r','i','b','u','t','e','s'], ['i','s','R','e','p','e','a','t']],
        [['r','e','s','o','u','r','c','e','M','a','n','a','g','e','r'], ['k','u','b','e','r','n','e','t','e','s'], ['q','o','s']],
        [['r','e','s','o','u','r','c','e','M','a','n','a','g','e','r'], ['k','u','b','e','r','n','e','t','e','s'], ['p','o','d','S','p','e','c']],
        [['r','e','s','o','u','r','c','e','M','a','n','a','g','e','r'], ['d','o','c','k','e','r'], ['i','m','a','g','e']],
        [['r','e','s','o','u','r','c','e','M','a','n','a','g','e','r'], ['d','o','c','k','e','r'], ['i','m','a','g','e','P','u','l','l','P','o','l','i','c','y']],
        [['r','e','s','o','u','r','c','e','M','a','n','a','g','e','r'], ['d','o','c','k','e','r'], ['p','l','a','t','f','o','r','m']],
        [['r','e','s','o','u','r','c','e','R','e','q','u','e','s','t'], ['g','p','u','s']] ] := by decide +kernel

private theorem parseOuts_consts (s : S) : ∀ (rest : List (Path × POut)), rest.all isConst = true →
    ∃ t, parseOuts s rest = some t := by
  intro rest
  induction rest with
  | nil => intro _; exact ⟨[], rfl⟩
  | cons o r ih =>
    intro h
    simp only [List.all_cons, Bool.and_eq_true] at h
    obtain ⟨t, ht⟩ := ih h.2
    obtain ⟨p, po⟩ := o
    cases po with
    | parsed pa => simp [isConst] at h
    | const v => exact ⟨(p, v) :: t, by simp only [parseOuts, ht, Option.map_some]⟩

private theorem mem_dropEmptyTop (p : Path) (w : Val) (l : List (Path × Val)) (h : (p, w) ∈ l) :
    (p, w) ∈ dropEmptyTop l ∨ (p.length = 1 ∧ w = .words []) := by
  by_cases hc : p.length = 1 ∧ w = .words []
  · exact Or.inr hc
  · left
    unfold dropEmptyTop
    rw [List.mem_filter]
    refine ⟨h, ?_⟩
    simp only [Bool.not_eq_true', Bool.and_eq_false_iff, beq_eq_false_iff_ne, ne_eq]
    by_cases h1 : p.length = 1
    · right; intro hw; exact hc ⟨h1, hw⟩
    · left; exact h1

/-- `table_roundtrip`, for any pair of tables that agree: for every entry `e` of the dump table there is
a parser `pa` such that for EVERY value `v` of the parser's type domain, reading the line the writer
produces for `(e.path, v)` succeeds and stores `v` (up to `norm`: the memory text and its number of
bytes) under the same path `e.path` — unless it is an empty top-level list (`references`), which the
reader does not store. -/
theorem table_roundtrip_of (dt : List DumpEntry) (pt : List ParseEntry) (known : List S)
    (hag : dt.all (agrees pt known) = true) (e : DumpEntry) (he : e ∈ dt) :
    ∃ pa, entryParser pt e = some pa ∧ ∀ v, inDom pa v = true →
      ∃ w out, parsePair pt known (e.key, print e.printer v) = some out ∧ norm pa w = norm pa v ∧
        ((e.path, w) ∈ out ∨ (e.path.length = 1 ∧ w = .words [])) := by
  have h := List.all_eq_true.mp hag e he
  unfold agrees at h
  simp only [Bool.and_eq_true] at h
  obtain ⟨hk, hm⟩ := h
  cases hf : findParse pt e.key with
  | none => simp [hf] at hm
  | some pe =>
    simp only [hf] at hm
    cases ho : pe.outs with
    | nil => simp [ho] at hm
    | cons o rest =>
      obtain ⟨q, po⟩ := o
      cases po with
      | const c => simp [ho] at hm
      | parsed pa =>
        simp only [ho, Bool.and_eq_true, decide_eq_true_eq] at hm
        obtain ⟨⟨hq, hgood⟩, hrest⟩ := hm
        refine ⟨pa, by simp only [entryParser, hf, ho], fun v hv => ?_⟩
        obtain ⟨w, hw, hn⟩ := print_parse e.printer pa v hgood hv
        obtain ⟨t, ht⟩ := parseOuts_consts (print e.printer v) rest hrest
        refine ⟨w, dropEmptyTop ((q, w) :: t), ?_, hn, ?_⟩
        · simp only [parsePair, hk, if_true, hf, ho, parseOuts, hw, ht, Option.map_some]
        · rw [← hq]
          exact mem_dropEmptyTop q w _ (List.mem_cons_self)

/-- `table_roundtrip` for the tables of the code that exists. -/
theorem table_roundtrip (e : DumpEntry) (he : e ∈ dumpTable) :
    ∃ pa, entryParser parseTable e = some pa ∧ ∀ v, inDom pa v = true →
      ∃ w out, parsePair parseTable knownKeys (e.key, print e.printer v) = some out ∧ norm pa w = norm pa v ∧
        ((e.path, w) ∈ out ∨ (e.path.length = 1 ∧ w = .words [])) :=
  table_roundtrip_of dumpTable parseTable knownKeys tables_agree e he

private theorem section_lines (pt : List ParseEntry) (known : List S) : ∀ (ini : List (S × S)),
    (∀ kv ∈ ini, ∃ o, parsePair pt known kv = some o) →
    ∃ out, parseSection pt known ini = some out ∧
      ∀ kv ∈ ini, ∀ o, parsePair pt known kv = some o → ∀ x ∈ o, x ∈ out := by
  intro ini
  induction ini with
  | nil => intro _; exact ⟨[], rfl, by simp⟩
  | cons kv r ih =>
    intro h
    obtain ⟨o, ho⟩ := h kv (List.mem_cons_self)
    obtain ⟨out, hout, hmem⟩ := ih (fun kv' hkv' => h kv' (List.mem_cons_of_mem _ hkv'))
    refine ⟨o ++ out, by simp only [parseSection, ho, hout], ?_⟩
    intro kv' hkv' o' ho' x hx
    rcases List.mem_cons.mp hkv' with heq | hin
    · subst heq
      rw [ho] at ho'
      injection ho' with ho'
      subst ho'
      exact List.mem_append_left _ hx
    · exact List.mem_append_right _ (hmem kv' hin o' ho' x hx)

private theorem table_line (dt : List DumpEntry) (pt : List ParseEntry) (known : List S)
    (hag : dt.all (agrees pt known) = true) (p : Path) (v : Val) (e : DumpEntry)
    (hf : findDump dt p = some e) (hok : tableOk dt pt p v = true) :
    ∃ o, parsePair pt known (e.key, print e.printer v) = some o ∧
      ∃ w pa, norm pa w = norm pa v ∧ ((p, w) ∈ o ∨ (p.length = 1 ∧ w = .words [])) := by
  have hmem : e ∈ dt := List.mem_of_find?_eq_some hf
  have hpath : e.path = p := by
    have := List.find?_some hf
    simpa using this
  obtain ⟨pa, hpa, hrt⟩ := table_roundtrip_of dt pt known hag e hmem
  simp only [tableOk, hf, hpa] at hok
  obtain ⟨w, o, ho, hn, hm⟩ := hrt v hok
  rw [hpath] at hm
  exact ⟨o, ho, w, pa, hn, hm⟩

private theorem some_line (dt : List DumpEntry) (pt : List ParseEntry) (known : List S) (pass : List Path)
    (hag : dt.all (agrees pt known) = true) (p : Path) (v : Val) (hv : v ≠ .none)
    (hok : pairOk dt pt known (p, v) = true) (kv : S × S) (hd : dumpSome dt pass p v = some kv) :
    ∃ o, parsePair pt known kv = some o ∧
      ∃ w pa, norm pa w = norm pa v ∧ ((p, w) ∈ o ∨ (p.length = 1 ∧ w = .words [])) := by
  have hok' : pairOkSome dt pt known p v = true := by
    cases v <;> first | exact absurd rfl hv | exact hok
  unfold pairOkSome at hok'
  unfold dumpSome at hd
  split at hd
  · rename_i seg name
    simp only at hok'
    by_cases hs : seg = variablesSeg
    · simp only [hs, if_true] at hd hok'
      cases v with
      | str s =>
        simp only [Bool.not_eq_true'] at hok'
        injection hd with hd
        subst hd
        refine ⟨[([variablesSeg, name], .str s)], ?_, .str s, .raw, rfl, Or.inl ?_⟩
        · simp only [parsePair, pyStr, hok', Bool.false_eq_true, if_false]
        · rw [hs]; exact List.mem_cons_self
      | _ => simp only [Bool.false_eq_true] at hok'
    · simp only [hs, if_false] at hd hok'
      cases hf : findDump dt [seg, name] with
      | none => simp [hf] at hd
      | some e =>
        simp only [hf] at hd
        injection hd with hd
        subst hd
        exact table_line dt pt known hag _ v e hf hok'
  · rename_i hne
    have hok'' : tableOk dt pt p v = true := by
      split at hok'
      · rename_i seg name
        exact absurd rfl (hne seg name)
      · exact hok'
    cases hf : findDump dt p with
    | none => simp [tableOk, hf] at hok''
    | some e =>
      simp only [hf] at hd
      injection hd with hd
      subst hd
      exact table_line dt pt known hag _ v e hf hok''

/-- `instance_roundtrip`, for any pair of agreeing tables: a component (flat list of option path / value
pairs, variables included) all of whose pairs are expressible (`pairOk`) is written to a section that the
reader accepts, and every pair with a value other than `None` is found again under the same path with
the same value (up to `norm`, i.e. the memory text versus its number of bytes) — except an empty
top-level list (`references = `), which is the default anyway. -/
theorem instance_roundtrip_of (dt : List DumpEntry) (pt : List ParseEntry) (known : List S) (pass : List Path)
    (hag : dt.all (agrees pt known) = true) (c : List (Path × Val))
    (hc : ∀ pv ∈ c, pairOk dt pt known pv = true) :
    ∃ out, parseSection pt known (dumpSection dt pass c) = some out ∧
      ∀ p v, (p, v) ∈ c → v ≠ .none →
        ∃ w pa, norm pa w = norm pa v ∧ ((p, w) ∈ out ∨ (p.length = 1 ∧ w = .words [])) := by
  have hline : ∀ pv ∈ c, pv.2 ≠ .none → ∃ kv, dumpPair dt pass pv = some kv ∧ ∃ o, parsePair pt known kv = some o ∧
      ∃ w pa, norm pa w = norm pa pv.2 ∧ ((pv.1, w) ∈ o ∨ (pv.1.length = 1 ∧ w = .words [])) := by
    intro pv hpv hne
    obtain ⟨p, v⟩ := pv
    have hds : dumpPair dt pass (p, v) = dumpSome dt pass p v := by
      cases v <;> first | exact absurd rfl hne | rfl
    cases hd : dumpSome dt pass p v with
    | some kv =>
      exact ⟨kv, by rw [hds, hd], some_line dt pt known pass hag p v hne (hc _ hpv) kv hd⟩
    | none =>
      -- an expressible pair is always written
      exfalso
      have hok := hc _ hpv
      have hok' : pairOkSome dt pt known p v = true := by
        cases v <;> first | exact absurd rfl hne | exact hok
      unfold pairOkSome at hok'
      unfold dumpSome at hd
      split at hd
      · rename_i seg name
        simp only at hok'
        by_cases hs : seg = variablesSeg
        · simp [hs] at hd
        · simp only [hs, if_false] at hd hok'
          cases hf : findDump dt [seg, name] with
          | none => simp [tableOk, hf] at hok'
          | some e => simp [hf] at hd
      · rename_i hnp
        have hok'' : tableOk dt pt p v = true := by
          split at hok'
          · rename_i seg name
            exact absurd rfl (hnp seg name)
          · exact hok'
        cases hf : findDump dt p with
        | none => simp [tableOk, hf] at hok''
        | some e => simp [hf] at hd
  have hall : ∀ kv ∈ dumpSection dt pass c, ∃ o, parsePair pt known kv = some o := by
    intro kv hkv
    unfold dumpSection at hkv
    obtain ⟨pv, hpv, hdp⟩ := List.mem_filterMap.mp hkv
    have hne : pv.2 ≠ .none := by
      intro h
      obtain ⟨p, v⟩ := pv
      simp only at h
      subst h
      simp [dumpPair] at hdp
    obtain ⟨kv', hkv', o, ho, _⟩ := hline pv hpv hne
    rw [hdp] at hkv'
    injection hkv' with hkv'
    subst hkv'
    exact ⟨o, ho⟩
  obtain ⟨out, hout, hsub⟩ := section_lines pt known _ hall
  refine ⟨out, hout, ?_⟩
  intro p v hpv hne
  obtain ⟨kv, hkv, o, ho, w, pa, hn, hm⟩ := hline (p, v) hpv hne
  refine ⟨w, pa, hn, ?_⟩
  rcases hm with hm | hm
  · left
    have : kv ∈ dumpSection dt pass c := by
      unfold dumpSection
      exact List.mem_filterMap.mpr ⟨(p, v), hpv, hkv⟩
    exact hsub kv this o ho _ hm
  · exact Or.inr hm

/-- `instance_roundtrip` for the tables of the code that exists. -/
theorem instance_roundtrip (c : List (Path × Val)) (hc : ∀ pv ∈ c, pairOk dumpTable parseTable knownKeys pv = true) :
    ∃ out, parseSection parseTable knownKeys (dumpSection dumpTable passthrough c) = some out ∧
      ∀ p v, (p, v) ∈ c → v ≠ .none →
        ∃ w pa, norm pa w = norm pa v ∧ ((p, w) ∈ out ∨ (p.length = 1 ∧ w = .words [])) :=
  instance_roundtrip_of dumpTable parseTable knownKeys passthrough tables_agree c hc

/-- Component variables pass through unchanged: a name that is not a legacy key is written as
`name = text` and read back as the variable `name` with the same text. -/
theorem variable_roundtrip (pt : List ParseEntry) (known : List S) (dt : List DumpEntry) (pass : List Path)
    (name s : S) (hk : known.contains name = false) :
    ∃ kv, dumpPair dt pass ([variablesSeg, name], .str s) = some kv ∧
      parsePair pt known kv = some [([variablesSeg, name], .str s)] := by
  refine ⟨(name, s), ?_, ?_⟩
  · simp [dumpPair, dumpSome, pyStr]
  · simp only [parsePair, hk, Bool.false_eq_true, if_false]

/-! ## The reader as a process: sections parsed earlier do not matter

Model: `St4sd/Model/IniProc.lean`.  Stated for every parse table, backend table, initial answer of
`known_flowir_options()` and every sequence of sections read earlier in the process (components of earlier stages,
earlier loads of other workflows, components of any backend). -/
section Process
open St4sd.IniProc

/-- the reader has no state: whatever was parsed, `known_flowir_options()` answers as before -/
theorem reader_state_constant (pt : List ParseEntry) (bt : BackendTable) (P : Proc) (secs : List Section) :
    (parseSeq false pt bt P secs).1 = P := by
  induction secs with
  | nil => rfl
  | cons s r ih => simpa [parseSeq, parseComponent, validate] using ih

/-- every section of a process is parsed as if it were the only one -/
theorem parseSeq_pointwise (pt : List ParseEntry) (bt : BackendTable) (P : Proc) (secs : List Section) :
    (parseSeq false pt bt P secs).2 = secs.map (parseSection pt P.known) := by
  induction secs with
  | nil => rfl
  | cons s r ih => simpa [parseSeq, parseComponent, validate] using ih

/-- **what a section parses to does not depend on what the process parsed before** -/
theorem parse_independent_of_history (pt : List ParseEntry) (bt : BackendTable) (P : Proc) (earlier : List Section)
    (sec : Section) :
    (parseComponent false pt bt (parseSeq false pt bt P earlier).1 sec).2 = parseSection pt P.known sec := by
  rw [reader_state_constant]; rfl

/-- **`instance_roundtrip` at any point of a process**: after any sections read earlier (components of the simulator
backend included, whose options are not legacy keys), an expressible component is written to a section that the
reader accepts and every pair is found again — component variables whose names are options of some backend too. -/
theorem instance_roundtrip_any_history (earlier : List Section) (c : List (Path × Val))
    (hc : ∀ pv ∈ c, pairOk dumpTable parseTable knownKeys pv = true) :
    ∃ out, (parseComponent false parseTable backendTable
              (parseSeq false parseTable backendTable ⟨knownKeys⟩ earlier).1
              (dumpSection dumpTable passthrough c)).2 = some out ∧
      ∀ p v, (p, v) ∈ c → v ≠ .none →
        ∃ w pa, norm pa w = norm pa v ∧ ((p, w) ∈ out ∨ (p.length = 1 ∧ w = .words [])) := by
  rw [parse_independent_of_history]
  exact instance_roundtrip c hc

/-- a name that some backend accepts as an option but that is not a legacy key is a component variable, before and
after any component of that backend was read -/
theorem backend_option_name_is_a_variable (earlier : List Section) (name s : S)
    (hk : knownKeys.contains name = false) :
    (parseComponent false parseTable backendTable
        (parseSeq false parseTable backendTable ⟨knownKeys⟩ earlier).1 [(name, s)]).2
      = some [([variablesSeg, name], .str s)] := by
  rw [parse_independent_of_history]
  have hk' : ¬ name ∈ knownKeys := by simpa using hk
  simp [parseSection, parsePair, hk']

/-- non-vacuity: a simulator section read first, then a section with a variable named like a simulator option -/
example :
    (parseSeq false parseTable backendTable ⟨knownKeys⟩
      [[("job-type".toList, "simulator".toList), ("sim_x".toList, "1".toList)],
       [("sim_x".toList, "3".toList)]]).2
    = [some [(["resourceManager".toList, "config".toList, "backend".toList], .str "simulator".toList),
             ([variablesSeg, "sim_x".toList], .str "1".toList)],
       some [([variablesSeg, "sim_x".toList], .str "3".toList)]] := by decide +kernel

end Process

/-! ## Executors: every subset of the executor kinds of the format

The format has a key for four executor fields: the payload of the `lsf-dm-in` pre-executor (`rstage-in`), the payload of
the `lsf-dm-out` post-executor (`rstage-out`) and the two options of the `docker` main executor.  A component may carry
any subset of them (stage-in without stage-out, stage-out without stage-in, both, none, with and without the docker
executor).  In the model the writer looks at one `(path, value)` pair at a time; the harness compares the real
`_flowir_component_to_dict` with `dumpSection` on components carrying every subset. -/
section Executors

def stageInPath : Path := ["executors".toList, "pre".toList, "lsf-dm-in".toList, "payload".toList]
def stageOutPath : Path := ["executors".toList, "post".toList, "lsf-dm-out".toList, "payload".toList]
def dockerImagePath : Path := ["executors".toList, "main".toList, "docker".toList, "docker-image".toList]
def dockerArgsPath : Path := ["executors".toList, "main".toList, "docker".toList, "docker-args".toList]
def executorPaths : List Path := [stageInPath, stageOutPath, dockerImagePath, dockerArgsPath]

/-- **what is written for some pairs of a component does not depend on its other pairs** (for every dump table): an
executor is written in the same way whichever other executors and options stand before or after it -/
theorem dump_independent_of_siblings (dt : List DumpEntry) (pass : List Path) (a c b : List (Path × Val)) :
    dumpSection dt pass (a ++ c ++ b) = dumpSection dt pass a ++ dumpSection dt pass c ++ dumpSection dt pass b := by
  simp [dumpSection, List.filterMap_append]

/-- a pair that is written is written in every component that holds it, whatever else the component holds -/
theorem dump_pair_in_every_component (dt : List DumpEntry) (pass : List Path) (c : List (Path × Val)) (pv : Path × Val)
    (kv : S × S) (h : dumpPair dt pass pv = some kv) (hm : pv ∈ c) : kv ∈ dumpSection dt pass c :=
  List.mem_filterMap.mpr ⟨pv, hm, h⟩

private theorem dumpSome_table4 (dt : List DumpEntry) (pass : List Path) (a b c d : S) (v : Val) (e : DumpEntry)
    (h : findDump dt [a, b, c, d] = some e) : dumpSome dt pass [a, b, c, d] v = some (e.key, print e.printer v) := by
  simp [dumpSome, h]

private theorem dumpSome_pass4 (dt : List DumpEntry) (pass : List Path) (a b c d k : S) (v : Val)
    (h : findDump dt [a, b, c, d] = none) (hp : passKey pass [a, b, c, d] = some k) :
    dumpSome dt pass [a, b, c, d] v = some (k, pyStr v) := by
  simp [dumpSome, h, hp]

private theorem parsePair_raw4 (pt : List ParseEntry) (known : List S) (k s a b c d : S)
    (hk : known.contains k = true) (hf : findParse pt k = some ⟨k, [([a, b, c, d], .parsed .raw)]⟩) :
    parsePair pt known (k, s) = some [([a, b, c, d], .str s)] := by
  have hk' : k ∈ known := by simpa using hk
  simp [parsePair, hk', hf, parseOuts, parse, dropEmptyTop]

/-- **every executor field of the format**: its text is written unchanged under its key, and that line is read back as
exactly that field of exactly that executor (tables of the code that exists) -/
theorem executor_field_roundtrip (p : Path) (hp : p ∈ executorPaths) (s : S) :
    ∃ k, dumpPair dumpTable passthrough (p, .str s) = some (k, s) ∧
      parsePair parseTable knownKeys (k, s) = some [(p, .str s)] := by
  simp only [executorPaths, List.mem_cons, List.not_mem_nil, or_false] at hp
  rcases hp with rfl | rfl | rfl | rfl
  · refine ⟨"rstage-in".toList, ?_, ?_⟩
    · have h : findDump dumpTable stageInPath = some ⟨stageInPath, "rstage-in".toList, .ident⟩ := by decide +kernel
      exact dumpSome_table4 dumpTable passthrough _ _ _ _ (.str s) _ h
    · exact parsePair_raw4 parseTable knownKeys _ s _ _ _ _ (by decide +kernel) (by decide +kernel)
  · refine ⟨"rstage-out".toList, ?_, ?_⟩
    · have h : findDump dumpTable stageOutPath = some ⟨stageOutPath, "rstage-out".toList, .ident⟩ := by decide +kernel
      exact dumpSome_table4 dumpTable passthrough _ _ _ _ (.str s) _ h
    · exact parsePair_raw4 parseTable knownKeys _ s _ _ _ _ (by decide +kernel) (by decide +kernel)
  · refine ⟨"docker-image".toList, ?_, ?_⟩
    · have h : findDump dumpTable dockerImagePath = none := by decide +kernel
      have hp : passKey passthrough dockerImagePath = some "docker-image".toList := by decide +kernel
      exact dumpSome_pass4 dumpTable passthrough _ _ _ _ _ (.str s) h hp
    · exact parsePair_raw4 parseTable knownKeys _ s _ _ _ _ (by decide +kernel) (by decide +kernel)
  · refine ⟨"docker-args".toList, ?_, ?_⟩
    · have h : findDump dumpTable dockerArgsPath = none := by decide +kernel
      have hp : passKey passthrough dockerArgsPath = some "docker-args".toList := by decide +kernel
      exact dumpSome_pass4 dumpTable passthrough _ _ _ _ _ (.str s) h hp
    · exact parsePair_raw4 parseTable knownKeys _ s _ _ _ _ (by decide +kernel) (by decide +kernel)

/-- a field of the `docker` main executor holding text: written under its own name (pass-through), so it has no entry in
the dump table and `pairOk` does not cover it -/
def dockerFieldOk : Path × Val → Bool
  | (p, .str _) => decide (p = dockerImagePath ∨ p = dockerArgsPath)
  | _ => false

/-- **every subset of executors survives the round trip**: a component all of whose pairs are expressible (`pairOk`) or
fields of the docker executor — so: any subset of the executor fields (stage-in without stage-out, stage-out without
stage-in, both, none, with and without docker image / arguments) next to any options, references and variables, in any
order — is written to a section that the reader accepts; every executor field it holds is in the component that is read
back, with exactly the text that was written; and every other pair is found again as in `instance_roundtrip`. -/
theorem executor_subsets_roundtrip (c : List (Path × Val))
    (hc : ∀ pv ∈ c, pairOk dumpTable parseTable knownKeys pv = true ∨ dockerFieldOk pv = true) :
    ∃ out, parseSection parseTable knownKeys (dumpSection dumpTable passthrough c) = some out ∧
      (∀ p ∈ executorPaths, ∀ s, (p, Val.str s) ∈ c → (p, Val.str s) ∈ out) ∧
      (∀ p v, (p, v) ∈ c → v ≠ .none → pairOk dumpTable parseTable knownKeys (p, v) = true →
        ∃ w pa, norm pa w = norm pa v ∧ ((p, w) ∈ out ∨ (p.length = 1 ∧ w = .words []))) := by
  have hall : ∀ kv ∈ dumpSection dumpTable passthrough c, ∃ o, parsePair parseTable knownKeys kv = some o := by
    intro kv hkv
    obtain ⟨pv, hpv, hdp⟩ := List.mem_filterMap.mp hkv
    rcases hc pv hpv with hok | hdock
    · obtain ⟨out1, hout1, _⟩ := instance_roundtrip [pv] (by
        intro q hq; rw [List.mem_singleton.mp hq]; exact hok)
      have hsec : dumpSection dumpTable passthrough [pv] = [kv] := by simp [dumpSection, hdp]
      rw [hsec] at hout1
      cases ho : parsePair parseTable knownKeys kv with
      | none => simp [parseSection, ho] at hout1
      | some o => exact ⟨o, rfl⟩
    · obtain ⟨p, v⟩ := pv
      cases v with
      | str s =>
        have hp : p ∈ executorPaths := by
          simp only [dockerFieldOk, decide_eq_true_eq] at hdock
          rcases hdock with h | h <;> simp [executorPaths, h]
        obtain ⟨k, hd, hpar⟩ := executor_field_roundtrip p hp s
        rw [hd] at hdp
        injection hdp with hdp
        subst hdp
        exact ⟨_, hpar⟩
      | _ => simp [dockerFieldOk] at hdock
  obtain ⟨out, hout, hsub⟩ := section_lines parseTable knownKeys _ hall
  refine ⟨out, hout, ?_, ?_⟩
  · intro p hp s hmem
    obtain ⟨k, hd, hpar⟩ := executor_field_roundtrip p hp s
    have hkv := dump_pair_in_every_component dumpTable passthrough c _ _ hd hmem
    exact hsub (k, s) hkv _ hpar _ (List.mem_singleton.mpr rfl)
  · intro p v hmem hne hok
    obtain ⟨out1, hout1, h1⟩ := instance_roundtrip [(p, v)] (by
      intro q hq; rw [List.mem_singleton.mp hq]; exact hok)
    obtain ⟨w, pa, hn, hm⟩ := h1 p v (List.mem_singleton.mpr rfl) hne
    refine ⟨w, pa, hn, ?_⟩
    rcases hm with hm | hm
    · left
      cases hd : dumpPair dumpTable passthrough (p, v) with
      | none =>
        have hsec : dumpSection dumpTable passthrough [(p, v)] = [] := by simp [dumpSection, hd]
        rw [hsec] at hout1
        simp only [parseSection, Option.some.injEq] at hout1
        subst hout1
        cases hm
      | some kv =>
        have hsec : dumpSection dumpTable passthrough [(p, v)] = [kv] := by simp [dumpSection, hd]
        rw [hsec] at hout1
        cases ho : parsePair parseTable knownKeys kv with
        | none => simp [parseSection, ho] at hout1
        | some o =>
          simp only [parseSection, ho, Option.some.injEq] at hout1
          subst hout1
          have hkv := dump_pair_in_every_component dumpTable passthrough c _ _ hd hmem
          exact hsub kv hkv o ho _ (by simpa using hm)
    · exact Or.inr hm

/-- all sublists -/
def subsets {α : Type} : List α → List (List α)
  | [] => [[]]
  | x :: r => subsets r ++ (subsets r).map (x :: ·)

/-- the hypothesis of `executor_subsets_roundtrip` holds for every one of the 16 subsets of the four executor fields next
to an option and a variable (stage-in WITHOUT stage-out among them), and the section that is read back is exactly what
was written -/
example :
    (subsets ([stageInPath, stageOutPath, dockerImagePath, dockerArgsPath].map fun p => (p, Val.str "all".toList))).all
      (fun ex =>
        let c := ([variablesSeg, "MyVar".toList], Val.str "x y".toList) :: ex
        c.all (fun pv => pairOk dumpTable parseTable knownKeys pv || dockerFieldOk pv) &&
        parseSection parseTable knownKeys (dumpSection dumpTable passthrough c) == some c) = true ∧
    (subsets [1, 2, 3, 4]).length = 16 := by decide +kernel

end Executors

/-! ## The configuration directory over several writes

Model: `St4sd/Model/IniDir.lean`. -/
section Directory
open St4sd.IniDir

/-- `dump(update_existing=True)` replaces the stage files of the flavour it writes and leaves the other flavour alone -/
theorem dump_replaces_flavour {α : Type} (d : Dir α) (f : Bool) (desc : Files α) :
    (dump d f desc).files f = writeAll [] desc ∧ (dump d f desc).files (!f) = d.files (!f) := by
  cases f <;> simp [dump, Dir.files]

/-- **the last write wins, whatever was written before**: after any history of writes (longer workflows, other
workflows, the other flavour) into the directory, the stage files of the flavour written last are exactly those of
the description written last — no file of an earlier write survives -/
theorem dump_history_last_wins {α : Type} (d : Dir α) (hist : List (Bool × Files α)) (f : Bool) (desc : Files α) :
    (dumpAll d (hist ++ [(f, desc)])).files f = writeAll [] desc := by
  simp only [dumpAll, List.foldl_append, List.foldl_cons, List.foldl_nil]
  exact (dump_replaces_flavour _ f desc).1

private theorem writeAll_fresh {α : Type} (desc fs : Files α)
    (hnd : (desc.map (·.1)).Nodup) (hfresh : ∀ e ∈ desc, ∀ g ∈ fs, g.1 ≠ e.1) :
    writeAll fs desc = fs ++ desc := by
  induction desc generalizing fs with
  | nil => simp [writeAll]
  | cons e r ih =>
    have hw : writeFile fs e = fs ++ [e] := by
      unfold writeFile
      congr 1
      apply List.filter_eq_self.mpr
      intro g hg
      simpa using hfresh e (List.mem_cons_self ..) g hg
    simp only [List.map_cons, List.nodup_cons] at hnd
    show writeAll (writeFile fs e) r = _
    rw [hw, ih (fs ++ [e]) hnd.2]
    · simp
    · intro e' he' g hg
      rcases List.mem_append.mp hg with hg | hg
      · exact hfresh e' (List.mem_cons_of_mem _ he') g hg
      · have : g = e := by simpa using hg
        subst this
        intro heq
        exact hnd.1 (heq ▸ List.mem_map.mpr ⟨e', he', rfl⟩)

private theorem descFrom_fst {α : Type} (l : List α) (k : Nat) : ∀ e ∈ descFrom k l, k ≤ e.1 := by
  induction l generalizing k with
  | nil => intro e he; cases he
  | cons a r ih =>
    intro e he
    rcases List.mem_cons.mp he with h | h
    · subst h; exact Nat.le_refl _
    · exact Nat.le_of_succ_le (ih (k + 1) e h)

private theorem descFrom_nodup {α : Type} (l : List α) (k : Nat) : ((descFrom k l).map (·.1)).Nodup := by
  induction l generalizing k with
  | nil => simp [descFrom]
  | cons a r ih =>
    simp only [descFrom, List.map_cons, List.nodup_cons]
    refine ⟨?_, ih (k + 1)⟩
    intro hm
    obtain ⟨e, he, hk⟩ := List.mem_map.mp hm
    have := descFrom_fst r (k + 1) e he
    omega

private theorem stageFile_descFrom {α : Type} (l : List α) (k j : Nat) :
    stageFile (descFrom k l) (k + j) = l[j]? := by
  induction l generalizing k j with
  | nil => simp [descFrom, stageFile]
  | cons a r ih =>
    cases j with
    | zero => simp [descFrom, stageFile]
    | succ j =>
      have hne : (k == k + (j + 1)) = false := by simp
      have := ih (k + 1) j
      have e : k + 1 + j = k + (j + 1) := by omega
      rw [e] at this
      simp only [descFrom, stageFile, List.find?_cons, hne, List.getElem?_cons_succ] at this ⊢
      exact this

private theorem collect_of {α : Type} (fs : Files α) (l : List α) (k : Nat)
    (h : ∀ j, j < l.length → stageFile fs (k + j) = l[j]?) : collect fs k l.length = some l := by
  induction l generalizing k with
  | nil => rfl
  | cons a r ih =>
    have h0 : stageFile fs k = some a := by simpa using h 0 (by simp)
    have hr : collect fs (k + 1) r.length = some r := by
      apply ih
      intro j hj
      have := h (j + 1) (by simp; omega)
      have e : k + (j + 1) = k + 1 + j := by omega
      rw [e] at this
      simpa using this
    simp [collect, h0, hr]

private theorem descFrom_length {α : Type} (l : List α) (k : Nat) : (descFrom k l).length = l.length := by
  induction l generalizing k with
  | nil => rfl
  | cons a r ih => simp [descFrom, ih]

/-- **what is discovered is what was written last**: after any history of writes, the reader finds exactly the stages
`0 … n-1` of the description written last (with the content written last), never a stage of an earlier write -/
theorem discover_after_history {α : Type} (d : Dir α) (hist : List (Bool × Files α)) (f : Bool) (stages : List α) :
    discover ((dumpAll d (hist ++ [(f, descOf stages)])).files f) = some stages := by
  rw [dump_history_last_wins]
  have hw : writeAll [] (descOf stages) = descOf stages := by
    have := writeAll_fresh (descOf stages) [] (descFrom_nodup stages 0) (by intro _ _ g hg; cases hg)
    simpa using this
  rw [hw]
  unfold discover descOf
  rw [descFrom_length]
  apply collect_of
  intro j _
  have := stageFile_descFrom stages 0 j
  simpa using this

/-- non-vacuity: three stages written, then two: two are found -/
example : discover ((dumpAll (⟨[], []⟩ : Dir Nat) [(true, descOf [10, 11, 12]), (false, descOf [7]), (true, descOf [20, 21])]).files true)
    = some [20, 21] := by decide

end Directory

/-! ## Non-vacuity: concrete instances of the hypotheses and of the round trip -/

/-- the domain hypotheses are satisfiable by non-trivial values of every type -/
example : inDom .toInt (.int (-42)) = true ∧ inDom .toBool (.str "%(MyVar)s".toList) = true ∧
    inDom .split (.words ["KnownIssue".toList, "Killed".toList]) = true ∧
    inDom .toMem (.str "2Gi".toList) = true ∧ inDom .toFloat (.float "1e-05".toList) = true := by decide

/-- a whole section: written and read back by the generated tables -/
example :
    parseSection parseTable knownKeys (dumpSection dumpTable passthrough
      [ ([['c','o','m','m','a','n','d'], ['r','e','s','o','l','v','e','P','a','t','h']], .bool false),
        ([['r','e','s','o','u','r','c','e','R','e','q','u','e','s','t'], ['m','e','m','o','r','y']], .int 1024),
        ([variablesSeg, ['f','o','o']], .str ['b','a','r']),
        ([['r','e','s','o','u','r','c','e','R','e','q','u','e','s','t'], ['g','p','u','s']], .int 1) ])
    = some
      [ ([['c','o','m','m','a','n','d'], ['r','e','s','o','l','v','e','P','a','t','h']], .bool false),
        ([['r','e','s','o','u','r','c','e','R','e','q','u','e','s','t'], ['m','e','m','o','r','y']], .str ['1','0','2','4']),
        ([variablesSeg, ['f','o','o']], .str ['b','a','r']) ] := by decide +kernel

/-- the hypothesis of `instance_roundtrip` holds for a component that uses typed options, a variable
reference in a typed option, a list option, a memory text, a variable and a `None` -/
example : ([ ([['c','o','m','m','a','n','d'], ['e','x','e','c','u','t','a','b','l','e']], Val.str "bin/run.sh".toList),
             ([['r','e','s','o','u','r','c','e','R','e','q','u','e','s','t'], ['n','u','m','b','e','r','P','r','o','c','e','s','s','e','s']], .str "%(gInt)s".toList),
             ([['r','e','s','o','u','r','c','e','R','e','q','u','e','s','t'], ['m','e','m','o','r','y']], .str "2Gi".toList),
             ([['r','e','f','e','r','e','n','c','e','s']], .words ["stage0.a:ref".toList]),
             ([variablesSeg, "MyVar".toList], .str "x y".toList),
             ([['c','o','m','m','a','n','d'], ['i','n','t','e','r','p','r','e','t','e','r']], .none) ]
           : List (Path × Val)).all (pairOk dumpTable parseTable knownKeys) = true := by decide +kernel

/-! ## Names packed into the syntax of the files (`Model/IniNames.lean`)

For EVERY name — whatever delimiters of the section syntax (`-`, `_`, `.`, digits, `ENV-`, `stage`) it contains. -/
section Names
open St4sd.IniNames

private theorem startsWith_append (p x : S) : startsWith (p ++ x) p = true := by
  simp [startsWith]

/-- An environment `n` is written as section `ENV-<N>` and read back as `N`: the reader returns exactly the
upper-cased name, so up to letter case (environment names are case-insensitive; the format stores them
upper-cased) the loaded name is the written one — also when `n` itself contains `-`, starts with `ENV-`
or is a reserved word. -/
theorem section_name_roundtrip (n : S) :
    envName (envSection n) = some (upper n) ∧ (envName (envSection n)).map lower = some (lower n) := by
  have hu : upper (envSection n) = envPrefix ++ upper n := by
    rw [envSection, upper_append, upper_idem]; rfl
  have hv : virtualEnvs.contains (envPrefix ++ upper n) = false := by
    simp only [virtualEnvs, List.contains_cons, List.contains_nil, Bool.or_false, Bool.or_eq_false_iff,
      beq_eq_false_iff_ne, ne_eq]
    constructor <;> (intro h; simp [envPrefix, sandboxName, environmentName] at h)
  have h1 : envName (envSection n) = some (upper n) := by
    unfold envName
    simp only [hu, hv, startsWith_append]
    simp [envSection, envPrefix]
  exact ⟨h1, by rw [h1]; simp [lower_upper]⟩

/-- two environments whose names differ by more than letter case are written to different sections -/
theorem env_sections_distinct (a b : S) (h : upper a ≠ upper b) : envSection a ≠ envSection b := by
  intro e
  exact h (List.append_cancel_left e)

/-- `STAGE%d` sections of `status.conf` come back as the same stage index, for every number of digits. -/
theorem stage_section_roundtrip (i : Nat) : stageIndex (stageSection i) = some i := by
  unfold stageIndex stageSection
  rw [startsWith_append]
  simp only [if_true]
  have : (stageUpper ++ natToDigits i).drop 5 = natToDigits i := by simp [stageUpper]
  rw [this]
  exact St4sd.Ini.digitsToNat_natToDigits i

private theorem stageWord_index (i : Nat) : stageWordIndex (stageWord i) = some i := by
  unfold stageWordIndex stageWord
  have hl : lower (stageLower ++ natToDigits i) = stageLower ++ lower (natToDigits i) := by
    simp [lower, stageLower]
  rw [hl, startsWith_append]
  simp only [if_true]
  have : (stageLower ++ natToDigits i).drop 5 = natToDigits i := by simp [stageLower]
  rw [this]
  exact St4sd.Ini.digitsToNat_natToDigits i

private theorem stageWord_chars (i : Nat) (c : Char) (hc : c ∈ stageWord i) : isSpace c = false ∧ c ≠ ',' ∧ c ≠ '.' := by
  unfold stageWord at hc
  rcases List.mem_append.mp hc with h | h
  · simp [stageLower] at h
    rcases h with h | h | h | h | h <;> subst h <;> decide
  · have hd := St4sd.Ini.natToDigits_all i
    rw [List.all_eq_true] at hd
    have := hd c h
    refine ⟨digit_not_space c this, ?_, ?_⟩ <;> (intro e; subst e; simp [isDigit] at this)

private theorem mapOpt_stageWords (l : List Nat) : mapOpt stageWordIndex (l.map stageWord) = some l := by
  induction l with
  | nil => rfl
  | cons i r ih => simp [mapOpt, stageWord_index, ih]

/-- The `stages` list of an output entry (`stage0,stage10,…`) comes back as the same list of indices. -/
theorem output_stages_roundtrip (l : List Nat) : parseOutputStages (outputStages l) = some l := by
  unfold parseOutputStages outputStages
  cases l with
  | nil => rfl
  | cons i r =>
    rw [splitChar_join ',' _ (by simp) (by
      intro p hp
      obtain ⟨j, _, rfl⟩ := List.mem_map.mp hp
      intro hm; exact (stageWord_chars j ',' hm).2.1 rfl)]
    have hs : ((i :: r).map stageWord).map strip = (i :: r).map stageWord := by
      rw [List.map_map]
      apply List.map_congr_left
      intro j _
      exact strip_id _ (fun c hc => (stageWord_chars j c hc).1)
    rw [hs]
    have hf : ((i :: r).map stageWord).filter (fun w => !w.isEmpty) = (i :: r).map stageWord := by
      apply List.filter_eq_self.mpr
      intro w hw
      obtain ⟨j, _, rfl⟩ := List.mem_map.mp hw
      simp [stageWord, stageLower]
    rw [hf]
    exact mapOpt_stageWords (i :: r)

/-- `stage<i>.instance.conf` is recognised as the file of stage `i`, for every number of digits. -/
theorem stage_file_roundtrip (i : Nat) : stageFileIndex (stageFile i) = some i := by
  unfold stageFileIndex stageFile
  have hs : instanceSuffix = '.' :: "instance.conf".toList := by decide
  rw [hs, splitChar_append '.' (stageWord i) _ (fun hm => (stageWord_chars i '.' hm).2.2 rfl)]
  simp only
  have : (stageWord i).drop 5 = natToDigits i := by simp [stageWord, stageLower]
  rw [this]
  exact St4sd.Ini.digitsToNat_natToDigits i

-- non-vacuity / concrete readings
example : envSection "hpc-python".toList = "ENV-HPC-PYTHON".toList ∧
    envName "ENV-HPC-PYTHON".toList = some "HPC-PYTHON".toList := by decide
example : envName (envSection "ENV-inner".toList) = some "ENV-INNER".toList := by decide
example : envName "SANDBOX".toList = some "SANDBOX".toList ∧ envName "Sandbox".toList = some "Sandbox".toList ∧
    envName "other".toList = none := by decide
example : parseOutputStages " stage2 ,stage10,, Stage3".toList = some [2, 10, 3] := by decide
example : stageFileIndex "stage12.instance.conf".toList = some 12 ∧ stageIndex "STAGE101".toList = some 101 := by decide

end Names

/-! ## Numbers written as text (`Model/IniFloat.lean`): the status section

A float field of the legacy files is the text `str(value)`; the reader applies `float(text)`.  On the level of
decimal literals (CPython's `float(repr(x)) == x` is the trusted step to floats) the written text is read back
as the SAME literal, whatever the number of fraction digits, with or without exponent. -/
section Numbers
open St4sd.IniFloat St4sd.IniNames

/-- `float(str(x))` has the literal of `x`: for EVERY canonical literal (sign, any number of integer and
fraction digits, optional exponent), the text that `_dump_status` writes for a stage weight is parsed by
`parse_status` to the same literal. -/
theorem status_weight_roundtrip (w : Lit) (h : canonical w = true) : parseWeight (printWeight w) = some w :=
  parseWeight_printWeight w (canonical_wf w h)

/-- two different canonical literals are never written as the same text -/
theorem status_weight_text_injective (a b : Lit) (ha : canonical a = true) (hb : canonical b = true)
    (h : printWeight a = printWeight b) : a = b := by
  have h1 := status_weight_roundtrip a ha
  rw [h, status_weight_roundtrip b hb] at h1
  exact (Option.some.inj h1).symm

/-- One `STAGE<i>` section of `status.conf` (stage weight of any precision, status script with arguments and
references) is read back as the stage that was written. -/
theorem status_stage_roundtrip (st : Stage) (h : stageOk st = true) : parseStage (dumpStage st) = some st := by
  obtain ⟨i, w, e⟩ := st
  unfold stageOk at h
  simp only [Bool.and_eq_true] at h
  obtain ⟨hw, he⟩ := h
  have h1 : stageIndex (dumpStage ⟨i, w, e⟩).1 = some i := stage_section_roundtrip i
  have h2 : readWeight (get kWeight (dumpStage ⟨i, w, e⟩).2) = some w := by
    simp only [dumpStage, get_weight_lines]
    cases w with
    | none => rfl
    | some w =>
      simp only at hw
      simp only [Option.map_some, readWeight, status_weight_roundtrip w hw]
  have h3 : readExe (dumpStage ⟨i, w, e⟩).2 = e := by
    simp only [dumpStage]
    apply readExe_lines
    intro x hx
    subst hx
    simp only [Bool.and_eq_true, Bool.not_eq_true'] at he
    exact he
  simp only [parseStage, h1, h2, h3]

/-- The whole status section: every list of stages (any stage indices, weights of any precision, proper or
improper sums) is read back as the same list. -/
theorem status_section_roundtrip (l : List Stage) (h : ∀ st ∈ l, stageOk st = true) :
    parseStatus (dumpStatus l) = some l := by
  induction l with
  | nil => rfl
  | cons st r ih =>
    have h1 := status_stage_roundtrip st (h st List.mem_cons_self)
    have h2 := ih (fun x hx => h x (List.mem_cons_of_mem _ hx))
    simp only [dumpStatus, List.map_cons, parseStatus, h1]
    simp only [dumpStatus] at h2
    simp only [h2]

private theorem fixed2_wf (w : Lit) (h : wf w = true) : wf (fixed2 w) = true := by
  obtain ⟨hi, hf, he⟩ := wf_parts w h
  have h3 : (match w.exp with | none => true | some (_, d) => digitsOk d) = true := by
    cases hx : w.exp with
    | none => rfl
    | some sd => obtain ⟨s, d⟩ := sd; rw [hx] at he; exact he
  unfold wf fixed2
  simp only [Bool.and_eq_true]
  refine ⟨⟨hi, ?_⟩, h3⟩
  rw [List.all_eq_true]
  intro c hc
  rcases List.mem_append.mp (List.mem_of_mem_take hc) with h1 | h1
  · cases hfr : w.frac with
    | none => rw [hfr] at h1; simp at h1
    | some d =>
      rw [hfr] at h1
      exact List.all_eq_true.mp (hf d hfr) c h1
  · have : c = '0' := by simpa using h1
    subst this; decide

/-- A printer with a fixed precision of two fraction digits is NOT a round trip: every canonical literal that
has more than two fraction digits is read back as a different literal. -/
theorem fixed_precision_loses_digits (w : Lit) (h : canonical w = true) (f : S) (hf : w.frac = some f)
    (h2 : 2 < f.length) : parseWeight (printFixed2 w) ≠ some w := by
  have hwf := fixed2_wf w (canonical_wf w h)
  unfold printFixed2
  rw [parseWeight_printWeight _ hwf]
  intro heq
  have := congrArg Lit.frac (Option.some.inj heq)
  simp only [fixed2, hf, Option.getD_some] at this
  have hl := congrArg List.length (Option.some.inj this)
  simp only [List.length_take, List.length_append, List.length_cons, List.length_nil] at hl
  omega

-- non-vacuity: canonical literals of every shape `str()` produces, and a status section with a script
example : (["0.005", "1.0", "0.30000000000000004", "1e-05", "1.5e+300", "-0.0", "3", "100.0", "5e-324",
            "1.7976931348623157e+308", "0.333", "123456789.125"].map fun t =>
    (parseWeight t.toList).map canonical) = List.replicate 12 (some true) := by decide
example : (["0.50", "007.5", "1.0e-05", "1e-5", "12e+20", ".5", "5."].map fun t =>
    (parseWeight t.toList).map canonical) = List.replicate 7 (some false) := by decide
example : (["", "abc", "1e", "--1", ".", "e5", "1.2.3", "1e+", "0x10", " 1", "1 "].map fun t =>
    parseWeight t.toList) = List.replicate 11 none := by decide
example : stageOk ⟨10, some ⟨false, ['0'], some ['0', '0', '5'], none⟩,
    some ⟨"bin/status.py".toList, "-v %(gStr)s".toList, ["stage0.a:ref".toList, "data/x.yaml:copy".toList]⟩⟩ = true := by
  decide
example : dumpStage ⟨10, some ⟨false, ['0'], some ['0', '0', '5'], none⟩, none⟩
    = ("STAGE10".toList, [("stage-weight".toList, "0.005".toList)]) := by decide

end Numbers

end St4sd.C19
