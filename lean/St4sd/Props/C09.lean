import St4sd.Lemmas.C09
import St4sd.Model.RefSession
import St4sd.Model.RefDir
import St4sd.Gen.C09
/-!
# C09 — Data references parse, print and classify consistently

Property theorems about `St4sd.Ref` (model of flowir.py 3369-3586, 1342-1420, 1228-1234 and
graph.py 462-802).  All theorems quantify over every string, every name set (`sf` = reserved
folders, `deps` = application dependencies, `extra` = top-level / manifest folders, `known` =
components per stage) and every stage index.  `SFok sf` (no reserved folder contains a `.`) is
pinned below for the list regenerated from `/repo`.

Vocabulary: `parseFullX` = `FlowIR.ParseDataReferenceFull` plus the `hasIndex` flag (whether the
string carries an explicit `stageN.` prefix); a reference *is treated as a reference to a
component* iff the returned stage index is `some _`.
-/
namespace St4sd.C09
open St4sd.Str St4sd.Ref

/-! ## Pins: what the property relies on in the regenerated constants -/

/-- reserved folders are plain names: no `.`, `/`, `:`; not empty; not stage-like -/
theorem pin_special_folders_plain :
    ∀ f ∈ Gen.C09.specialFoldersC, '.' ∉ f ∧ '/' ∉ f ∧ ':' ∉ f ∧ f ≠ [] := by decide

theorem pin_SFok : SFok Gen.C09.specialFoldersC := fun f hf => (pin_special_folders_plain f hf).1

/-- every reference method is a plain word (so `compile`/`split(':')` round-trips) and `ref` is one -/
theorem pin_methods_plain :
    (∀ m ∈ Gen.C09.dataReferenceMethodsC, ':' ∉ m ∧ '/' ∉ m ∧ m ≠ []) ∧
      ['r', 'e', 'f'] ∈ Gen.C09.dataReferenceMethodsC := by decide

/-- the regular expressions that `stageMatch`, `hasVar`, `hasIdx` re-implement -/
theorem pin_stage_regex : Gen.C09.stageRegexC = "stage([0-9]+)".toList := by decide
theorem pin_variable_pattern : Gen.C09.variablePatternC = "%\\([a-zA-Z0-9_.-]+\\)s".toList := by decide
theorem pin_index_regex : Gen.C09.indexRegexC = "\\[(\\d+)\\]".toList := by decide

/-! ## 1. Parse ∘ print and print ∘ parse -/

/-- Well-formed parts of a component reference: no `:` anywhere, no `/` in the producer, the
producer is not a variable. -/
def WFparts (prod : S) (file : Option S) (m : S) : Prop :=
  ':' ∉ prod ∧ '/' ∉ prod ∧ hasVar prod = false ∧ (match file with | none => True | some f => ':' ∉ f) ∧ ':' ∉ m

/-- **parse_compile (absolute spelling).**  Printing well-formed parts with a stage index and parsing
the result gives the parts back — whatever the context stage and the folder name sets are. -/
theorem parse_compile (sf : List S) (hsf : SFok sf) (prod : S) (file : Option S) (m : S) (n : Nat)
    (h : WFparts prod file m) (idx : Option Nat) (deps extra : List S) :
    parseFull sf (compileReference prod file m (some n)) idx deps extra = some (some n, prod, file, m) := by
  obtain ⟨h1, h2, h3, h4, h5⟩ := h
  have hr : ':' ∉ restOf prod file := by
    cases file with
    | none => simpa [restOf] using h1
    | some f => have h4' : ':' ∉ f := h4; simp [restOf, h1, h4']
  unfold parseFull
  simp only [compileReference, refBody_eq]
  rw [parseFullX_stagePrefix sf hsf n _ m hr h5, splitProd_restOf prod file h2]
  simp [h3]

/-- **parse_compile (relative spelling).**  Printing well-formed parts without a stage index and
parsing in the context stage `i` gives `(i, parts)` back, provided the producer is not empty, not a
folder name and does not itself look like `stageN.x`. -/
theorem parse_compile_relative (sf : List S) (prod : S) (file : Option S) (m : S) (i : Nat)
    (h : WFparts prod file m) (hne : prod ≠ []) (deps extra : List S)
    (hf : prod ∉ folders sf deps extra)
    (hs : (parseProducerReference prod (some i)).2.2 = false) :
    parseFull sf (compileReference prod file m none) (some i) deps extra = some (some i, prod, file, m) := by
  obtain ⟨h1, h2, h3, h4, h5⟩ := h
  have hr : ':' ∉ restOf prod file := by
    cases file with
    | none => simpa [restOf] using h1
    | some f => have h4' : ':' ∉ f := h4; simp [restOf, h1, h4']
  have hsf : prod ∉ sf := fun hc => hf (by simp [folders, hc])
  have habs : isAbs (restOf prod file) = false := by
    cases prod with
    | nil => exact absurd rfl hne
    | cons c p =>
      have : c ≠ '/' := fun e => h2 (by simp [e])
      cases file <;> simp [restOf, isAbs, this]
  have hp := ppr_noIndex prod (some i) hs
  have hsp := splitProd_restOf prod file h2
  have hd : parseDataReference sf (compileReference prod file m none) = some (prod, file, m) := by
    unfold parseDataReference
    simp only [compileReference, refBody_eq, splitColon2_mk _ _ hr h5, habs, Bool.false_eq_true, if_false]
    unfold splitProd at hsp
    cases hq : splitFirst '/' (restOf prod file) with
    | none =>
      rw [hq] at hsp
      simp only [Prod.mk.injEq] at hsp
      rw [hsp.1, ← hsp.2]
    | some ab =>
      obtain ⟨a, b⟩ := ab
      rw [hq] at hsp
      simp only [Prod.mk.injEq] at hsp
      rw [hsp.1, ← hsp.2]
      simp [hsf]
  unfold parseFull
  rw [parseFullX_mk sf _ (some i) deps extra prod file m hd, hp]
  simp [hf, h2, h3]

/-- **compile_parse (absolute grammar).**  Every string `stageN.<rest>:<method>` with a canonically
printed `N` and a single colon is reproduced exactly by printing what the parser returns, unless
the producer is a variable (then the stage is dropped by the parser, by design). -/
theorem compile_parse (sf : List S) (hsf : SFok sf) (n : Nat) (rest m : S) (hr : ':' ∉ rest) (hm : ':' ∉ m)
    (idx : Option Nat) (deps extra : List S) :
    ∃ prod file, parseFull sf (stagePrefix n ++ (rest ++ ':' :: m)) idx deps extra =
        some (if hasVar prod then none else some n, prod, file, m) ∧
      compileReference prod file m (some n) = stagePrefix n ++ (rest ++ ':' :: m) := by
  refine ⟨(splitProd rest).1, (splitProd rest).2, ?_, ?_⟩
  · unfold parseFull
    rw [parseFullX_stagePrefix sf hsf n rest m hr hm]; rfl
  · simp [compileReference, refBody_eq, restOf_splitProd]

/-- **compile_parse (relative grammar).**  Every string that is not an absolute path and carries no
explicit stage prefix (a relative component reference *or* a reference into a reserved / top-level
folder) is reproduced exactly by printing the parsed parts without a stage. -/
theorem compile_parse_relative (sf : List S) (s : S) (idx : Option Nat) (deps extra : List S)
    (si : Option Nat) (job : S) (file : Option S) (m : S)
    (h : parseFullX sf s idx deps extra = some (si, job, file, m, false)) (habs : isAbs s = false) :
    compileReference job file m none = s := by
  obtain ⟨hd, _⟩ := parseFullX_noIndex sf s idx deps extra si job file m h
  obtain ⟨pre, hs, hc⟩ := pdr_cases sf s job m file hd
  obtain ⟨hs1, _, _⟩ := splitColon2_some s pre m hs
  have hpre : isAbs pre = false := by rw [hs1, isAbs_append_colon] at habs; exact habs
  rcases hc with ⟨ha, _⟩ | ⟨_, _, hr, hf⟩ | ⟨_, a, b, _, _, hr, hf⟩ | ⟨_, a, b, hq, _, hr, hf⟩
  · rw [hpre] at ha; cases ha
  · rw [hs1, hr, hf]; simp [compileReference, refBody]
  · rw [hs1, hr, hf]; simp [compileReference, refBody]
  · obtain ⟨hab, _⟩ := splitFirst_some '/' pre a b hq
    rw [hs1, hr, hf, hab]; simp [compileReference, refBody]

/-! ## 2. Expansion to the absolute form is idempotent -/

/-- **expand_idempotent.**  For every string, every context stage, every set of known components,
every list of top-level folders (or none) and both values of `force_expand`: expanding the result of
`expand_potential_component_reference` again changes nothing. -/
theorem expand_idempotent (sf : List S) (hsf : SFok sf) (ref : S) (ctx : Nat)
    (known : Option (List (Nat × List S))) (tlf : Option (List S)) (force : Bool) (r : S)
    (h : expandPotential sf ref ctx known tlf force = some r) :
    expandPotential sf r ctx known tlf force = some r := by
  unfold expandPotential at h
  cases hp : parseFullX sf ref none [] [] with
  | none => rw [hp] at h; cases h
  | some q =>
    obtain ⟨si, prod, file, m, has⟩ := q
    rw [hp] at h
    simp only at h
    by_cases hv : isVarRef prod = true
    · rw [if_pos hv] at h
      cases h
      unfold expandPotential; rw [hp]; simp only; rw [if_pos hv]
    · rw [if_neg hv] at h
      by_cases hrc : expandDecision si prod ctx known tlf force = true
      · rw [if_pos hrc] at h
        simp only [Option.some.injEq] at h
        obtain ⟨ref0, hd, hjob, _, _⟩ := parseFullX_some sf ref none [] [] si prod file m has hp
        obtain ⟨hc1, hc2, hc3, _⟩ := pdr_colon_free sf ref ref0 m file hd
        have hprod : ':' ∉ prod := by
          rw [← hjob]; intro hc; exact hc1 (ppr_job_subset ref0 none _ hc)
        have hr : ':' ∉ restOf prod file := by
          cases file with
          | none => simpa [restOf] using hprod
          | some f => simp [restOf, hprod, hc2 f rfl]
        have hform : r = stagePrefix (si.getD ctx) ++ (restOf prod file ++ ':' :: m) := by
          rw [← h]; simp [compileReference, refBody_eq]
        have hx := parseFullX_stagePrefix sf hsf (si.getD ctx) (restOf prod file) m hr hc3 none [] []
        rw [hform]
        unfold expandPotential
        rw [hx]
        simp only
        by_cases hv2 : isVarRef (splitProd (restOf prod file)).1 = true
        · rw [if_pos hv2]
        · rw [if_neg hv2]
          have hv3 : hasVar (splitProd (restOf prod file)).1 = false := by
            cases hh : hasVar (splitProd (restOf prod file)).1 with
            | false => rfl
            | true => exact absurd (by simp [isVarRef, hh]) hv2
          simp only [hv3, Bool.false_eq_true, if_false, Option.getD_some]
          by_cases hrc2 : expandDecision (some (si.getD ctx)) (splitProd (restOf prod file)).1 ctx known tlf force = true
          · rw [if_pos hrc2]; simp [compileReference, refBody_eq, restOf_splitProd]
          · rw [if_neg hrc2]
      · rw [if_neg hrc] at h
        cases h
        unfold expandPotential; rw [hp]; simp only; rw [if_neg hv, if_neg hrc]

/-! ## 3. Relative and absolute spellings agree -/

/-- **relative_absolute_agree.**  If the relative spelling `rel`, read in context stage `i`, is a
component reference `(j, prod, file, m)` (no explicit stage in the string), then `j = i` and the
absolute spelling `stage<i>.<rel>` — read in *any* context — names the same producer, file and
method in stage `i`. -/
theorem relative_absolute_agree (sf : List S) (hsf : SFok sf) (rel : S) (i j : Nat) (deps extra : List S)
    (prod : S) (file : Option S) (m : S)
    (h : parseFullX sf rel (some i) deps extra = some (some j, prod, file, m, false))
    (idx : Option Nat) :
    j = i ∧ parseFullX sf (stagePrefix i ++ rel) idx deps extra = some (some i, prod, file, m, true) := by
  obtain ⟨hd, hsi⟩ := parseFullX_noIndex sf rel (some i) deps extra (some j) prod file m h
  -- the reference is not direct
  have hnd : ((folders sf deps extra).contains prod || prod.contains '/' || hasVar prod) = false := by
    cases hdd : ((folders sf deps extra).contains prod || prod.contains '/' || hasVar prod) with
    | false => rfl
    | true => rw [hdd] at hsi; simp at hsi
  rw [hnd] at hsi
  simp only [Bool.false_eq_true, if_false, Option.some.injEq] at hsi
  simp only [Bool.or_eq_false_iff, List.contains_eq_mem, decide_eq_false_iff_not] at hnd
  obtain ⟨⟨_, hslash⟩, hvar⟩ := hnd
  refine ⟨hsi, ?_⟩
  obtain ⟨pre, hs, hc⟩ := pdr_cases sf rel prod m file hd
  obtain ⟨hs1, hpre, hm'⟩ := splitColon2_some rel pre m hs
  have key := parseFullX_stagePrefix sf hsf i pre m hpre hm' idx deps extra
  rw [hs1, key]
  rcases hc with ⟨ha, hr, _⟩ | ⟨_, hq, hr, hf⟩ | ⟨_, a, b, hq, _, hr, _⟩ | ⟨_, a, b, hq, _, hr, hf⟩
  · exact absurd (hr ▸ posixSplit_abs pre ha) hslash
  · subst hr hf
    simp [splitProd, hq, hvar]
  · obtain ⟨hab, _⟩ := splitFirst_some '/' pre a b hq
    exact absurd (by rw [hr, hab]; simp) hslash
  · subst hr hf
    simp [splitProd, hq, hvar]

/-! ## 4. Classification -/

/-- first path segment of the text before the colon -/
def firstSeg (pre : S) : S := (splitProd pre).1

/-- **classification (iff).**  Let `value = pre:m` parse in context stage `i`.  It is treated as a
reference to a component **iff** its producer is not a variable and either it carries an explicit
`stageN.` prefix, or it is not an absolute path and its first path segment is not a reserved
folder, an application-dependency name or a top-level / manifest folder.  In the second case the
component is the first path segment, in the context stage. -/
theorem classification (sf : List S) (value pre m' : S) (i : Nat) (deps extra : List S)
    (si : Option Nat) (job : S) (file : Option S) (m : S) (has : Bool)
    (hs : splitColon2 value = some (pre, m'))
    (h : parseFullX sf value (some i) deps extra = some (si, job, file, m, has)) :
    (si.isSome = true ↔
      hasVar job = false ∧ (has = true ∨ (isAbs pre = false ∧ firstSeg pre ∉ folders sf deps extra))) ∧
    (has = false → si.isSome = true → si = some i ∧ job = firstSeg pre) := by
  cases has with
  | true =>
    obtain ⟨ref0, _, _, hhas, hsi⟩ := parseFullX_some sf value (some i) deps extra si job file m true h
    have hsome := ppr_hasIndex ref0 (some i) hhas
    refine ⟨?_, by simp⟩
    rw [hsi]
    cases hv : hasVar job <;> simp [hsome]
  | false =>
    obtain ⟨hd, hsi⟩ := parseFullX_noIndex sf value (some i) deps extra si job file m h
    obtain ⟨pre2, hs2, hc⟩ := pdr_cases sf value job m file hd
    have hpp : pre2 = pre := by
      rw [hs] at hs2; simp only [Option.some.injEq, Prod.mk.injEq] at hs2; exact hs2.1.symm
    subst hpp
    rcases hc with ⟨ha, hr, _⟩ | ⟨ha, hq, hr, _⟩ | ⟨ha, a, b, hq, hin, hr, _⟩ | ⟨ha, a, b, hq, hin, hr, _⟩
    · -- absolute path
      have hsl : '/' ∈ job := hr ▸ posixSplit_abs pre2 ha
      have hn : si = none := by rw [hsi]; simp [hsl]
      subst hn
      simp [ha]
    · have hns : '/' ∉ pre2 := (splitFirst_none_iff '/' pre2).mp hq
      have hfs : firstSeg pre2 = pre2 := by simp [firstSeg, splitProd, hq]
      subst hr
      rw [hsi, hfs]
      by_cases hf : job ∈ folders sf deps extra <;> cases hv : hasVar job <;> simp [hf, hv, hns, ha]
    · -- reserved folder: the whole path is the producer
      obtain ⟨hab, _⟩ := splitFirst_some '/' pre2 a b hq
      have hsl : '/' ∈ job := by rw [hr, hab]; simp
      have hn : si = none := by rw [hsi]; simp [hsl]
      have hfs : firstSeg pre2 = a := by simp [firstSeg, splitProd, hq]
      subst hn
      simp [hfs, folders, hin]
    · obtain ⟨_, hna⟩ := splitFirst_some '/' pre2 a b hq
      have hfs : firstSeg pre2 = a := by simp [firstSeg, splitProd, hq]
      subst hr
      rw [hsi, hfs]
      by_cases hf : job ∈ folders sf deps extra <;> cases hv : hasVar job <;> simp [hf, hv, hna, ha]

/-- Clause "never treated as a reference to a component", spelled out: no explicit stage prefix and
(first segment is a reserved folder / app-dep / top-level folder, or absolute path, or variable
producer) ⇒ not a component reference. -/
theorem direct_never_component (sf : List S) (value pre m' : S) (i : Nat) (deps extra : List S)
    (si : Option Nat) (job : S) (file : Option S) (m : S)
    (hs : splitColon2 value = some (pre, m'))
    (h : parseFullX sf value (some i) deps extra = some (si, job, file, m, false))
    (hd : firstSeg pre ∈ folders sf deps extra ∨ isAbs pre = true ∨ hasVar job = true) : si = none := by
  have hc := (classification sf value pre m' i deps extra si job file m false hs h).1
  cases si with
  | none => rfl
  | some n =>
    have := hc.mp rfl
    rcases hd with hd | hd | hd
    · simp [hd] at this
    · simp [hd] at this
    · simp [hd] at this

/-- Clause "every other reference … is", spelled out: no explicit stage prefix, not absolute, first
segment not a folder name and not a variable ⇒ component `firstSeg` of the context stage. -/
theorem other_is_component (sf : List S) (value pre m' : S) (i : Nat) (deps extra : List S)
    (si : Option Nat) (job : S) (file : Option S) (m : S)
    (hs : splitColon2 value = some (pre, m'))
    (h : parseFullX sf value (some i) deps extra = some (si, job, file, m, false))
    (h1 : firstSeg pre ∉ folders sf deps extra) (h2 : isAbs pre = false) (h3 : hasVar job = false) :
    si = some i ∧ job = firstSeg pre := by
  have hc := classification sf value pre m' i deps extra si job file m false hs h
  have : si.isSome = true := hc.1.mpr ⟨h3, Or.inr ⟨h2, h1⟩⟩
  exact hc.2 rfl this

/-- A reference whose producer is a known component of the stage it resolves to is rewritten to the
absolute spelling by `expand_potential_component_reference`, whatever the folder lists are. -/
theorem known_component_expanded (sf : List S) (ref : S) (ctx : Nat) (k : List (Nat × List S))
    (tlf : Option (List S)) (force : Bool) (si : Option Nat) (prod : S) (file : Option S) (m : S) (has : Bool)
    (hp : parseFullX sf ref none [] [] = some (si, prod, file, m, has))
    (hv : isVarRef prod = false) (hk : prod ∈ knownAt k (si.getD ctx)) :
    expandPotential sf ref ctx (some k) tlf force = some (compileReference prod file m (some (si.getD ctx))) := by
  simp [expandPotential, expandDecision, hp, hv, hk]

/-- A reference without stage prefix whose first segment is one of the folders handed to
`expand_component_references` (manifest top-level folders, app-dep names, reserved folders), and
is not the name of a known component of the context stage, is left as it is. -/
theorem direct_reference_not_expanded (sf : List S) (value pre m' : S) (ctx : Nat)
    (known : Option (List (Nat × List S))) (deps tlf : List S)
    (si : Option Nat) (prod : S) (file : Option S) (m : S)
    (hs : splitColon2 value = some (pre, m'))
    (hp : parseFullX sf value none [] [] = some (si, prod, file, m, false))
    (habs : isAbs pre = false)
    (hf : firstSeg pre ∈ expandAllFolders sf deps tlf)
    (hk : ∀ k, known = some k → ∀ x ∈ knownAt k ctx, x ≠ firstSeg pre ∧ '/' ∉ x) :
    expandOne sf value ctx known deps tlf = some value := by
  obtain ⟨hd, hsi⟩ := parseFullX_noIndex sf value none [] [] si prod file m hp
  have hn : si = none := by rw [hsi]; split <;> rfl
  obtain ⟨pre2, hs2, hc⟩ := pdr_cases sf value prod m file hd
  have hpp : pre2 = pre := by
    rw [hs] at hs2; simp only [Option.some.injEq, Prod.mk.injEq] at hs2; exact hs2.1.symm
  subst hpp hn
  have hprod : prod = firstSeg pre2 ∨ '/' ∈ prod := by
    rcases hc with ⟨ha, _, _⟩ | ⟨_, hq, hr, _⟩ | ⟨_, a, b, hq, _, hr, _⟩ | ⟨_, a, b, hq, _, hr, _⟩
    · rw [habs] at ha; cases ha
    · left; simp [firstSeg, splitProd, hq, hr]
    · right; obtain ⟨hab, _⟩ := splitFirst_some '/' pre2 a b hq; rw [hr, hab]; simp
    · left; simp [firstSeg, splitProd, hq, hr]
  unfold expandOne expandPotential
  rw [hp]
  simp only
  split
  · rfl
  · have hnk : ∀ k, known = some k → prod ∉ knownAt k ctx := by
      intro k hk' hmem
      obtain ⟨h1, h2⟩ := hk k hk' prod hmem
      rcases hprod with e | e
      · exact h1 e
      · exact h2 e
    have hdec : expandDecision none prod ctx known (some (expandAllFolders sf deps tlf)) false = false := by
      unfold expandDecision
      cases known with
      | none =>
        rcases hprod with e | e
        · have : prod ∈ expandAllFolders sf deps tlf := e ▸ hf
          simp [this]
        · simp [e]
      | some k =>
        have hk2 := hnk k rfl
        rcases hprod with e | e
        · have : prod ∈ expandAllFolders sf deps tlf := e ▸ hf
          simp [this, hk2]
        · simp [e, hk2]
    rw [hdec]
    simp

/-! ## 5. Manifest folders (repaired `Manifest.top_level_folders`) -/

/-- the first path segment of a path below a manifest key is a top-level folder of the manifest -/
theorem firstSeg_under_key_mem (keys : List S) (key rest : S) (hk : key ∈ keys) :
    firstSeg (key ++ '/' :: rest) ∈ topLevelFolders keys ∧ firstSeg key ∈ topLevelFolders keys := by
  have h2 : firstSeg key ∈ topLevelFolders keys := by
    unfold topLevelFolders firstSeg splitProd
    refine List.mem_map.mpr ⟨key, hk, ?_⟩
    cases splitFirst '/' key with
    | none => rfl
    | some ab => rfl
  refine ⟨?_, h2⟩
  have : firstSeg (key ++ '/' :: rest) = firstSeg key := by
    unfold firstSeg splitProd
    cases hq : splitFirst '/' key with
    | none =>
      have hn : '/' ∉ key := (splitFirst_none_iff '/' key).mp hq
      rw [splitFirst_mk '/' key rest hn]
    | some ab =>
      obtain ⟨a, b⟩ := ab
      obtain ⟨hab, hna⟩ := splitFirst_some '/' key a b hq
      have : key ++ '/' :: rest = a ++ '/' :: (b ++ '/' :: rest) := by rw [hab]; simp
      rw [this, splitFirst_mk '/' a _ hna]
  rw [this]; exact h2

/-- **manifest_top_level.**  With the top-level folders computed from *any* manifest (flat or nested
keys), a reference `key/rest:m` or `key:m` to a manifest folder that carries no stage prefix is never
treated as a reference to a component. -/
theorem manifest_top_level (sf : List S) (keys : List S) (key : S) (hk : key ∈ keys)
    (value pre m' : S) (i : Nat) (deps : List S) (si : Option Nat) (job : S) (file : Option S) (m : S)
    (hs : splitColon2 value = some (pre, m'))
    (hpre : pre = key ∨ ∃ rest, pre = key ++ '/' :: rest)
    (h : parseFullX sf value (some i) deps (topLevelFolders keys) = some (si, job, file, m, false)) :
    si = none := by
  apply direct_never_component sf value pre m' i deps (topLevelFolders keys) si job file m hs h
  left
  have : firstSeg pre ∈ topLevelFolders keys := by
    rcases hpre with rfl | ⟨rest, rfl⟩
    · exact (firstSeg_under_key_mem keys _ [] hk).2
    · exact (firstSeg_under_key_mem keys key rest hk).1
  simp [folders, this]

/-- repaired `top_level_folders` never returns a name with a `/` -/
theorem topLevelFolders_no_slash (keys : List S) : ∀ f ∈ topLevelFolders keys, '/' ∉ f := by
  intro f hf
  obtain ⟨k, _, rfl⟩ := List.mem_map.mp hf
  have := splitProd_fst_no_slash k
  unfold splitProd at this
  cases hq : splitFirst '/' k with
  | none => simpa [hq] using this
  | some ab => simpa [hq] using this

/-! ## 6. Sessions: every answer is a function of the call's own arguments

`Model/RefSession.lean`: a *session* is a sequence of calls (with their optional arguments spelled
`none` / `some []` / `some l`) made in one interpreter whose class-level tables
(`FlowIR.SpecialFolders`, `data_reference_methods`, `DataReference.methods`) are `t`.  The theorems
below hold for every session, i.e. every history of earlier calls with any other name sets. -/

/-- **session_tables_invariant.**  No sequence of calls changes the class-level tables. -/
theorem session_tables_invariant (t : Tables) (cs : List Call) : (run t cs).1 = t := by
  induction cs generalizing t with
  | nil => rfl
  | cons c cs ih => simp [run, step, ih]

/-- **session_answers_pointwise.**  The answers of a session are the answers of its calls taken one
by one: nothing is carried from one call to the next. -/
theorem session_answers_pointwise (t : Tables) (cs : List Call) : (run t cs).2 = cs.map (answer t) := by
  induction cs generalizing t with
  | nil => rfl
  | cons c cs ih => simp [run, step, ih]

/-- the `k`-th answer of any session is `answer t` of the `k`-th call -/
theorem session_answer_at (t : Tables) (cs : List Call) (k : Nat) (c : Call) (h : cs[k]? = some c) :
    (run t cs).2[k]? = some (answer t c) := by
  rw [session_answers_pointwise]; simp [h]

/-- **answer_depends_only_on_arguments.**  After any two histories `h1`, `h2` the same call gets the
same answer, namely the one it gets in a fresh interpreter. -/
theorem answer_depends_only_on_arguments (t : Tables) (h1 h2 : List Call) (c : Call) :
    (run t (h1 ++ [c])).2.getLast? = some (answer t c) ∧
    (run t (h2 ++ [c])).2.getLast? = some (answer t c) ∧
    (run t [c]).2 = [answer t c] := by
  simp [session_answers_pointwise]

/-- **classification_depends_only_on_arguments.**  The classification of a reference
(`ParseDataReferenceFull`) in a session is determined by the string, the context stage and the
application dependencies / top-level folders *of that call*: it is the pure `parseFull` of
`Model/Ref.lean` (about which sections 1-5 speak), whatever was parsed before — in particular the
application dependencies of earlier calls are not reserved names for later ones. -/
theorem classification_depends_only_on_arguments (t : Tables) (hist : List Call) (v : S) (i : Option Nat)
    (deps extra : Option (List S)) :
    (run t (hist ++ [.full v i deps extra])).2.getLast? =
      some (match parseFull t.special v i (olist deps) (olist extra) with
        | none => Answer.err
        | some (si, job, f, m) => Answer.full si job f m) := by
  simp only [session_answers_pointwise, List.map_append, List.map_cons, List.map_nil, answer]
  cases parseFull t.special v i (olist deps) (olist extra) with
  | none => simp
  | some q => obtain ⟨si, job, f, m⟩ := q; simp

/-- a session may be cut into batches at any point: same tables, same answers -/
theorem session_split (t : Tables) (a b : List Call) :
    run t (a ++ b) = (t, (run t a).2 ++ (run t b).2) := by
  apply Prod.ext
  · exact session_tables_invariant t (a ++ b)
  · simp [session_answers_pointwise]

/-- **session_reorder.**  The same call made at position `k` of one session and at position `k'` of
any other session (other calls before it, other order) gets the same answer. -/
theorem session_reorder (t : Tables) (cs cs' : List Call) (k k' : Nat) (c : Call)
    (h : cs[k]? = some c) (h' : cs'[k']? = some c) : (run t cs).2[k]? = (run t cs').2[k']? := by
  rw [session_answer_at t cs k c h, session_answer_at t cs' k' c h']

/-! ### optional arguments: `None` and `[]` are the same (empty) name set -/

/-- `ParseDataReferenceFull`: `application_dependencies` / `special_folders` given as `None` or `[]` -/
theorem optional_none_is_empty_full (t : Tables) (v : S) (i : Option Nat) (d e : Option (List S)) :
    answer t (.full v i none e) = answer t (.full v i (some []) e) ∧
    answer t (.full v i d none) = answer t (.full v i d (some [])) := by
  simp [answer, olist]

/-- `is_datareference_to_component`, `expand_component_references`, `DataReferenceInfo`,
`validate_references` -/
theorem optional_none_is_empty_others (t : Tables) (v : S) (refs : List S) (ctx : Nat) (known : Option Known)
    (k : Known) (d e : Option (List S)) (im : Option Nat) :
    answer t (.isc v none) = answer t (.isc v (some [])) ∧
    answer t (.expandAll refs ctx known none e) = answer t (.expandAll refs ctx known (some []) e) ∧
    answer t (.expandAll refs ctx known d none) = answer t (.expandAll refs ctx known d (some [])) ∧
    answer t (.dri v ctx none) = answer t (.dri v ctx (some [])) ∧
    answer t (.vrefs v k im none) = answer t (.vrefs v k im (some [])) := by
  simp [answer, olist, expandAll, dataRefInfo, validateRefs]

/-- `expand_potential_component_reference`: `top_level_folders=None` and `[]` give the same answer -/
theorem optional_none_is_empty_expand (t : Tables) (v : S) (ctx : Nat) (known : Option Known) (force : Bool) :
    answer t (.expand v ctx known none force) = answer t (.expand v ctx known (some []) force) := by
  simp [answer, expandPotential, expandDecision]

/-! ### the folder / dependency arguments are name *sets* -/

/-- **classification_depends_only_on_name_sets.**  Two spellings of the folder arguments with the same
members (other order, duplicates, a name moved between the application dependencies and the top-level
folders) classify every string identically. -/
theorem classification_depends_only_on_name_sets (sf : List S) (v : S) (i : Option Nat)
    (d1 e1 d2 e2 : List S) (h : ∀ x, x ∈ folders sf d1 e1 ↔ x ∈ folders sf d2 e2) :
    parseFullX sf v i d1 e1 = parseFullX sf v i d2 e2 := by
  unfold parseFullX
  cases parseDataReference sf v with
  | none => rfl
  | some q =>
    obtain ⟨ref, file, m⟩ := q
    simp only
    have : (folders sf d1 e1).contains (parseProducerReference ref i).2.1 =
        (folders sf d2 e2).contains (parseProducerReference ref i).2.1 := by
      simp only [List.contains_eq_mem]
      exact decide_eq_decide.mpr (h _)
    rw [this]

/-- the same for the top-level-folder list of `expand_potential_component_reference` -/
theorem expand_depends_only_on_name_sets (sf : List S) (v : S) (ctx : Nat) (known : Option Known)
    (t1 t2 : List S) (force : Bool) (h : ∀ x, x ∈ t1 ↔ x ∈ t2) :
    expandPotential sf v ctx known (some t1) force = expandPotential sf v ctx known (some t2) force := by
  have hc : ∀ p : S, t1.contains p = t2.contains p := fun p => by
    simp only [List.contains_eq_mem]; exact decide_eq_decide.mpr (h p)
  have he : t1.isEmpty = t2.isEmpty := by
    cases t1 with
    | nil =>
      cases t2 with
      | nil => rfl
      | cons b t2 => exact absurd ((h b).mpr (by simp)) (by simp)
    | cons a t1 =>
      cases t2 with
      | nil => exact absurd ((h a).mp (by simp)) (by simp)
      | cons b t2 => rfl
  unfold expandPotential expandDecision
  simp only [hc, he]

/-! ## 7. Top-level folders derived from disk (`Model/RefDir.lean`)

The folder set of the clause "top-level or manifest folder of the package" is not an input of the
code: it is derived from the package / instance directory by `Manifest.fromDirectory` (implied
manifest), merged with the explicit manifest by `configurationForExperiment`.  The theorems below
hold for **every** directory listing (any mix of real directories, files, links to directories, links
to files, broken links, other entries), every explicit manifest and every reference string. -/

/-- names returned by `os.listdir` never contain a `/` -/
def ListingOk (l : List Entry) : Prop := ∀ e ∈ l, '/' ∉ e.name

/-- **mem_impliedKeys_iff.**  `Manifest.fromDirectory(path, include_dirs=d, include_files=f)` has the
key `n` iff the directory has an entry called `n` that — links followed — is a directory (and `d`) or
a regular file (and `f`). -/
theorem mem_impliedKeys_iff (l : List Entry) (d f : Bool) (n : S) :
    n ∈ impliedKeys (some l) d f ↔
      ∃ e ∈ l, e.name = n ∧ ((d = true ∧ e.kind.isDir = true) ∨ (f = true ∧ e.kind.isFile = true)) := by
  unfold impliedKeys
  simp only [List.mem_map, List.mem_filter, Bool.or_eq_true, Bool.and_eq_true]
  constructor
  · rintro ⟨e, ⟨he, hk⟩, rfl⟩; exact ⟨e, he, rfl, hk⟩
  · rintro ⟨e, he, rfl, hk⟩; exact ⟨e, ⟨he, hk⟩, rfl⟩

/-- a path that is not a directory has no implied manifest -/
theorem impliedKeys_not_a_directory (d f : Bool) : impliedKeys none d f = [] := rfl

/-- the left-most folder of a key without `/` is the key -/
theorem topLevelFolders_flat (keys : List S) (h : ∀ k ∈ keys, '/' ∉ k) : topLevelFolders keys = keys := by
  induction keys with
  | nil => rfl
  | cons k ks ih =>
    have hk : splitFirst '/' k = none := (splitFirst_none_iff '/' k).mpr (h k (by simp))
    have := ih (fun x hx => h x (by simp [hx]))
    unfold topLevelFolders at this ⊢
    simp [hk, this]

/-- `mergedKeys` has exactly the members of both key lists -/
theorem mem_mergedKeys (explicit implied : List S) (k : S) :
    k ∈ mergedKeys explicit implied ↔ k ∈ explicit ∨ k ∈ implied := by
  unfold mergedKeys
  simp only [List.mem_append, List.mem_filter, Bool.not_eq_true', List.contains_eq_mem, decide_eq_false_iff_not]
  constructor
  · rintro (h | ⟨h, _⟩)
    · exact Or.inl h
    · exact Or.inr h
  · rintro (h | h)
    · exact Or.inl h
    · by_cases hk : k ∈ explicit
      · exact Or.inl hk
      · exact Or.inr ⟨h, hk⟩

/-- **derived_folder_iff.**  Without an explicit manifest, `n` is a top-level folder of the package
**iff** the package directory has an entry `n` that resolves to a directory (a real directory or a
link / chain of links ending in one): nothing more (no file, no link to a file, no broken link), nothing
less (no linked directory is left out). -/
theorem derived_folder_iff (l : List Entry) (hl : ListingOk l) (n : S) :
    n ∈ packageFolders (some l) [] ↔ ∃ e ∈ l, e.name = n ∧ e.kind.isDir = true := by
  have hflat : ∀ k ∈ mergedKeys [] (impliedKeys (some l) true false), '/' ∉ k := by
    intro k hk
    rcases (mem_mergedKeys _ _ k).mp hk with h | h
    · cases h
    · obtain ⟨e, he, rfl, _⟩ := (mem_impliedKeys_iff l true false k).mp h
      exact hl e he
  unfold packageFolders
  rw [topLevelFolders_flat _ hflat, mem_mergedKeys, mem_impliedKeys_iff]
  simp

/-- **packageFolders_superset.**  Whatever the explicit manifest is, the folder set of the loaded
package contains the left-most folder of every explicit key and every entry of the package directory
that resolves to a directory. -/
theorem packageFolders_superset (l : List Entry) (explicit : List S) :
    (∀ k ∈ explicit, firstSeg k ∈ packageFolders (some l) explicit) ∧
    (∀ e ∈ l, e.kind.isDir = true → firstSeg e.name ∈ packageFolders (some l) explicit) := by
  constructor
  · intro k hk
    exact (firstSeg_under_key_mem _ k [] ((mem_mergedKeys _ _ k).mpr (Or.inl hk))).2
  · intro e he hd
    have : e.name ∈ impliedKeys (some l) true false :=
      (mem_impliedKeys_iff l true false e.name).mpr ⟨e, he, rfl, Or.inl ⟨rfl, hd⟩⟩
    exact (firstSeg_under_key_mem _ e.name [] ((mem_mergedKeys _ _ e.name).mpr (Or.inr this))).2

/-- **link_to_directory_is_top_level_folder.**  A symbolic link to a directory at the top level of the
package is a top-level folder of the package, with or without an explicit manifest. -/
theorem link_to_directory_is_top_level_folder (l : List Entry) (explicit : List S) (e : Entry)
    (he : e ∈ l) (hk : e.kind = .linkDir) (hn : '/' ∉ e.name) : e.name ∈ packageFolders (some l) explicit := by
  have h := (packageFolders_superset l explicit).2 e he (by rw [hk]; rfl)
  have hfs : firstSeg e.name = e.name := by
    simp [firstSeg, splitProd, (splitFirst_none_iff '/' e.name).mpr hn]
  rwa [hfs] at h

/-- **directory_entry_never_component.**  Let `e` be an entry of the package directory that resolves
to a directory.  Under the folder set that loading the package derives from disk (any explicit
manifest), a reference `e:m` or `e/rest:m` without stage prefix is never treated as a reference to a
component by `ParseDataReferenceFull`. -/
theorem directory_entry_never_component (sf : List S) (l : List Entry) (explicit : List S) (e : Entry)
    (he : e ∈ l) (hd : e.kind.isDir = true)
    (value pre m' : S) (i : Nat) (deps : List S) (si : Option Nat) (job : S) (file : Option S) (m : S)
    (hs : splitColon2 value = some (pre, m'))
    (hpre : pre = e.name ∨ ∃ rest, pre = e.name ++ '/' :: rest)
    (h : parseFullX sf value (some i) deps (packageFolders (some l) explicit) = some (si, job, file, m, false)) :
    si = none := by
  have hmem : e.name ∈ mergedKeys explicit (impliedKeys (some l) true false) :=
    (mem_mergedKeys _ _ _).mpr (Or.inr ((mem_impliedKeys_iff l true false e.name).mpr ⟨e, he, rfl, Or.inl ⟨rfl, hd⟩⟩))
  exact manifest_top_level sf _ e.name hmem value pre m' i deps si job file m hs hpre h

/-- **directory_entry_not_expanded.**  … and `expand_component_references` leaves it as it is (when its
first segment is not also the name of a known component of the context stage). -/
theorem directory_entry_not_expanded (sf : List S) (l : List Entry) (explicit : List S) (e : Entry)
    (he : e ∈ l) (hd : e.kind.isDir = true)
    (value pre m' : S) (ctx : Nat) (known : Option (List (Nat × List S))) (deps : List S)
    (si : Option Nat) (prod : S) (file : Option S) (m : S)
    (hs : splitColon2 value = some (pre, m'))
    (hpre : pre = e.name ∨ ∃ rest, pre = e.name ++ '/' :: rest)
    (hp : parseFullX sf value none [] [] = some (si, prod, file, m, false))
    (habs : isAbs pre = false)
    (hk : ∀ k, known = some k → ∀ x ∈ knownAt k ctx, x ≠ firstSeg pre ∧ '/' ∉ x) :
    expandOne sf value ctx known deps (packageFolders (some l) explicit) = some value := by
  have hmem : e.name ∈ mergedKeys explicit (impliedKeys (some l) true false) :=
    (mem_mergedKeys _ _ _).mpr (Or.inr ((mem_impliedKeys_iff l true false e.name).mpr ⟨e, he, rfl, Or.inl ⟨rfl, hd⟩⟩))
  have hf : firstSeg pre ∈ packageFolders (some l) explicit := by
    rcases hpre with rfl | ⟨rest, rfl⟩
    · exact (firstSeg_under_key_mem _ _ [] hmem).2
    · exact (firstSeg_under_key_mem _ e.name rest hmem).1
  apply direct_reference_not_expanded sf value pre m' ctx known deps _ si prod file m hs hp habs _ hk
  simp [expandAllFolders, hf]

/-- **directory_entry_not_a_component_reference.**  … and `is_datareference_to_component` answers
`False` for it under the derived folder set. -/
theorem directory_entry_not_a_component_reference (sf : List S) (l : List Entry) (explicit : List S) (e : Entry)
    (he : e ∈ l) (hd : e.kind.isDir = true)
    (value pre m' ref : S) (file : Option S) (m : S)
    (hs : splitColon2 value = some (pre, m'))
    (hpre : pre = e.name ∨ ∃ rest, pre = e.name ++ '/' :: rest)
    (hdr : parseDataReference sf value = some (ref, file, m))
    (habs : isAbs pre = false)
    (hni : (parseProducerReference ref none).2.2 = false) :
    isDataRefToComponent sf value (packageFolders (some l) explicit) = some false := by
  have hmem : e.name ∈ mergedKeys explicit (impliedKeys (some l) true false) :=
    (mem_mergedKeys _ _ _).mpr (Or.inr ((mem_impliedKeys_iff l true false e.name).mpr ⟨e, he, rfl, Or.inl ⟨rfl, hd⟩⟩))
  have hf : firstSeg pre ∈ packageFolders (some l) explicit := by
    rcases hpre with rfl | ⟨rest, rfl⟩
    · exact (firstSeg_under_key_mem _ _ [] hmem).2
    · exact (firstSeg_under_key_mem _ e.name rest hmem).1
  obtain ⟨pre2, hs2, hc⟩ := pdr_cases sf value ref m file hdr
  have hpp : pre2 = pre := by
    rw [hs] at hs2; simp only [Option.some.injEq, Prod.mk.injEq] at hs2; exact hs2.1.symm
  subst hpp
  have hprod : ref = firstSeg pre2 ∨ '/' ∈ ref := by
    rcases hc with ⟨ha, _, _⟩ | ⟨_, hq, hr, _⟩ | ⟨_, a, b, hq, _, hr, _⟩ | ⟨_, a, b, hq, _, hr, _⟩
    · rw [habs] at ha; cases ha
    · left; simp [firstSeg, splitProd, hq, hr]
    · right; obtain ⟨hab, _⟩ := splitFirst_some '/' pre2 a b hq; rw [hr, hab]; simp
    · left; simp [firstSeg, splitProd, hq, hr]
  unfold isDataRefToComponent
  rw [hdr]
  simp only [ppr_noIndex ref none hni]
  rcases hprod with e1 | e1
  · have : ref ∈ packageFolders (some l) explicit := e1 ▸ hf
    simp [this]
  · simp [e1]

/-- **instance_keeps_package_folders.**  Every top-level folder of a package directory is a top-level
folder of the instance directory created from it (entries are copied with their kind: links stay
links), and so are `input`, `stages` and `output`. -/
theorem instance_keeps_package_folders (pkg : List Entry) (n : S) (h : n ∈ packageFolders (some pkg) []) :
    n ∈ packageFolders (some (instanceListing pkg)) [] := by
  unfold packageFolders at h ⊢
  obtain ⟨k, hk, rfl⟩ := List.mem_map.mp h
  refine List.mem_map.mpr ⟨k, ?_, rfl⟩
  rcases (mem_mergedKeys _ _ k).mp hk with h0 | h0
  · cases h0
  · obtain ⟨e, he, hn, hc⟩ := (mem_impliedKeys_iff pkg true false k).mp h0
    exact (mem_mergedKeys _ _ k).mpr (Or.inr ((mem_impliedKeys_iff _ true false k).mpr
      ⟨e, by simp [instanceListing, he], hn, hc⟩))

/-- **deployed_manifest_folder.**  The entry that deploying a manifest key (`:copy` or `:link`) creates
in the instance directory resolves to a directory and is called like the left-most folder of the key:
when the instance is loaded again, that folder is in the derived set whichever method deployed it. -/
theorem deployed_manifest_folder (key : S) (m : Deploy) (l : List Entry) (h : deployEntry key m ∈ l) :
    (deployEntry key m).kind.isDir = true ∧ (deployEntry key m).name = firstSeg key ∧
      firstSeg key ∈ packageFolders (some l) [] := by
  have h1 : (deployEntry key m).kind.isDir = true := by
    unfold deployEntry
    cases splitFirst '/' key with
    | none => cases m <;> rfl
    | some ab => rfl
  have h2 : (deployEntry key m).name = firstSeg key := by
    unfold deployEntry firstSeg splitProd
    cases splitFirst '/' key with
    | none => rfl
    | some ab => rfl
  refine ⟨h1, h2, ?_⟩
  have := (packageFolders_superset l []).2 _ h h1
  rw [h2] at this
  have hidem : firstSeg (firstSeg key) = firstSeg key := by
    have hn : '/' ∉ firstSeg key := splitProd_fst_no_slash key
    have hq : splitFirst '/' (firstSeg key) = none := (splitFirst_none_iff '/' _).mpr hn
    show (splitProd (firstSeg key)).1 = firstSeg key
    unfold splitProd
    rw [hq]
  rwa [hidem] at this

/-! ## Non-vacuity: the hypotheses are satisfiable by non-trivial inputs -/

/-- a package directory with a real folder, a linked folder, a file, a link to a file and a broken
link: the folder set, and a reference into the linked folder -/
example : packageFolders (some [⟨"conf".toList, .dir⟩, ⟨"forcefield".toList, .linkDir⟩, ⟨"README.md".toList, .file⟩,
      ⟨"latest".toList, .linkFile⟩, ⟨"gone".toList, .broken⟩]) ["data/sets".toList]
    = ["data".toList, "conf".toList, "forcefield".toList] := by decide

example : parseFullX Gen.C09.specialFoldersC "forcefield/params.txt:ref".toList (some 0) []
      (packageFolders (some [⟨"conf".toList, .dir⟩, ⟨"forcefield".toList, .linkDir⟩]) [])
    = some (none, "forcefield".toList, some "params.txt".toList, "ref".toList, false) := by decide

example : isDataRefToComponent Gen.C09.specialFoldersC "forcefield:copy".toList
      (packageFolders (some [⟨"forcefield".toList, .linkDir⟩, ⟨"gone".toList, .broken⟩]) []) = some false ∧
    isDataRefToComponent Gen.C09.specialFoldersC "gone:copy".toList
      (packageFolders (some [⟨"forcefield".toList, .linkDir⟩, ⟨"gone".toList, .broken⟩]) []) = some true := by decide

example : ListingOk [⟨"conf".toList, .dir⟩, ⟨"forcefield".toList, .linkDir⟩] := by unfold ListingOk; decide

example : WFparts "gen.x-1".toList (some "out/a.txt".toList) "ref".toList := by unfold WFparts; decide

example : parseFull Gen.C09.specialFoldersC "stage3.gen.x-1/out/a.txt:ref".toList (some 7) [] []
    = some (some 3, "gen.x-1".toList, some "out/a.txt".toList, "ref".toList) := by decide

example : parseFullX Gen.C09.specialFoldersC "0#loop/f:loopref".toList (some 2) [] ["foo".toList]
    = some (some 2, "0#loop".toList, some ['f'], "loopref".toList, false) := by decide

/-- a reference into a nested manifest folder is direct with the repaired `topLevelFolders` -/
example : parseFullX Gen.C09.specialFoldersC "foo/bar/f:ref".toList (some 0) [] (topLevelFolders ["foo/bar".toList])
    = some (none, "foo".toList, some "bar/f".toList, "ref".toList, false) := by decide

example : expandPotential Gen.C09.specialFoldersC "c0/x:copy".toList 1 (some [(1, ["c0".toList])]) none false
    = some "stage1.c0/x:copy".toList := by decide

example : expandOne Gen.C09.specialFoldersC "mydep/x:copy".toList 1 (some [(1, ["c0".toList])])
    ["/opt/Apps/MyDep.git/".toList] [] = some "mydep/x:copy".toList := by decide

/-- the prefix-matching quirk of `stage([0-9]+)` that the model keeps -/
example : parseProducerReference "stage01x.foo".toList none = (some 1, "foo".toList, true) := by decide

/-- a session in which an application dependency `Solver.application` is declared by an earlier call
(without a top-level-folder list) and a later call refers to a *component* `solver`: the later
reference is a component reference, the tables are untouched -/
example :
    run ⟨Gen.C09.specialFoldersC, Gen.C09.dataReferenceMethodsC, Gen.C09.dataReferenceMethodsC⟩
      [.full "solver/bin/run.sh:ref".toList (some 0) (some ["/opt/Solver.application".toList]) none,
       .full "solver/out.dat:copy".toList (some 0) none none]
    = (⟨Gen.C09.specialFoldersC, Gen.C09.dataReferenceMethodsC, Gen.C09.dataReferenceMethodsC⟩,
       [.full none "solver".toList (some "bin/run.sh".toList) "ref".toList,
        .full (some 0) "solver".toList (some "out.dat".toList) "copy".toList]) := by decide

end St4sd.C09
