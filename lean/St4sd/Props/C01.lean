import St4sd.Model.Ctrl
import St4sd.Model.CtrlSplit
import St4sd.Lemmas.C01
import St4sd.Lemmas.C01Split
import St4sd.Model.CtrlLoop
import St4sd.Lemmas.C01Loop
/-!
# C01 — a component is launched only when all its producers are final, and never on a failed one

Property theorems only, about the transition system `St4sd.Ctrl.run wf ops` for **every** workflow
`wf` (no well-formedness hypothesis) and **every** operation sequence `ops` — scheduler passes,
task exits, notification deliveries, kills and stage transitions (`Op.next`: the stage loop of
`elaunch.Run`, with or without `continue-on-error`), so the theorems cover launches in every stage
of a multi-stage run and launches of future-stage components.  The ghost field
`log` records, at every scheduler launch `runComp wf s c`, what the launch saw of each producer
(`viewOf s p`: true controller state and membership of `comp_staged_in`).

The state invariant and its preservation by every operation are in `St4sd/Lemmas/C01.lean`
(`C01L.Inv`, `C01L.step_spec`).
-/
namespace St4sd.C01
open St4sd.Ctrl St4sd.C01L

/-- Every producer seen at a launch is in a final state; the only exception are same-stage
producers of a *repeating* consumer, which must already be staged in. -/
theorem launch_after_producers_final (wf : Wf) (ops : List Op) :
    ∀ e ∈ (run wf ops).log, ∀ pv ∈ e.2,
      pv.2.state.isSome = true ∨
        ((wf.cdef e.1).isRepeat = true ∧ (wf.cdef pv.1).stage = (wf.cdef e.1).stage ∧
          pv.2.staged = true) :=
  fun e he => ((run_inv wf ops).log e he).final

/-- No component is ever launched while one of its producers is FAILED. -/
theorem never_launch_on_failed (wf : Wf) (ops : List Op) :
    ∀ e ∈ (run wf ops).log, ∀ pv ∈ e.2, pv.2.state ≠ some .failed :=
  fun e he => ((run_inv wf ops).log e he).nofail

/-- A non-aggregating component is never launched while one of its producers is SHUTDOWN. -/
theorem never_launch_on_shutdown_nonaggregating (wf : Wf) (ops : List Op) :
    ∀ e ∈ (run wf ops).log, (wf.cdef e.1).isAgg = false →
      ∀ pv ∈ e.2, pv.2.state ≠ some .shutdown :=
  fun e he => ((run_inv wf ops).log e he).nonagg

/-- An aggregating component is launched only if none of its non-replicating producers is SHUTDOWN
and, when it has replicating producers, at least one of them is not SHUTDOWN. -/
theorem aggregating_rule (wf : Wf) (ops : List Op) :
    ∀ e ∈ (run wf ops).log, (wf.cdef e.1).isAgg = true →
      (∀ pv ∈ e.2, (wf.cdef pv.1).isRepl = false → pv.2.state ≠ some .shutdown) ∧
      ((∃ pv ∈ e.2, (wf.cdef pv.1).isRepl = true) →
        ∃ pv ∈ e.2, (wf.cdef pv.1).isRepl = true ∧ pv.2.state ≠ some .shutdown) :=
  fun e he ha => ⟨((run_inv wf ops).log e he).agg1 ha, ((run_inv wf ops).log e he).agg2 ha⟩

/-- A log entry lists exactly the producers of the launched component, in order (so the four
theorems above speak about *all* producers). -/
theorem log_lists_all_producers (wf : Wf) (ops : List Op) :
    ∀ e ∈ (run wf ops).log, e.2.map Prod.fst = (wf.cdef e.1).preds :=
  fun e he => ((run_inv wf ops).log e he).preds

/-- Members of `comp_done` are in a final state. -/
theorem done_implies_final (wf : Wf) (ops : List Op) (c : Nat) :
    (run wf ops).done c = true → ((run wf ops).comp c).ctrl.isSome = true :=
  (run_inv wf ops).core.done c

/-- Final states are absorbing: once `controllerState` of a component is final it never changes,
whatever happens afterwards (in particular `finish` never takes its overwriting branch). -/
theorem final_is_permanent (wf : Wf) (ops ops' : List Op) (c : Nat) (f : Fin3) :
    ((run wf ops).comp c).ctrl = some f → ((run wf (ops ++ ops')).comp c).ctrl = some f := by
  intro h
  unfold run
  rw [List.foldl_append]
  exact (foldl_inv wf ops' _ (run_inv wf ops)).2 c f h

/-- Every component whose engine was started (`ran`) has a launch entry in the log, so the
launch theorems cover every execution. -/
theorem launched_has_log_entry (wf : Wf) (ops : List Op) (c : Nat) :
    ((run wf ops).comp c).ran = true → ∃ e ∈ (run wf ops).log, e.1 = c :=
  (run_inv wf ops).ran c

/-! ## non-vacuity

Diamond `0 → {1, 2} → 3` (3 aggregates the replicated 1 and 2; 1 exits with a `shutdownOn`
reason), plus a repeating observer 4 of component 0 in the same stage; `graph.nodes` order is
not topological. -/

def wfEx : Wf where
  n := 5
  cdef := fun c => match c with
    | 0 => {}
    | 1 => { preds := [0], isRepl := true, shutdownOn := [.knownIssue], script := [.knownIssue] }
    | 2 => { preds := [0], isRepl := true }
    | 3 => { preds := [1, 2], isAgg := true }
    | 4 => { preds := [0], isRepeat := true }
    | _ => {}
  order := [3, 4, 1, 0, 2]

def opsEx : List Op :=
  [.sched, .sched, .exit 0, .pm 0, .fin 0, .sched, .exit 1, .pm 1, .fin 1, .exit 2, .pm 2, .fin 2, .sched]

/-- five launches, in the order 0, 4, 1, 2, 3; the repeating observer 4 was launched while its
producer 0 was still running (state `none`, staged in), and the aggregator 3 was launched with
one of its two replicating producers SHUTDOWN. -/
example : (run wfEx opsEx).log =
    [(0, []),
     (4, [(0, { state := none, staged := true })]),
     (1, [(0, { state := some .finished, staged := true })]),
     (2, [(0, { state := some .finished, staged := true })]),
     (3, [(1, { state := some .shutdown, staged := true }),
          (2, { state := some .finished, staged := true })])] := by decide +kernel

example : (run wfEx opsEx).log.length = 5 := by decide +kernel

example : ∃ e ∈ (run wfEx opsEx).log, ∃ pv ∈ e.2, pv.2.state = none ∧ pv.2.staged = true := by
  decide +kernel

example : ∃ e ∈ (run wfEx opsEx).log, (wfEx.cdef e.1).isAgg = true ∧
    ∃ pv ∈ e.2, pv.2.state = some .shutdown := by decide +kernel

example : ((run wfEx opsEx).comp 3).launches = 1 ∧ ((run wfEx opsEx).comp 3).ran = true ∧
    ((run wfEx opsEx).comp 1).ctrl = some .shutdown ∧ (run wfEx opsEx).done 2 = true := by
  decide +kernel

/-- same workflow, but producer 2 exits with a `shutdownOn` reason as well -/
def wfEx2 : Wf :=
  { wfEx with
    cdef := fun c =>
      if c = 2 then
        { preds := [0], isRepl := true, shutdownOn := [.knownIssue], script := [.knownIssue] }
      else wfEx.cdef c }

/-- the rules also *refuse*: with both replicating producers shut down the aggregator is not
launched but shut down by the scheduler. -/
example : (run wfEx2 opsEx).log.length = 4 ∧ ((run wfEx2 opsEx).comp 3).ran = false ∧
    ((run wfEx2 opsEx).comp 3).ctrl = some .shutdown := by decide +kernel

/-! ### two stages: an aggregating consumer in a later stage than its replicated producers

Replicas 0 (ends `UnknownIssue`: FAILED) and 1, a third component 2 in stage 0; the aggregator 3 of
the replicas lives in stage 1.  Stage 0 has `continue-on-error`. -/

def wfEx3 : Wf where
  n := 4
  lastStage := 1
  contOnErr := fun k => k == 0
  cdef := fun c => match c with
    | 0 => { isRepl := true, script := [.unknownIssue] }
    | 1 => { isRepl := true }
    | 2 => {}
    | 3 => { stage := 1, preds := [0, 1], isAgg := true }
    | _ => {}
  order := [3, 0, 1, 2]

/-- both replicas are recorded while component 2 of the failing stage is still winding down; the
scheduler pass in that window looks at the future-stage aggregator -/
def opsEx3a : List Op :=
  [.sched, .sched, .exit 0, .pm 0, .exit 1, .pm 1, .fin 1, .fin 0, .sched, .exit 2, .fin 2, .fin 3]

/-- the failed replica is the last notification of stage 0; the aggregator is inspected only after
the transition to stage 1 -/
def opsEx3b : List Op :=
  [.sched, .sched, .exit 1, .pm 1, .fin 1, .exit 2, .pm 2, .fin 2, .exit 0, .pm 0, .fin 0, .next,
   .sched, .sched, .fin 3]

/-- in both orderings the aggregator is never launched (one healthy replica notwithstanding) but
shut down -/
example : (run wfEx3 opsEx3a).log.map (·.1) = [0, 1, 2] ∧ ((run wfEx3 opsEx3a).comp 3).ran = false ∧
    ((run wfEx3 opsEx3a).comp 3).ctrl = some .shutdown ∧ (run wfEx3 opsEx3a).cur = 0 := by
  decide +kernel

example : (run wfEx3 opsEx3b).log.map (·.1) = [0, 1, 2] ∧ ((run wfEx3 opsEx3b).comp 3).ran = false ∧
    ((run wfEx3 opsEx3b).comp 3).ctrl = some .shutdown ∧ (run wfEx3 opsEx3b).cur = 1 ∧
    ((run wfEx3 opsEx3b).comp 0).ctrl = some .failed ∧
    ((run wfEx3 opsEx3b).comp 1).ctrl = some .finished := by
  decide +kernel

/-! ## `finishedCheck` split at its lock boundaries (`St4sd/Model/CtrlSplit.lean`)

The theorems above treat the handler of a finished-notification as one step.  In the real controller it
runs on a pool thread and only its middle part holds `comp_lock`; `srun wf sops` is the transition
system in which the three parts `finPre c` (before the lock), `finCrit c` (under the lock), `finPost c`
(after it: `comp_done.add`) are separate operations that interleave arbitrarily with scheduler passes,
task exits, other (split or unsplit) deliveries, kills and stage transitions.  All launch theorems hold
for every such history. -/

/-- The part of the handler before `comp_lock` changes nothing that anybody reads: component states,
`comp_done`, `stop_executing`, the current stage and the launch log are untouched (the notification
just moves from the queue to `inflight`).  So an interleaving at that point cannot be observed. -/
theorem split_prelock_changes_nothing (wf : Wf) (s : SSt) (c : Nat) :
    (sstep wf s (.finPre c)).base.comp = s.base.comp ∧ (sstep wf s (.finPre c)).base.done = s.base.done ∧
    (sstep wf s (.finPre c)).base.stop = s.base.stop ∧ (sstep wf s (.finPre c)).base.cur = s.base.cur ∧
    (sstep wf s (.finPre c)).base.log = s.base.log := by
  simp only [sstep]
  split <;> exact ⟨rfl, rfl, rfl, rfl, rfl⟩

/-- The three parts executed back to back are the atomic delivery `Op.fin c`. -/
theorem split_parts_in_sequence_eq_fin (wf : Wf) (s : St) (c : Nat) :
    (sstep wf (sstep wf (sstep wf { base := s } (.finPre c)) (.finCrit c)) (.finPost c)) =
      { base := step wf s (.fin c) } := by
  show _ = ({ base := deliverFin wf s c } : SSt)
  rw [deliverFin_eq]
  by_cases hm : Notif.fin c ∈ s.pending
  · simp [sstep, hm]
  · simp [sstep, hm]

/-- Histories without split deliveries are histories of the split system: the split system extends
`run`. -/
theorem split_extends_run (wf : Wf) (ops : List Op) :
    (srun wf (ops.map SOp.base)).base = run wf ops ∧ (srun wf (ops.map SOp.base)).inflight = [] := by
  unfold srun run
  rw [srun_base]
  exact ⟨rfl, rfl⟩

theorem split_launch_after_producers_final (wf : Wf) (sops : List SOp) :
    ∀ e ∈ (srun wf sops).base.log, ∀ pv ∈ e.2,
      pv.2.state.isSome = true ∨
        ((wf.cdef e.1).isRepeat = true ∧ (wf.cdef pv.1).stage = (wf.cdef e.1).stage ∧
          pv.2.staged = true) :=
  fun e he => ((srun_inv wf sops).inv.log e he).final

theorem split_never_launch_on_failed (wf : Wf) (sops : List SOp) :
    ∀ e ∈ (srun wf sops).base.log, ∀ pv ∈ e.2, pv.2.state ≠ some .failed :=
  fun e he => ((srun_inv wf sops).inv.log e he).nofail

theorem split_never_launch_on_shutdown_nonaggregating (wf : Wf) (sops : List SOp) :
    ∀ e ∈ (srun wf sops).base.log, (wf.cdef e.1).isAgg = false →
      ∀ pv ∈ e.2, pv.2.state ≠ some .shutdown :=
  fun e he => ((srun_inv wf sops).inv.log e he).nonagg

theorem split_aggregating_rule (wf : Wf) (sops : List SOp) :
    ∀ e ∈ (srun wf sops).base.log, (wf.cdef e.1).isAgg = true →
      (∀ pv ∈ e.2, (wf.cdef pv.1).isRepl = false → pv.2.state ≠ some .shutdown) ∧
      ((∃ pv ∈ e.2, (wf.cdef pv.1).isRepl = true) →
        ∃ pv ∈ e.2, (wf.cdef pv.1).isRepl = true ∧ pv.2.state ≠ some .shutdown) :=
  fun e he ha => ⟨((srun_inv wf sops).inv.log e he).agg1 ha, ((srun_inv wf sops).inv.log e he).agg2 ha⟩

theorem split_log_lists_all_producers (wf : Wf) (sops : List SOp) :
    ∀ e ∈ (srun wf sops).base.log, e.2.map Prod.fst = (wf.cdef e.1).preds :=
  fun e he => ((srun_inv wf sops).inv.log e he).preds

theorem split_launched_has_log_entry (wf : Wf) (sops : List SOp) (c : Nat) :
    ((srun wf sops).base.comp c).ran = true → ∃ e ∈ (srun wf sops).base.log, e.1 = c :=
  (srun_inv wf sops).inv.ran c

/-- Members of `comp_done` are final, and so is every component whose notification is being handled. -/
theorem split_done_or_inflight_implies_final (wf : Wf) (sops : List SOp) (c : Nat) :
    ((srun wf sops).base.done c = true ∨ ∃ ph, (c, ph) ∈ (srun wf sops).inflight) →
      ((srun wf sops).base.comp c).ctrl.isSome = true := by
  rintro (h | ⟨ph, h⟩)
  · exact (srun_inv wf sops).inv.core.done c h
  · exact (srun_inv wf sops).fly (c, ph) h

/-- Final states stay what they are in every continuation of a split history. -/
theorem split_final_is_permanent (wf : Wf) (sops sops' : List SOp) (c : Nat) (f : Fin3) :
    ((srun wf sops).base.comp c).ctrl = some f → ((srun wf (sops ++ sops')).base.comp c).ctrl = some f := by
  intro h
  unfold srun
  rw [List.foldl_append]
  exact (sfoldl_inv wf sops' _ (srun_inv wf sops)).2 c f h

/-! ### non-vacuity of the split system

`wfEx3`: replica 0 fails.  Its notification is handled in three parts; a scheduler pass runs between
the critical region (stage stopped, component 2 asked to shut down) and `comp_done.add`, another one
after it, and the notification of replica 1 is handled (atomically) while that of replica 0 waits for
the lock. -/

def sopsEx3 : List SOp :=
  [.base .sched, .base .sched, .base (.exit 0), .base (.pm 0), .base (.exit 1), .base (.pm 1),
   .finPre 0, .base (.fin 1), .base .sched, .finCrit 0, .base .sched, .finPost 0, .base .sched,
   .base (.exit 2), .base (.fin 2), .base (.fin 3)]

example : (srun wfEx3 sopsEx3).base.log.map (·.1) = [0, 1, 2] ∧
    ((srun wfEx3 sopsEx3).base.comp 3).ran = false ∧
    ((srun wfEx3 sopsEx3).base.comp 3).ctrl = some .shutdown ∧ (srun wfEx3 sopsEx3).inflight = [] ∧
    (srun wfEx3 sopsEx3).base.done 0 = true := by decide +kernel

/-- in the middle of that history the notification of component 0 is in flight, waiting for `finPost`:
the stage has been stopped, component 0 is not yet in `comp_done` -/
example : (srun wfEx3 (sopsEx3.take 11)).inflight = [(0, .waitRecord)] ∧
    (srun wfEx3 (sopsEx3.take 11)).base.done 0 = false ∧
    ((srun wfEx3 (sopsEx3.take 11)).base.comp 2).finishCalled = true := by decide +kernel

/-! ### a repeating consumer of a producer of an EARLIER stage

`0` (stage 0) → repeating `1` (stage 1).  The exception of the main clause covers same-stage producers only:
the scheduler pass that runs while stage 0 is current and `0` is running (staged in) does not launch `1`;
it is launched once `0` has been recorded. -/

def wfRepLater : Wf where
  n := 2
  lastStage := 1
  cdef := fun c => match c with
    | 0 => {}
    | 1 => { stage := 1, preds := [0], isRepeat := true }
    | _ => {}
  order := [1, 0]

example : (run wfRepLater [.sched, .sched, .sched]).log = [(0, [])] ∧
    ((run wfRepLater [.sched, .sched, .sched]).comp 0).staged = true := by decide +kernel

example : (run wfRepLater [.sched, .sched, .exit 0, .pm 0, .sched, .fin 0, .sched]).log =
    [(0, []), (1, [(0, { state := some .finished, staged := true })])] := by decide +kernel

/-! ### the external stage-completion hook (`SOp.complete k`, `Ctrl.stopStage`)

`0` (stage 0, running) → `1` (stage 1).  The hook of stage 0 fires: `0` is asked to shut down, its task is
still being killed.  The scheduler passes in that window do not launch `1` (its producer is not final and
not recorded); once the kill has completed and the notification has been handled, `1` is shut down without
running.  All `split_…` theorems above quantify over histories with `complete` operations. -/

def sopsHook : List SOp :=
  [.base .sched, .complete 0, .base .sched, .base .sched, .base (.exit 0), .base .sched, .base (.fin 0),
   .base .next, .base .sched, .base (.fin 1)]

example : ((srun wfEx3 [.base .sched, .complete 0]).base.comp 2).finishCalled = true ∧
    ((srun wfEx3 [.base .sched, .complete 0]).base.comp 2).ctrl = none := by decide +kernel

def wfHook : Wf where
  n := 2
  lastStage := 1
  cdef := fun c => match c with
    | 0 => {}
    | 1 => { stage := 1, preds := [0] }
    | _ => {}
  order := [1, 0]

example : (srun wfHook (sopsHook.take 4)).base.log = [(0, [])] ∧
    ((srun wfHook (sopsHook.take 4)).base.comp 0).finishCalled = true ∧
    ((srun wfHook (sopsHook.take 4)).base.comp 0).ctrl = none ∧
    (srun wfHook (sopsHook.take 4)).base.done 0 = false := by decide +kernel

example : (srun wfHook sopsHook).base.log = [(0, [])] ∧ ((srun wfHook sopsHook).base.comp 1).ran = false ∧
    (List.range 2).map (fun c => ((srun wfHook sopsHook).base.comp c).ctrl) = [some .shutdown, some .shutdown] ∧
    (srun wfHook sopsHook).base.cur = 1 ∧ (srun wfHook sopsHook).base.done 1 = true := by decide +kernel

/-! ## Consumers of a DoWhile loop (`St4sd.CtrlLoop`): the set of producers grows while the workflow runs

The consumer outside the loop has an edge from every instantiated instance of the looped components it references
and from the producer of the current condition.  For every loop, every list of condition answers and every history
of task exits / the two locked parts of `finishedCheck` / scheduler passes (dependencies inside the loop abstracted
away, so in particular the histories in which an older instance outlives the newer iterations): -/

/-- What the launch of the consumer saw: every instance - of EVERY iteration instantiated so far, not only of the
latest one - of every looped component it references was over and recorded in `comp_done`. -/
theorem loop_launch_after_every_instance_over (L : CtrlLoop.Loop) (script : List Bool) (ops : List CtrlLoop.Op) :
    ∀ c lp, (CtrlLoop.run L script ops).launched = some (c, lp) →
      ∀ k, k ≤ c → ∀ n ∈ L.refs, n < L.n → lp k n = 3 :=
  fun c lp h k hk => (((C01Loop.inv_run L script ops).launch c lp h).2.2 k hk).1

/-- ... and every producer of a loop condition so far (the consumer has an edge from each of them). -/
theorem loop_launch_after_every_condition_producer_over (L : CtrlLoop.Loop) (script : List Bool)
    (ops : List CtrlLoop.Op) :
    ∀ c lp, (CtrlLoop.run L script ops).launched = some (c, lp) → ∀ k, k ≤ c → lp k L.cond = 3 :=
  fun c lp h k hk => (((C01Loop.inv_run L script ops).launch c lp h).2.2 k hk).2

/-- No iteration is instantiated after the consumer was launched: the loop is still at the iteration the launch
saw (the producer of the current condition was in `comp_done`, and the next iteration is created before that). -/
theorem loop_no_iteration_after_launch (L : CtrlLoop.Loop) (script : List Bool) (ops : List CtrlLoop.Op) :
    ∀ c lp, (CtrlLoop.run L script ops).launched = some (c, lp) → (CtrlLoop.run L script ops).cur = c :=
  fun c lp h => ((C01Loop.inv_run L script ops).launch c lp h).1.symm

/-- The launch record is permanent. -/
theorem loop_launch_is_permanent (L : CtrlLoop.Loop) (script : List Bool) (ops ops' : List CtrlLoop.Op)
    (v : Nat × (Nat → Nat → Nat)) (h : (CtrlLoop.run L script ops).launched = some v) :
    (CtrlLoop.run L script (ops ++ ops')).launched = some v := by
  unfold CtrlLoop.run at *
  rw [List.foldl_append]
  exact C01Loop.launched_foldl L ops' _ v h

/-- The statement the end-of-run oracle of the harness evaluates: every instance the consumer FINALLY consumes
from (whatever happens after its launch: `ops'`) was over and recorded when the consumer was launched. -/
theorem loop_consumer_launched_after_all_its_final_producers (L : CtrlLoop.Loop) (script : List Bool)
    (ops ops' : List CtrlLoop.Op) (c : Nat) (lp : Nat → Nat → Nat)
    (h : (CtrlLoop.run L script ops).launched = some (c, lp)) :
    ∀ k, k ≤ (CtrlLoop.run L script (ops ++ ops')).cur → ∀ n ∈ L.refs, n < L.n → lp k n = 3 := by
  have h' := loop_launch_is_permanent L script ops ops' (c, lp) h
  have e := loop_no_iteration_after_launch L script (ops ++ ops') c lp h'
  intro k hk
  exact loop_launch_after_every_instance_over L script (ops ++ ops') c lp h' k (by omega)

/-- iterations that were never instantiated have no history (instances exist for the iterations `≤ cur` only) -/
theorem loop_uninstantiated_iterations_untouched (L : CtrlLoop.Loop) (script : List Bool) (ops : List CtrlLoop.Op) :
    ∀ k n, (CtrlLoop.run L script ops).cur < k → (CtrlLoop.run L script ops).ph k n = 0 :=
  (C01Loop.inv_run L script ops).fresh

/-- two looped components, `0` produces the condition, the consumer references `1` (off the critical path) -/
def loopEx : CtrlLoop.Loop := { n := 2, cond := 0, refs := [1] }

/-- iteration 0 of component 1 is still running while iteration 1 is instantiated, runs and is over -/
def loopOpsLaggard : List CtrlLoop.Op :=
  [.exit 0 0, .crit 0 0 true, .post 0 0, .exit 1 0, .crit 1 0 true, .post 1 0,
   .exit 1 1, .crit 1 1 true, .post 1 1, .sched]

/-- non-vacuity: the consumer is launched after two iterations, and not while the laggard runs -/
example : (CtrlLoop.run loopEx [true, false] loopOpsLaggard).launched.isNone = true ∧
    (CtrlLoop.run loopEx [true, false] loopOpsLaggard).cur = 1 := by decide

example : ((CtrlLoop.run loopEx [true, false]
      (loopOpsLaggard ++ [.exit 0 1, .crit 0 1 true, .sched, .post 0 1, .sched])).launched.map
        (fun v => (v.1, v.2 0 1, v.2 1 1))) = some (1, 3, 3) := by decide

end St4sd.C01
