import St4sd.Lemmas.C13
import St4sd.Lemmas.C13Sub
/-!
# C13 — A repeating observer sees its producers' final output and then stops

Property theorems about the model `St4sd.Repeat` (Model/Repeat.lean) of `RepeatingEngine`'s poll protocol.
Every theorem quantifies over ALL histories `h : List Op`: arbitrary interleavings of the engine's atomic
sub-steps with the environment operations (producers finished, new output, external kill, kill-delay timer,
long wait), arbitrary task outcomes (success / failure / the task generator raises).
`exec cfg h` is the state reached from `init cfg` by `h`.

The second part is about the model `St4sd.RepeatSub` (Model/RepeatSub.lean) of the subscription in
`ComponentState.stageIn` that decides WHEN `notify_all_producers_finished` is called, for all lists of producer
references (repetitions included) and all orders of stage-in / producer finishes, and about the composed system
(subscription + poll protocol) in which `fin` is no free operation of the environment any more.
-/
namespace St4sd.C13
open St4sd.Repeat

private theorem invA_all (cfg : Cfg) (h : List Op) : InvA cfg (exec cfg h) :=
  run_induction (InvA cfg) (fun s op hs => invA_step cfg s op hs) h _ (invA_init cfg)

private theorem invB_all (cfg : Cfg) (h : List Op) : InvB cfg (exec cfg h) :=
  run_induction (InvB cfg) (fun s op hs => invB_step cfg s op hs) h _ (invB_init cfg)

private theorem invBC_all (cfg : Cfg) (hf : Fixed cfg) (h : List Op) :
    InvB cfg (exec cfg h) ∧ InvC cfg (exec cfg h) :=
  run_induction (fun s => InvB cfg s ∧ InvC cfg s)
    (fun s op hs => ⟨invB_step cfg s op hs.1, invC_step cfg hf s op hs.1 hs.2⟩) h _
    ⟨invB_init cfg, invC_init cfg⟩

private theorem invBD_all (cfg : Cfg) (hr : 1 ≤ cfg.retries) (hp : cfg.preOutput = false) (h : List Op) :
    InvB cfg (exec cfg h) ∧ InvD cfg (exec cfg h) :=
  run_induction (fun s => InvB cfg s ∧ InvD cfg s)
    (fun s op hs => ⟨invB_step cfg s op hs.1, invD_step cfg hr s op hs.1 hs.2⟩) h _
    ⟨invB_init cfg, invD_init cfg hp⟩

/-- Clause 1: the engine never executes before there is producer output it can consume: every launch in
every history happened when some producer output existed (or the component has no producers at all), and
the `consume` flag is only ever set in that situation. -/
theorem no_exec_before_consume (cfg : Cfg) (h : List Op) :
    (∀ e ∈ (exec cfg h).execLog, e.avail = true) ∧
    ((exec cfg h).consume = true → cfg.noProd = true ∨ (exec cfg h).hasOutput = true) :=
  ⟨(invA_all cfg h).2, (invA_all cfg h).1⟩

/-- Clause 2a: while the producers have not finished, nobody but an external `kill()` sets the cancel
event: the engine never stops itself early (neither through its success/retries bookkeeping nor through the
kill delay). -/
theorem no_early_stop (cfg : Cfg) (h : List Op) :
    (exec cfg h).cancel = true → (exec cfg h).prodDone = false → (exec cfg h).cause = some .external := by
  have hB := invB_all cfg h
  simp only [InvB] at hB
  intro hc hp
  obtain ⟨_, _, _, _, h5, h6, _⟩ := hB
  have : (exec cfg h).cause ≠ none := h6.mp hc
  cases hcs : (exec cfg h).cause with
  | none => exact absurd hcs this
  | some c => cases c <;> simp_all

/-- a stop decided by the engine's own bookkeeping happens only after the producers finished -/
theorem self_stop_after_finished (cfg : Cfg) (h : List Op) :
    selfCause (exec cfg h) → (exec cfg h).prodDone = true := by
  have hB := invB_all cfg h
  simp only [InvB] at hB
  intro hs
  rcases hs with hs | hs
  · exact hB.2.2.2.2.1 (Or.inl hs)
  · exact hB.2.2.2.2.1 (Or.inr (Or.inl hs))

/-- Clause 2b (partial): in every history in which the engine stops *itself* (cause `success` or `retries`,
i.e. not an external kill and not the kill delay), was able to consume and there is producer output, some
execution was launched at or after the instant the last producer output appeared.
PARTIAL: needs `1 ≤ repeatRetries` and that no producer output predates `run()`.  Without them the code
that exists violates the statement (`Witness.C13.zero_retries_race_misses_final_output`,
`Witness.C13.output_before_run_never_looked_at`).  Holds with and without the two repairs. -/
theorem stop_implies_final_output_seen_partial (cfg : Cfg) (hr : 1 ≤ cfg.retries)
    (hp : cfg.preOutput = false) (h : List Op) :
    selfCause (exec cfg h) → (exec cfg h).consume = true → (exec cfg h).hasOutput = true →
    ∃ e ∈ (exec cfg h).execLog, (exec cfg h).lastOutput ≤ e.launch := by
  have hD := (invBD_all cfg hr hp h).2
  simp only [InvD] at hD
  intro hs hc ho
  obtain ⟨_, _, _, _, _, _, _, d2b, _, _, _, _, _, _, d8⟩ := hD
  obtain ⟨hne, hle⟩ := d8 hs hc ho
  cases hl : (exec cfg h).execLog with
  | nil => exact absurd hl hne
  | cons e es =>
    refine ⟨e, by simp, ?_⟩
    have := d2b e (by simp [hl])
    omega

/-- Clause 3 (for the repaired code): after the producers finished the engine's action is started as a
normal poll at most `repeatRetries + 1` times (`pollsFin` counts the polls that begin with the
producers-finished flag set); every such poll reaches the stop/retry bookkeeping (`books`), and as long as
the cancel event is not set each of them has used up one retry. -/
theorem bounded_after_finished (cfg : Cfg) (hf : Fixed cfg) (h : List Op) :
    (exec cfg h).pollsFin ≤ cfg.retries + 1 ∧ (exec cfg h).books ≤ cfg.retries + 1 ∧
    ((exec cfg h).cancel = false → (exec cfg h).books + (exec cfg h).retries ≤ cfg.retries) := by
  obtain ⟨_, hC⟩ := invBC_all cfg hf h
  simp only [InvC] at hC
  obtain ⟨_, c2, c3, c4⟩ := hC
  refine ⟨?_, by omega, fun hc => c3 (Or.inl hc)⟩
  split at c4
  · rename_i hm
    have := c3 (Or.inr (Or.inl hm.1))
    omega
  · omega

/-- … the first execution that started with the producers finished and succeeds sets the cancel event … -/
theorem success_after_finished_stops (cfg : Cfg) (s : St) (n f d : Bool) (o : Outcome)
    (hpc : s.pc = .ready n f true d true false) (hd : d = true) :
    (step cfg s (.eng o)).cancel = true := by
  subst hd
  simp only [step, engStep, hpc, post, doKill]
  repeat' split
  all_goals simp_all

/-- … and once the cancel event is set and the poll in progress is over, the monitor makes one last call of
the action (`lastAction`, no execution) and exits: two engine steps later the engine is stopped and dead. -/
theorem cancelled_then_stopped (cfg : Cfg) (s : St) (o o' : Outcome) (hpc : s.pc = .idle)
    (hc : s.cancel = true) :
    let s' := step cfg (step cfg s (.eng o)) (.eng o')
    s'.pc = .stopped ∧ alive s' = false ∧ s'.execLog = s.execLog := by
  simp [step, engStep, hpc, hc, alive]

/-- nothing happens to the execution log after the monitor exited -/
theorem stopped_no_more_launches (cfg : Cfg) (s : St) (o : Outcome) (hpc : s.pc = .stopped) :
    (step cfg s (.eng o)).execLog = s.execLog ∧ (step cfg s (.eng o)).pc = .stopped := by
  simp [step, engStep, hpc]

/-! ## Non-vacuity: concrete scripted histories satisfying the hypotheses -/

def cfgFixed : Cfg :=
  { retries := 3, dieAfter := false, noProd := false, alwaysNew := false, preOutput := false,
    guardNone := true, killOnSuicidePoll := true }

private def it0 : Iter := { gap := [], s0 := [], s1 := [], s2 := [], s3 := [], s4 := [], out := .ok }

/-- output, a launch, more output and the notification between the output check and the producers-done
sample of the second poll, then a successful launch that sees the final output: stopped by `success` -/
def histSuccess : List Op :=
  (runScript cfgFixed (init cfgFixed)
    [{ it0 with s0 := [.out] }, { it0 with s1 := [.out, .fin] }, it0, it0]).2

example : Fixed cfgFixed ∧ 1 ≤ cfgFixed.retries ∧ cfgFixed.preOutput = false :=
  ⟨⟨rfl, rfl⟩, by decide, rfl⟩

example : let s := exec cfgFixed histSuccess
    s.cause = some .success ∧ s.consume = true ∧ s.hasOutput = true ∧ s.prodDone = true ∧
    s.pc = .stopped ∧ s.execLog.length = 2 ∧ s.retries = 2 ∧ s.pollsFin = 1 := by decide

/-- the task generator raises on every launch after the producers finished (non-repeating producer, so
every poll launches): with the repair every failed launch uses up a retry and the engine stops by `retries`
after 4 polls -/
def histRaises : List Op :=
  (runScript { cfgFixed with alwaysNew := true } (init cfgFixed)
    ([{ it0 with s0 := [.out] }, { it0 with gap := [.fin], out := .raised }] ++
      List.replicate 7 { it0 with out := .raised })).2

example : let s := exec { cfgFixed with alwaysNew := true } histRaises
    s.cause = some .retries ∧ s.pc = .stopped ∧ s.pollsFin = 4 ∧ s.books = 4 ∧ s.retries = 0 ∧
    s.execLog.length = 5 := by decide

/-! ## The subscription that delivers the producers-finished notification -/

open St4sd.RepeatSub

/-- The notification is delivered exactly when ALL producers are finished and not before: for every list of
producer references `refs` (a producer may be referenced several times) and every sequence `h` of stage-in /
component finishes / engine exits (any order, components that are no producers included, producers already
finished before stage-in included), `notify_all_producers_finished` has been called iff the observer was
staged in and every referenced producer has finished. -/
theorem notified_iff_all_producers_finished (refs : List Pid) (h : List SubOp) :
    (subExec refs h).notified = true ↔ (SubOp.stageIn ∈ h ∧ ∀ p ∈ refs, SubOp.pfin p ∈ h) := by
  have hI := subInv_all refs h
  simp only [SubInv] at hI
  obtain ⟨_, h2, h3⟩ := hI
  have hst : (subExec refs h).stagedIn = true ↔ SubOp.stageIn ∈ h := by
    show (subRun (Sub.init refs) h).stagedIn = true ↔ _
    rw [stagedIn_iff]; simp [Sub.init]
  have hfin : ∀ p, p ∈ (subExec refs h).finished ↔ SubOp.pfin p ∈ h := fun p => by
    show p ∈ (subRun (Sub.init refs) h).finished ↔ _
    rw [finished_iff]; simp [Sub.init]
  cases hs : (subExec refs h).stagedIn with
  | false =>
    have hn := (h2 hs).2.1
    have : ¬ SubOp.stageIn ∈ h := fun hm => by
      have h' := hst.mpr hm
      rw [hs] at h'
      exact absurd h' (by decide)
    simp [hn, this]
  | true =>
    obtain ⟨hw, hn, _⟩ := h3 hs
    have hm : SubOp.stageIn ∈ h := hst.mp hs
    rw [hn, hw, List.filter_eq_nil_iff]
    constructor
    · intro hall
      refine ⟨hm, fun p hp => (hfin p).mp ?_⟩
      have := hall p hp
      simpa using this
    · intro ⟨_, hall⟩ p hp
      have := (hfin p).mpr (hall p hp)
      simpa using this

/-- it is called at most once -/
theorem notified_at_most_once (refs : List Pid) (h : List SubOp) : (subExec refs h).count ≤ 1 := by
  have hI := subInv_all refs h
  simp only [SubInv] at hI
  obtain ⟨_, h2, h3⟩ := hI
  cases hs : (subExec refs h).stagedIn with
  | false => have := (h2 hs).2.2; omega
  | true =>
    have := (h3 hs).2.2
    cases hn : (subExec refs h).notified <;> simp [hn, b2n] at this <;> omega

/-- The composed system is the poll protocol run on the projected history: every theorem about all histories
of `St4sd.Repeat` holds for the engine of the composed system. -/
theorem composed_is_history (cfg : Cfg) (refs : List Pid) (h : List COp) :
    (cexec cfg refs h).eng = exec cfg (project (Sub.init refs) h) ∧
    (cexec cfg refs h).sub = subExec refs (subOps h) :=
  ⟨crun_eng cfg h _, crun_sub cfg h _⟩

/-- In the composed system the engine's producers-finished flag means: the observer was staged in and ALL
its producers have finished. -/
theorem prodDone_iff_all_producers_finished (cfg : Cfg) (refs : List Pid) (h : List COp) :
    (cexec cfg refs h).eng.prodDone = true ↔
      (SubOp.stageIn ∈ subOps h ∧ ∀ p ∈ refs, SubOp.pfin p ∈ subOps h) := by
  rw [← notified_iff_all_producers_finished, (composed_is_history cfg refs h).1]
  show (run cfg (init cfg) _).prodDone = true ↔ _
  rw [run_prodDone]
  have hm : Op.env .fin ∈ project (Sub.init refs) h ↔ (subExec refs (subOps h)).count ≠ 0 :=
    fin_mem_project h (Sub.init refs)
  have hI := subInv_all refs (subOps h)
  simp only [SubInv] at hI
  obtain ⟨_, h2, h3⟩ := hI
  rw [show (init cfg).prodDone = false from rfl, Bool.false_or, decide_eq_true_iff, hm]
  cases hs : (subExec refs (subOps h)).stagedIn with
  | false => obtain ⟨_, hn, hc⟩ := h2 hs; simp [hn, hc]
  | true =>
    obtain ⟨_, _, hc⟩ := h3 hs
    cases hn : (subExec refs (subOps h)).notified <;> simp [hn, hc, b2n]

/-- Clause 2a for the composed system: as long as some producer has not finished (or the observer was not
staged in), nobody but an external `kill()` sets the cancel event. -/
theorem no_early_stop_all_producers (cfg : Cfg) (refs : List Pid) (h : List COp) :
    (cexec cfg refs h).eng.cancel = true →
    ¬ (SubOp.stageIn ∈ subOps h ∧ ∀ p ∈ refs, SubOp.pfin p ∈ subOps h) →
    (cexec cfg refs h).eng.cause = some .external := by
  intro hc hn
  have hp : (cexec cfg refs h).eng.prodDone = false := by
    cases hpd : (cexec cfg refs h).eng.prodDone with
    | false => rfl
    | true => exact absurd ((prodDone_iff_all_producers_finished cfg refs h).mp hpd) hn
  rw [(composed_is_history cfg refs h).1] at hc hp ⊢
  exact no_early_stop cfg _ hc hp

/-- a stop decided by the engine's own bookkeeping happens only after ALL producers finished -/
theorem self_stop_after_all_producers_finished (cfg : Cfg) (refs : List Pid) (h : List COp) :
    selfCause (cexec cfg refs h).eng →
    (SubOp.stageIn ∈ subOps h ∧ ∀ p ∈ refs, SubOp.pfin p ∈ subOps h) := by
  intro hs
  apply (prodDone_iff_all_producers_finished cfg refs h).mp
  rw [(composed_is_history cfg refs h).1] at hs ⊢
  exact self_stop_after_finished cfg _ hs

/-- Clause 3 for the composed system: `pollsFin` (polls begun with the flag set, i.e. by
`prodDone_iff_all_producers_finished` with all producers finished) is bounded by `repeatRetries + 1`. -/
theorem bounded_after_all_producers_finished (cfg : Cfg) (hf : Fixed cfg) (refs : List Pid) (h : List COp) :
    (cexec cfg refs h).eng.pollsFin ≤ cfg.retries + 1 := by
  rw [(composed_is_history cfg refs h).1]
  exact (bounded_after_finished cfg hf _).1

/-! non-vacuity -/

/-- two references to producer 1, one to producer 0 (of an earlier stage, finished before stage-in), a
component 7 that is no producer: the notification comes with the finish of producer 1, not at stage-in and
not with the finish of 7 -/
example :
    (subExec [1, 0, 1] [.pfin 0, .stageIn]).notified = false ∧
    (subExec [1, 0, 1] [.pfin 0, .stageIn, .pfin 7, .pexit 1]).notified = false ∧
    (subExec [1, 0, 1] [.pfin 0, .stageIn, .pfin 7, .pexit 1, .pfin 1]).notified = true ∧
    (subExec [1, 0, 1] [.pfin 0, .stageIn, .pfin 7, .pexit 1, .pfin 1, .pfin 1, .stageIn]).count = 1 := by decide

/-- all producers finished before stage-in (or no producers): notified at stage-in -/
example : (subExec [0, 2] [.pfin 2, .pfin 0, .stageIn]).notified = true ∧
    (subExec [] [.stageIn]).notified = true ∧ (subExec [0] [.pfin 0]).notified = false := by decide

/-- a composed history: producer 0 finished earlier, stage-in, output, a launch, producer 1 finishes while the
task runs, next poll launches again and succeeds: stopped by `success` after all producers finished -/
def histComposed : List COp :=
  [.ev (.sub (.pfin 0)), .ev (.sub .stageIn), .ev (.x .out), .eng .ok, .eng .ok, .eng .ok, .eng .ok,
   .ev (.x .out), .ev (.sub (.pfin 1)), .eng .ok, .eng .ok,
   .eng .ok, .eng .ok, .eng .ok, .eng .ok, .eng .ok, .eng .ok, .eng .ok, .eng .ok]

example : let c := cexec cfgFixed [1, 0] histComposed
    c.eng.cause = some .success ∧ c.eng.prodDone = true ∧ c.eng.pc = .stopped ∧ c.eng.execLog.length = 2 ∧
    c.sub.notified = true ∧ c.sub.count = 1 := by decide

end St4sd.C13
