import St4sd.Lemmas.C13
import St4sd.Lemmas.C13Prod
import St4sd.Lemmas.C13Sub
import St4sd.Lemmas.C13Start
import St4sd.Lemmas.C13Kill
import St4sd.Lemmas.C13Dir
/-!
# C13 — A repeating observer sees its producers' final output and then stops

Property theorems about the model `St4sd.Repeat` (Model/Repeat.lean) of `RepeatingEngine`'s poll protocol.
Every theorem quantifies over ALL histories `h : List Op`: arbitrary interleavings of the engine's atomic
sub-steps with the environment operations (producers finished, new output, external kill, kill-delay timer,
long wait), arbitrary task outcomes (success / failure / the task generator raises).
`exec cfg h` is the state reached from `init cfg` by `h`.  `cfg.prods` is the observer's LIST of producer instances
(`job.producerInstances`: any number of entries, each of the observer's stage or of an earlier one, repeating or
not, several entries for one component); `Ev.out c` is output of component `c`.  Clause 1 is proved for every such
list: `no_exec_before_consume`, `launch_implies_output_of_every_same_stage_producer`,
`no_launch_while_a_same_stage_producer_has_no_output`.

The second part is about the model `St4sd.RepeatSub` (Model/RepeatSub.lean) of the subscription in
`ComponentState.stageIn` that decides WHEN `notify_all_producers_finished` is called, for all lists of producer
references (repetitions included) and all orders of stage-in / producer finishes, and about the composed system
(subscription + poll protocol) in which `fin` is no free operation of the environment any more.
-/
namespace St4sd.C13
open St4sd.Repeat

private theorem invA_all (cfg : Cfg) (h : List Op) : InvA cfg (exec cfg h) :=
  run_induction (InvA cfg) (fun s op hs => invA_step cfg s op hs) h _ (invA_init cfg)

private theorem invB_all (cfg : Cfg) (h : List Op) : InvB cfg (exec cfg h) :=
  run_induction (InvB cfg) (fun s op hs => invB_step cfg s op hs) h _ (invB_init cfg)

private theorem invBC_all (cfg : Cfg) (hf : Fixed cfg) (h : List Op) :
    InvB cfg (exec cfg h) ∧ InvC cfg (exec cfg h) :=
  run_induction (fun s => InvB cfg s ∧ InvC cfg s)
    (fun s op hs => ⟨invB_step cfg s op hs.1, invC_step cfg hf s op hs.1 hs.2⟩) h _
    ⟨invB_init cfg, invC_init cfg⟩

private theorem invBD_all (cfg : Cfg) (hr : 1 ≤ cfg.retries) (hp : cfg.preOutput = false) (h : List Op) :
    InvB cfg (exec cfg h) ∧ InvD cfg (exec cfg h) :=
  run_induction (fun s => InvB cfg s ∧ InvD cfg s)
    (fun s op hs => ⟨invB_step cfg s op hs.1, invD_step cfg hr s op hs.1 hs.2⟩) h _
    ⟨invB_init cfg, invD_init cfg hp⟩

private theorem invE_all (cfg : Cfg) (h : List Op) : InvE (exec cfg h) :=
  run_induction InvE (fun s op hs => invE_step cfg s op hs) h _ (invE_init cfg)

/-- which components count as having output after history `h`: output that predates `run()` or an `out` of
the component somewhere in `h` -/
private theorem outs_of_history (cfg : Cfg) (h : List Op) (c : Nat) (hc : c ∈ (exec cfg h).outs) :
    c ∈ cfg.pre ∨ Op.env (.out c) ∈ h := by
  rcases outs_sound cfg c h (init cfg) hc with h1 | h1
  · exact Or.inl (List.mem_filter.mp h1).1
  · exact Or.inr h1

/-- Clause 1: the engine never executes before there is producer output it can consume: every launch in
every history happened when EVERY producer of the observer's own stage had output (`Exec.avail` records
`canConsume` of the moment of the launch; a component without producers, or with producers of earlier stages
only, can always consume), and the `consume` flag is only ever set in that situation. -/
theorem no_exec_before_consume (cfg : Cfg) (h : List Op) :
    (∀ e ∈ (exec cfg h).execLog, e.avail = true) ∧
    ((exec cfg h).consume = true → ∀ p ∈ cfg.prods, p.same = true → p.id ∈ (exec cfg h).outs) :=
  ⟨(invA_all cfg h).2.1, fun hc => (canConsume_iff cfg _).mp ((invA_all cfg h).1 hc)⟩

/-- the former statement of clause 1 (one same-stage producer): if the observer has no producers or at least
one in its own stage, whoever consumes has no producers or there is producer output -/
theorem consume_implies_some_output (cfg : Cfg) (h : List Op)
    (hs : cfg.noProd = true ∨ ∃ p ∈ cfg.prods, p.same = true) :
    (exec cfg h).consume = true → cfg.noProd = true ∨ (exec cfg h).hasOutput = true := by
  intro hc
  rcases hs with hs | ⟨p, hp, hs⟩
  · exact Or.inl hs
  · exact Or.inr ((invA_all cfg h).2.2 p.id ((no_exec_before_consume cfg h).2 hc p hp hs)).1

/-- Clause 1, operationally, for every list of producers: whenever the next operation `op` after a history `h`
launches an execution (the execution log grows), every producer of the observer's own stage - in whatever
position of `job.producerInstances`, however many there are - has output that predates `run()` or appeared
somewhere in `h`, i.e. BEFORE the launch. -/
theorem launch_implies_output_of_every_same_stage_producer (cfg : Cfg) (h : List Op) (op : Op)
    (hl : (exec cfg (h ++ [op])).execLog ≠ (exec cfg h).execLog) :
    ∀ p ∈ cfg.prods, p.same = true → p.id ∈ cfg.pre ∨ Op.env (.out p.id) ∈ h := by
  rw [exec_snoc] at hl
  have hcc : canConsume cfg (exec cfg h).outs = true := by
    have := launch_step cfg _ op hl
    cases hc : (exec cfg h).consume with
    | true => exact (invA_all cfg h).1 hc
    | false => simpa [hc] using this
  intro p hp hs
  exact outs_of_history cfg h p.id ((canConsume_iff cfg _).mp hcc p hp hs)

/-- … and as a statement about whole histories: as long as SOME producer of the observer's own stage has
produced no output (none before `run()`, no `out` in the history), nothing was ever launched and the engine
does not claim it can consume - wherever that producer stands in the list and whatever the others have
produced. -/
theorem no_launch_while_a_same_stage_producer_has_no_output (cfg : Cfg) (h : List Op) (p : Prod)
    (hp : p ∈ cfg.prods) (hs : p.same = true) (hpre : p.id ∉ cfg.pre) (hout : Op.env (.out p.id) ∉ h) :
    (exec cfg h).execLog = [] ∧ (exec cfg h).consume = false := by
  have hc : (exec cfg h).consume = false := by
    cases hc : (exec cfg h).consume with
    | false => rfl
    | true =>
      rcases outs_of_history cfg h p.id ((no_exec_before_consume cfg h).2 hc p hp hs) with h1 | h1
      · exact absurd h1 hpre
      · exact absurd h1 hout
  refine ⟨?_, hc⟩
  cases hl : (exec cfg h).execLog with
  | nil => rfl
  | cons e es =>
    have := invE_all cfg h (by simp [hl])
    rw [hc] at this
    exact absurd this (by decide)

/-- producers of other (earlier) stages never block: `canConsume` looks at same-stage entries only -/
theorem other_stage_producers_do_not_count (cfg : Cfg) (outs : List Nat)
    (h : ∀ p ∈ cfg.prods, p.same = false) : canConsume cfg outs = true :=
  canConsume_no_same cfg outs h

/-- Clause 2a: while the producers have not finished, nobody but an external `kill()` sets the cancel
event: the engine never stops itself early (neither through its success/retries bookkeeping nor through the
kill delay). -/
theorem no_early_stop (cfg : Cfg) (h : List Op) :
    (exec cfg h).cancel = true → (exec cfg h).prodDone = false → (exec cfg h).cause = some .external := by
  have hB := invB_all cfg h
  simp only [InvB] at hB
  intro hc hp
  obtain ⟨_, _, _, _, h5, h6, _⟩ := hB
  have : (exec cfg h).cause ≠ none := h6.mp hc
  cases hcs : (exec cfg h).cause with
  | none => exact absurd hcs this
  | some c => cases c <;> simp_all

/-- a stop decided by the engine's own bookkeeping happens only after the producers finished -/
theorem self_stop_after_finished (cfg : Cfg) (h : List Op) :
    selfCause (exec cfg h) → (exec cfg h).prodDone = true := by
  have hB := invB_all cfg h
  simp only [InvB] at hB
  intro hs
  rcases hs with hs | hs
  · exact hB.2.2.2.2.1 (Or.inl hs)
  · exact hB.2.2.2.2.1 (Or.inr (Or.inl hs))

/-- Clause 2b (partial): in every history in which the engine stops *itself* (cause `success` or `retries`,
i.e. not an external kill and not the kill delay), was able to consume and there is producer output, some
execution was launched at or after the instant the last producer output appeared.
PARTIAL: needs `1 ≤ repeatRetries` and that no producer output predates `run()`.  Without them the code
that exists violates the statement (`Witness.C13.zero_retries_race_misses_final_output`,
`Witness.C13.output_before_run_never_looked_at`).  Holds with and without the two repairs. -/
theorem stop_implies_final_output_seen_partial (cfg : Cfg) (hr : 1 ≤ cfg.retries)
    (hp : cfg.preOutput = false) (h : List Op) :
    selfCause (exec cfg h) → (exec cfg h).consume = true → (exec cfg h).hasOutput = true →
    ∃ e ∈ (exec cfg h).execLog, (exec cfg h).lastOutput ≤ e.launch := by
  have hD := (invBD_all cfg hr hp h).2
  simp only [InvD] at hD
  intro hs hc ho
  obtain ⟨_, _, _, _, _, _, _, d2b, _, _, _, _, _, _, d8⟩ := hD
  obtain ⟨hne, hle⟩ := d8 hs hc ho
  cases hl : (exec cfg h).execLog with
  | nil => exact absurd hl hne
  | cons e es =>
    refine ⟨e, by simp, ?_⟩
    have := d2b e (by simp [hl])
    omega

private theorem invF_all (cfg : Cfg) (h : List Op) : InvF cfg (exec cfg h) :=
  run_induction (InvF cfg) (fun s op hs => invF_step cfg s op hs) h _ (invF_init cfg)

/-- Clause 2b/3, the stop "after the first such execution that succeeds": in EVERY history (every configuration,
with and without the repairs) in which the engine stops itself by `success`, the newest entry of the execution log
is an execution that was really STARTED (the task generator returned a Task object - a launch that raises is an
attempt, not an execution), in a poll that sampled the producers as finished, launched at or after the instant of
the producers' last output.  What the bookkeeping judges is the attempt of the poll it belongs to: a task left
over from an earlier poll never makes a failed launch count as a success. -/
theorem success_stop_has_started_execution_after_final_output (cfg : Cfg) (h : List Op)
    (hs : (exec cfg h).cause = some .success) :
    ∃ e, (exec cfg h).execLog.head? = some e ∧ e.started = true ∧ e.pdws = true ∧
      (exec cfg h).lastOutput ≤ e.launch ∧ (exec cfg h).prodDone = true := by
  have hF := invF_all cfg h
  simp only [InvF] at hF
  obtain ⟨_, _, _, _, _, _, f7, _⟩ := hF
  obtain ⟨_, _, hp, h1, h2, h3⟩ := f7 hs
  cases hl : (exec cfg h).execLog with
  | nil => simp [headStarted, hl] at h1
  | cons e es =>
    refine ⟨e, by simp, ?_, ?_, ?_, hp⟩
    · simpa [headStarted, hl] using h1
    · simpa [headPdws, hl] using h2
    · simpa [headLaunch, hl] using h3

/-- … "otherwise when its configured retries are used up": a stop by `retries` happens only with no retry left. -/
theorem retries_stop_only_when_used_up (cfg : Cfg) (h : List Op)
    (hs : (exec cfg h).cause = some .retries) : (exec cfg h).retries = 0 :=
  (invF_all cfg h).2.2.2.2.2.2.2 hs

/-- Both together: whenever the engine has stopped itself with retries left, it has started an execution after the
producers' last output appeared (and that execution is the newest one). -/
theorem self_stop_with_retries_left_has_started_execution (cfg : Cfg) (h : List Op)
    (hs : selfCause (exec cfg h)) (hr : 0 < (exec cfg h).retries) :
    ∃ e ∈ (exec cfg h).execLog, e.started = true ∧ (exec cfg h).lastOutput ≤ e.launch := by
  rcases hs with hs | hs
  · obtain ⟨e, he, h1, _, h3, _⟩ := success_stop_has_started_execution_after_final_output cfg h hs
    exact ⟨e, List.mem_of_mem_head? he, h1, h3⟩
  · have := retries_stop_only_when_used_up cfg h hs
    omega

/-- Clause 3 (for the repaired code): after the producers finished the engine's action is started as a
normal poll at most `repeatRetries + 1` times (`pollsFin` counts the polls that begin with the
producers-finished flag set); every such poll reaches the stop/retry bookkeeping (`books`), and as long as
the cancel event is not set each of them has used up one retry. -/
theorem bounded_after_finished (cfg : Cfg) (hf : Fixed cfg) (h : List Op) :
    (exec cfg h).pollsFin ≤ cfg.retries + 1 ∧ (exec cfg h).books ≤ cfg.retries + 1 ∧
    ((exec cfg h).cancel = false → (exec cfg h).books + (exec cfg h).retries ≤ cfg.retries) := by
  obtain ⟨_, hC⟩ := invBC_all cfg hf h
  simp only [InvC] at hC
  obtain ⟨_, c2, c3, c4⟩ := hC
  refine ⟨?_, by omega, fun hc => c3 (Or.inl hc)⟩
  split at c4
  · rename_i hm
    have := c3 (Or.inr (Or.inl hm.1))
    omega
  · omega

/-- … the first execution that started with the producers finished and succeeds sets the cancel event … -/
theorem success_after_finished_stops (cfg : Cfg) (s : St) (n f d : Bool) (o : Outcome)
    (hpc : s.pc = .ready n f true d true false) (hd : d = true) :
    (step cfg s (.eng o)).cancel = true := by
  subst hd
  simp only [step, engStep, hpc, post, doKill]
  repeat' split
  all_goals simp_all

/-- … and once the cancel event is set and the poll in progress is over, the monitor makes one last call of
the action (`lastAction`, no execution) and exits: two engine steps later the engine is stopped and dead. -/
theorem cancelled_then_stopped (cfg : Cfg) (s : St) (o o' : Outcome) (hpc : s.pc = .idle)
    (hc : s.cancel = true) :
    let s' := step cfg (step cfg s (.eng o)) (.eng o')
    s'.pc = .stopped ∧ alive s' = false ∧ s'.execLog = s.execLog := by
  simp [step, engStep, hpc, hc, alive]

/-- nothing happens to the execution log after the monitor exited -/
theorem stopped_no_more_launches (cfg : Cfg) (s : St) (o : Outcome) (hpc : s.pc = .stopped) :
    (step cfg s (.eng o)).execLog = s.execLog ∧ (step cfg s (.eng o)).pc = .stopped := by
  simp [step, engStep, hpc]

/-! ## Non-vacuity: concrete scripted histories satisfying the hypotheses -/

def cfgFixed : Cfg :=
  { retries := 3, dieAfter := false, prods := [⟨0, true, true⟩], pre := [],
    guardNone := true, killOnSuicidePoll := true, killAfterLaunch := true }

private def it0 : Iter := { gap := [], s0 := [], s1 := [], s2 := [], s3 := [], s4 := [], out := .ok }

/-- output, a launch, more output and the notification between the output check and the producers-done
sample of the second poll, then a successful launch that sees the final output: stopped by `success` -/
def histSuccess : List Op :=
  (runScript cfgFixed (init cfgFixed)
    [{ it0 with s0 := [.out 0] }, { it0 with s1 := [.out 0, .fin] }, it0, it0]).2

example : Fixed cfgFixed ∧ 1 ≤ cfgFixed.retries ∧ cfgFixed.preOutput = false :=
  ⟨⟨rfl, rfl⟩, by decide, rfl⟩

example : let s := exec cfgFixed histSuccess
    s.cause = some .success ∧ s.consume = true ∧ s.hasOutput = true ∧ s.prodDone = true ∧
    s.pc = .stopped ∧ s.execLog.length = 2 ∧ s.retries = 2 ∧ s.pollsFin = 1 := by decide

def cfgNonRep : Cfg := { cfgFixed with prods := [⟨0, true, false⟩] }

/-- the task generator raises on every launch after the producers finished (non-repeating producer, so
every poll launches): with the repair every failed launch uses up a retry and the engine stops by `retries`
after 4 polls -/
def histRaises : List Op :=
  (runScript cfgNonRep (init cfgNonRep)
    ([{ it0 with s0 := [.out 0] }, { it0 with gap := [.fin], out := .raised }] ++
      List.replicate 7 { it0 with out := .raised })).2

example : let s := exec cfgNonRep histRaises
    s.cause = some .retries ∧ s.pc = .stopped ∧ s.pollsFin = 4 ∧ s.books = 4 ∧ s.retries = 0 ∧
    s.execLog.length = 5 := by decide

/-- an execution succeeds while the producer still runs; more output and the notification; the first launch after
it RAISES, the next one succeeds: the failed launch used up a retry, the engine stopped by `success` only after the
started execution (newest log entry started, the one before it not) -/
def histLaunchFailsAfterEarlierSuccess : List Op :=
  (runScript cfgFixed (init cfgFixed)
    [{ it0 with s0 := [.out 0] }, { it0 with gap := [.out 0, .fin], out := .raised }, { it0 with gap := [.adv] }, it0]).2

example : let s := exec cfgFixed histLaunchFailsAfterEarlierSuccess
    s.cause = some .success ∧ s.retries = 2 ∧ s.pc = .stopped ∧
    s.execLog.map (·.started) = [true, false, true] ∧ s.execLog.map (·.pdws) = [true, true, false] := by decide

/-- three producer entries: component 5 (same stage, listed FIRST, slow), component 2 of an earlier stage,
component 7 (same stage, listed LAST, fast).  Output of 7 alone (several polls) launches nothing; once 5 has
output too the next poll launches. -/
def cfgStaggered : Cfg :=
  { cfgFixed with prods := [⟨5, true, true⟩, ⟨2, false, false⟩, ⟨7, true, true⟩] }

def histStaggered : List Op :=
  (runScript cfgStaggered (init cfgStaggered)
    [{ it0 with s0 := [.out 7] }, { it0 with gap := [.out 7] }, it0]).2

example : (⟨5, true, true⟩ : Prod) ∈ cfgStaggered.prods ∧ (5 : Nat) ∉ cfgStaggered.pre ∧
    Op.env (.out 5) ∉ histStaggered ∧ Op.env (.out 7) ∈ histStaggered ∧
    (exec cfgStaggered histStaggered).hasOutput = true ∧ (exec cfgStaggered histStaggered).books = 0 := by
  decide

example : let h := histStaggered ++ [.env (.out 5), .eng .ok, .eng .ok, .eng .ok]
    (exec cfgStaggered (h ++ [.eng .ok])).execLog ≠ (exec cfgStaggered h).execLog ∧
    (exec cfgStaggered (h ++ [.eng .ok])).consume = true := by decide

/-- producers of an earlier stage only: can consume from the start -/
example : (exec { cfgFixed with prods := [⟨0, false, false⟩] } [.eng .ok, .eng .ok, .eng .ok, .eng .ok]).execLog.length = 1 := by
  decide

/-! ## The subscription that delivers the producers-finished notification -/

open St4sd.RepeatSub

/-- The notification is delivered exactly when ALL producers are finished and not before: for every list of
producer references `refs` (a producer may be referenced several times) and every sequence `h` of stage-in /
component finishes / engine exits (any order, components that are no producers included, producers already
finished before stage-in included), `notify_all_producers_finished` has been called iff the observer was
staged in and every referenced producer has finished. -/
theorem notified_iff_all_producers_finished (refs : List Pid) (h : List SubOp) :
    (subExec refs h).notified = true ↔ (SubOp.stageIn ∈ h ∧ ∀ p ∈ refs, SubOp.pfin p ∈ h) := by
  have hI := subInv_all refs h
  simp only [SubInv] at hI
  obtain ⟨_, h2, h3⟩ := hI
  have hst : (subExec refs h).stagedIn = true ↔ SubOp.stageIn ∈ h := by
    show (subRun (Sub.init refs) h).stagedIn = true ↔ _
    rw [stagedIn_iff]; simp [Sub.init]
  have hfin : ∀ p, p ∈ (subExec refs h).finished ↔ SubOp.pfin p ∈ h := fun p => by
    show p ∈ (subRun (Sub.init refs) h).finished ↔ _
    rw [finished_iff]; simp [Sub.init]
  cases hs : (subExec refs h).stagedIn with
  | false =>
    have hn := (h2 hs).2.1
    have : ¬ SubOp.stageIn ∈ h := fun hm => by
      have h' := hst.mpr hm
      rw [hs] at h'
      exact absurd h' (by decide)
    simp [hn, this]
  | true =>
    obtain ⟨hw, hn, _⟩ := h3 hs
    have hm : SubOp.stageIn ∈ h := hst.mp hs
    rw [hn, hw, List.filter_eq_nil_iff]
    constructor
    · intro hall
      refine ⟨hm, fun p hp => (hfin p).mp ?_⟩
      have := hall p hp
      simpa using this
    · intro ⟨_, hall⟩ p hp
      have := (hfin p).mpr (hall p hp)
      simpa using this

/-- an engine of a producer that exits - and may be restarted by the controller - while the component stays
alive (postmortem / running again) is no finish: it never makes the subscription fire and leaves its state
unchanged -/
theorem engine_exit_is_no_finish (s : Sub) (p : Pid) :
    fires s (.pexit p) = false ∧ subStep s (.pexit p) = s := by
  simp [fires, subStep, b2n]

/-- … for whole histories: any number of engine exits and restarts of any component, anywhere in the history
(producer exits -> is restarted -> exits for good and is finished), changes nothing about whether the
notification has been delivered: only the finishes of the components count. -/
theorem notification_ignores_engine_exits (refs : List Pid) (h : List SubOp) :
    (subExec refs h).notified =
      (subExec refs (h.filter (fun o => match o with | .pexit _ => false | _ => true))).notified := by
  rw [Bool.eq_iff_iff, notified_iff_all_producers_finished, notified_iff_all_producers_finished]
  simp [List.mem_filter]

/-- it is called at most once -/
theorem notified_at_most_once (refs : List Pid) (h : List SubOp) : (subExec refs h).count ≤ 1 := by
  have hI := subInv_all refs h
  simp only [SubInv] at hI
  obtain ⟨_, h2, h3⟩ := hI
  cases hs : (subExec refs h).stagedIn with
  | false => have := (h2 hs).2.2; omega
  | true =>
    have := (h3 hs).2.2
    cases hn : (subExec refs h).notified <;> simp [hn, b2n] at this <;> omega

/-- The composed system is the poll protocol run on the projected history: every theorem about all histories
of `St4sd.Repeat` holds for the engine of the composed system. -/
theorem composed_is_history (cfg : Cfg) (refs : List Pid) (h : List COp) :
    (cexec cfg refs h).eng = exec cfg (project (Sub.init refs) h) ∧
    (cexec cfg refs h).sub = subExec refs (subOps h) :=
  ⟨crun_eng cfg h _, crun_sub cfg h _⟩

/-- In the composed system the engine's producers-finished flag means: the observer was staged in and ALL
its producers have finished. -/
theorem prodDone_iff_all_producers_finished (cfg : Cfg) (refs : List Pid) (h : List COp) :
    (cexec cfg refs h).eng.prodDone = true ↔
      (SubOp.stageIn ∈ subOps h ∧ ∀ p ∈ refs, SubOp.pfin p ∈ subOps h) := by
  rw [← notified_iff_all_producers_finished, (composed_is_history cfg refs h).1]
  show (run cfg (init cfg) _).prodDone = true ↔ _
  rw [run_prodDone]
  have hm : Op.env .fin ∈ project (Sub.init refs) h ↔ (subExec refs (subOps h)).count ≠ 0 :=
    fin_mem_project h (Sub.init refs)
  have hI := subInv_all refs (subOps h)
  simp only [SubInv] at hI
  obtain ⟨_, h2, h3⟩ := hI
  rw [show (init cfg).prodDone = false from rfl, Bool.false_or, decide_eq_true_iff, hm]
  cases hs : (subExec refs (subOps h)).stagedIn with
  | false => obtain ⟨_, hn, hc⟩ := h2 hs; simp [hn, hc]
  | true =>
    obtain ⟨_, _, hc⟩ := h3 hs
    cases hn : (subExec refs (subOps h)).notified <;> simp [hn, hc, b2n]

/-- Clause 2a for the composed system: as long as some producer has not finished (or the observer was not
staged in), nobody but an external `kill()` sets the cancel event. -/
theorem no_early_stop_all_producers (cfg : Cfg) (refs : List Pid) (h : List COp) :
    (cexec cfg refs h).eng.cancel = true →
    ¬ (SubOp.stageIn ∈ subOps h ∧ ∀ p ∈ refs, SubOp.pfin p ∈ subOps h) →
    (cexec cfg refs h).eng.cause = some .external := by
  intro hc hn
  have hp : (cexec cfg refs h).eng.prodDone = false := by
    cases hpd : (cexec cfg refs h).eng.prodDone with
    | false => rfl
    | true => exact absurd ((prodDone_iff_all_producers_finished cfg refs h).mp hpd) hn
  rw [(composed_is_history cfg refs h).1] at hc hp ⊢
  exact no_early_stop cfg _ hc hp

/-- a stop decided by the engine's own bookkeeping happens only after ALL producers finished -/
theorem self_stop_after_all_producers_finished (cfg : Cfg) (refs : List Pid) (h : List COp) :
    selfCause (cexec cfg refs h).eng →
    (SubOp.stageIn ∈ subOps h ∧ ∀ p ∈ refs, SubOp.pfin p ∈ subOps h) := by
  intro hs
  apply (prodDone_iff_all_producers_finished cfg refs h).mp
  rw [(composed_is_history cfg refs h).1] at hs ⊢
  exact self_stop_after_finished cfg _ hs

/-- Clause 3 for the composed system: `pollsFin` (polls begun with the flag set, i.e. by
`prodDone_iff_all_producers_finished` with all producers finished) is bounded by `repeatRetries + 1`. -/
theorem bounded_after_all_producers_finished (cfg : Cfg) (hf : Fixed cfg) (refs : List Pid) (h : List COp) :
    (cexec cfg refs h).eng.pollsFin ≤ cfg.retries + 1 := by
  rw [(composed_is_history cfg refs h).1]
  exact (bounded_after_finished cfg hf _).1

/-! non-vacuity -/

/-- two references to producer 1, one to producer 0 (of an earlier stage, finished before stage-in), a
component 7 that is no producer: the notification comes with the finish of producer 1, not at stage-in and
not with the finish of 7 -/
example :
    (subExec [1, 0, 1] [.pfin 0, .stageIn]).notified = false ∧
    (subExec [1, 0, 1] [.pfin 0, .stageIn, .pfin 7, .pexit 1]).notified = false ∧
    (subExec [1, 0, 1] [.pfin 0, .stageIn, .pfin 7, .pexit 1, .pfin 1]).notified = true ∧
    (subExec [1, 0, 1] [.pfin 0, .stageIn, .pfin 7, .pexit 1, .pfin 1, .pfin 1, .stageIn]).count = 1 := by decide

/-- all producers finished before stage-in (or no producers): notified at stage-in -/
example : (subExec [0, 2] [.pfin 2, .pfin 0, .stageIn]).notified = true ∧
    (subExec [] [.stageIn]).notified = true ∧ (subExec [0] [.pfin 0]).notified = false := by decide

/-- a composed history: producer 0 finished earlier, stage-in, output, a launch, producer 1 finishes while the
task runs, next poll launches again and succeeds: stopped by `success` after all producers finished -/
def cfgTwoStages : Cfg := { cfgFixed with prods := [⟨1, true, true⟩, ⟨0, false, false⟩] }

def histComposed : List COp :=
  [.ev (.sub (.pfin 0)), .ev (.sub .stageIn), .ev (.x (.out 1)), .eng .ok, .eng .ok, .eng .ok, .eng .ok,
   .ev (.x (.out 1)), .ev (.sub (.pfin 1)), .eng .ok, .eng .ok,
   .eng .ok, .eng .ok, .eng .ok, .eng .ok, .eng .ok, .eng .ok, .eng .ok, .eng .ok]

example : let c := cexec cfgTwoStages [1, 0] histComposed
    c.eng.cause = some .success ∧ c.eng.prodDone = true ∧ c.eng.pc = .stopped ∧ c.eng.execLog.length = 2 ∧
    c.sub.notified = true ∧ c.sub.count = 1 := by decide

/-! ## The kill-after-producers-done delay: armed whenever the notification arrives, stops the engine when it expires -/

private theorem invK_all (cfg : Cfg) (h : List Op) : InvK cfg (exec cfg h) :=
  run_induction (InvK cfg) (fun s op hs => invK_step cfg s op hs) h _ (invK_init cfg)

/-- `notify_all_producers_finished` arms the kill-delay timer whenever a delay is configured and the engine is alive -
after ANY history, whether or not `run()` has been called in it (`started`). -/
theorem kill_delay_timer_armed_whether_or_not_started (cfg : Cfg) (hd : cfg.dieAfter = true) (h : List Op)
    (hal : alive (exec cfg h) = true) : (exec cfg (h ++ [.env .fin])).armed = true := by
  rw [exec_snoc]
  simp [step, envStep, hd, hal]

/-- … in particular when the notification PRECEDES `run()` (what `ComponentState.stageIn` does when no producer is
alive at stage-in): after any operations of the environment and the notification the engine has not been started
and the timer is pending. -/
theorem notification_before_run_arms_timer (cfg : Cfg) (hd : cfg.dieAfter = true) (es : List Ev)
    (hk : Ev.kill ∉ es) (hdie : Ev.die ∉ es) :
    (exec cfg (envs es ++ [.env .fin])).started = false ∧ (exec cfg (envs es ++ [.env .fin])).armed = true := by
  constructor
  · rw [exec_snoc, env_started]
    exact run_envs_started cfg es (init cfg)
  · apply kill_delay_timer_armed_whether_or_not_started cfg hd
    have hI := invB_all cfg (envs es)
    have hc : (exec cfg (envs es)).cancel = false := by
      have : ∀ (es : List Ev) (s : St), Ev.kill ∉ es → Ev.die ∉ es → s.cancel = false →
          (run cfg s (envs es)).cancel = false := by
        intro es
        induction es with
        | nil => intro s _ _ h; exact h
        | cons e r ih =>
          intro s h1 h2 h3
          simp only [envs, List.map_cons, run] at ih ⊢
          apply ih _ (fun hm => h1 (by simp [hm])) (fun hm => h2 (by simp [hm]))
          cases e <;> simp_all [step, envStep]
          split <;> simp_all
      exact this es (init cfg) hk hdie rfl
    simp [alive, hc]

/-- In every history: once the producers are finished (and a delay is configured) the timer is pending, has expired,
or the engine had already been cancelled - the delay is never silently dropped. -/
theorem kill_delay_pending_or_expired_after_notification (cfg : Cfg) (hd : cfg.dieAfter = true) (h : List Op)
    (hp : (exec cfg h).prodDone = true) :
    (exec cfg h).armed = true ∨ (exec cfg h).suicide = true ∨ (exec cfg h).cancel = true :=
  (invK_all cfg h).1 hd hp

/-- "… or the configured kill delay expires" (partial): for every history `h` after which the timer is pending, if it
expires now (`die`) then after ANY continuation `h2` in which the engine thread takes two more sub-steps the cancel event
is set - whatever the tasks do: a running task that never ends by itself (`Outcome.hang`) is killed, and no launch
follows the expiry.
PARTIAL (this is the statement that also holds for the code BEFORE the third repair, `killAfterLaunch = false`): the
expiry must not fall between the `_suicide` check at the start of a poll and its launch (`Pc.window`): there the code
before the repair launches a task nobody will kill (`Witness.C13.kill_delay_expiring_before_launch_…`); when the tasks
end by themselves the window does not matter (`kill_delay_expiry_stops_when_tasks_end`).  The full statement for the
repaired code is `kill_delay_expiry_stops`. -/
theorem kill_delay_expiry_stops_partial (cfg : Cfg) (hf : Fixed cfg) (h h2 : List Op)
    (ha : (exec cfg h).armed = true) (hw : (exec cfg h).pc.window = false) (hn : 2 ≤ engCount h2) :
    (exec cfg (h ++ Op.env .die :: h2)).cancel = true := by
  have hB := invB_all cfg (h ++ Op.env .die :: h2)
  obtain ⟨he, hpc⟩ := die_expired cfg (exec cfg h) ha (invK_all cfg h).2
  have hw' : (step cfg (exec cfg h) (.env .die)).pc.window = false := by rw [hpc]; exact hw
  have hr := expired_run cfg hf h2 _ he hw'
  have h2' := rank_le_two _ hw'
  have hx : exec cfg (h ++ Op.env .die :: h2) = run cfg (step cfg (exec cfg h) (.env .die)) h2 := by
    simp only [exec, run_append, run]
  rw [hx] at hB ⊢
  have hz : rank (run cfg (step cfg (exec cfg h) (.env .die)) h2) = 0 := by omega
  rcases rank_zero _ hz with h0 | h0
  · exact h0
  · exact hB.2.2.2.2.2.2 (Or.inr h0)

/-- "… or the configured kill delay expires", full strength, for the code with the three repairs: for EVERY history `h`
after which the timer is pending - wherever the engine thread stands, the window between the `_suicide` check of a poll
and its launch included - if the delay expires now, then after ANY continuation in which the engine thread takes four
more sub-steps the cancel event is set, whatever the tasks do: a task that never ends by itself is killed, also one
that is launched right after the expiry. -/
theorem kill_delay_expiry_stops (cfg : Cfg) (hf : Fixed3 cfg) (h h2 : List Op)
    (ha : (exec cfg h).armed = true) (hn : 4 ≤ engCount h2) :
    (exec cfg (h ++ Op.env .die :: h2)).cancel = true := by
  have hB := invB_all cfg (h ++ Op.env .die :: h2)
  obtain ⟨he, _⟩ := die_expired cfg (exec cfg h) ha (invK_all cfg h).2
  have hr := expired_run3 cfg hf h2 _ he
  have h4 := rank_le_four (step cfg (exec cfg h) (.env .die))
  have hx : exec cfg (h ++ Op.env .die :: h2) = run cfg (step cfg (exec cfg h) (.env .die)) h2 := by
    simp only [exec, run_append, run]
  rw [hx] at hB ⊢
  have hz : rank (run cfg (step cfg (exec cfg h) (.env .die)) h2) = 0 := by omega
  rcases rank_zero _ hz with h0 | h0
  · exact h0
  · exact hB.2.2.2.2.2.2 (Or.inr h0)

/-- … the notification precedes `run()`, the delay is configured: whatever happens in between (`h1`, no external kill
needed), once the delay expires the engine stops within four sub-steps of its thread. -/
theorem notified_before_run_then_delay_expires_then_stops (cfg : Cfg) (hf : Fixed3 cfg) (hd : cfg.dieAfter = true)
    (h1 h2 : List Op) (ha : (exec cfg (Op.env .fin :: h1)).armed = true) (hn : 4 ≤ engCount h2) :
    (exec cfg [Op.env .fin]).started = false ∧ (exec cfg [Op.env .fin]).armed = true ∧
    (exec cfg ((Op.env .fin :: h1) ++ Op.env .die :: h2)).cancel = true := by
  refine ⟨rfl, ?_, kill_delay_expiry_stops cfg hf _ h2 ha hn⟩
  have := kill_delay_timer_armed_whether_or_not_started cfg hd [] (by simp [exec, run, alive, init])
  simpa using this

/-- … and for tasks that end by themselves, wherever the expiry falls: four sub-steps of the engine thread later the
cancel event is set. -/
theorem kill_delay_expiry_stops_when_tasks_end (cfg : Cfg) (hf : Fixed cfg) (h h2 : List Op)
    (ha : (exec cfg h).armed = true) (hh : ∀ op ∈ h2, op ≠ .eng .hang) (hn : 4 ≤ engCount h2) :
    (exec cfg (h ++ Op.env .die :: h2)).cancel = true := by
  have hB := invB_all cfg (h ++ Op.env .die :: h2)
  obtain ⟨he, _⟩ := die_expired cfg (exec cfg h) ha (invK_all cfg h).2
  have hr := expired_run_ending cfg hf h2 _ he hh
  have h4 := rank_le_four (step cfg (exec cfg h) (.env .die))
  have hx : exec cfg (h ++ Op.env .die :: h2) = run cfg (step cfg (exec cfg h) (.env .die)) h2 := by
    simp only [exec, run_append, run]
  rw [hx] at hB ⊢
  have hz : rank (run cfg (step cfg (exec cfg h) (.env .die)) h2) = 0 := by omega
  rcases rank_zero _ hz with h0 | h0
  · exact h0
  · exact hB.2.2.2.2.2.2 (Or.inr h0)

/-- non-vacuity: the notification precedes `run()`, the observer's task never ends by itself; the delay expires while
it runs: the task is killed, the engine stops (and is dead after the monitor's last call) -/
def cfgKill : Cfg := { cfgFixed with dieAfter := true, prods := [⟨0, true, false⟩], pre := [0] }

example : (exec cfgKill [.env .fin]).started = false ∧ (exec cfgKill [.env .fin]).armed = true ∧
    (exec cfgKill [.env .fin]).pc.window = false := by decide

example : let h := [Op.env .fin, .eng .hang, .eng .hang, .eng .hang, .eng .hang, .eng .hang, .eng .hang]
    blocked (exec cfgKill h) = true ∧ (exec cfgKill h).armed = true ∧ (exec cfgKill h).execLog.length = 1 ∧
    (exec cfgKill (h ++ Op.env .die :: [.eng .hang, .eng .hang])).cancel = true ∧
    alive (exec cfgKill (h ++ Op.env .die :: [.eng .hang, .eng .hang, .eng .hang, .eng .hang])) = false := by decide

example : Fixed3 cfgKill := ⟨⟨rfl, rfl⟩, rfl⟩

/-- the expiry falls into the window, the task launched afterwards never ends by itself: killed at once, stopped -/
example : let h := [Op.env .fin, .eng .hang, .eng .hang]
    (exec cfgKill h).armed = true ∧ (exec cfgKill h).pc.window = true ∧
    (exec cfgKill (h ++ Op.env .die :: [.eng .hang, .eng .hang, .eng .hang, .eng .hang])).cancel = true ∧
    (exec cfgKill (h ++ Op.env .die :: [.eng .hang, .eng .hang, .eng .hang, .eng .hang])).execLog.length = 1 := by decide

/-! ## Working directories of producers: staged-in inputs are not output -/

open St4sd.RepeatDir

/-- `Job.stageIn()` of a component without copy-out references - whatever it stages by direct references (`direct`),
by references to other components (`comp`), both or nothing, into whatever directory - leaves NO output: everything
that is in the directory afterwards is recorded as input. -/
theorem staged_inputs_are_not_output (direct comp : List File) (d : Dir) :
    (stageIn direct comp [] d).output = [] := by
  rw [stageIn_eq]; exact output_updateInputs _

/-- after stage-in a file is output iff the component's task wrote it and it is not one of the staged files -/
theorem output_iff_written_and_not_staged (direct comp ws : List File) (d : Dir) (g : File) :
    g ∈ (drun (stageIn direct comp [] d) (writes ws)).output ↔
      g ∈ ws ∧ g ∉ (stageIn direct comp [] d).files := by
  rw [mem_output, drun_write_files, drun_write_inputs, stageIn_inputs]
  constructor
  · rintro ⟨h1 | h1, h2⟩
    · exact ⟨h1, h2⟩
    · exact absurd h1 h2
  · rintro ⟨h1, h2⟩
    exact ⟨Or.inl h1, h2⟩

/-- Clause 1 on directories: as long as every directory of some producer `p` of the observer's own stage holds staged
inputs only (no output), `Engine.canConsume` is false - whatever the other producers have written. -/
theorem canConsume_false_until_producer_writes (cfg : Cfg) (ds : List (Nat × Dir)) (p : Prod)
    (hp : p ∈ cfg.prods) (hs : p.same = true) (hd : ∀ x ∈ ds, x.1 = p.id → x.2.output = []) :
    canConsume cfg (outsOf ds) = false := by
  cases hc : canConsume cfg (outsOf ds) with
  | false => rfl
  | true =>
    have hm := (canConsume_iff cfg _).mp hc p hp hs
    simp only [outsOf, List.mem_map, List.mem_filter] at hm
    obtain ⟨x, ⟨hx, hne⟩, hid⟩ := hm
    rw [hd x hx hid] at hne
    exact absurd hne (by decide)

/-- … so a producer that was only staged in (direct references, component references, both, none) and whose task has
written nothing blocks its observer; the first file it writes that is not a staged one unblocks it -/
theorem only_staged_producer_blocks_observer (cfg : Cfg) (p : Prod) (hp : p ∈ cfg.prods) (hs : p.same = true)
    (direct comp : List File) (d : Dir) (others : List (Nat × Dir)) (ho : ∀ x ∈ others, x.1 ≠ p.id) :
    canConsume cfg (outsOf ((p.id, stageIn direct comp [] d) :: others)) = false := by
  apply canConsume_false_until_producer_writes cfg _ p hp hs
  intro x hx hid
  rcases List.mem_cons.mp hx with h1 | h1
  · rw [h1]; exact staged_inputs_are_not_output direct comp d
  · exact absurd hid (ho x h1)

example : (stageIn [1, 2] [3] [] Dir.fresh).files = [3, 2, 1] ∧ (stageIn [1, 2] [3] [] Dir.fresh).output = [] ∧
    (drun (stageIn [1, 2] [3] [] Dir.fresh) (writes [2, 10])).output = [10] ∧
    canConsume cfgFixed (outsOf [(0, stageIn [1, 2] [] [] Dir.fresh)]) = false ∧
    canConsume cfgFixed (outsOf [(0, drun (stageIn [1, 2] [] [] Dir.fresh) (writes [10]))]) = true := by decide

end St4sd.C13
